// vsched.h -- deterministic scheduler driven by asl's ASL_VERIF hook points (see /repo include/asl/atomic.h, Thread.h).
//
// Real pthreads, one token: only the token holder runs library code between two hook points. At every decision
// point the next thread is taken from a *choice sequence* (index into the enabled threads, current thread first,
// then by id), so a schedule is a vector of small integers; the executed decisions (alternatives, chosen) are
// recorded, which is what a stateless DFS needs to backtrack. Threads are discovered through the hooks:
//   10 SPAWN (creator, before pthread_create)   11 ENTRY (new thread)   12 PRE_FINISH   13 EXIT
//   14 JOIN (before pthread_join, obj = the joined pthread_t; parks the joiner until the target's EXIT)
//   15 FLAG_WAIT / 16 FLAG_RESUME / 17 FLAG_SET  (creator's spin on the context hand-over flag)
//   18 POST_SPAWN (creator, right after pthread_create)
//   1/2 before atomicInc/atomicDec, 3 after
// Anything that blocks inside the OS without a hook (mutex, semaphore, condition) must not be used under the scheduler.
#pragma once
#include <pthread.h>
#include <semaphore.h>
#include <sched.h>
#include <vector>
#include <set>
#include <map>
#include <string>
#include <cstdio>
#include <cstdlib>
#include <cstdint>
#include <algorithm>
#if defined(__has_feature)
#if __has_feature(address_sanitizer)
#include <sanitizer/asan_interface.h>
#define VSCHED_ASAN 1
#endif
#endif

namespace vsched {

// footprint of the transition a thread performs when it proceeds from the point it is parked at
struct Foot {
	int kind = 0;
	const volatile void* obj = 0;
};

// start of the heap block an address lies in (atomic counts of one shared object live in one block)
inline const void* block_of(const volatile void* p)
{
#ifdef VSCHED_ASAN
	char name[8];
	void* start = 0;
	size_t size = 0;
	const char* kind = __asan_locate_address((void*)p, name, sizeof name, &start, &size);
	if (kind && kind[0] == 'h' && start)
		return start;
#endif
	return (const void*)p;
}

// two transitions commute if both are atomic steps (or the code that follows one) on counts of different blocks;
// everything that starts at a thread-control point is treated as dependent with everything (conservative)
inline bool independent(const Foot& a, const Foot& b)
{
	if (a.kind < 1 || a.kind > 3 || b.kind < 1 || b.kind > 3)
		return false;
	return block_of(a.obj) != block_of(b.obj);
}

struct Node {
	std::vector<int> enabled;
	std::vector<Foot> feet;
	std::vector<int> sleep; // thread ids asleep when the node was created
	std::vector<int> done;  // thread ids whose subtree has been explored from this node
	int chosen_idx = 0;
};

enum { RUNNABLE, BLOCKED_FLAG, BLOCKED_JOIN, DONE };

struct Th {
	int id;
	const volatile void* obj; // the asl::Thread object (null for the main thread)
	int st;
	const volatile void* waitobj;
	sem_t sem;
	Foot parked; // the point this thread last announced (where it is waiting when it does not hold the token)
	pthread_t ptid = 0;
};

struct Decision {
	int alternatives, chosen;
	bool preemptive; // the current thread was runnable, so choosing another one is a preemption
};

struct Event {
	int thread, kind;
	const volatile void* obj;
};

struct State {
	pthread_mutex_t mu = PTHREAD_MUTEX_INITIALIZER;
	pthread_cond_t cv = PTHREAD_COND_INITIALIZER;
	bool active = false;
	std::vector<Th*> th;
	int current = -1;
	int pending_spawns = 0;
	std::set<const volatile void*> flags_set;
	std::vector<int> choices; // prefix to follow; beyond it choice 0
	size_t pos = 0;
	std::vector<Decision> decisions;
	std::vector<Event> trace;
	int preemptions = 0, max_preemptions = 1 << 30;
	bool deadlock = false;
	bool record_trace = true;
	// classes of points at which a decision is taken (bit mask over kinds); default: all
	uint32_t decide_mask = 0xffffffff;
	// sleep-set DFS (persists across the runs of one exploration)
	bool use_sleep = false;
	std::vector<Node> nodes;
	size_t depth = 0;
	bool pruned = false;
	std::vector<int> cur_sleep;
	long pruned_runs = 0;
	bool nondeterminism = false;
};

inline State& S()
{
	static State* s = new State;
	return *s;
}
inline int& my_id()
{
	static thread_local int id = -1;
	return id;
}

// -- internal (mu held) ------------------------------------------------------------------------

inline Th* find_by_obj(const volatile void* obj)
{
	State& s = S();
	for (int i = (int)s.th.size() - 1; i >= 0; i--)
		if (s.th[i]->obj == obj)
			return s.th[i];
	return 0;
}

inline void wait_pending()
{
	State& s = S();
	while (s.pending_spawns > 0)
		pthread_cond_wait(&s.cv, &s.mu);
}

// choose the next thread to run; `self_runnable`: the caller may continue
inline int pick_next(int self, bool self_runnable)
{
	State& s = S();
	std::vector<int> en;
	if (self_runnable)
		en.push_back(self);
	for (Th* t : s.th)
		if (t->st == RUNNABLE && t->id != self)
			en.push_back(t->id);
	if (en.empty())
		return -1;
	int alts = (int)en.size();
	if (s.use_sleep) {
		int c = 0;
		if (alts > 1 && !s.pruned) {
			if (s.depth < s.nodes.size()) {
				Node& n = s.nodes[s.depth];
				if (n.enabled != en)
					s.nondeterminism = true;
				c = n.chosen_idx < alts ? n.chosen_idx : 0;
				// sleeping at this node: those asleep on arrival plus the alternatives already explored
				s.cur_sleep = n.sleep;
				for (int d : n.done)
					s.cur_sleep.push_back(d);
			}
			else {
				Node n;
				n.enabled = en;
				for (int id : en)
					n.feet.push_back(s.th[id]->parked);
				n.sleep = s.cur_sleep;
				int idx = -1;
				for (int i = 0; i < alts; i++)
					if (std::find(n.sleep.begin(), n.sleep.end(), en[i]) == n.sleep.end()) {
						idx = i;
						break;
					}
				if (idx < 0) {
					s.pruned = true; // every enabled transition is asleep: this path is a permutation of one already explored
					c = 0;
				}
				else {
					n.chosen_idx = idx;
					c = idx;
					s.nodes.push_back(n);
				}
			}
			if (!s.pruned) {
				s.depth++;
				s.decisions.push_back(Decision{alts, c, self_runnable});
			}
		}
		// the chosen thread proceeds from its parked point: wake every sleeper that does not commute with that step
		Foot f = s.th[en[c]]->parked;
		std::vector<int> keep;
		for (int u : s.cur_sleep)
			if (u != en[c] && independent(s.th[u]->parked, f))
				keep.push_back(u);
		s.cur_sleep.swap(keep);
		return en[c];
	}
	if (self_runnable && s.preemptions >= s.max_preemptions)
		alts = 1;
	int c = 0;
	if (alts > 1) {
		if (s.pos < s.choices.size())
			c = s.choices[s.pos] % alts;
		s.pos++;
		s.decisions.push_back(Decision{alts, c, self_runnable});
		if (self_runnable && c != 0)
			s.preemptions++;
	}
	return en[c];
}

// hand the token to `next` and (if wait) block until it comes back
inline void hand_over(int self, int next, bool wait)
{
	State& s = S();
	s.current = next;
	Th* me = self >= 0 ? s.th[self] : 0;
	if (next >= 0 && next != self)
		sem_post(&s.th[next]->sem);
	pthread_mutex_unlock(&s.mu);
	if (wait && next != self)
		sem_wait(&me->sem);
	pthread_mutex_lock(&s.mu);
}

inline void decision_point(int self)
{
	State& s = S();
	wait_pending();
	int next = pick_next(self, true);
	if (next != self)
		hand_over(self, next, true);
}

// the caller cannot continue (blocked or done): somebody else must run
inline void block_and_switch(int self, bool wait)
{
	State& s = S();
	wait_pending();
	int next = pick_next(self, false);
	if (next < 0) {
		if (wait) {
			// everybody is blocked: deadlock under this schedule
			s.deadlock = true;
			fprintf(stderr, "vsched: deadlock (no runnable thread)\n");
			abort();
		}
		s.current = -1;
		return;
	}
	hand_over(self, next, wait);
}

// -- API ---------------------------------------------------------------------------------------

// called by the main thread of a scenario: it becomes thread 0 and holds the token
inline void begin(const std::vector<int>& choices, int max_preemptions = 1 << 30, uint32_t decide_mask = 0xffffffff)
{
	State& s = S();
	pthread_mutex_lock(&s.mu);
	for (Th* t : s.th) {
		sem_destroy(&t->sem);
		delete t;
	}
	s.th.clear();
	s.flags_set.clear();
	s.choices = choices;
	s.pos = 0;
	s.decisions.clear();
	s.trace.clear();
	s.preemptions = 0;
	s.max_preemptions = max_preemptions;
	s.pending_spawns = 0;
	s.deadlock = false;
	s.decide_mask = decide_mask;
	Th* t = new Th{0, 0, RUNNABLE, 0, {}, Foot{0, 0}};
	sem_init(&t->sem, 0, 0);
	s.th.push_back(t);
	s.current = 0;
	s.depth = 0;
	s.pruned = false;
	s.cur_sleep.clear();
	my_id() = 0;
	s.active = true;
	pthread_mutex_unlock(&s.mu);
}

inline void end()
{
	State& s = S();
	pthread_mutex_lock(&s.mu);
	s.active = false;
	my_id() = -1;
	pthread_mutex_unlock(&s.mu);
}

// next schedule in depth-first order: increments the deepest decision that has an untried alternative
// (`prev` = decisions recorded by the run that just finished); returns false when the space is exhausted
inline bool next_schedule(const std::vector<Decision>& prev, std::vector<int>& choices)
{
	int i = (int)prev.size() - 1;
	while (i >= 0 && prev[i].chosen + 1 >= prev[i].alternatives)
		i--;
	if (i < 0)
		return false;
	choices.resize(i + 1);
	for (int k = 0; k < i; k++)
		choices[k] = prev[k].chosen;
	choices[i] = prev[i].chosen + 1;
	return true;
}

// sleep-set DFS: call dfs_reset() once, then repeat { begin(); scenario; end(); } while dfs_advance()
inline void dfs_reset(bool use_sleep)
{
	State& s = S();
	s.use_sleep = use_sleep;
	s.nodes.clear();
	s.pruned_runs = 0;
	s.nondeterminism = false;
}
inline bool dfs_advance()
{
	State& s = S();
	if (s.pruned)
		s.pruned_runs++;
	while (!s.nodes.empty()) {
		Node& n = s.nodes.back();
		n.done.push_back(n.enabled[n.chosen_idx]);
		int next = -1;
		for (int i = 0; i < (int)n.enabled.size(); i++) {
			int id = n.enabled[i];
			if (std::find(n.sleep.begin(), n.sleep.end(), id) == n.sleep.end() && std::find(n.done.begin(), n.done.end(), id) == n.done.end()) {
				next = i;
				break;
			}
		}
		if (next >= 0) {
			n.chosen_idx = next;
			return true;
		}
		s.nodes.pop_back();
	}
	return false;
}

inline void pin_to_cpu(int cpu)
{
	cpu_set_t set;
	CPU_ZERO(&set);
	CPU_SET(cpu % 16, &set);
	sched_setaffinity(0, sizeof(set), &set);
}

inline void point(int kind, const volatile void* obj)
{
	State& s = S();
	if (!s.active)
		return;
	int& me = my_id();
	if (kind == 11) { // ENTRY: a new thread registers itself and waits to be scheduled
		if (me != -1)
			return;
		pthread_mutex_lock(&s.mu);
		if (!s.active) {
			pthread_mutex_unlock(&s.mu);
			return;
		}
		Th* t = new Th{(int)s.th.size(), obj, RUNNABLE, 0, {}, Foot{11, obj}};
		t->ptid = pthread_self();
		sem_init(&t->sem, 0, 0);
		s.th.push_back(t);
		me = t->id;
		s.pending_spawns--;
		pthread_cond_broadcast(&s.cv);
		pthread_mutex_unlock(&s.mu);
		sem_wait(&t->sem);
		pthread_mutex_lock(&s.mu);
		if (s.record_trace)
			s.trace.push_back(Event{me, kind, obj});
		pthread_mutex_unlock(&s.mu);
		return;
	}
	if (me < 0)
		return; // a thread the scheduler does not know
	pthread_mutex_lock(&s.mu);
	if (s.record_trace)
		s.trace.push_back(Event{me, kind, obj});
	s.th[me]->parked = Foot{kind, obj};
	if (s.use_sleep && !(kind < 32 && (s.decide_mask & (1u << kind))) && !s.cur_sleep.empty()) {
		// no decision is taken here and the thread simply goes on: that step wakes the sleepers it does not commute with
		std::vector<int> keep;
		for (int u : s.cur_sleep)
			if (u != me && independent(s.th[u]->parked, s.th[me]->parked))
				keep.push_back(u);
		s.cur_sleep.swap(keep);
	}
	switch (kind) {
	case 10: // SPAWN: one pending registration at a time, so thread ids follow spawn order (deterministic)
		wait_pending();
		s.pending_spawns++;
		break;
	case 13: { // EXIT: this thread takes no further part
		s.th[me]->st = DONE;
		for (Th* t : s.th)
			if (t->st == BLOCKED_JOIN && t->waitobj == (const volatile void*)s.th[me]->ptid)
				t->st = RUNNABLE;
		int self = me;
		me = -1;
		block_and_switch(self, false);
		break;
	}
	case 14: { // JOIN: first a decision (others may run, even to completion, before the join is evaluated)
		if (s.decide_mask & (1u << kind))
			decision_point(me);
		wait_pending();
		Th* target = 0; // the hook passes the joined thread's pthread_t
		for (int i = (int)s.th.size() - 1; i >= 0 && !target; i--)
			if ((const volatile void*)s.th[i]->ptid == obj && i != 0)
				target = s.th[i];
		if (target && target->st != DONE) {
			s.th[me]->st = BLOCKED_JOIN;
			s.th[me]->waitobj = obj;
			block_and_switch(me, true);
		}
		break;
	}
	case 15: // FLAG_WAIT
		if (s.decide_mask & (1u << kind))
			decision_point(me);
		if (!s.flags_set.count(obj)) {
			s.th[me]->st = BLOCKED_FLAG;
			s.th[me]->waitobj = obj;
			block_and_switch(me, true);
		}
		break;
	case 16: // FLAG_RESUME
		s.flags_set.erase(obj);
		if (s.decide_mask & (1u << kind))
			decision_point(me);
		break;
	case 17: // FLAG_SET
		s.flags_set.insert(obj);
		for (Th* t : s.th)
			if (t->st == BLOCKED_FLAG && t->waitobj == obj)
				t->st = RUNNABLE;
		if (s.decide_mask & (1u << kind))
			decision_point(me);
		break;
	default:
		if (kind < 32 && (s.decide_mask & (1u << kind)))
			decision_point(me);
		break;
	}
	pthread_mutex_unlock(&s.mu);
}

} // namespace vsched

// the observer asl's hooks call (strong definition overrides the weak declaration in atomic.h)
#ifndef VSCHED_NO_OBSERVER
extern "C" void asl_verif_point(int kind, const volatile void* obj) { vsched::point(kind, obj); }
#endif
