#!/usr/bin/env python3
"""addfx.py <props,comma> <commit> <witness> <what_failed...>  -- append a 'fixed' entry to known_findings.json"""
import json, sys
props, commit, witness = sys.argv[1].split(','), sys.argv[2], sys.argv[3]
what = ' '.join(sys.argv[4:])
k = json.load(open('/verif/known_findings.json'))
n = 1 + max([int(f['id'][3:]) for f in k['findings'] if f['id'].startswith('FX-')] + [0])
k['findings'].append({"id": "FX-%02d" % n, "status": "fixed", "properties": props, "commit": commit, "what_failed": what,
                      "witness": witness, "line": "fixed: property=%s %s %s" % (props[0], commit, what)})
json.dump(k, open('/verif/known_findings.json', 'w'), indent=1)
print("FX-%02d" % n)
