#!/usr/bin/env python3
"""subst.py <file> <old> <new>  -- exact, line-ending preserving single replacement (for small /repo patches).
old/new use \\n for line breaks; they are matched against the file with its own line ending."""
import sys
p, old, new = sys.argv[1], sys.argv[2], sys.argv[3]
b = open(p, 'rb').read()
crlf = b'\r\n' in b
def conv(s):
    s = s.encode('utf-8').replace(b'\\n', b'\n').replace(b'\\t', b'\t')
    return s.replace(b'\n', b'\r\n') if crlf else s
o, n = conv(old), conv(new)
if b.count(o) != 1:
    sys.exit('pattern occurs %d times in %s' % (b.count(o), p))
open(p, 'wb').write(b.replace(o, n))
