#!/usr/bin/env python3
"""seedmeta.py <dir-name> <site> -- <needs text>   : adds the human summary to seeded/<dir>/meta.json"""
import sys, json
d = sys.argv[1]
i = sys.argv.index('--')
site = ' '.join(sys.argv[2:i]); needs = ' '.join(sys.argv[i+1:])
p = '/verif/seeded/%s/meta.json' % d
m = json.load(open(p)); m['site'] = site; m['needs'] = needs
m['what_was_run'] = 'lib/seedcheck.py: patched scratch copy of /repo -> cmake+ctest (28/28), demo.cpp with/without the patch (ASan build), then VF_REPO=<patched copy> ./vf check %s --tier quick' % m['property']
json.dump(m, open(p, 'w'), indent=1)
