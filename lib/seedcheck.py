#!/usr/bin/env python3
"""seedcheck.py <PROP> <seed-dir> <A|B|...> [--no-check]
Confirms a seeded change produced by an independent sub-agent and stores it as /verif/seeded/<PROP>-<letter>/:
  1. scratch copy of /repo + the patch: compiles, the 28 unit tests pass;
  2. the demonstration fails with the patch and passes without it (3 runs each for thread/network demos);
  3. runs ./vf check <PROP> (quick) against the patched scratch copy and records killed / survived.
Scratch copies live under /tmp and are removed afterwards."""
import sys, os, subprocess, shutil, json, time, re

prop, seeddir, letter = sys.argv[1], sys.argv[2], sys.argv[3]
docheck = '--no-check' not in sys.argv
ROOT = '/verif'
scratch = '/tmp/sc_%s_%s_%d' % (prop, letter, os.getpid())
outletter = sys.argv[sys.argv.index('--as') + 1] if '--as' in sys.argv else letter
out = os.path.join(ROOT, 'seeded', '%s-%s' % (prop, outletter))
patch = os.path.join(seeddir, '%s.diff' % letter)
demo = os.path.join(seeddir, 'demo%s.cpp' % letter)


def sh(cmd, **kw):
    return subprocess.run(cmd, shell=True, capture_output=True, text=True, **kw)


def prep(with_patch):
    shutil.rmtree(scratch, ignore_errors=True)
    sh('rsync -a --exclude _build --exclude .git --exclude _seed /repo/ %s/' % scratch)
    if with_patch:
        r = sh('git apply --whitespace=nowarn --unsafe-paths --directory=%s %s' % (scratch, patch), cwd='/')
        if r.returncode != 0:
            r = sh('patch -p1 --binary -d %s -i %s' % (scratch, patch))
        if r.returncode != 0:
            print('PATCH DOES NOT APPLY', r.stdout[-500:], r.stderr[-500:])
            sys.exit(3)


def build_demo(tag):
    exe = '%s/_demo_%s' % (scratch, tag)
    san = 'thread' if '--tsan' in sys.argv else 'address'
    r = sh('clang++ -std=gnu++17 -g -O1 -fsanitize=' + san + ' -DASL_STATIC -I%s/include %s $(ls %s/src/*.cpp | grep -v TlsSocket) -lpthread -ldl -o %s' % (scratch, demo, scratch, exe))
    if r.returncode != 0:
        print('DEMO BUILD FAILED', r.stderr[-1500:])
        sys.exit(3)
    return exe


def run_demo(exe, n):
    rcs = []
    for i in range(n):
        try:
            r = subprocess.run([exe], capture_output=True, timeout=300, env=dict(os.environ, ASAN_OPTIONS='detect_leaks=1'))
            rcs.append(r.returncode)
        except subprocess.TimeoutExpired:
            rcs.append('timeout')
    return rcs


meta = dict(property=prop, letter=outletter, source='independent sub-agent given only the property text and a scratch worktree')
# without the patch
prep(False)
exe = build_demo('clean')
clean = run_demo(exe, 3)
# with the patch
prep(True)
r = sh('cmake -G Ninja -S %s -B %s/_build -DASL_TESTS=ON >/dev/null && cmake --build %s/_build 2>&1 | tail -3 && ctest --test-dir %s/_build -j8 --timeout 900 2>&1 | tail -5' % (scratch, scratch, scratch, scratch))
m = re.search(r'(\d+)% tests passed, (\d+) tests failed out of (\d+)', r.stdout)
meta['unit_tests'] = m.group(0) if m else 'BUILD OR TEST FAILURE: ' + r.stdout[-400:]
shutil.rmtree(scratch + '/_build', ignore_errors=True)
exe = build_demo('patched')
patched = run_demo(exe, 3)
meta['demo_unpatched_exit_codes'] = clean
meta['demo_patched_exit_codes'] = patched
ok_tests = bool(m) and m.group(2) == '0' and m.group(3) == '28'
ok_demo = all(c == 0 for c in clean) and any(c != 0 for c in patched)
meta['confirmed'] = ok_tests and ok_demo
print('unit tests:', meta['unit_tests'], '| demo clean:', clean, 'patched:', patched, '| confirmed:', meta['confirmed'])
if meta['confirmed'] and docheck:
    t0 = time.time()
    e = dict(os.environ, VF_REPO=scratch, VF_BUILD='/tmp/scb_%s' % prop)
    r = subprocess.run([ROOT + '/vf', 'check', prop, '--tier', 'quick'], capture_output=True, text=True, env=e)
    viol = [l for l in r.stdout.split('\n') if l.startswith('VIOLATION') or l.strip().startswith('what:')]
    meta['check_quick'] = dict(exit=r.returncode, result='killed' if r.returncode == 1 and viol else ('SURVIVED' if r.returncode == 0 else 'infra'),
                               wall_s=round(time.time() - t0), lines=[v[:300] for v in viol[:4]], cmd='VF_REPO=<patched copy> ./vf check %s --tier quick' % prop)
    print('check:', meta['check_quick']['result'], meta['check_quick']['lines'][:2])
if meta['confirmed']:
    os.makedirs(out, exist_ok=True)
    shutil.copy(patch, os.path.join(out, 'patch.diff'))
    shutil.copy(demo, os.path.join(out, 'demo.cpp'))
    notes = os.path.join(seeddir, 'notes.md')
    if os.path.exists(notes):
        shutil.copy(notes, os.path.join(out, 'notes-%s.md' % outletter))
    old = {}
    mp = os.path.join(out, 'meta.json')
    if os.path.exists(mp):
        old = json.load(open(mp))
    old.update(meta)
    json.dump(old, open(mp, 'w'), indent=1)
shutil.rmtree(scratch, ignore_errors=True)
