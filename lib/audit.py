#!/usr/bin/env python3
"""audit.py <pairs-file>: recompute the harness reference codecs' outputs with python's stdlib.
Exit 0 when all agree, 2 (infrastructure error) otherwise."""
import sys, base64, hashlib, binascii, urllib.parse
bad = n = 0
for line in open(sys.argv[1]):
    parts = line.split()
    kind, a = parts[0], parts[1]
    b = parts[2] if len(parts) > 2 else ''
    data = b'' if a == '-' else binascii.unhexlify(a)
    if kind == 'b64':
        ok = base64.b64encode(data).decode() == b
    elif kind == 'hex':
        ok = (binascii.hexlify(data).decode() or '-') == (b or '-')
    elif kind == 'sha1':
        ok = hashlib.sha1(data).hexdigest() == b
    elif kind == 'pct':
        ok = urllib.parse.unquote_to_bytes(data) == (b'' if b == '-' else binascii.unhexlify(b))
    else:
        ok = False
    n += 1
    if not ok:
        bad += 1
        if bad < 5:
            print('MISMATCH', line.strip()[:200])
print('audit: %d pairs, %d mismatches' % (n, bad))
sys.exit(2 if bad else 0)
