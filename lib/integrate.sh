#!/bin/bash
# integrate.sh <agent-id> <prop>... : take over an agent's files from /tmp/ag_<id>/verif and its fix commits from /tmp/ag_<id>/repo
set -e
AG=/tmp/ag_$1; shift
cd /verif
for P in "$@"; do
  for pat in "harness/${P}_*" "fuzz/${P}_*" "lib/props/${P}.py" "lib/audit_*.py"; do
    for f in $AG/verif/$pat; do [ -e "$f" ] && { mkdir -p $(dirname ${f#$AG/verif/}); cp -v "$f" "${f#$AG/verif/}"; }; done
  done
  for d in corpus replays mutants; do
    [ -d $AG/verif/$d/$P ] && { mkdir -p $d/$P; rsync -a $AG/verif/$d/$P/ $d/$P/; echo "synced $d/$P"; }
  done
done
# new reference headers (never overwrite silently)
for f in $AG/verif/harness/common/*.h; do
  b=harness/common/$(basename $f)
  if [ ! -e $b ]; then cp -v $f $b; elif ! cmp -s $f $b; then echo "NOTE: $b differs from agent's copy"; fi
done
# fix commits not yet in /repo (by subject)
cd $AG/repo
for c in $(git log --reverse --format=%H); do
  subj=$(git log -1 --format=%s $c)
  if ! git -C /repo log --format=%s | grep -qxF "$subj"; then echo "PENDING COMMIT $c $subj"; fi
done
