#!/bin/bash
# reseed.sh <PROP> <LETTER> [--tsan] : re-run the confirmation + quick check of a stored seeded change (seeded/<PROP>-<LETTER>)
P=$1; L=$2; shift 2
T=/tmp/rs_${P}_$L; rm -rf $T; mkdir -p $T
cp /verif/seeded/$P-$L/patch.diff $T/$L.diff; cp /verif/seeded/$P-$L/demo.cpp $T/demo$L.cpp
python3 /verif/lib/seedcheck.py $P $T $L "$@" 2>&1 | tail -3
rm -rf $T
