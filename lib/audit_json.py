#!/usr/bin/env python3
"""audit_json.py -- audit of harness/common/ref_json.h (the independent RFC 8259 parser behind the C05/C06 oracles)
against python's json module.  Standalone, python3 stdlib + a C++ compiler; NOT on the per-case path of any check.

  python3 lib/audit_json.py [--n 20000] [--seed 1] [--cxx clang++]      exit 0 = agreement on every text, 2 = disagreement
  python3 lib/audit_json.py --emit-corpus corpus/C06 [--n 200]          (re)generate the libFuzzer seed corpus of C06

What is compared, for every generated text (valid documents in every grammatical shape, json.dumps output, byte-level
mutations of both, and a list of hand-written edge cases):
  * accept/reject: ref::json_parse(text) == (text is well-formed UTF-8 and json.loads(text) succeeds without
    NaN/Infinity constants)
  * value: ref::json_canon(value) == the same canonical rendering computed here from python's value
    (numbers as IEEE-754 bits of float(x), strings as UTF-8 bytes with surrogatepass, object names sorted, last
    duplicate wins).
The chain asl <-> ref_json.h (per case, native speed) <-> python json (this audit) is what the evidence relies on.
"""
import sys, os, json, random, struct, subprocess, tempfile, shutil

ROOT = os.path.dirname(os.path.dirname(os.path.abspath(__file__)))

TOOL_SRC = r'''
#include "common/ref_json.h"
#include <cstdio>
#include <vector>
int main()
{
	for (;;) {
		unsigned char h[4];
		if (fread(h, 1, 4, stdin) != 4)
			break;
		size_t n = h[0] | (h[1] << 8) | (h[2] << 16) | ((size_t)h[3] << 24);
		std::string t(n, '\0');
		if (n && fread(&t[0], 1, n, stdin) != n)
			return 3;
		ref::JValue v;
		ref::JsonInfo info;
		if (ref::json_parse(t, v, &info, 5000))
			printf("A %s %d%d%d\n", ref::json_canon(v).c_str(), info.nul_escape, info.lone_surrogate, info.duplicate_names);
		else
			printf("R %s\n", info.too_deep ? "deep" : "");
	}
	return 0;
}
'''

WS = [' ', '\t', '\n', '\r']


class Gen:
    """valid RFC 8259 texts in every grammatical shape (independent of the C++ generator of the C06 harness)"""

    def __init__(self, rnd):
        self.r = rnd

    def ws(self):
        r = self.r
        if r.random() < 0.6:
            return ''
        return ''.join(r.choice(WS) for _ in range(r.randint(1, 3)))

    def number(self):
        r = self.r
        s = '-' if r.random() < 0.3 else ''
        k = r.random()
        if k < 0.25:
            s += '0'
        elif k < 0.9:
            s += str(r.randint(1, 9)) + ''.join(str(r.randint(0, 9)) for _ in range(r.choice([0, 0, 1, 2, 5, 8, 9, 10, 17, 30])))
        else:
            s += r.choice(['2147483647', '2147483648', '999999999', '1000000000', '9007199254740993', '123456789012345678901234567890'])
        if r.random() < 0.4:
            s += '.' + ''.join(str(r.randint(0, 9)) for _ in range(r.choice([1, 1, 2, 3, 7, 17, 25])))
        if r.random() < 0.35:
            s += r.choice('eE') + r.choice(['', '+', '-']) + r.choice(['0', '1', '5', '05', '10', '22', '23', '300', '308', '309', '323', '324', '325', '400', '4000'])
        return s

    def string(self):
        r = self.r
        out = ['"']
        for _ in range(r.choice([0, 1, 1, 2, 3, 5, 8, 13, 40])):
            k = r.random()
            if k < 0.35:
                c = chr(r.randint(0x20, 0x7e))
                if c in '"\\':
                    c = '\\' + c
                out.append(c)
            elif k < 0.45:
                out.append(r.choice(['\\"', '\\\\', '\\/', '\\b', '\\f', '\\n', '\\r', '\\t', '/', '\x7f']))
            elif k < 0.6:
                cp = r.choice([r.randint(1, 0x1f), r.randint(0x20, 0x7f), r.randint(0x80, 0x7ff), r.randint(0x800, 0xd7ff), r.randint(0xe000, 0xffff), 0])
                h = '%04x' % cp
                out.append('\\u' + ''.join(ch.upper() if r.random() < 0.5 else ch for ch in h))
            elif k < 0.68:
                cp = r.randint(0x10000, 0x10ffff) - 0x10000
                out.append('\\u%04x\\u%04X' % (0xd800 + (cp >> 10), 0xdc00 + (cp & 0x3ff)))
            elif k < 0.72:
                out.append('\\u%04x' % r.randint(0xd800, 0xdfff))  # lone surrogate: grammatical, python accepts
            elif k < 0.8:
                out.append(chr(r.randint(0x80, 0x7ff)))
            elif k < 0.9:
                out.append(chr(r.choice([r.randint(0x800, 0xd7ff), r.randint(0xe000, 0xffff)])))
            else:
                out.append(chr(r.randint(0x10000, 0x10ffff)))
        out.append('"')
        return ''.join(out)

    def value(self, depth):
        r = self.r
        k = r.random()
        if depth > 6:
            k *= 0.6
        if k < 0.2:
            return self.number()
        if k < 0.4:
            return self.string()
        if k < 0.5:
            return r.choice(['true', 'false', 'null'])
        if k < 0.75:
            n = r.choice([0, 0, 1, 2, 3, 5])
            return '[' + self.ws() + (',').join(self.ws() + self.value(depth + 1) + self.ws() for _ in range(n)) + self.ws() + ']' if n else '[' + self.ws() + ']'
        n = r.choice([0, 1, 2, 3, 4])
        names = []
        items = []
        for _ in range(n):
            name = r.choice(names) if names and r.random() < 0.15 else self.string()
            names.append(name)
            items.append(self.ws() + name + self.ws() + ':' + self.ws() + self.value(depth + 1) + self.ws())
        return '{' + (','.join(items) if items else self.ws()) + '}'

    def text(self):
        if self.r.random() < 0.05:
            d = self.r.choice([50, 100, 150])
            return '[' * d + self.value(9) + ']' * d
        return self.ws() + self.value(0) + self.ws()


EDGE = [b'', b' ', b'[', b']', b'[]', b'{}', b'[1.]', b'[.1]', b'[-]', b'[01]', b'[-01]', b'[1e]', b'[1e+]', b'[1.e1]', b'[0e0]', b'[-0]',
        b'-0', b'-0.0', b'0', b'00', b'1 2', b'[1,]', b'[,1]', b'[1,,2]', b'{"a":1,}', b'{,}', b'{"a"}', b'{"a":}', b'{a:1}', b"{'a':1}",
        b'[]]', b'[][]', b'"', b'""', b'"\\"', b'"\\x"', b'"\\u12"', b'"\\u12g4"', b'"\\ud800"', b'"\\ud800\\u0041"', b'"\\udc00\\ud800"',
        b'"\\ud83d\\ude00"', b'"\\uD83D\\uDE00"', b'"\\u0000"', b'"a\x00b"', b'"\t"', b'"\n"', b'"\x1f"', b'"\x7f"', b'"/"', b'"\\/"',
        b'\xef\xbb\xbf[]', b'NaN', b'[NaN]', b'Infinity', b'-Infinity', b'[True]', b'nul', b'nulll', b'truefalse', b'[1]x', b'//c\n[1]',
        b'[1]//c', b'/**/[1]', b'0x10', b'+1', b'1_0', b'.5', b'5.', b'1e5', b'1E+5', b'1e-5', b'1e400', b'-1e400', b'1e-400',
        b'123456789012345678901234567890', b'0.1e1', b'"\xc3\xa9"', b'"\xc3"', b'"\xed\xa0\x80"', b'"\xc0\xaf"', b'"\xf4\x90\x80\x80"',
        b'"\xf0\x9f\x98\x80"', b'\x0c[1]', b'[1]\x0c', b'\xa0[1]', b'[\x0b1]', b'{"a":1,"a":2}', b'{"a":{"b":1},"a":[2]}', b'{"":0}',
        b'[[[[[[[[[[]]]]]]]]]]', b'[1 2]', b'[1\n2]', b'{"a":1 "b":2}', b'{"a"=1}', b'[Y]', b'{"a/b":1}', b'{"a\\/b":1}', b'"\\a"',
        b'"\\U0041"', b'[1.0E+2]', b'[-1.5e-3]', b'1.7976931348623157e308', b'1.7976931348623159e308', b'4.9e-324', b'2.4e-324', b'2.5e-324']


def mutate(r, t):
    b = bytearray(t)
    k = r.randint(0, 5)
    if not b:
        return bytes([r.randint(1, 255)])
    if k == 0:
        return bytes(b[:r.randint(0, len(b))])
    if k == 1:
        i = r.randint(0, len(b) - 1)
        j = min(len(b), i + r.randint(1, 4))
        del b[i:j]
    elif k == 2:
        i = r.randint(0, len(b) - 1)
        j = min(len(b), i + r.randint(1, 6))
        b[i:i] = b[i:j]
    elif k == 3:
        i = r.randint(0, len(b) - 1)
        b[i] = r.choice([r.randint(1, 255), ord(r.choice('"\\/,:[]{}0-+.eE tnfu')), r.randint(1, 31)])
    elif k == 4:
        i = r.randint(0, len(b))
        b[i:i] = bytes([r.choice([r.randint(1, 255), ord(r.choice('"\\/,:[]{}0-+.eE ')), r.randint(0x80, 0xff)])])
    else:
        i = r.randint(0, len(b) - 1)
        j = r.randint(0, len(b) - 1)
        b[i], b[j] = b[j], b[i]
    return bytes(b)


def canon(v):
    if v is None:
        return 'n'
    if v is True:
        return 't'
    if v is False:
        return 'f'
    if isinstance(v, (int, float)):
        try:
            x = float(v)
        except OverflowError:
            x = float('inf') if v > 0 else float('-inf')
        if x == 0:
            x = 0.0
        return 'd%016x' % struct.unpack('<Q', struct.pack('<d', x))[0]
    if isinstance(v, str):
        return 's' + v.encode('utf-8', 'surrogatepass').hex()
    if isinstance(v, list):
        return '[' + ','.join(canon(x) for x in v) + ']'
    if isinstance(v, dict):
        items = sorted((k.encode('utf-8', 'surrogatepass'), x) for k, x in v.items())
        return '{' + ','.join(k.hex() + ':' + canon(x) for k, x in items) + '}'
    raise TypeError(type(v))


def bad_constant(c):
    raise ValueError('constant ' + c)


def python_verdict(t):
    """('A', canon) | ('R', None) | ('skip', None)"""
    try:
        s = t.decode('utf-8')  # strict: rejects surrogates, overlongs, > U+10FFFF
    except UnicodeDecodeError:
        return 'R', None
    try:
        v = json.loads(s, parse_constant=bad_constant)
    except RecursionError:
        return 'skip', None
    except ValueError:
        return 'R', None
    return 'A', canon(v)


def texts(n, seed):
    r = random.Random(seed)
    g = Gen(r)
    out = list(EDGE)
    while len(out) < n:
        k = r.random()
        if k < 0.55:
            t = g.text().encode('utf-8', 'surrogatepass')
            # raw surrogates cannot come out of the generator (only escapes), so this is plain UTF-8
        elif k < 0.65:
            try:
                v = json.loads(g.text())
            except (ValueError, RecursionError):
                continue
            t = json.dumps(v, ensure_ascii=r.random() < 0.5, indent=r.choice([None, None, 1, '\t']),
                           separators=r.choice([None, (',', ':'), (' , ', ' : ')]), allow_nan=True).encode('utf-8', 'surrogatepass')
        else:
            t = g.text().encode('utf-8', 'surrogatepass')
            for _ in range(r.choice([1, 1, 2, 3])):
                t = mutate(r, t)
        out.append(t)
    return out


def build_tool(cxx, tmp):
    src = os.path.join(tmp, 'audit_tool.cpp')
    open(src, 'w').write(TOOL_SRC)
    exe = os.path.join(tmp, 'audit_tool')
    r = subprocess.run([cxx, '-std=gnu++17', '-O1', '-g', '-fsanitize=address,undefined', '-I', os.path.join(ROOT, 'harness'), src, '-o', exe],
                       capture_output=True, text=True)
    if r.returncode != 0:
        sys.exit('audit_json: cannot compile the tool:\n' + r.stderr[-3000:])
    return exe


def emit_corpus(d, n, seed):
    """seed inputs for fuzz/C06_decode: document bytes followed by a few tail bytes that the target decodes into cut points"""
    r = random.Random(seed)
    g = Gen(r)
    os.makedirs(d, exist_ok=True)
    for f in os.listdir(d):
        if f.startswith('gen-'):
            os.remove(os.path.join(d, f))
    xdl = [b'{x=1.5, y=[1,Y]}', b'Shape{\n\tname="a b"\n\tsize=[1,2,3] // comment\n\tsub=Box{w=1e-3,h=-0.5}\n}\n',
           b'[1\n2\n3]', b'{a=Y\nb=N,c=null /* c */ d="\\u00e9\\n"}', b'/* head */ {"k":[{}, [], "", -0]}', b'{ a = 1 , b : 2 }',
           b'[A{},B{x=1}]', b'{$type="T",v=1}', b'// only a comment\n', b'{a="x" // t\n}', b'[1,2,/*x*/3]', b'{"a/b":1}', b'"\\ud83d\\ude00"']
    docs = [b'', b' '] + xdl
    while len(docs) < n:
        t = g.text().encode('utf-8', 'surrogatepass')
        if len(t) > 600:
            continue
        if r.random() < 0.2:
            t = mutate(r, t)
        docs.append(t)
    for i, t in enumerate(docs):
        tail = bytes(r.randint(0, 255) for _ in range(r.choice([0, 1, 3, 5, 9])))
        open(os.path.join(d, 'gen-%03d' % i), 'wb').write(t.replace(b'\0', b' ') + tail)
    print('wrote %d corpus files to %s' % (len(docs), d))


def main():
    a = sys.argv[1:]

    def opt(name, default):
        return a[a.index(name) + 1] if name in a else default

    n = int(opt('--n', '20000'))
    seed = int(opt('--seed', '1'))
    if '--emit-corpus' in a:
        emit_corpus(opt('--emit-corpus', None), int(opt('--n', '200')), seed)
        return 0
    cxx = opt('--cxx', shutil.which('clang++') or shutil.which('g++') or 'c++')
    sys.setrecursionlimit(20000)
    base = os.path.join(os.environ.get('VF_BUILD') or os.path.join(ROOT, 'build'), 'tmp')
    os.makedirs(base, exist_ok=True)
    tmp = tempfile.mkdtemp(prefix='audit_json.', dir=base)
    try:
        exe = build_tool(cxx, tmp)
        ts = texts(n, seed)
        blob = b''.join(struct.pack('<I', len(t)) + t for t in ts)
        e = dict(os.environ, ASAN_OPTIONS='detect_leaks=0', LC_ALL='C')
        r = subprocess.run([exe], input=blob, capture_output=True, env=e)
        if r.returncode != 0:
            print('audit_json: the reference tool failed (rc=%d): %s' % (r.returncode, r.stderr.decode('latin1')[-2000:]))
            return 2
        lines = r.stdout.decode('ascii').split('\n')
        bad = acc = rej = skip = 0
        flags = [0, 0, 0]
        for t, line in zip(ts, lines):
            verdict, c = python_verdict(t)
            if verdict == 'skip':
                skip += 1
                continue
            parts = line.split(' ')
            if parts[0] == 'R' and len(parts) > 1 and parts[1] == 'deep':
                skip += 1
                continue
            ok = (parts[0] == verdict) and (verdict == 'R' or parts[1] == c)
            if verdict == 'A':
                acc += 1
                if parts[0] == 'A':
                    for i in range(3):
                        flags[i] += parts[2][i] == '1'
            else:
                rej += 1
            if not ok:
                bad += 1
                if bad <= 10:
                    print('DISAGREE text=%r\n  ref   : %s\n  python: %s %s' % (t[:200], line[:300], verdict, (c or '')[:300]))
        print('audit_json: %d texts (%d accepted by python, %d rejected, %d skipped for depth); with \\u0000: %d, lone surrogates: %d, '
              'duplicate names: %d; disagreements: %d' % (len(ts), acc, rej, skip, flags[0], flags[1], flags[2], bad))
        return 2 if bad else 0
    finally:
        shutil.rmtree(tmp, ignore_errors=True)


if __name__ == '__main__':
    sys.exit(main())
