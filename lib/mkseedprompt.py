#!/usr/bin/env python3
"""mkseedprompt.py <round> [ids...] -- write /tmp/seed_prompt<round>_<ID>.txt for fresh seed agents.
A prompt contains ONLY the property text (from properties.jsonl), the working rules, and the list of sites that earlier
rounds already used (from seeded/*/meta.json 'site'), never anything about the checks in /verif."""
import json, sys, glob, os

R = '/verif'
rnd = sys.argv[1]
ids = sys.argv[2:]
props = {}
for l in open(R + '/properties.jsonl'):
    p = json.loads(l)
    props[p['id']] = p

HINT = {
    '8': None,
    '7': ("Assume the property is already checked very thoroughly: model-based random tests of the whole public API of this feature (all overloads and "
          "convenience wrappers, aliasing, self-assignment, reuse after close/clear/reset/failed operations, copies of configured objects), sweeps over every "
          "length across the implementation's internal buffer sizes, numeric extremes, combinations of settings, hostile input between valid uses, "
          "concurrency of independent objects, signals and short system calls, several time zones, symbolic links and aliased paths, long-lived "
          "processes (tens of thousands of threads / connections), and coverage-guided fuzzing of every decoder/parser. Previous rounds planted 12 "
          "changes for this property (listed above); nearly all obvious sites are used. Aim at what remains: a boundary that needs TWO independent "
          "conditions at once (e.g. a specific length AND a specific content), the second or third invocation of something usually called once, "
          "integer sign / width conversions on rarely taken branches, the order of evaluation of side effects inside one expression, defaults of "
          "optional parameters, cleanup on early return, values that are valid but unusual (negative zero, INT_MIN, empty-but-not-null, the largest "
          "legal field value), and helper functions in other files used by this feature in only one place. Read the whole anchored source (and the "
          "helpers it calls) first and pick the least obvious place you can find; both changes must still satisfy every requirement above (unit "
          "tests pass, demonstration fails with / passes without)."),
    '6': ("Assume the property is already checked by model-based random tests of the main API and of its rarely used overloads and convenience "
          "wrappers (aliasing between arguments, self-assignment, objects reused after close/clear/reset, const and non-const overloads), by sweeps "
          "over every length across the implementation's internal buffer sizes, by numeric extremes (giant arrays, subnormal and near-overflow "
          "values), by combinations of settings, by hostile input decoded between valid uses, by concurrent use of independent objects, by several "
          "time zones, symbolic links and aliased paths, and by coverage-guided fuzzing of every decoder/parser. Aim at what remains: asymmetries "
          "between sibling overloads that should behave alike (const char* / String / ByteArray / Array_ forms, with and without explicit length), "
          "interactions of TWO features of this property that are each tested alone, behaviour that depends on operating-system conditions "
          "(interrupted or partial system calls, descriptors above 1023, a full or read-only directory, permissions, very long paths, signals, "
          "LC_NUMERIC / locale), state left behind by a FAILED operation (a failed open/bind/parse followed by a successful one on the same object), "
          "and the order in which destructors, close() and flush happen. Read the whole anchored source (and the helpers it calls) first and pick the "
          "least obvious place you can find; both changes must still satisfy every requirement above (unit tests pass, demonstration fails with / "
          "passes without)."),
    '5': ("Assume the property is already checked by model-based random tests of the main API and of its rarely used overloads and convenience "
          "wrappers, including aliasing between arguments, self-assignment, objects reused after close/clear/reset, const and non-const overloads, "
          "boundary-biased sizes, concurrent use of independent objects, and coverage-guided fuzzing of every decoder/parser. Aim at what remains: "
          "internal buffer-size or block-size boundaries specific to this implementation (read the constants in the code), values at the extremes of "
          "the numeric types, combinations of settings/configuration/modes that are individually tested, sequences of three or more calls where a "
          "middle call leaves hidden state behind, paths taken only on errors / partial I/O / timeouts / early exits, dependence on locale, time zone "
          "or environment, and helper functions in OTHER files that this feature relies on. Read the whole anchored source (and the helpers it calls) "
          "first and pick the least obvious place you can find; both changes must still satisfy every requirement above (unit tests pass, "
          "demonstration fails with / passes without)."),
}

HINT['8'] = HINT['7'].replace('planted 12', 'planted 14') + (" You have about 20 minutes: keep the changes small, and finish the deliverables even if only ONE change (A) is ready by then.")

T = """You are helping to evaluate a test suite by planting realistic, subtle bugs ("seeded changes") in a C++ library. You work ONLY inside the git worktree {wt} (a checkout of the library aslze/asl: include/asl/*.h, src/*.cpp, tests/). Do not read or touch anything under /verif or /repo, and do not look for other people's tests or harnesses outside your worktree.

The library is supposed to satisfy this property:

Property {id}: {title}

Statement: {statement}

Quantifier: {quant}

Your task: produce TWO independent changes (call them A and B, at different places in the code, different mechanisms) to the library source that each BREAK this property while
  (1) the library still compiles and the existing unit-test suite still passes entirely: build and run it with
      cd {wt} && cmake -G Ninja -S . -B _build -DASL_TESTS=ON >/dev/null && cmake --build _build >/dev/null && ctest --test-dir _build -j8
      (28 tests; they must all pass with your change applied);
  (2) the change needs something SPECIFIC to manifest: a particular interleaving, a fault or early close at a particular point, a multi-step sequence of operations, an unusual input or size (a boundary length, a rare code path, a specific combination), or two cooperating sites that each look fine alone. Do NOT make changes that ordinary use would expose at once (e.g. breaking the common path of a basic operation). Think of the kind of regression a maintainer could introduce in a refactoring or an "optimisation" and that code review might miss;
  (3) the change looks like plausible production code (no "if (x == 12345)" magic constants, no comments announcing the bug).
For each change also write a DEMONSTRATION: a small standalone C++ program (demoA.cpp / demoB.cpp) using only the library's public API that exits 0 when the property holds on its scenario and exits non-zero (or crashes under -fsanitize=address) when it does not; it must FAIL with your change applied and PASS on the unchanged code, in at least 3 runs out of 3 each. Give the exact build+run command, e.g.
      clang++ -std=gnu++17 -g -fsanitize=address -DASL_STATIC -I{wt}/include demoA.cpp $(ls {wt}/src/*.cpp | grep -v TlsSocket) -lpthread -ldl -o demoA && ./demoA
Most source files have CRLF line endings: keep them (check that `git diff --stat` shows only the lines you meant to change).

Deliverables, all inside {wt}/_seed/ (the directory exists):
  A.diff and B.diff  -- `git diff` of each change alone against the unchanged worktree (produce A, save the diff, `git checkout -- .`, then produce B);
  demoA.cpp, demoB.cpp;
  notes.md -- for each change: which clause of the property it breaks, what exactly is needed for it to manifest, the demo command lines, and the output you observed with and without the change (both for the demo and for ctest).
Leave the worktree clean at the end (`git checkout -- .`; the _seed directory is untracked and stays; delete _build to save space). Your final message: a 10-line summary of A and B (site, mechanism, trigger).

ADDITIONAL CONSTRAINTS FOR THIS ROUND: earlier rounds already planted changes at the following sites; do NOT reuse these sites or mechanisms:
{avoid}
{hint}
"""

for pid in (ids or sorted(props)):
    p = props[pid]
    avoid = []
    for mp in sorted(glob.glob(R + '/seeded/%s-*/meta.json' % pid)):
        m = json.load(open(mp))
        if m.get('site'):
            avoid.append('  - ' + m['site'])
    wt = '/tmp/seed%s_%s' % (rnd, pid)
    txt = T.format(wt=wt, id=pid, title=p['title'], statement=p['statement'], quant=p['quantifier']['text'], avoid='\n'.join(avoid), hint=HINT[rnd])
    open('/tmp/seed_prompt%s_%s.txt' % (rnd, pid), 'w').write(txt)
    print(pid, len(avoid), 'sites to avoid')
