#!/bin/bash
# mkmutant.sh <PROP> <name> <file-relative-to-repo> <old> <new> : create mutants/<PROP>/<name>.diff from a one-place substitution (CRLF-safe)
set -e
P=$1; N=$2; F=$3; OLD=$4; NEW=$5
T=/tmp/mkmut_$$; rm -rf $T; mkdir -p $T/$(dirname $F); cp /repo/$F $T/$F
cd $T; git init -q .; git add -A; git -c user.email=a@b -c user.name=x commit -q -m base
python3 /verif/lib/subst.py $F "$OLD" "$NEW"
mkdir -p /verif/mutants/$P; git diff > /verif/mutants/$P/$N.diff
cd /; rm -rf $T; grep -c '^[-+][^-+]' /verif/mutants/$P/$N.diff
