#!/usr/bin/env python3
"""Regenerates /verif/MANIFEST.json from lib/registry.py (claimed checks) and properties.jsonl (everything else
is listed under not_applicable with the reason given in registry.NOT_CLAIMED or 'check not built yet')."""
import json, os, sys
ROOT = os.path.dirname(os.path.dirname(os.path.abspath(__file__)))
sys.path.insert(0, os.path.join(ROOT, 'lib'))
import registry
registry.load()

TECHNIQUE = {
 'C01': 'stateful model-based property testing (rapidcheck op histories over aliasing handles vs an aliasing-aware std::vector model; scripted capacity-boundary sweep; live-instance and allocated-bytes accounting) under ASan',
 'C02': 'stateful model-based property testing (rapidcheck op histories with adversarial colliding key pools vs std::map / std::set) + bounded-exhaustive enumeration of small ordered maps, under ASan',
 'C03': 'stateful model-based property testing (op histories on String slots vs a std::string model, self-aliasing arguments), differential testing against snprintf, enumerated + random integer round trips, under ASan',
 'C04': 'stateful model-based property testing (path-addressed op histories vs a reference value graph with shared container nodes; metamorphic equality across representations) under ASan with allocated-bytes leak oracle',
 'C05': 'property-based round-trip testing (generated Var trees, all modes; file sweep over every read-chunk offset) + differential testing against an independent strict RFC 8259 parser, under ASan',
 'C06': 'coverage-guided fuzzing (libFuzzer, whole-vs-chunked oracle) + grammar-based property testing (generated RFC 8259 / XDL documents vs an independent parser; every prefix; every 2-chunk cut) under ASan',
 'C07': 'coverage-guided fuzzing (libFuzzer, tree-invariant and round-trip oracles in the target) + property-based round-trip testing of generated DOM trees + bounded-exhaustive tag/character soups, under ASan',
 'C08': 'bounded-exhaustive enumeration (all scalars, boundary pairs, all short byte strings, all case-pair combinations below 1443) against an independent UTF codec + rapidcheck ill-formed strings flush against allocation ends, under ASan',
 'C15': 'differential property testing against independent reference codecs (every length 0..1024 / 0..260, rapidcheck, libFuzzer) + bounded-exhaustive enumeration of hostile decoder inputs, under ASan',
 'C16': 'property-based differential testing (generated typed value sequences, three sinks) against a reference serializer with explicit shifts; readers fed the reference bytes; under ASan',
 'C17': 'stateful property-based testing (write/append/reopen histories, line structures around the 255/65536-byte edges, BOM encodings) with POSIX read as ground truth, under ASan',
 'C18': 'grammar-based property testing (generated INI texts + set() histories vs an INI model; generated CSV tables, cell-wise comparison) under ASan',
 'C19': 'bounded-exhaustive enumeration (every day of years 1..9999 x 3 times, every second of sampled days, every zone offset) against an independent calendar + rapidcheck fractional / ISO texts + libFuzzer on the parser, under ASan',
 'C20': 'property-based testing of exact algebraic identities over the prime field GF(2^61-1) (Schwartz-Zippel; generated pivot orders) + floating-point residual bounds against long double + rotation round trips on dense grids, under ASan',
}

props = [json.loads(l) for l in open(os.path.join(ROOT, 'properties.jsonl')) if l.strip()]
checks, na = [], []
for p in props:
    pid = p['id']
    P = registry.PROPS.get(pid)
    if not P or P.get('disabled'):
        na.append(dict(property_id=pid, reason=getattr(registry, 'NOT_CLAIMED', {}).get(pid, 'check not built yet (work in progress); nothing is claimed for it')))
        continue
    engines = sorted(set(('rapidcheck generators / enumerators' if x['kind'] == 'rc' else 'libFuzzer') for x in P['parts']))
    checks.append(dict(
        property_id=pid,
        quick_cmd='./vf check %s --tier quick' % pid,
        thorough_cmd='./vf check %s --tier thorough' % pid,
        evidence_file='/verif/evidence/%s.json' % pid,
        replay_cmd_template='./vf replay %s {path}' % pid,
        engine=' + '.join(engines) + ' under AddressSanitizer' + (' / ThreadSanitizer' if any(x['set'] == 'tsan' for x in P['parts']) else ''),
        level_claimed=dict(category='exploration',
                           text=P.get('level_text', 'Generated-input search against an explicit oracle: no counter-example among the counted cases; sub-spaces marked exhaustive in the evidence were enumerated completely. Absence of violations outside the explored cases is not shown.'),
                           design_ref=P.get('design_ref', 'DESIGN.md section 4, ' + pid)),
        level_note=P.get('level_note', '; '.join(P.get('assumptions', [])) or 'harness reference models and AddressSanitizer are trusted'),
        technique=P.get('technique') or TECHNIQUE.get(pid, 'property-based testing (rapidcheck generators + bounded-exhaustive enumeration) against a reference model, under ASan'),
    ))
m = dict(
    version=1,
    setup_cmd='./vf setup',
    hooks=dict(guard='ASL_VERIF', enable='every harness and every library object is compiled by ./vf with -DASL_VERIF (BASE_FLAGS in /verif/vf)',
               baseline_off_cmd='cmake -G Ninja -S /repo -B /repo/_build >/dev/null && cmake --build /repo/_build >/dev/null && ctest --test-dir /repo/_build -j8 --timeout 900',
               source_commits=getattr(registry, 'HOOK_COMMITS', []), add_only=True),
    engines=[dict(name='vf', path='/verif/vf', serves_properties=[c['property_id'] for c in checks],
                  kind_free_text='python driver: builds the harnesses from /repo (rsync -rc mirror + make), replays committed regression cases, runs rapidcheck / enumerator / libFuzzer searches in parallel workers, confirms and minimises failures, writes evidence')],
    checks=checks,
    notes='See DESIGN.md. Exit protocol of every command: 0 held, 1 after a VIOLATION line, 2 infrastructure/inconclusive. known_findings.json lists repaired (fixed:) and open (known) defects.',
    not_applicable=na,
)
json.dump(m, open(os.path.join(ROOT, 'MANIFEST.json'), 'w'), indent=1)
print('MANIFEST.json: %d checks, %d not claimed' % (len(checks), len(na)))
