#!/usr/bin/env python3
"""Regenerates /verif/MANIFEST.json from lib/registry.py (claimed checks) and properties.jsonl (everything else
is listed under not_applicable with the reason given in registry.NOT_CLAIMED or 'check not built yet')."""
import json, os, sys
ROOT = os.path.dirname(os.path.dirname(os.path.abspath(__file__)))
sys.path.insert(0, os.path.join(ROOT, 'lib'))
import registry
registry.load()

props = [json.loads(l) for l in open(os.path.join(ROOT, 'properties.jsonl')) if l.strip()]
checks, na = [], []
for p in props:
    pid = p['id']
    P = registry.PROPS.get(pid)
    if not P or P.get('disabled'):
        na.append(dict(property_id=pid, reason=getattr(registry, 'NOT_CLAIMED', {}).get(pid, 'check not built yet (work in progress); nothing is claimed for it')))
        continue
    engines = sorted(set(('rapidcheck generators / enumerators' if x['kind'] == 'rc' else 'libFuzzer') for x in P['parts']))
    checks.append(dict(
        property_id=pid,
        quick_cmd='./vf check %s --tier quick' % pid,
        thorough_cmd='./vf check %s --tier thorough' % pid,
        evidence_file='/verif/evidence/%s.json' % pid,
        replay_cmd_template='./vf replay %s {path}' % pid,
        engine=' + '.join(engines) + ' under AddressSanitizer' + (' / ThreadSanitizer' if any(x['set'] == 'tsan' for x in P['parts']) else ''),
        level_claimed=dict(category='exploration',
                           text=P.get('level_text', 'Generated-input search against an explicit oracle: no counter-example among the counted cases; sub-spaces marked exhaustive in the evidence were enumerated completely. Absence of violations outside the explored cases is not shown.'),
                           design_ref=P.get('design_ref', 'DESIGN.md section 4, ' + pid)),
        level_note=P.get('level_note', '; '.join(P.get('assumptions', [])) or 'harness reference models and AddressSanitizer are trusted'),
        technique=P.get('technique', 'property-based testing (rapidcheck generators + bounded-exhaustive enumeration) against a reference model, under ASan'),
    ))
m = dict(
    version=1,
    setup_cmd='./vf setup',
    hooks=dict(guard='ASL_VERIF', enable='every harness and every library object is compiled by ./vf with -DASL_VERIF (BASE_FLAGS in /verif/vf)',
               baseline_off_cmd='cmake -G Ninja -S /repo -B /repo/_build >/dev/null && cmake --build /repo/_build >/dev/null && ctest --test-dir /repo/_build -j8 --timeout 900',
               source_commits=getattr(registry, 'HOOK_COMMITS', []), add_only=True),
    engines=[dict(name='vf', path='/verif/vf', serves_properties=[c['property_id'] for c in checks],
                  kind_free_text='python driver: builds the harnesses from /repo (rsync -rc mirror + make), replays committed regression cases, runs rapidcheck / enumerator / libFuzzer searches in parallel workers, confirms and minimises failures, writes evidence')],
    checks=checks,
    notes='See DESIGN.md. Exit protocol of every command: 0 held, 1 after a VIOLATION line, 2 infrastructure/inconclusive. known_findings.json lists repaired (fixed:) and open (known) defects.',
    not_applicable=na,
)
json.dump(m, open(os.path.join(ROOT, 'MANIFEST.json'), 'w'), indent=1)
print('MANIFEST.json: %d checks, %d not claimed' % (len(checks), len(na)))
