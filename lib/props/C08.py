from registry import rc

PROP = dict(
    parts=[rc('C08_utf', quick_workers=4, thorough_workers=16, quick_timeout=240, thorough_timeout=1500)],
    floor=dict(quick=2000000, thorough=8000000),
    rule=("Enumerated completely (exhaustive parts): every non-zero Unicode scalar value (1,112,063) through utf32toUtf8 / utf8toUtf32 / "
          "utf8toUtf16 -> utf16toUtf8 / fromCode / fromCodes / chars() / count() / for-each iteration / dataw() / String(const wchar_t*) / "
          "String(Array<wchar_t>) / SafeString+fixW against an independent UTF codec (harness/common/ref_utf.h, digests audited against "
          "python codecs at every start); all ordered pairs and a grid of triples of 30 scalars adjacent to the 1/2/3/4-byte, surrogate, plane "
          "and case-table (1415) boundaries; every byte string of length <= 2 over 01..FF and (thorough) every one of length 3 "
          "(quick: every 32nd of the 16,581,375 with offset VERIF_SEED mod 32, so 32 seeds cover the space); every string of length <= 5 over "
          "{7F 80 BF C0 C2 DF E0 EF F0 F4 F7 F8 FF 41 61} (00 = end of string); all UTF-16 unit strings of length <= 3 over 14 boundary units (unpaired and swapped surrogates included) "
          "through utf16toUtf8 / String(const wchar_t*) / String(Array<wchar_t>); counted conversions with a BINDING count: every sequence of length <= 5 over "
          "{U+41 U+7A U+E9 U+20AC U+1F600} x every count n = 1..len, and generated sequences (half ASCII, up to 60 / 300 scalars, count anywhere / "
          "len / len-1): utf32toUtf8, utf8toUtf32, utf8toUtf16, utf16toUtf8 called with n from a longer 0-terminated source and from an "
          "exactly-sized UNTERMINATED source in an exact heap block, plus every single element with n = 1, must return/write exactly the "
          "reference encoding of the first n scalars (+ terminator); the same case relation on all 336,610 unordered pairs of the 820 byte strings of length <= 3 over "
          "{41 61 7A C2 C3 E0 F0 80 A0} (mostly ill-formed: trailing leads, stray continuations) and on generated related ill-formed pairs "
          "(same pieces, ASCII case flipped, one piece replaced/dropped, different ends: lead byte cut by the end / stray continuation / "
          "overlong NUL) - the relation is asserted for every pair, well- or ill-formed, because the unchanged tree satisfies it on ill-formed "
          "strings too (truncated sequences read as code 0 on both sides); all pairs of code points below 1443 for "
          "a.equalsNocase(b) == (a.toLowerCase() == b.toLowerCase()). Generated (rapidcheck): well-formed texts of up to 600 (thorough 2000) "
          "scalars of mixed widths with lengths biased to 15/16/19/20/24; ill-formed strings of up to 300 bytes built from valid encodings, "
          "sequences cut short, overlong forms, surrogates, > U+10FFFF, lone continuation/lead bytes, usually ending in a lead byte without its "
          "continuation; related text pairs (same / usual case distance / unrelated per character, differing lengths) and ill-formed pairs for "
          "equalsNocase; random scalar pairs of every width combination. For every byte string all conversions, count, chars, iteration, "
          "toUpperCase, toLowerCase, equalsNocase (against a copy, the string minus its last byte, its ASCII-case-flipped form), dataw/wlength "
          "must terminate in bounds with results no longer than the input (case maps: length() <= input length, terminated); on well-formed "
          "input values must equal the reference; on ASCII the case maps must equal C-locale toupper/tolower. Memory oracle: ASan, C-string / "
          "wide / code-point inputs and outputs in exact-size malloc blocks (outputs sized as asl's own callers size them: n+1 code units, "
          "4n+1 bytes), String receivers allocated with new and tested as-is, ASCII-prefixed to 19 bytes (heap buffer of exactly 20 bytes; in the single-scalar enumeration for all 1-/2-byte scalars, every 4th other scalar and the boundary neighbourhoods) "
          "and, when ill-formed, also ASCII-prefixed to 15 bytes (terminator = last byte of the String object). Non-trivial: non-ASCII scalars / texts with a non-ASCII scalar; ill-formed strings "
          "whose first defect is a truncated or overlong sequence; case pairs with a != b. Distinct = by construction (enumerated parts) or "
          "distinct FNV-1a hash of the case (generated parts)."),
    assumptions=["the harness's reference UTF-8/UTF-16 codec is right (its encodings of all scalars and its well-formedness verdict on all "
                 "strings of length <= 3 are compared with digests computed with python's codecs at every start)",
                 "AddressSanitizer reports every access outside exact-size heap blocks; String inline storage ends at the end of a heap-allocated String object",
                 "wchar_t is 32 bits on this platform and UTF-16 is carried as one code unit per wchar_t (standard surrogate pairs), as asl's converters define it",
                 "conversion output buffers are sized as the library's own callers size them (bytes+1 units for UTF-8 -> 16/32, 4*units+1 bytes for 16/32 -> UTF-8)",
                 "the count parameter of utf32toUtf8 / utf8toUtf32 / utf8toUtf16 / utf16toUtf8 is the number of code points to convert (one decrement per "
                 "loop iteration in the unchanged code; a surrogate pair is one iteration); only n >= 1 is used (n <= 0 means 'until the terminator')",
                 "byte strings are NUL-free (NUL is the terminator); the C locale is active (LC_ALL=C set by the driver)"],
)
