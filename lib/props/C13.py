from registry import rc, fuzz

PROP = dict(
    parts=[rc('C13_threads', quick_workers=8, thorough_workers=16, quick_timeout=900, thorough_timeout=3400, confirm='flaky', confirm_runs=5, replay_timeout=120)],
    floor=dict(quick=2000, thorough=5000),
    technique='bounded-exhaustive enumeration (parallel_for grid; every interleaving at the hand-over points on a deterministic scheduler) + rapidcheck-generated thread / Semaphore / Condition scenarios under seeded timing jitter, ASan',
    rule=("(pfor) EVERY call parallel_for(i0, i1, f, n) with -3 <= i0, i1 <= 40 and 1 <= n <= 12 (23232 calls, real threads): a guarded array of "
          "atomic counters (8 extra indices on both sides + an 'outside' counter) must be exactly 1 on [i0,i1) and 0 elsewhere when read immediately "
          "after parallel_for returns; (pfor_sampled) rapidcheck ranges up to 20000 (quick) / 10^6 (thorough) indices, 1..64 or 65..300 threads, one slow index, "
          "plus a fixed grid of wide calls: n in {63,64,65,66,100,127,128,129,200,257} x range lengths n-1, n, n+1, 2n-1, 2n+1, 3n+7 x i0 in {0,-5}, "
          "repeated under seeded jitter; (thread) rapidcheck scenarios: subclassed / lambda / functor Thread, ThreadGroup of 1-8, parallel_invoke with "
          "2/3/4 functions x body {empty, 8 plain stores, spin, sleep}, each repeated 20x (quick) / 100x (thorough) with timing jitter (0-200 us sleeps "
          "or yields, hashed from the jitter seed) injected at the library's hand-over points through the ASL_VERIF hook: after join() each body ran "
          "exactly once, its stores are visible, finished() is true and stays true; (handover) 28 small scenarios (subclass, lambda, parallel_invoke(2), "
          "ThreadGroup(1-2), parallel_for of 1-3 indices on 1-2 threads) run under the deterministic scheduler with a decision at every hand-over point "
          "(spawn, entry, context-flag set / wait / resume, finished-flag store, exit, join): ALL interleavings, exhaustive; (sync) rapidcheck "
          "producer/consumer scripts: 1-4 producers, 1-4 consumers, 1-50 items each, over Semaphore (post / post(n) / wait) and over Condition with the "
          "documented protocol (lock; while(!pred) wait(); unlock; signal under the lock): every waiter completes (20 s bound, expected microseconds), "
          "final semaphore value / item count 0. Added in seeding rounds 4-6: start() again on an object whose first run ended (seen through finished()) but was never joined; (many) a fire-and-forget series (start, finished(), destroy without join) longer than vm.max_map_count/2 threads; Semaphore::wait(timeout) with fractional and integral timeouts started at chosen phases of the wall-clock second, trywait() polling and repeated wait(0.35) consumers, Condition::wait(0.45) in the documented loop, Condition bound by use() and re-bound to the same mutex while waiters exist; (semsig) a signal handler without SA_RESTART interrupts the consumer's sleep so that errno is EINTR when it waits: tokens taken never exceed returned waits, no wait blocks while a token is there; (condlate) a timed wait whose deadline passes while the signaller holds the mutex, followed by a lone ordinary waiter; parallel_for through its default thread count; static Thread::start(f, &t). Non-trivial: empty or degenerate range or more threads than indices; every sampled pfor case; thread "
          "scenario with an empty or very short body, a lambda/functor thread or parallel_invoke; every scheduler interleaving; every sync script. "
          "Distinct by case hash / by construction for enumerated parts."),
    assumptions=["jitter and OS scheduling sample interleavings outside the deterministic-scheduler scenarios; the 20 s bound can prove a hang, not its absence",
                 "TSan is not used here: the library's volatile ready/finished flags are unsynchronised by design and no property forbids that",
                 "under the deterministic scheduler only the instrumented hand-over points are interleaved"],
)
