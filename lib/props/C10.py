from registry import rc, fuzz

PROP = dict(
    parts=[rc('C10_http_exchange', quick_workers=4, thorough_workers=16, quick_timeout=900, thorough_timeout=3400,
              confirm='flaky', confirm_runs=3, replay_timeout=400)],
    floor=dict(quick=3000, thorough=60000),
    technique='rapidcheck-generated and bounded-exhaustive request/response specifications exchanged over loopback TCP between the library '
              'client, the library server, an independent raw-socket HTTP client and an independent reference HTTP server; spec table as oracle, ASan',
    rule=("One in-process HttpServer subclass (concurrent mode) on 127.0.0.1:0 and, when the tree can bind it, [::1]:0 (ports read back) lives for the "
          "whole process. Every exchange is a generated spec kept in a mutex-protected table shared with the handler; the request path carries "
          "the spec id; the handler compares method, percent-decoded path, every query value, every header (looked up in a different letter case) "
          "and the body bytes with the spec and produces the spec's response (put(ByteArray) / put(String) / put(Var) / put(File) / serveFile() of a file below the web root with a set modification time, optionally with If-Modified-Since (IMF-fixdate before / 2 s before / 1 s before / equal to / after the mtime: 304 exactly when mtime <= date + 1 s; RFC 850 form, asctime form and non-date text are ignored by the unchanged library: 200 + file; also combined with Range) / "
          "setHeader(Content-Length)+write() in pieces / setHeader(Transfer-Encoding: chunked)+write() in pieces or in ONE call up to 512 KiB, read until the connection ends (request carries Connection: close; de-chunked by the library client and by the reference reader) / nothing); the client compares status code, headers, body bytes (json() for Var bodies; "
          "206 + Content-Range + exact slice for ranges) and its own token. Clients: Http::request, get/post/put/patch/delet with ByteArray, String, "
          "Var and File bodies (half of the file names contain 2-, 3- and 4-byte UTF-8 scalars), Http::download and Http::upload (plain and multipart), and a raw-socket client from an independent HTTP "
          "writer/reader (ref_http.h) sending Content-Length or chunked requests in 7 fragmentation shapes (one piece, head|body, head byte by "
          "byte, random cuts, cuts inside the blank line, cuts at chunk-size lines, everything byte by byte), HTTP/1.0 and 1.1, 'Connection: close' "
          "(then nothing may follow the response), optionally with 'Expect: 100-continue' (with a Content-Length, chunked, or Content-Length: 0; the body "
          "is sent after the interim 100 Continue or after 3 s; any other status before the body is a failure) or several requests one after the other on a kept-alive connection (then no byte may follow a "
          "response). The chunked/fragmented RESPONSE direction and the bytes the library client emits are checked with an independent reference "
          "server answering the library client. Truncated requests: chunked requests of 2-5 chunks and Content-Length requests are cut after EVERY byte and the sending side is closed: the handler must be called with the complete body or not at all. A body set twice on the same message (first setter ByteArray / String / const char* / Var / File / serveFile(), then the real one; every ordered pair, on responses and on Http::request requests): what travels is what was set last. Enumerated: every body length 0..2048 in both directions for 3 client kinds; +-8 around 16000, "
          "16382, 32000, 65536, 128000, 144000, 256000 and sampled lengths up to 300 KiB, 1 MiB (thorough: EVERY length 0..300 KiB split over the "
          "workers, 1/2/4/8 MiB); EVERY range [b,e] of an 18-byte file (thorough also 1,2,3,33 bytes) through Http::get, Http::download and the raw "
          "client on one kept-alive connection. rapidcheck parts: general exchanges (methods GET/POST/PUT/PATCH/DELETE/custom tokens, paths with "
          "arbitrary non-NUL bytes percent-encoded, 0-6 query pairs, 0-12 request and response headers with token names and printable values up to "
          "6000 bytes, status 200-599, bodies of arbitrary bytes / CR-LF-NUL-dense / HTTP look-alike text), file parts (ranges near block edges "
          "of files up to 300 KB), JSON parts (numbers include reals that need 17 significant digits - thirds, 0.1+0.2, microsecond timestamps, random bit patterns, 1e-300..1e300 - and are compared bit for bit; put(Var)/json() in both directions and raw JSON text to request.json(); the top-level value is an "
          "object or array, also empty, or a single value: false, true, 0, negative and large integers, fractions, 0.0, \"\", strings, null), reference-server parts, and 2..64 clients in flight at once (one lane = one thread, released "
          "together), and 8..32 clients fetching small static files at once whose extensions are a mix of the server's built-in mime table, .bin and "
          "extensions never served before in the process (several distinct new ones per round); every file response must carry the Content-Type "
          "the server's table gives (text/plain for extensions without an entry). Non-trivial: an exchange with a body in at least one direction, or a range, or >= 2 concurrent clients; distinct by "
          "(client kind, method, both lengths, framing, fragmentation shape, response mode, range, concurrency class, header/query counts)."),
    assumptions=["loopback TCP; partial sends/segment coalescing are provoked by sizes and fragmentation, not controlled",
                 "inputs outside the statement are not generated: '..' in paths (removed by the server on purpose), NUL in paths/queries/headers, "
                 "header values with leading/trailing blanks or control characters, duplicate header names, OPTIONS/HEAD, "
                 "pipelined requests, request targets with '#', ranges with e >= size or without '-' (C09's domain); 301/302/307/308 only with "
                 "setFollowRedirects(false); JSON documents avoid control characters in strings and '/' in keys (C05/C06 findings)",
                 "an exchange that fails after stalling for more than 5 s (expected: ~1 ms; the library has internal 10 s/60 s waits) is repeated once and "
                 "only a repeated failure counts; a case that does not finish within 300 s is reported as a hang; every failure is replayed in a "
                 "fresh process before it is reported",
                 "the harness's reference HTTP writer/reader (harness/common/ref_http.h) is right"],
)
