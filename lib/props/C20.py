from registry import rc

PROP = dict(
    parts=[rc('C20_exact', quick_workers=2, thorough_workers=8, quick_timeout=300, thorough_timeout=1800),
           rc('C20_float', quick_workers=2, thorough_workers=8, quick_timeout=300, thorough_timeout=1800)],
    floor=dict(quick=100000, thorough=1000000),
    rule=("EXACT PART (C20_exact): asl::Matrix4_, Matrix3_, Matrix_, solve() and Quaternion_::matrix() are instantiated over the prime field "
          "GF(2^61-1) (harness/common/fp61.h; + - * / exact, division by the Fermat inverse, divisions by zero counted), so every identity is "
          "decided exactly; a wrong formula is a non-zero polynomial of degree <= 16 and survives one uniform point with probability <= 2^-56. "
          "fabs/< of the scalar rank 0 below every non-zero element and the non-zero ones by a bijective mix of (value XOR salt); the salt is part "
          "of the case, so which of the non-zero candidates partial pivoting picks is generated. Matrices (rapidcheck picks kind, size, seed; the "
          "expanded values are written into the case): uniform, permutation*upper, permutation*lower*upper, zero diagonal, sparse lower*permutation*"
          "upper, small integers -2..2, triangular/diagonal/permutation, cyclic-shift*upper and lower*cyclic-shift*upper (a zero at the natural "
          "pivot at every step), affine, rank deficient (determinant identities only). Checked for 3x3 and 4x4: det() == elimination determinant, "
          "det(M^T) == det(M), det(triangular) == product, det(AB) == det(A)det(B) (harness product; library product for 4x4 and for affine 3x3, "
          "which is what Matrix3::operator* is documented for), M*inverse(M) == I and inverse(M)*M == I (harness product; library product under the "
          "same restriction), inverse(inverse(M)) == M; the compound and self-aliased forms against the out-of-place value computed by the harness: "
          "M *= N, M *= M and M *= (reference to M) == M*M with det == det(M)^2, (A *= B) *= B, M = M*M, B = A*B, M = M.transposed(), M = M.inverse(), "
          "M *= M.inverse(), M = M + M, M - M, M *= M(1,2) (scalar taken from the matrix itself), t*M, M*t (Matrix3: the forms it offers; "
          "M = M*M on affine M only); Matrix_: A += A, -= , A -= A, *= own element, negate, copy(self), swapRows, A = A*A, A = A.transposed(), "
          "A = A.transposed(A), A = A.inverse(), solve(A,A) == I, b = solve(A,b), A = solve(A,b) (all on objects owning their storage). Systems: n = 1..12 (biased to 12), 1..4 right-hand-side columns incl. the identity: "
          "A*solve(A,b) == b, Matrix_::inverse both-sided, no division by a zero pivot; over-determined (n+1..n+4) x n: A^T A x == A^T b; singular "
          "draws are skipped and counted as discarded. Quaternions with w^2+x^2+y^2+z^2 == 1 in the field (q^2/|q|^2 of a random q, or given x,y,z "
          "with w a field square root): matrix() is orthogonal, det 1, affine part 0, inverse == transpose, and maps v to q v q* (independent Hamilton "
          "product). "
          "FLOATING PART (C20_float, float and double, references in long double on exactly the T values the library sees): "
          "Matrix3/Matrix4 inverse() and det() on orthogonal*diag*orthogonal matrices (also scaled by 2^k), affine transforms, small-integer and "
          "permutation+noise matrices with kappa_c = |A|_F^n/|det A| <= 1e4 (double) / 1e2 (float), verified per case in long double: "
          "|A X - I|_F, |X A - I|_F <= 64 eps kappa_c and |det - det_ld| <= 64 eps |A|_F^n. kappa_c is the condition number of evaluating the cofactor "
          "formulas (sum of |products| over |result|); kappa_c >= kappa_F(A)/n; the worst-case rounding analysis of adjugate/determinant gives "
          "~40 eps kappa_c, whereas eps*kappa_F(A) is NOT what a cofactor inverse can deliver (measured: 1% of kappa<=1e4 double matrices exceed "
          "64 eps kappa_F(A), up to 3.7x). Matrix_ solve/inverse, n <= 12, kappa_F(A) = |A|_F |A^-1|_F <= 1e4 / 1e2 (long double Gauss-Jordan with "
          "full pivoting): |A x - b| <= 64 eps kappa |A|_F |x| per column, |A inverse(A) - I|_F <= 64 eps kappa; least squares with kappa_F(A^T A) <= "
          "1e4 / 1e2: |A^T(Ax-b)| <= 64 eps kappa (|A|_F^2 |x| + |A|_F |b|). Matrices outside the domain are skipped (counted as discarded). "
          "ROTATIONS: tolerances on the max-norm of a matrix / quaternion difference: ALG = 64 eps for one algebraic conversion (worst case of the "
          "rounding analysis ~10-20 eps), COMP = 256 eps for M->q->M, DEG = 1e-6 (double) / 2e-3 (float) for round trips through acos/asin/atan2 "
          "(at angle 0 and at gimbal lock an eps becomes sqrt(2 eps..14 eps) = 2e-8..6e-8 / 5e-4..1.3e-3). Unit quaternions: every integer 4-vector "
          "in [-5,5]^4 (thorough [-8,8]^4) normalised, plus random ones with mixed magnitudes 10^0..10^-9, dominant/tiny components, ties between "
          "components, trace ~ 0, w ~ 0: matrix() vs q v q*, q->M->q up to sign (ALG), M->q->M (COMP), M->axisAngle->rotate (DEG). Axis-angle: axes "
          "in [-2,2]^3 (thorough [-3,3]^3) x angles k*pi/12, k=-24..24, x offsets {0,+-1e-7,+-1e-4}, plus random axes/angles with offsets "
          "1e-15..1e-3: rotate(axis,angle), fromAxisAngle, rotate(rotation vector) vs Rodrigues' formula in long double (ALG), quaternion components, "
          "angle(), round trips. Euler angles: all 12 axis orders x {moving, fixed '*'} x a 24^3 (thorough 48^3) grid of multiples of 2pi/24 in "
          "[-pi,pi) (contains the exact lock angles 0, +-pi/2, pi) x {float,double}, plus random triples whose middle angle is a multiple of pi/2 "
          "with an offset 0..1e-3 in 3 of 5 cases: rotateE (string and index forms) vs the composition of three Rodrigues axis rotations (ALG), "
          "rotateE(eulerAngles(M,ord),ord) == M (DEG) for M = the exact rotation rounded to T; the same for matrices as a caller gets them "
          "(part eulerm): the T product of two rotation matrices at / 1e-17..1e-2 from / away from gimbal lock (domain: every element within 3 eps of "
          "the nearest rotation, checked by a long-double polar decomposition) and the 24 rotations of the cube with elements 0,+-1. "
          "Quick tier: every generated part goes through rapidcheck (kind/size/seed shrink natively); thorough tier: 4x the rapidcheck cases per "
          "worker plus seeded sweeps of the same generators (parameters from a PRNG seeded by seed/worker/part, values written into the case). "
          "Non-trivial: exact matrices that are nonsingular and not affine; systems in which the generated order makes partial pivoting exchange rows "
          "at least once; exact quaternions with four non-zero components; floating matrices inside the domain with kappa_c > 4n (fixed size), n >= 2 "
          "(systems); rotations within 1e-3 of a branch boundary of rotation() (trace 0, equal diagonal elements, angle 0 or pi) or of gimbal "
          "lock. Distinct = distinct FNV-1a hash of the case (generated parts) or distinct by construction (grids)."),
    assumptions=["the harness's GF(2^61-1) arithmetic, its elimination determinant / Gauss-Jordan inverse and its Hamilton product are right (they are "
                 "independent of asl and cross-check each other: A*X == I is verified with the harness product for every inverse)",
                 "x87 80-bit long double (eps 1.1e-19) is accurate enough to serve as the reference for float and double results; the reference "
                 "condition numbers are Frobenius-norm values computed from a full-pivoting Gauss-Jordan inverse",
                 "floating inputs are restricted to the stated domains (condition number bounds, matrices within 3 eps of a rotation); singular and "
                 "ill-conditioned matrices are outside the property",
                 "the constant 64 in the residual bounds and the DEG tolerances (1e-6 double, 2e-3 float) are choices, justified in the rule; the "
                 "largest observed error/tolerance ratios of worker 0 are in the samples and a histogram of the ratios >= 0.1 of all workers is in "
                 "the 'margin:' classes of every run",
                 "Matrix3::operator* is only used on affine operands (documented restriction); glibc's sin/cos/acos/asin/atan2 are accurate to 1-2 ulp"],
)
