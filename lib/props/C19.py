from registry import rc, fuzz

PROP = dict(
    parts=[rc('C19_date', quick_workers=4, thorough_workers=16, quick_timeout=300, thorough_timeout=1500),
           fuzz('C19_dateparse', quick_runs=1500000, thorough_runs=32000000, thorough_jobs=8, max_len=40, quick_timeout=120, thorough_timeout=600)],
    floor=dict(quick=5000000, thorough=15000000),
    rule=("Enumerated completely (exhaustive parts): (1) every day 0001-01-01..9999-12-31 (3,652,059 days) at 00:00:00, 12:00:00 and "
          "23:59:59 = 10,956,177 instants; (2) every second of 20 sampled days in a quick run (12 fixed: 0001-01-01, 9999-12-31, "
          "1970-01-01, 1969-12-31, 1904-01-01/02 and 2098-12-31/2099-01-01 = the limits of the 1904-2098 fast path, 2000-02-29, "
          "1900-02-28, 2100-03-01, 1600-12-31; 8 more rotating with VERIF_SEED through the remaining 188) and of all 200 in a thorough run "
          "(leap days, century and 400-year edges, range ends, 2038, a fixed pseudo-random fill with month ends). For each instant t: "
          "Date(t).splitUTC() year/month/day/hours/minutes/seconds/weekDay == the fields computed by an independent civil-from-days "
          "implementation (harness/common/ref_civil.h, audited at every start against a day-by-day odometer and digests computed with "
          "python's datetime over all 3,652,059 days and 10,000 instants); the local-time accessors compared with the same reference fields (the driver sets TZ=UTC, so local == UTC): split() at every "
          "instant, year()/month()/day()/hours()/minutes()/seconds()/weekDay() at every second of the sampled days and at one of the three "
          "instants of every day (00:00:00 / 12:00:00 / 23:59:59 rotating with the day number), and on the fractional instants of (4) with the "
          "same carry rule as splitUTC; Date(Date::UTC, fields).time() == t exactly; "
          "Date(Date(t).toUTCString(F)).time() == t for F in LONG, SHORT, HTTP and within 1 ms for FULL. (3) all zone offsets "
          "-23:59..+23:59 in the +-hh (whole hours), +-hhmm and +-hh:mm forms, basic and extended, on one instant each. "
          "Generated (rapidcheck, shrinking; and in bulk from a SplitMix stream seeded by VERIF_SEED/worker whose draws are written into "
          "the cases -- 120 k + 150 k cases per quick worker, 1.5 M + 1.5 M per thorough worker): (4) instants X + 0.d with 1..9 fraction digits, X on sampled / random days at second 0, 59, xx:59:59, "
          "23:59:59 or random, fractions biased to the last half millisecond (>= .9995), the rounding point .9995 +- 1e-8, the first half "
          "millisecond and x.xxx5 points: splitUTC gives the fields of the civil second containing the instant (within the last "
          "millisecond before the next second the fields of that next second are accepted too, but all seven fields must belong to the same "
          "second), FULL round trip within 1 ms (+2 ulp), LONG/SHORT/HTTP return that civil second; (5) ISO 8601 texts written by the "
          "harness from reference fields: basic/extended x with/without seconds x zone Z, +-hh, +-hhmm, +-hh:mm x optional fraction of "
          "1..9 digits; Date(text).time() == local seconds - offset (+ fraction, within 4 ulp); local day in 0001-01-02..9999-12-30 so "
          "that the UTC instant stays inside years 1..9999; (6) arbitrary strings of length <= 40 (lengths biased to 8/10/13/15/16/19/20/24/29/40) "
          "over digits, T Z : - + . letters and space: character soup, valid ISO/HTTP texts with up to 3 replace/delete/insert/truncate "
          "edits, date-shaped texts with out-of-range fields, one wrong separator, long fractions and odd zones; plus a libFuzzer "
          "campaign over the same alphabet (max_len 40, seeds = one valid text per form). For (6) only termination and ASan silence are "
          "required (result NaN or any value); texts are parsed from heap-allocated String objects (15 bytes end with the object, >= 19 "
          "bytes sit in a heap block of exactly length+1 bytes). Non-trivial: every enumerated instant (distinct by construction); "
          "fractional instants in the first/last half millisecond or at second 0 / 86399 of a day; ISO texts with a non-zero offset; "
          "strings that are date-like by a syntactic test (4 leading digits and >= 8 characters, or a capital first letter and >= 5 "
          "spaces). Distinct = by construction (enumerated) or distinct FNV-1a hash of the case (generated, fuzzer)."),
    assumptions=["the process runs with TZ=UTC (checked at start: TZ == 'UTC' and localOffset() == 0 on probe instants, otherwise the run is an "
                 "infrastructure error): under it the local-time accessors split(), year(), month(), day(), hours(), minutes(), seconds(), "
                 "weekDay() must give the UTC calendar fields; a replay outside TZ=UTC skips these comparisons",
                 "the harness's reference calendar (days-from-civil / civil-from-days in a March-based 400-year era) is right; it is audited at every "
                 "start against a day-by-day odometer and against digests computed with python's datetime",
                 "TZ=UTC and LC_ALL=C (set by the driver); local-zone behaviour (texts without zone designator, the Date(y,m,d,...) and "
                 "Date(text, format) constructors) is not part of the property and not checked",
                 "an instant is a double; at year 9999 its resolution is 3e-5 s, so a 9-digit fraction denotes the nearest representable instant",
                 "the last second of year 9999 is not used as the base of a fractional instant (rounded to the millisecond it would be an instant "
                 "of year 10000, which has no 4-digit ISO year)",
                 "'to the millisecond' is read as |parsed - t| < 1 ms, and the calendar fields of an instant within 1 ms before a second "
                 "boundary may be those of the following second (asl rounds to the nearest millisecond before splitting)",
                 "AddressSanitizer reports every access outside the String's storage for texts of 15 or >= 19 bytes; for other lengths asl's "
                 "String keeps 1..15 spare bytes behind the terminator, reads of which are in bounds of its storage"],
)
