from registry import rc, fuzz

PROP = dict(
    parts=[rc('C19_date', quick_workers=4, thorough_workers=16, quick_timeout=300, thorough_timeout=1500, confirm='flaky'),  # flaky: the 'mt' op races threads
           fuzz('C19_dateparse', quick_runs=1500000, thorough_runs=32000000, thorough_jobs=8, max_len=40, quick_timeout=120, thorough_timeout=600)],
    floor=dict(quick=5000000, thorough=15000000),
    rule=("Enumerated completely (exhaustive parts): (1) every day 0001-01-01..9999-12-31 (3,652,059 days) at 00:00:00, 12:00:00 and "
          "23:59:59 = 10,956,177 instants; (2) every second of 20 sampled days in a quick run (12 fixed: 0001-01-01, 9999-12-31, "
          "1970-01-01, 1969-12-31, 1904-01-01/02 and 2098-12-31/2099-01-01 = the limits of the 1904-2098 fast path, 2000-02-29, "
          "1900-02-28, 2100-03-01, 1600-12-31; 8 more rotating with VERIF_SEED through the remaining 188) and of all 200 in a thorough run "
          "(leap days, century and 400-year edges, range ends, 2038, a fixed pseudo-random fill with month ends). For each instant t: "
          "Date(t).splitUTC() year/month/day/hours/minutes/seconds/weekDay == the fields computed by an independent civil-from-days "
          "implementation (harness/common/ref_civil.h, audited at every start against a day-by-day odometer and digests computed with "
          "python's datetime over all 3,652,059 days and 10,000 instants); the local-time accessors compared with the same reference fields (the driver sets TZ=UTC, so local == UTC): split() at every "
          "instant, year()/month()/day()/hours()/minutes()/seconds()/weekDay() at every second of the sampled days and at one of the three "
          "instants of every day (00:00:00 / 12:00:00 / 23:59:59 rotating with the day number), and on the fractional instants of (4) with the "
          "same carry rule as splitUTC; Date(Date::UTC, fields).time() == t exactly; "
          "Date(Date(t).toUTCString(F)).time() == t for F in LONG, SHORT, HTTP and within 1 ms for FULL. (3) all zone offsets "
          "-23:59..+23:59 in the +-hh (whole hours), +-hhmm and +-hh:mm forms, basic and extended, on one instant each. "
          "(3b) other time zones: the case itself sets TZ (setenv + tzset) to one of 13 POSIX rule strings and restores it: fixed offsets "
          "+5, -8, +12, -11, +14, -12, +1 h, the DST zones CET-1CEST,M3.5.0,M10.5.0/3, EST5EDT,M3.2.0,M11.1.0, "
          "NZST-12NZDT,M9.5.0,M4.1.0/3, and +5:30, +0:45, -3:30. Failing oracles under the zone (only what the statement claims): "
          "toString(LONG/SHORT/FULL) [local time, no zone designator] parses back to t (FULL within 1 ms); toUTCString(LONG/HTTP) parses back to "
          "t; the zone-less LONG text T with the zone's numeric offset appended (+hh:mm) parses to civil(T) - offset (T read by the harness); "
          "splitUTC == reference fields and Date(UTC, fields) == t whatever TZ is. Observed only (class counters zones.obs.*, never a "
          "failure, because the statement does not claim true local time): localOffset() == the zone's offset (harness/common/ref_tz.h: own "
          "evaluation of the POSIX rule, audited against libc's tm_gmtoff at every start), split()/accessors == fields of t + offset, "
          "Date(y,m,d,h,mi,s) of the local fields == t. Instants: New Year +-14 h hourly for every year 2..9999 (quick: one zone per "
          "instant rotating, every zone for 1969..2039; thorough: every zone, exhaustive), every 97th day x 3 times, every 61st second of the "
          "sampled days, and pseudo-random (zone, instant) pairs biased to year ends and to the edges of the excluded windows. Excluded by "
          "construction (counted as zones.skipped_*): instants within 2 h of a DST transition in 1970..2037 (the repeated local hour is "
          "inherently ambiguous; nothing else fails there on the unchanged tree), within 12 days of a rule transition in other years (asl "
          "documents an approximate offset outside the epoch: it evaluates the zone at an instant of 1972 in the same season, so its repeated "
          "hour lies -3.8..+5.3 days from the rule's), and the three minute-offset zones outside 1970-01-02..2037-12-31 (the unchanged tree "
          "breaks the zone-less round trip there, see DESIGN.md). (3c) threads: 1-4 std::threads, each with its own Date/String objects, do "
          "100-300 HTTP/LONG/FULL round trips in UTC on their own instants while parsing HTTP-shaped junk ('Xxx, 01 Qqq 2000 00:00:00 GMT' "
          "with fresh 3-5 letter tokens) in between: every round trip must still give its instant; ASan watches the shared state. "
          "Generated (rapidcheck, shrinking; and in bulk from a SplitMix stream seeded by VERIF_SEED/worker whose draws are written into "
          "the cases -- 120 k + 150 k cases per quick worker, 1.5 M + 1.5 M per thorough worker): (4) instants X + 0.d with 1..9 fraction digits, X on sampled / random days at second 0, 59, xx:59:59, "
          "23:59:59 or random, fractions biased to the last half millisecond (>= .9995), the rounding point .9995 +- 1e-8, the first half "
          "millisecond and x.xxx5 points: splitUTC gives the fields of the civil second containing the instant (within the last "
          "millisecond before the next second the fields of that next second are accepted too, but all seven fields must belong to the same "
          "second), FULL round trip within 1 ms (+2 ulp), LONG/SHORT/HTTP return that civil second; (5) ISO 8601 texts written by the "
          "harness from reference fields: basic/extended x with/without seconds x zone Z, +-hh, +-hhmm, +-hh:mm x optional fraction of "
          "1..9 digits; Date(text).time() == local seconds - offset (+ fraction, within 4 ulp); local day in 0001-01-02..9999-12-30 so "
          "that the UTC instant stays inside years 1..9999; (6) arbitrary strings of length <= 40 (lengths biased to 8/10/13/15/16/19/20/24/29/40) "
          "over digits, T Z : - + . letters and space: character soup, valid ISO/HTTP texts with up to 3 replace/delete/insert/truncate "
          "edits, date-shaped texts with out-of-range fields, one wrong separator, long fractions and odd zones; plus a libFuzzer "
          "campaign over the same alphabet (max_len 40, seeds = one valid text per form). For (6) only termination and ASan silence are "
          "required (result NaN or any value); texts are parsed from heap-allocated String objects (15 bytes end with the object, >= 19 "
          "bytes sit in a heap block of exactly length+1 bytes). Non-trivial: every enumerated instant (distinct by construction); "
          "fractional instants in the first/last half millisecond or at second 0 / 86399 of a day; ISO texts with a non-zero offset; "
          "strings that are date-like by a syntactic test (4 leading digits and >= 8 characters, or a capital first letter and >= 5 "
          "spaces). Distinct = by construction (enumerated) or distinct FNV-1a hash of the case (generated, fuzzer)."),
    assumptions=["POSIX TZ rule strings are honoured by libc without tzdata (checked: the harness's offsets are compared with tm_gmtoff at start); "
                 "setenv/tzset happen only on the main thread while no other thread runs; the thread part uses the UTC API only (asl's "
                 "localOffset() calls localtime()/gmtime(), whose static buffers make the local-time API non-reentrant by design of libc)",
                 "the process runs with TZ=UTC (checked at start: TZ == 'UTC' and localOffset() == 0 on probe instants, otherwise the run is an "
                 "infrastructure error): under it the local-time accessors split(), year(), month(), day(), hours(), minutes(), seconds(), "
                 "weekDay() must give the UTC calendar fields; a replay outside TZ=UTC skips these comparisons",
                 "the harness's reference calendar (days-from-civil / civil-from-days in a March-based 400-year era) is right; it is audited at every "
                 "start against a day-by-day odometer and against digests computed with python's datetime",
                 "TZ=UTC and LC_ALL=C (set by the driver); local-zone behaviour (texts without zone designator, the Date(y,m,d,...) and "
                 "Date(text, format) constructors) is not part of the property and not checked",
                 "an instant is a double; at year 9999 its resolution is 3e-5 s, so a 9-digit fraction denotes the nearest representable instant",
                 "the last second of year 9999 is not used as the base of a fractional instant (rounded to the millisecond it would be an instant "
                 "of year 10000, which has no 4-digit ISO year)",
                 "'to the millisecond' is read as |parsed - t| < 1 ms, and the calendar fields of an instant within 1 ms before a second "
                 "boundary may be those of the following second (asl rounds to the nearest millisecond before splitting)",
                 "AddressSanitizer reports every access outside the String's storage for texts of 15 or >= 19 bytes; for other lengths asl's "
                 "String keeps 1..15 spare bytes behind the terminator, reads of which are in bounds of its storage"],
)
