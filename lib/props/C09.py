from registry import rc, fuzz

PROP = dict(
    parts=[rc('C09_http_parse', quick_workers=4, thorough_workers=16, quick_timeout=300, thorough_timeout=2400, confirm='flaky', confirm_runs=3, replay_timeout=60),
           fuzz('C09_request', quick_runs=120000, thorough_runs=1600000, quick_jobs=2, thorough_jobs=8, max_len=4096, hang=True, unit_timeout=20,
                quick_timeout=300, thorough_timeout=2400)],
    floor=dict(quick=100000, thorough=1000000),
    technique='structure-aware libFuzzer target + rapidcheck request-as-sent model with every cut offset + bounded-exhaustive enumeration of request targets and URL strings, ASan, hang bound',
    rule=("Every stream is fed to HttpServer's connection loop in-process (one end of a socketpair wrapped in Socket(fd) and passed to the public "
          "SocketServer::serve entry; the peer's end has been written and half-closed or closed before the server runs; a recording subclass notes what "
          "serve(request,response)/handleOptions are handed and answers with text / echo / chunked / serveFile under a web root in build/tmp/<pid> / put(File)). "
          "(A, fuzz + 'hostile') structure-aware streams: request-line pieces (methods, targets from dot/slash/percent/NUL/backslash/?/# tokens and the web "
          "root's names, versions, separators, line ends), a header dictionary (Content-Length right / too large / too small / negative / non-numeric / huge, "
          "Transfer-Encoding values, 25 Range shapes, Expect, Connection, Upgrade, Origin, Host, If-Modified-Since, colon-less lines, leading-colon lines, "
          "continuation lines, 16000-byte lines, random bytes), chunked bodies with good / oversized / huge / negative / non-hex / empty sizes, extensions and "
          "missing terminators, 1-3 pipelined requests, byte mutations and a cut offset; libFuzzer additionally mutates raw corpus requests. Oracles: ASan, "
          "hang bound (expected < 1 ms; in-harness watchdog: 10 s wall with >= 5 s CPU in the serving thread, or 60 s wall; libFuzzer -timeout=20; confirmed by replay), no '..' in path() on the bytes [0,length()) of "
          "every request handed over, no request without a method, route matching on every request handed over - request.is(pattern), is(method, pattern), suffix() with patterns derived from the path (exact, last byte changed, prefix + *, path + *, fixed prefix longer than the path by 1/20/60/200 bytes + *, near miss + *; 4 patterns always, 16 for a quarter of the paths) - agrees with a plain prefix comparison (and stays in bounds: paths of 16+ bytes are heap Strings), the reply never contains the content of a file placed outside the web root. "
          "(B, 'fidelity') 1-3 well-formed requests per stream described semantically (method incl. custom tokens, decoded path, distinct query pairs, "
          "header names distinct case-insensitively with values of VCHAR/SP/HTAB/obs-text, body bytes) plus encoding choices (which bytes are "
          "percent-encoded and hex case, '+' or %20, fragment after or before the query, name case on the wire and in the lookup, 0/1/several SP/HTAB around the "
          "value, 1-3 obs-fold continuation lines, Content-Length or chunked with chunk sizes 1..body around the 16000-byte block, hex case, leading zeros, "
          "chunk extension, HTTP/1.0, Connection, Expect: 100-continue, framing headers at random positions), written by an independent writer; the handler "
          "must see exactly these requests in order up to the first one that closes the connection (method, path(), protocol, query(k) and the query "
          "dictionary, header(name in another case), no header that was not sent, body; the handler holds the const String& returned by query(k) for every sent key, then looks up one or two parameters and a header that were NOT sent (must be empty), reads again through the held references and enumerates query() / headers() again: same values, exactly the sent parameters (requests with exactly 3, 6, 12, 24 parameters - the growth steps of the dictionary's array - are generated); for every stream of every part query() must enumerate the same before and after the lookup of an absent key); folded values are compared modulo SP/HTAB. Each stream is then cut "
          "at every byte offset of every head and at 48 (thorough 400) offsets of every body, in half-close and full-close mode: requests delivered completely "
          "are handed over exactly, a request whose head is incomplete is never handed over, one cut inside its body is dropped or handed over with a prefix "
          "of the body. ('fragments') 2-3 pipelined keep-alive requests of the same kind (HTTP/1.1, no 'close', mostly Content-Length bodies) delivered to the "
          "server in 2-6 separate bursts by a feeder thread: it sends a piece, waits until the server has consumed it (TIOCOUTQ of the sending end back to 0), "
          "pauses 1-3 ms, sends the next, finally half-closes; piece boundaries are generated by kind (inside a body that is followed by another request - near "
          "its start / end / anywhere -, inside any body, inside a head, exactly at a message boundary or end of head, anywhere); same oracle: every request "
          "handed over equals the one sent, in order, none lost; in a third of these streams a SIGUSR1 (no-op handler installed without SA_RESTART) is sent with "
          "pthread_kill to the thread serving the connection in one or more gaps between bursts (after the burst was consumed and the pause, i.e. while the reader waits in "
          "select(); inside a Content-Length body, a chunked body, a head, between requests): the library may then give the connection up, so requests may be "
          "missing from some point on, but whatever is handed over must equal what was sent (no truncated body). ('badline') the same as fidelity with one colon-less line inside the last header block: that request is dropped or handed over intact. "
          "(C, 'targets') ALL request targets of byte length <= 9 (thorough 12) over {. / a %2e %2E %2f %25} and <= 6 (thorough 7) over that alphabet plus "
          "{? # %00 %5c}, served by serveFile, plus random targets of up to ~60 tokens incl. '..', '/../', %2e%2e, %252e. ('files') GET/HEAD of existing / "
          "missing / directory paths with Range specs from a grammar over boundary numbers (0,1,9,10,11,15999..16001,39999..40001,2^31-1,2^31,2^32,-1, empty, "
          "non-numeric), malformed specs, If-Modified-Since shapes, keep-alive follow-up request. (D, 'url') Url(String) (+query(), params()) and Url::decode on "
          "strings <= 40 over ': / ? # [ ] @ % . 0 9 a f' and arbitrary bytes, ALL strings of length <= 6 (thorough 7) over ':/[]@%a0', in heap String "
          "objects: fields in bounds and terminated, decode == reference on well-formed escapes; well-formed URLs written from (scheme, host or bracketed "
          "IPv6, port, path) must parse back to those parts. Non-trivial: hostile/fuzz stream that reaches the handler or is cut; every fidelity / badline / fragments (>= 2 bursts) "
          "case; target containing an encoded dot or slash (enumerated) or longer than 12 bytes (random); file request with a Range header; URL string "
          "containing '[', '%' or '://'. Distinct by FNV-1a hash of the case / fuzz stream, enumerated parts distinct by construction."),
    assumptions=["except in the 'fragments' part the peer's end of stream is signalled before the server loop runs (deterministic view); in 'fragments' the bursts are "
                 "separated by waiting for the server to drain the socket plus a 1-3 ms pause (the count of bursts consumed before the next was sent is a class); "
                 "AF_UNIX socketpair instead of TCP",
                 "the hang bound (10 s wall and 5 s CPU, or 60 s wall; 20 s in the libFuzzer target) can prove a hang, not its absence; it is 10^4..10^5 times the expected duration of one stream",
                 "allocations above 32 MiB fail under ASan (max_allocation_size_mb): a Content-Length of gigabytes makes the library throw std::bad_alloc out of "
                 "the connection loop, which is counted as 'connection dropped' (class bad_alloc) - no clause of the property covers resource reservation",
                 "obs-fold joints are compared modulo whitespace; transfer-coding names other than the exact token 'chunked', chunked trailers, duplicate header "
                 "names / query keys and Content-Length values with leading zeros are not generated in the fidelity part (undefined by the property)",
                 "response bytes are only checked for not leaking the file outside the web root (response correctness belongs to C10)"],
)
