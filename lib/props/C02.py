from registry import rc

PROP = dict(
    parts=[rc('C02_maps', quick_workers=4, thorough_workers=16, quick_timeout=300, thorough_timeout=3600)],
    floor=dict(quick=3000, thorough=60000),
    rule=("Generated (rapidcheck, shrinking): operation histories of up to 120 ops (thorough 200) over three slots of one container kind, "
          "for each of Map<int,int>, Dic<String>, Map<int,String>, HashMap<int,int>, HashDic<int>, Set<int>, Set<String>; every slot has a std::map / std::set "
          "model. Ops: set, m[k]=v, m[k] (inserting read), const m[k], get(k,def), find (const and non-const), has, remove(k), remove of "
          "the j-th present key, overwrite of the j-th present key, clear, default / sized construction HashMap(n), Set(n) with n in 1..600, "
          "Map(k,v), initializer lists, clone (Set: copy+dup), dup, read-only copy, Map::add / Set<<Set merges (also with itself), keys(), kv(), "
          "bulk insertion of 3..240 keys (thorough ..1800: two table growths of the default table) with strides 1/3/8/256/2048/-1/-256, "
          "==/!= in both argument orders, 'setref' (insert or overwrite through set(k1, v) / operator()(k1, v) with v passed BY REFERENCE to "
          "the value of the j-th entry of the same container - m[k2], *find(k2), get(k2,def), const m[k2]; model: the value as it was before "
          "the call; only forms where the library function itself receives the reference, never m[k1] = m[k2]), 'conv' (Map<int,int> only: the converting constructors Map<String,int>(Map<int,int>), "
          "Dic<int>(Map<int,int>), Dic<double>(Dic<int>) and Map<int,int>(Map<double,int>) with source keys k/2 that merge on truncation; the "
          "result must be ascending in the target key order with every converted key found once, and stay so under overwrite / remove of "
          "existing keys and == against the same contents built by plain insertions; for merging keys only length, strict ascent, "
          "lookup/enumeration consistency and 'value is one of the merging source values' are asserted), 'clonemove' (two maps of equal "
          "length differing in one key that carries the default value on both sides, then compared), 'rebuild' (the same contents inserted reversed / interleaved / rotated into a fresh container of "
          "another table size, then compared), clone-then-change-one-value / swap-one-member then compare; Set: <<, every third add instead through the inherited HashMap<T,int>::set(x, 0), >>, contains(x), "
          "contains(set), containsAny, +, &, -, in(), notIn(), array(), Array conversion, construction from Array (with duplicates) and from "
          "initializer lists of 0..4 items. Keys come from adversarial pools: ints b+256j and b+2048j (one bucket in every table size up to "
          "2048), other multiples, negatives, INT_MIN/INT_MAX; Strings from a family of 64 twelve-byte strings with one and the same 33h+c hash "
          "(\"Ab\"/\"BA\" blocks), strings sharing a 100-byte prefix (differing in the last byte or proper prefixes of each other), the empty "
          "string, bytes 0x01/0x7f/0x80/0xff; ordered kinds use dense small keys so that sizes 0..3 dominate. Oracle after every op, for the "
          "touched slots (all three while they hold <= 48 entries) and for all slots at the end: length() == model size; has/find true with "
          "the latest value for every model key; has/find false for every absent key mentioned in the case or removed earlier; Enumerator, "
          "foreach/foreach2 and range-for each visit exactly the model's entries once, in ascending key order for Map/Dic; equality and set "
          "algebra results equal the model's; operands unchanged. At the end of a case all containers are destroyed and the allocated byte "
          "count (ASan allocator statistics) must equal its value before the case (a first mismatch is re-run once to discount one-time "
          "statics). Plus an exhaustively enumerated part: every ordered map (Map<int,int> and Dic<String>) of 0..4 keys built ascending and "
          "descending x every probe position (below, on, between, above the keys) x {find, get, const [], set, []=, [] read, remove}. "
          "A second enumerated part: set(k1, <reference to an own entry>) for every Dic<String> / Map<int,String> of 1..13 entries (length == "
          "capacity at 3, 6, 12), aliased entry first / middle / last, k1 below all / just below / just above the aliased key / above all / "
          "an existing key, x the five call forms. "
          "A third enumerated part: every constructor with degenerate arguments (Set from arrays of 0, 1, 2, 3 items with and without "
          "duplicates, empty and 1-item initializer lists, Set(n)/HashMap(n)/HashDic(n) for n = 1, 2, 3, default construction, Map/Dic from "
          "an empty initializer list and Map(k,v)) x the other operand empty or not x each op of the mix (incl. merge, union, intersection, "
          "difference, containment and == with the empty container on either side, clone / copy / dup of it) x a tail that uses the "
          "container again; the random generator also draws array lengths 0..2 and empty initializer lists. n = 0 for the sized "
          "constructors is not generated (zero-bucket table on the unchanged tree). "
          "Non-trivial: hash kinds - the history overwrites or removes a key that sits in a bucket chain of >= 2 nodes (determined from the "
          "table before the op), or makes a table grow, or evaluates == on two equal containers that enumerate in different orders; ordered "
          "kinds - lookups on maps of size <= 3 that hit a present key and at least three different (size, insertion point) not-found "
          "outcomes. Distinct = distinct FNV-1a hash of (kind, serialised history)."),
    assumptions=["std::map / std::set (libstdc++) are correct reference models; std::string comparison equals strcmp order on NUL-free keys",
                 "keys and String values are NUL-free; HashMap(n)/Set(n) are constructed with n >= 1 only (n = 0 is an undocumented degenerate size)",
                 "second handles are clones (or read-only copies dropped before the next mutation): mutation through aliasing handles is the "
                 "subject of C01/C12 (known finding KF-1), self-assignment of a handle is not among the operations the statement lists",
                 "the table size / bucket chains read through HashMap's public members `a` and binOf() are used for classifying cases only, "
                 "never by an oracle",
                 "AddressSanitizer reports every access outside live storage; its allocated-bytes counter is exact in a single-threaded process"],
)
