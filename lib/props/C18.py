from registry import rc

PROP = dict(
    parts=[rc('C18_inicsv', quick_workers=4, thorough_workers=16, quick_timeout=900, thorough_timeout=3600)],
    floor=dict(quick=1500, thorough=20000),
    rule=("Two generated parts (rapidcheck, shrinking), files under build/tmp/<pid>/. "
          "ini: an INI text of 0..25 lines from the grammar - optional key lines before the first section, [name] headers (identifier names, unique), "
          "key lines 'k=v' / 'k = v' / 'k= v' / 'k =v' with identifier keys (unique per section; pools with prefixes of each other and case variants, "
          "random identifiers up to 40 chars) and values without leading/trailing blanks or line breaks (may be empty, contain = # ; [ ] / \\ \" TAB "
          "and bytes >= 0x80, up to 400 bytes), comment lines starting with # or ; (optionally indented), blank lines; an optional common indent (2 or "
          "4 blanks, TAB) on all key lines; LF or CRLF; with or without a newline after the last line - followed by a history of up to 24 ops: "
          "set(\"section/key\", v) on existing keys, new keys in existing sections, new sections (<= 20 sets), set(\"key\", v) without a slash only "
          "when the current section can only be the keys before the first section (such keys exist in the file, or the file has lines but no "
          "section), explicit write(), and reopen (destroy the object, which writes, construct a new one on the path). Oracle (model = map "
          "(section,key)->value plus the list of comments / headers / entries of the file as last opened, built by an independent reader): for the "
          "untouched file, after every explicit write(), every reopen and the final destruction, two fresh default-constructed IniFile objects one "
          "after the other (the first is destroyed in between, i.e. an IniFile with zero sets) must be ok() and return every set value and every "
          "untouched value through const operator[], operator(), has(), values() and values(section); new keys whose value is the empty string may "
          "be absent (operator[] returns \"\" either way) but are counted; in the raw file, after removing the entries and headers that are new since "
          "the last open, the comment lines (verbatim), section headers and entries must be exactly the original ones in the original order with "
          "the current values; the live object must answer has()/[] with the value just set. "
          "inilong: small files (0..5 lines) and 1..5 sets that create sections, keys and values whose lengths lie around the 255/256-byte buffer of the "
          "library's formatting helper (248..262 uniformly, 251..257 and 509..513, and 1..600), also for names already in the file; same oracle. "
          "inidup: files in which a key has 2..3 lines with different old values (in one section, before the first section, or under a repeated section "
          "header) and that key is set(): every fresh reader returns the set value; in the raw-file check only the LAST line of a key is judged (what a "
          "reader takes), unset duplicated keys are modelled by their last line. "
          "csv: tables of 1..8 uniquely named identifier columns (given by columns(Array), columns(\"a,b\") or the constructor) and 0..30 rows of "
          "cells: ints (full 32-bit range and small), doubles (random bit patterns mapped into {0,-0} U [2^-962, 2^963), powers of ten, decimal "
          "fractions, 15- and 16-digit values, products with 1e+-30, 1e+-200), empty strings, strings of up to 60 chars (a few of 248..262 and up to 600) over letters, digits . - + "
          "(never first), blank , ; \" ' _ % including the hand-picked quote/separator shapes and percent shapes (X% full, %s, %d, % d, %%, %5.2f; never a %n form); tables of >= 2 columns also with setSeparator(';') + setDecimal(',') (the format the reader infers from a ';' header; string "
          "cells then do not start with ',') and with setSeparator(TAB); separators '|' and ' ' (any column count) and ';' for one-column tables, which cannot be recognised from the header, are set with setSeparator() on writer AND reader; rows written cell by cell with << (int, double, "
          "String, const char*) or as one array Var. Oracle: the file is read back with data() and with nextRow() + operator[](int) + "
          "operator[](name): column names, row count and row lengths equal, string cells come back as strings with identical bytes, int cells as "
          "numbers equal to the int, double cells as numbers with |r-x| <= 6e-15|x| (rounding to 15 significant digits moves a value by at most "
          "5e-15|x|; 1e-15|x| is allowed for the reader's arithmetic). "
          "Non-trivial: ini - text with >= 2 sections and a comment, and >= 1 set on an existing and >= 1 on a new key; csv - a table with a number "
          "cell and a string cell containing a quote or a comma. Distinct = distinct FNV-1a hash of the serialised case."),
    assumptions=["the harness's own INI line reader (split at LF, strip CR, [name] at column 0, # or ; comments, first '=' splits, blanks trimmed) is right; it is "
                 "used for the model and the order check, never asl's",
                 "section names and keys are unique identifiers (duplicate keys or headers make 'the value' ambiguous); set values have no leading/trailing blanks",
                 "IniFile objects are constructed with the default shouldwrite=true; the deprecated section()/arraysize()/array() interface is not used",
                 "CSV string cells never start with a digit, '-', '.' or '+' (CSV carries no types: such a string is a number to the reader); doubles are 0 or "
                 "within [1e-290, 1e290]; float (7-digit) cells, NaN and infinities are not generated; separator/decimal are ',' '.', or ';' ',' or TAB '.' set on the writer and inferred by the reader from the header (so only with >= 2 columns); ';' with '.' is not a format the reader can infer",
                 "AddressSanitizer reports every out-of-bounds access of the line/section bookkeeping"],
)
