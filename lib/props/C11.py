from registry import rc, fuzz

PROP = dict(
    parts=[rc('C11_websocket', quick_workers=4, thorough_workers=14, quick_timeout=900, thorough_timeout=3400, confirm='flaky', confirm_runs=3, replay_timeout=300),
           fuzz('C11_frames', quick_runs=360000, thorough_runs=3400000, quick_jobs=2, thorough_jobs=2, max_len=512, hang=True, unit_timeout=60)],
    floor=dict(quick=100000, thorough=1000000),
    technique='rapidcheck-generated message / frame scripts + bounded-exhaustive enumerators (every length at the header-format boundaries, every cut offset, hostile header grid) + libFuzzer, against an independent RFC 6455 codec, ASan',
    rule=("(loop) library WebSocket::connect clients against a library WebSocketServer on 127.0.0.1 port 0 (port read back), directly and through "
          "HttpServer::link: scripts of 1-20 messages, each client->server, server->client or echoed, text (NUL-free) or binary, through every send() overload; "
          "EVERY length 1..300 and 65495..65576 in all 6 direction/type combinations, rapidcheck lengths biased to +-40 of 125/126/65535/65536 and sampled "
          "up to 70000, 200000 and 1 MiB once per run (1, 2, 4 MiB thorough); in one session of four the client object first makes a connect() that is refused (a port bound but not listening) and the following connect() must work as on a fresh object; ONE client WebSocket object is reused inside a case: connect, exchange, close(), connect() again to the same or the other server "
          "(32 dedicated cases of 2-5 rounds in quick / 400 thorough whose reused object receives 124..128, 65534..65537, 300, 70000 bytes, plus `conn` ops "
          "interleaved in ~1/9 of the generated positions); the two ends wait for their messages in generated STYLES: blocking wait (the documentation's loop), polling `while(!closed()){if(!hasInput())continue;...}`, "
          "polling on connected(), wait(0.3 ms) / waitData(0.3 ms) loops whose timeouts expire between messages -- with the sender paced on the echo (every frame lands on an "
          "empty queue: bursts of 250 echoed messages), streaming (120 each way) and pausing 0.7-2 ms; 9 style pairs x every run + styles on ~45% of the generated sessions; "
          "FULL DUPLEX steps: a sending and a receiving thread on the same WebSocket object at both ends, 1500-3000 messages each way at the same time (3 cases per worker "
          "and run in quick); both ends compare the sequence of non-empty receive() results with the "
          "script (payloads are a pure function of (type, length, seed) written in the case) and an end marker proves nothing extra arrived. "
          "(in) WebSocket(Socket(fd), role) over one end of a socketpair, fed frames built by an independent RFC 6455 codec (harness/common/ref_ws.h): "
          "both roles, masked and unmasked, mask keys random / zero / with 1-3 zero bytes / single-bit, 1-4 fragments at generated split points "
          "(including empty fragments and 4-byte-misaligned splits), pings and pongs (0-125 bytes) between and inside fragmented messages, minimal and "
          "non-minimal length forms, stream ended by EOF / empty close / close 1000 / close 1000 with a reason text (the library hands the reason out through receive(): accepted, "
          "checked like a message), delivered at once or in 1/3/7/1000-byte pieces; a silent peer: one case per worker with a pause of 5.5-6.5 s between two fragments (also with a ping "
          "before the pause), between two messages or inside a frame while the receiver is in a blocking receive(); EVERY receive() result of every part (message, empty result, "
          "close reason) is read through every accessor of WebSocketMsg: length(), ByteArray(m), String(m), bool(m)/!m and the C-string view operator*: same bytes, "
          "terminating NUL at [length()] (ASan sees the over-read of an exactly full array), strlen == length for NUL-free payloads, String(m) with the full length and bytes for EVERY payload; binary payloads carry a 0x00 as first / last / middle byte in 3 of 4 seeds and "
          "the raw peer also sends TEXT frames with embedded 0x00 bytes; EVERY length "
          "1..300 and 65495..65576 x roles x masked x 1-4 frames; small generated scripts cut at EVERY byte offset (messages complete before the cut "
          "must arrive intact and in order; what is delivered of the interrupted message must be a prefix of it). "
          "(out) bytes written by send() on a socketpair decoded by the reference codec: FIN, opcode, declared length, minimal length form, mask bit "
          "iff client role, payload after unmasking, nothing extra; EVERY length 1..300 and 65495..65576 x roles x text/binary, rapidcheck sequences "
          "incl. ping/pong frames, 1-4 MiB in thorough; late-reader cases: 70000 B - 4 MiB messages sent while an ITIMER_REAL (1-3 ms, no-op handler, SA_RESTART) fires in the "
          "sending thread and the reader starts 100-300 ms late, so that the kernel completes the blocking send() calls in pieces (8 cases quick / 168 thorough, payload blocks exact-size "
          "under ASan in server role); the same for client->server messages of the loop part against a server that starts reading late. "
          "(hs) raw TCP client: generated 16-byte keys; header names canonical / lower / upper / mixed case; Connection value one of `Upgrade`, `keep-alive, Upgrade`, "
          "`Upgrade, keep-alive`, `Keep-Alive, Upgrade`, `TE, keep-alive, Upgrade`, `keep-alive, Upgrade, TE` (asserted) or an RFC-valid spelling the unchanged library "
          "refuses too (`keep-alive,Upgrade`, lower/upper-case token, `Upgrade: WebSocket`: sent, outcome only counted); 0-7 extra headers (Origin, protocol, "
          "extensions, User-Agent, ...); header order permuted; the 72 (path x Connection x Upgrade) combinations enumerated + generated ones; through WebSocketServer and through "
          "HttpServer::link; an eighth of the cases (+ 8 enumerated: 1, 2, 6, 25 requests x both paths) as HALF CLOSE: the peer sends all its requests, shutdown(SHUT_WR), then reads: every "
          "echo must arrive (the echo server is busy for 15 ms first, so the FIN is queued behind the requests); status 101 and Sec-WebSocket-Accept == Base64(SHA-1(key + GUID)) by the independent references of ref_codec.h, then one "
          "masked message echoed by the server and decoded by the reference. "
          "(hostile) grid role x 16 opcodes x FIN x RSV{0,7} x mask x 26 (form, declared length) pairs [0, 5, 125, 126, 65535, 65536, 2^31-1, 2^31, 2^31+5, "
          "2^32-1, 2^32-5, 2^32, 2^32+5, 2^32+2^31, 2^33-5, 2^63, 2^63+5, 2^64-1, 2^63-1, ...] x 3 payload sizes, followed by a valid frame, each stream "
          "uncut and cut at EVERY byte offset (exhaustive); rapidcheck streams of up to 5 such frames / raw garbage with arbitrary 64-bit lengths having "
          "bit 31 or higher set; libFuzzer (structure-aware records + raw bytes, each input also run cut at a generated offset): no ASan report, every "
          "receive() result has length >= 0, the receive loop ends after at most (bytes/2 + 8) results, every pong the WebSocket sends carries the payload "
          "of a complete ping of the stream (anything else is uninitialised memory sent to the peer). "
          "Non-trivial: loop/in/out case containing a message within +-40 of a header-format boundary, a fragmented message or a control frame; every "
          "cut case; every handshake; hostile stream with >= 1 complete frame header. Distinct = distinct FNV-1a hash of the case / fuzz stream, or "
          "distinct by construction for the enumerated grids."),
    assumptions=["the harness's RFC 6455 codec is right (checked at start-up against the examples of RFC 6455 sections 1.3 and 5.7 and by round trips at "
                 "every length-form boundary); SHA-1/Base64 references are audited against python's hashlib/base64",
                 "a receive() result of length 0 is the library's 'no message' value; a close frame is generated with an empty payload or a bare status code only "
                 "(the library returns a close reason text through receive(), which the property does not cover)",
                 "hang bound 60 s per blocking step (expected: micro- to milliseconds), libFuzzer -timeout=60; failures of the network parts are confirmed in fresh processes",
                 "loopback sessions: an end that waits sees the other end stuck inside receive() (entered, its socket drained, nothing being sent) and reports it after 5 s "
                 "of that unchanged state instead of after the 60 s bound (gap between a receive()'s last read and its return: microseconds)",
                 "the interval timer is armed only inside those cases; all threads but the sending one block SIGALRM (the library's select() loops treat EINTR as an error); "
                 "the send timeout of the sending socket is lifted meanwhile (a socket with SO_SNDTIMEO fails with EINTR instead of restarting)",
                 "one sending plus one receiving thread per WebSocket object is a supported use (WebSocketServer::clients() exists for broadcasting from another thread); "
                 "only delivery is asserted there, data races on the closed flag are not (ASan build, no TSan)",
                 "declared lengths between 1 MiB and 2^31-1 that are not actually sent are not generated (allocation pressure is outside the property); "
                 "TCP_NODELAY/TCP_QUICKACK are set on the loopback connections for speed only",
                 "reads of uninitialised memory are visible only through their consequences (garbage lengths, ASan's 0xbe fill pattern echoed in a pong); MSan is unavailable"],
)
