from registry import rc, fuzz

PROP = dict(
    parts=[rc('C06_decode', quick_timeout=300, thorough_timeout=3000),
           fuzz('C06_decode_fz', quick_runs=300000, thorough_runs=12000000, max_len=4096, corpus='C06', thorough_timeout=1200)],
    floor=dict(quick=20000, thorough=200000),
    rule=("Part A (libFuzzer, fuzz/C06_decode_fz.cpp): arbitrary bytes (NUL replaced by space; inputs <= 4096 bytes; seed corpus of 200 generated "
          "JSON/XDL texts); the tail of the input is decoded into 0..7 cut positions. Oracle in the target: Json::decode, Xdl::decode and "
          "XdlParser::decode agree; an XdlParser fed the chunks (each in an exact-size heap block) and the final ' ' flush gives the same "
          "value as the whole text (walker over Var accessors: same types, same bits, same keys; both rejected = equal); when the text is "
          "accepted the SAME parser object is reset() and fed the chunks, then reset() and the whole text again: same value; ASan = memory "
          "safety; libFuzzer -timeout=10 = termination. "
          "Part B (rapidcheck, harness/C06_decode.cpp): json = text-level generator of valid RFC 8259 documents together with their value "
          "(insignificant whitespace from the 4 legal characters at every slot; every escape form incl. \\/ and \\uXXXX in both hex cases, "
          "one BMP escape in four an edge of a UTF-8 length class or of the surrogate block (7f 80 81 ff 100 7fe 7ff 800 801 fff 1000 d7ff e000 fffd fffe ffff), surrogate pairs incl. U+10000/U+10FFFF, raw multi-byte UTF-8; numbers in every grammatical shape: -0, fractions up to 25 digits, "
          "e/E with +/-/no sign, exponents to 400, 8-30 digit integers, the int32 edges; duplicate and empty names, '/' in names; empty "
          "containers; top-level scalars; up to ~20 KB); the generator's value must equal the independent parser's (ref_json.h) or the run "
          "is an infrastructure error; checks: (a) accepted and equal to the reference value (numbers numerically), (b) EVERY proper "
          "prefix ending before the final closing character of a top-level array/object/string is rejected, (c) ALL 2-chunk cuts and 20 "
          "random k-chunk cuts (k <= 8) equal the whole-text result (documents over 600 bytes: positions within 100 bytes of the ends + "
          "100 evenly spaced). deep = 1..512 nested arrays/objects/alternating: (a) and (c). xdl = XDL-flavoured texts (unquoted names, "
          "= or :, Y/N, newline separators, // and /* */ comments, class prefixes), mut = documents mutated by truncation, deletion, "
          "duplication, splicing of two documents, byte flips and structural-character insertion, raw = random strings over a structural "
          "alphabet: totality and (c) only. paths = the file readers Json::read / Xdl::read (the chunked decoder behind a path) on a directory, a directory with a trailing slash, a symbolic link to a directory, a missing file, an empty file, /dev/null, a FIFO whose writer closes without writing (and a file without read permission when not running as root): the call returns (watchdog 20 s, HANG-DIAG line), no memory error, and a following read of a regular file gives its document (all kinds x both readers, enumerated). reuse = 2..6 generated documents (valid JSON, XDL-flavoured, 1/10 mutated; whole or in a random k-chunk partition) decoded in turn by ONE XdlParser object with reset() between them: every document a fresh parser accepts must give the identical value on the reused parser (reset() is relied upon only after a complete document - after a rejected one the session continues on a new object; a document a fresh parser rejects is not compared, because the unchanged reset() keeps the root list and value() then reports the previous document again); every accepted document of the other parts also gets a short reuse round (decode, reset(), 3 chunks, reset(), decode). \\u0000 and lone surrogates are never generated (excluded by the property). "
          "Non-trivial: Part A an input with a cut strictly inside a text containing one of [ { \" \\ /; json documents with >= 2 tokens; "
          "deep cases; xdl texts asl accepts; mut/raw texts of >= 4 bytes; reuse sessions with >= 2 consecutive accepted documents. Distinct = distinct FNV-1a hash of the text."),
    assumptions=["XdlParser::reset() is the interface for decoding another document with the same parser object (undocumented class; "
                 "asserted only after a complete document without an unpaired high-surrogate escape, which is what the unchanged tree supports)",
                 "harness/common/ref_json.h implements RFC 8259 (audited against python's json module: python3 lib/audit_json.py)",
                 "'the same result' for chunked feeding = identical type tags, bit-identical numbers, identical strings and key sets",
                 "AddressSanitizer reports every out-of-bounds access (parser input chunks live in exact-size heap blocks)",
                 "nesting is bounded by 512 in the conformance part and by the 4096-byte input cap in the fuzz part; deeper nesting is "
                 "known finding KF-12 (recursive ~Var)"],
)
