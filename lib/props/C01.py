from registry import rc

PROP = dict(
    parts=[rc('C01_array', quick_timeout=300, thorough_timeout=2400)],
    floor=dict(quick=5000, thorough=50000),
    rule=("Generated: operation histories (rapidcheck vector of ops, <= 120 ops quick / <= 400 thorough, shrunk natively) over four handle "
          "slots (two Array<T>, one Stack<T>, one Queue<T>; every slot takes all Array operations) for each element type T in {int, "
          "Elem = counted constructor/destructor with a heap payload, asl::String with texts on both sides of the 15/16-byte inline "
          "limit}. Ops: Array(n) / (n,x) / (ptr,n) / initializer list / array(a0..a5); copy-construct, assign and drop handles; clone, dup; "
          "<<, operator, and insert(k,x) with a fresh x AND with x = a reference to an element of the same array (also taken through "
          "another handle to it); append(other / itself / another handle to itself / ptr,n / pointer into itself with room / init list), "
          "appendMany and fill-to-capacity; remove(i,n), remove(i), removeOne(x[,i0]) (also with x = own element), removeLast, "
          "removeIf; resize and reserve to lengths around cap(), 2*cap() and absolute; clear; sort, sort(less), sortBy(asc/desc); "
          "reversed, slice(i1,i2) incl. the '0 = end' convention, concat, |, filter, map, with<K>, converting constructor and "
          "assignment, copy(other), copy(ptr,n), = {..}; element assignment a[i]=x / a[i]=a[j]; observers last, indexOf, contains, "
          "==, !=, <, !, data, range-for / Enumerator / foreach / slice_, join; Stack push/push(top(i))/pop/pop(n)/popget/>>/top/"
          "top(i); Queue put/put(q[i])/get/>>/<<. Indices and counts are taken modulo the live length so every argument is in range. "
          "Plus a scripted sweep: for every capacity 3*2^k (k=0..9), 5, 100 and the three capacities around the 2048-byte "
          "malloc/realloc switch of reserve(), an array with length()==cap() is grown by each of 21 growing operations, fresh and "
          "after having been shared+cloned. Oracle: each slot points to a shared std::vector cell (handle copies alias it; clone/dup/"
          "slice/... make a new one); after EVERY op and for EVERY live slot length(), all elements, rc() == number of aliasing "
          "slots and cap() >= length() are compared with the model; sorts are checked ordered + permutation; the number of live Elem "
          "instances equals the summed lengths of the distinct cells after every op and no Elem is assigned/copied/destroyed while "
          "not constructed; at the end the handles are dropped one by one, live count 0 and the allocated bytes return to the "
          "pre-case value; ASan decides out-of-bounds / use-after-free / double free. "
          "Added in seeding round 5: (giant) one scripted history on Array<double>/Queue<double> of 270,000,000 elements (byte counts >= 2^31) with a closed-form oracle at the ends and 2000 sampled positions. Non-trivial: a history in which at least one of these happened: content mutation through a handle while another handle "
          "aliases the array; growth across a capacity boundary; an op whose argument refers into the receiver; a remove / shrink / "
          "clear on a counted element type. Distinct = distinct FNV-1a hash of (element type, serialised history). "
          "Classes growfrom.<cap>.<path>.<type> count every capacity boundary crossed per growth path."),
    assumptions=["an Array is never grown beyond cap() while another handle shares it (known finding KF-1: the block is reallocated and the "
                 "other handles dangle); such ops are replaced by no-ops and counted in excluded_known",
                 "element types are bitwise relocatable (the container's documented requirement); Array(n)/resize() leave trivially "
                 "constructible elements indeterminate, so the harness writes new int elements before reading them",
                 "pointer-range arguments append(p,n)/copy(p,n) do not point into the receiver when it has to reallocate (as for std::vector)",
                 "indices, counts and lengths are in range (i <= i2 <= length, pop/get/top/last only on non-empty containers); comparison "
                 "functors are strict weak orders",
                 "Array::operator< is only required to be false for equal sequences (it is undocumented and not lexicographic)",
                 "AddressSanitizer reports every access outside a heap block (Array blocks are exactly cap() elements + header)"],
)
