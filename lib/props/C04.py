from registry import rc

PROP = dict(
    parts=[rc('C04_var', quick_workers=4, thorough_workers=16, quick_timeout=300, thorough_timeout=3600)],
    floor=dict(quick=2000, thorough=50000),
    rule=("Generated (rapidcheck, shrinkable): a case = four Var trees (one per slot; depth <= 5, fan-out <= 6, <= 60 nodes; leaves: "
          "int/unsigned incl. 2^31-1, 2^31, 2^32-1/double/float/bool/null/undefined/strings of length 0..40 biased to 0, 7, 8, 16 built "
          "through const char* and String, and heap strings shortened below 8 bytes; arrays built by <<, resize+[i], [i] auto-resize, "
          "Array<Var>; objects by [key], (key,value), Dic<Var>) followed by <= 60 (thorough <= 150) path-addressed ops; a path is a slot "
          "plus up to 4 index/key steps taken modulo the live container sizes. Ops: 27 kinds of typed assignment (all numeric types, "
          "bool, char, C string, String, Var(), NUL, empty array/object, Array<int/String/double/Var>, Dic<int/String/Var>, "
          "initializer lists, pseudo-literal object) through operator= and through constructors; assignment from another addressed "
          "Var by reference incl. a descendant of the target (a = a[i], a = a[\"k\"], a[i] = a[i][j]); copy-construction into a slot; "
          "[i] = x with auto-resize; [key] = x / (key, x) with auto-creation; <<  and , with literals and with addressed Vars (also own "
          "elements); removeAt(i), removeAt(i, n) incl. out-of-range arguments; remove(key); extend (also self and own property); "
          "clear; resize; clone; const [i]/[key]; conversions, is, isArrayOf, has, contains, read, getp, |, toString, Array<T>/Dic<T> "
          "conversions, foreach/foreach2/range-for; == and != between two addressed Vars in both orders, against literals, against "
          "own copies/clones, and against a freshly built Var with the same content in other representations (INT<->NUMBER<->FLOAT "
          "where exact, inline<->heap strings, recursively through containers) with and without one changed leaf. "
          "Also: in 6 of 8 sstr ops a heap string is afterwards re-assigned from its own text through operator*() (the whole text, or a tail that does not overlap its destination) and compared with a fresh Var of that text. sstr = two string assignments in a row through generated const char*/String overloads, mostly a shorter inline "
          "string (0..6 bytes, incl. proper prefixes and the empty string) over a longer inline one (1..7 bytes), followed by Var == Var "
          "against freshly built Vars of the same text in both orders, clone/copy, contains() of the parent array and the whole slot "
          "against a freshly built tree; big = a 130..400-element array / 55..200-key object (built from Array<int>/Dic<int>, or grown "
          "by << / [key]) assigned to an addressed Var; rmat 'down to a few' and rmmany (one-by-one removals from the front / back / "
          "alternating down to 0..4 elements); bigshare = a scenario on private Vars: such a large container is shared by 2..4 "
          "Vars (copy-constructed, assigned, as element of a fresh array, as property of a fresh object) plus a clone, elements "
          "are removed through ONE handle (one removeAt(i, n) or single removals, remove(key)) down to 0..5, every handle is "
          "read back completely after every step (length, all elements, sharing, reference count, Var == Var between handles), "
          "a write and a second removal go through another handle, and the handles are dropped in a generated order. "
          "selfapp = a scenario on a private UNSHARED array of length 1..50 (built by <<, resize+[i] so that capacity == length, or "
          "[i] auto-resize; ints, inline and heap strings, doubles, nested arrays): up to 52 steps of a << a[k], (a, a[k]), chained "
          "appends, a << a[last], a << a[j][1], a[i] = a[j] with the argument passed BY REFERENCE, so that the length sweeps "
          "through every capacity boundary (3, 6, 12, 24, 48, 96 and the exact-size ones); the appended value must equal the "
          "element's value before the call; full walk after every step. Own elements appended through the ordinary appv op are "
          "also passed by reference now. "
          "Every string leaf visited by the walker is additionally compared Var == Var (both orders, and !=) with a Var "
          "built at that moment from the model's text. "
          "Oracle: a reference value graph in plain STL (scalars/strings by value, arrays/objects as nodes shared by copies, clone deep). "
          "After EVERY op all four slots and all registered clones are walked through the const accessors and compared with the model: "
          "type, value, length, key order, and sharing (Vars that the model says share a container must report the same storage, "
          "others different storage; the container's reference count equals the number of Vars the model says reference it); after "
          "x = y the target equals a deep snapshot of y taken before; a clone stays equal to its frozen snapshot; at case end "
          "everything is destroyed and allocated bytes must be back at the pre-case baseline; ASan decides use-after-free / double "
          "destroy. Not generated: ops that would make a container contain itself (decided on the model, counted as skipped.cycle); "
          "growth of a container referenced by several Vars beyond its cap() (open known finding KF-1, counted as excluded_known). "
          "Non-trivial case: contains an assignment whose source lives inside the target, or a type-changing assignment / typed "
          "assignment on a Var whose container is shared, or an equality (asserted) across representations. "
          "Distinct = distinct FNV-1a hash of the serialised case."),
    assumptions=["the reference value graph (harness/common/ref_var.h) states the documented Var semantics: Var copies share arrays and "
                 "objects by reference, strings and scalars are values, clone() is deep and does not preserve internal sharing",
                 "equality of two undefined (NONE) Vars is not asserted (Var() == Var() is false by design); NaN is not generated; "
                 "Var == float-literal on an INT follows C++'s int == float",
                 "conversions are asserted only where the target type can represent the value (no out-of-range double -> int); "
                 "Long/ULong values are generated within +-2^53 (Var stores them as double); long/unsigned long within int range",
                 "extend() with a source that lives inside the receiver is given a copy of the source (the call would modify the "
                 "object it enumerates)",
                 "Array<T>::rc()/cap() and Dic::kv() are used to observe sharing and capacity",
                 "AddressSanitizer reports every access to freed heap blocks; __sanitizer_get_current_allocated_bytes() is exact"],
)
