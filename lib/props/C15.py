from registry import rc, fuzz

PROP = dict(
    parts=[rc('C15_codec'), fuzz('C15_decoders', quick_runs=200000, thorough_runs=8000000, max_len=256)],
    floor=dict(quick=1000, thorough=10000),
    rule=("Generated: a random byte array for EVERY length 0..1024 (Base64/hex: encode == independent RFC 4648 / hex reference, "
          "decode(encode(x)) == x through every overload, also with space/TAB/CR/LF inserted at generated positions) plus rapidcheck "
          "arrays and sampled sizes up to 1 MiB (4 MiB thorough); SHA-1 for EVERY message length 0..260 x several contents plus "
          "sampled sizes (8 MiB thorough) through all four overloads against an independent FIPS 180-4 implementation; "
          "Url::decode(Url::encode(s,mode)) == s for NUL-free byte strings in both modes incl. all single bytes and hot triples, "
          "output alphabet checked and decoded by a reference decoder; parseQuery(params(d)) == d for generated dictionaries "
          "with non-empty keys; hostile decoder input: ALL strings of length <= 6 (quick) / 8 (thorough) over "
          "{A z 9 + / = SP LF * 0x80} for Base64, {0 9 a F g SP} for hex, {% 4 a G 0 z +} for percent-decoding, plus random longer "
          "ones, inputs in exact-size heap blocks under ASan, result length >= 0 and <= input length. "
          "Added in seeding rounds 4-6: every decoder result is treated as the caller's (bytes appended, same text decoded again); the decodeBase64 overloads must agree on hostile text; url and query texts contain every byte value incl. NUL (query keys NUL-free); a sweep over every url text length 0..1100 in three flavours; (sha1mt) 2-8 threads hashing their own messages concurrently; the Array_<byte,N> encoder overloads on digests; results computed during static initialisation (before main) are compared with the reference. Non-trivial: Base64 length not a multiple of 3; SHA-1 length within 9 bytes of a 64-byte block edge; percent strings "
          "with a non-alphanumeric byte; dictionaries with >= 2 entries; hostile strings with '=' not at the end / odd length or "
          "non-hex digit / containing '%'. Distinct = distinct FNV-1a hash of the case (hashed parts) or distinct by construction "
          "(enumerated parts)."),
    assumptions=["the harness's reference Base64/hex/percent/SHA-1 implementations are right (audited against python's base64, binascii, "
                 "urllib.parse and hashlib by `vf audit`)",
                 "AddressSanitizer reports every out-of-bounds access to heap blocks sized exactly to the input",
                 "decodeBase64(ptr, n) is only called with n == strlen(ptr) or n == -1 (NUL-terminated text, as all library callers do)"],
)
