from registry import rc, fuzz

PROP = dict(
    parts=[rc('C07_xml', quick_timeout=240, thorough_timeout=900),
           fuzz('C07_xmldecode', quick_runs=300000, thorough_runs=8000000, max_len=4096, quick_timeout=120, thorough_timeout=600)],
    floor=dict(quick=20000, thorough=200000),
    rule=("Part A (Xml::decode is total and safe, result null or a tree with consistent parent links): (1) rapidcheck documents: an "
          "event-generated element tree rendered with XML declaration / BOM, DOCTYPE (with nested <...> and unterminated), comments, "
          "processing instructions, CDATA-like and <!x> markup, attributes in both quote styles with optional white space, named, decimal "
          "and hex character references (incl. empty, huge, negative, > 0x10FFFF, unterminated), wrong / empty / missing / surplus closing "
          "tags, then 0-4 byte-level edits (delete, insert, replace, duplicate range, delete range, insert token, swap); the oracle runs on "
          "the document and on EVERY prefix of it; (2) rapidcheck token soups over 68 XML fragments, every prefix; (3) bounded-exhaustive: "
          "all sequences of <= 5 (thorough 6) tokens over {<a> </a> <a/> </> x <b> </b> &lt; <!--c--> SP} and all strings of <= 5 "
          "(thorough 6) characters over {< > / a ! - ? & ; # = ' SP}; (4) libFuzzer on raw bytes (max_len 4096) seeded with the unit-test "
          "documents. Per input: the input String is freed before the result is walked; the result is !xml or: root.parent() is the null "
          "handle, every child c of every element e has c.parent()==e (pointer identity), nodes <= input bytes; if all names match "
          "the XML 1.0 Name production (UTF-8; ASCII part [A-Za-z_:][A-Za-z0-9_:.-]*) the decoded tree must also equal decode(encode(tree)) (compact; indented when text is only a sole child). "
          "Part B: rapidcheck element trees as event lists (open / attribute / text / close n), depth <= 12, tag and attribute names over the whole XML 1.0 Name grammar the decoder accepts (first: letter, '_', ':' (12%), non-ASCII NameStartChar (12%, 2-4 byte UTF-8, range edges); then also digits '-' '.' ':' U+B7 U+0301 U+203F) "
          "of length 1-70, attribute values and text = NUL-free bytes rich in & < > \" ' ; # reference-like fragments and bytes >= 0x80, "
          "white-space-only and adjacent text nodes; built through the public API; decode(encode(tree, compact)) and, after removing text "
          "that has siblings, decode(encode(tree, indented)) are compared with the plain-STL model after normalisation (merge adjacent "
          "text, drop text consisting of SP/TAB/CR/LF only): tags, attribute maps, child order, text; parent links of the decoded tree. "
          "Non-trivial: A = input yields a non-null tree with >= 2 elements or contains '&', '<!' or '<?'; B = tree with >= 1 character that "
          "must be escaped and >= 1 nested element. Distinct = distinct FNV-1a hash of the input bytes / the case text."),
    assumptions=["AddressSanitizer reports every access outside the exact-size heap block of the input String (inputs of 19 bytes or more; "
                 "shorter inputs have up to 3 bytes of slack) and every use of a freed node",
                 "white space in 'white-space-only text' means the XML set SP, TAB, CR, LF",
                 "nesting depth of generated inputs stays below ~1400 (max_len 4096): the recursive destructor of very deep trees is outside the claim "
                 "(same policy as DESIGN.md section 6 #12)"],
)
