from registry import rc

PROP = dict(
    parts=[rc('C17_files', quick_workers=4, thorough_workers=16, quick_timeout=900, thorough_timeout=3600)],
    floor=dict(quick=5000, thorough=60000),
    rule=("Four generated parts (rapidcheck, shrinking), all on files under build/tmp/<pid>/; ground truth is always the file read with POSIX "
          "open/read and compared with a std::string model of what was written, API results are obtained through fresh objects. "
          "hist: histories of up to 12 write phases on one path, each ending closed: File::put(ByteArray); File opened WRITE / APPEND / RW+seek(pos) "
          "and written with write(p,n) in chunks of 1,7,255,256,4096,65536 or at once, closed explicitly or by the destructor; File << String, "
          "const char*, ByteArray, int, double, byte, char (host order) in WRITE/APPEND mode; one-shot TextFile(path).write / put / append / "
          "<< String / << const char* / << int << char << String / printf(\"%s\"); an explicitly opened TextFile (WRITE / APPEND / RW) with up to 8 "
          "write/append/put/<</printf calls; Directory::copy / File::copy and Directory::move / File::move to a file name or into a directory (and "
          "back). Contents are derived from a seed stored in the case: arbitrary bytes, texts with LF/CRLF/lone-CR lines of lengths around 253..256 "
          "and 507..512, one long line, NUL-free bytes; sizes from {0,1,2,3,253..257,507..512,762..764,1016,1017}, 0..600, 0..5000, "
          "{4095..4097,8191..8193,65535,65536,65537,65791,131071..131073,196608}, 0..200000. After every phase: bytes in the file == model, "
          "size(), content(), firstBytes(n) for n in {0,1,size/2,size-1,size,size+1,size+1000}, read() in chunks to the end with position() and "
          "end(); for NUL-free contents that do not start with a byte-order mark also text() == model and lines(), the documented "
          "while(!end()) readLine() loop and readLine(String&) == the reference split (split at LF, drop one CR before each LF; \"a\\n\" -> "
          "[\"a\",\"\"], \"\" -> [\"\"]); after copy/move the destination (and the untouched source / the absent source) are verified the same way. "
          "A deterministic grid runs every size of {0,1,2,3,254,255,256,509,510,511,65535,65536,65537,131072} (thorough also 1, 4, 4+1 B, 16 MiB) x "
          "4 content kinds through put, copy, move, append, TextFile write/append. copy: put of 65536k + {-65536,-65535,-2,-1,0,1,2,+-255} bytes "
          "(k = 1..3) followed by 1..3 copies/moves. lines: texts of up to 40 lines with lengths biased to 252..257, 506..512, 761..763, 1015..1017 "
          "(and 0..5, 0..300, 0..2000), line ends LF / CRLF / lone CR / none, line bytes letters, printable, any byte except NUL/LF/0xEF..0xFF, or "
          "letters with embedded CRs; written with TextFile::write, put or POSIX; checked as above. bom: sequences of 0..400 non-zero Unicode "
          "scalar values (ASCII, CR/LF/CRLF, U+FEFF/FFFE/FFFF/D7FF/E000, 2-byte, BMP, supplementary planes) encoded by an independent codec as "
          "UTF-8 with BOM, UTF-16LE with BOM, UTF-16BE with BOM and UTF-8 without BOM; text() (one-shot and on an opened TextFile) must equal the "
          "reference UTF-8 -- for UTF-16 either that text or the text with each CR LF folded into LF, which the reader does by design. "
          "Same-object sessions (op 'so'): one File or TextFile object is opened WRITE / APPEND / RW, writes n1 bytes, optionally flush()es, answers one "
          "info query while open (size / lastModified / isFile / isDirectory / creationDate / exists; asserted: isFile, !isDirectory, exists, and "
          "size() == bytes in the file when it was flushed first - without flush() the call is only exercised), writes n2 more bytes, is closed, and "
          "is then read through the SAME object: size(), content(), firstBytes(n), size() again, and for TextFile text() and lines() (close() "
          "between reads, as content()/text() leave the object open at end of file) must equal the model; fresh-object verification follows as for "
          "every phase. Long BOM texts (part bomlong, op 'bomr' = runs of filler characters + one scalar): 2040..2056, 4088..4104 and up to ~9000 "
          "UTF-16 code units with supplementary-plane characters (surrogate pairs), CR|LF pairs and BMP characters starting at code unit "
          "2048k-1+delta, delta in -4..4 (k = 1..4), further pairs right after the edge and an earlier pair in the run, in UTF-16LE/BE and UTF-8 "
          "with BOM and plain UTF-8; same oracle as bom. "
          "Assignment while open (op 'as'): a File / TextFile that has the path open for WRITE / APPEND with n bytes written and not yet closed is "
          "assigned File(the same path) or File(another existing file); the assignment closes the handle, so size(), content() and text() through the "
          "object (size first, no unbounded loop) and the fresh-object checks must show the target file. The readLine(char newline) overload is run with "
          "'\\n' in the documented while(!end()) loop on every text up to 5000 bytes (a quarter of those up to 40000): the sequence must be the reference "
          "lines, one CR before an LF accepted as kept or removed; and with a second delimiter (CR or 'a') on texts up to 2500 bytes: the pieces between "
          "its occurrences. The lines part has line lengths 998..1003, 2001..2005, 2999, 3000 and random up to 3000 in addition. "
          "Symbolic links (op 'sl'; the links are made by the harness with symlink(2) inside the temp directory): the file is read through "
          "c17_link.dat -> c17_main.dat, or written through the link (File::put, TextFile::write / append, File opened APPEND) and then verified through "
          "the real path and through the link (size, content, firstBytes, read, text, lines, isFile); copy / move into a directory may name the directory "
          "through a symbolic link (bit 3). Self-moves (op 'ms'): Directory::move / File::move of the file onto itself under another spelling (dir+'/', "
          "'/./', 'sub/../', '//', relative source with absolute destination) must return true and leave the file untouched, as the unchanged library "
          "does; moves onto an existing different file / into a directory holding another file of that name replace it. Self-copies (op 'cs'): Directory::copy / File::copy of the file onto itself - into its own directory (dir, dir+'/'), '/./', "
          "'sub/../', '//', relative source with absolute destination, onto a symbolic link to it and from that link onto it: whatever the call returns "
          "(refusal or no-op), the file keeps its bytes (FX-44); copy onto an existing different file overwrites it. "
          "Non-trivial: hist - a phase leaves >= 255 bytes in the file or appends after a reopen or queries an open writer and writes on; bomlong - all; lines - a raw line of >= 254 bytes (crosses the "
          "255-byte fgets chunk) or CRLF and lone CR in one text; bom - a supplementary-plane scalar or a CR LF pair; copy and grid - all. Distinct = "
          "distinct FNV-1a hash of the serialised case."),
    assumptions=["POSIX open/read/write on the build directory return what is on disk (ground truth); the reference line split and the reference UTF codec "
                 "(harness/common/ref_utf.h, audited against python codecs by C08) are right",
                 "texts are NUL-free and, outside the bom part, never start with FF FE, FE FF or EF BB BF (such files are BOM files by design)",
                 "reading is done after the writer was closed: through fresh File / TextFile objects and, in the same-object sessions, through the writer "
                 "object itself after close() (a File still open for writing is not a documented reader; size() on an open writer is asserted only after flush() "
                 "and only for the first query of that object, later answers come from its cache by design)",
                 "temporary files live under $VF_TMPDIR/<pid>/; when /dev/shm is a different file system than the build directory the driver also passes "
                 "$VF_XDEV_DIR=/dev/shm/vf_xdev_<pid> and copy/move ops with bit 2 target a file there (cross-device branch of Directory::move: copy + remove "
                 "after EXDEV); only the content is judged there, not move's return value",
                 "UTF-16 files have an even number of bytes after the BOM and well-formed surrogate pairs"],
)
