from registry import rc, fuzz

PROP = dict(
    parts=[
        rc('C12_sched', quick_workers=8, thorough_workers=16, quick_timeout=900, thorough_timeout=3400),
        rc('C12_stress_tsan', src='harness/C12_stress.cpp', set='tsan', quick_workers=2, thorough_workers=4,
           quick_timeout=900, thorough_timeout=3400, confirm='flaky', confirm_runs=5),
        rc('C12_stress_asan', src='harness/C12_stress.cpp', set='asan', quick_workers=2, thorough_workers=4,
           quick_timeout=900, thorough_timeout=3400, confirm='flaky', confirm_runs=5),
        rc('C12_graph', quick_workers=2, thorough_workers=4, quick_timeout=600, thorough_timeout=3400),
    ],
    floor=dict(quick=500, thorough=3000),
    technique='schedule enumeration (stateless DFS with sleep sets / preemption bounding) and generated schedules on a deterministic scheduler driven by ASL_VERIF hook points, plus randomized stress under ThreadSanitizer and AddressSanitizer',
    rule=("A case is a scenario (object kind Array<Elem> / Map<int,Elem> / HashMap<int,Elem> / Shared<Payload> / SmartObject-derived / AtomicCount; "
          "2-3 asl::Thread workers, each with <= 4 operations {copy-construct into an empty slot, drop, assign slot<-slot, assign from a fresh temporary; "
          "counters: ++ / --} on its own two handle slots to shared objects A and B, while the creating thread drops its own handles before or "
          "concurrently) plus a schedule. Schedules: (dfs) depth-first enumeration of the choice tree of a deterministic scheduler that owns the order "
          "of the library's atomic steps (hook points before and after every atomicInc/atomicDec; one token, real pthreads): fixed configurations per "
          "kind with ALL interleavings (unbounded preemptions, explored modulo commuting steps on counts of different heap blocks = sleep sets; "
          "parts marked exhaustive completed) and preemption-bounded (2 or 3) enumeration where a third participant runs concurrently; "
          "(dfs_pb2) rapidcheck-generated scenarios each enumerated completely up to 2 preemptions; (sampled) rapidcheck-generated scenarios of "
          "3 threads x <= 4 ops with generated choice vectors; (stress) 4-16 threads x 10^5..10^7 random handle operations / AtomicCount ++/-- / "
          "Atomic<int|Long|double> ++ -- ++(int) --(int) += -= under ThreadSanitizer and again under AddressSanitizer. "
          "Added in seeding rounds 4-6: (graph) single-thread model-based histories of EVERY handle operation of the five kinds on object DAGs in which objects own "
          "handles to other objects (copy, assign, self-assign, converting assign Shared<Base> = Shared<Item>, raw-pointer assign, empty / null-wrapping handles, "
          "as<>(), right-hand side owned by the object being released), oracle = reachability in a reference graph; stress kinds for the remaining Atomic<T> "
          "forms (*= /= exact factors, values returned by ++x / x++ as tickets, Atomic<Array> << and ->insert, members of an Atomic<struct> through -> and locked()) "
          "and Atomic<Array|Shared|Map> copied out through the implicit conversion and ~a while writers replace the handle. "
          "Oracles: each payload destroyed exactly once (live-instance count returns to its start value, ASan double free / use after free, canary "
          "re-read through every live handle after every op), every AtomicCount return value equals the value implied by the executed order of "
          "atomic steps, final counter == initial + sum of operations, no race report. "
          "Non-trivial: a schedule in which some count is touched by thread X, then by another thread, then by X again (interleaved on one count), "
          "distinct by hash of (scenario, per-count order of atomic steps); every stress run (distinct by scenario+seed)."),
    assumptions=["the deterministic scheduler controls only the instrumented steps: a mutation that makes one step non-atomic inside itself is visible only to the TSan/ASan stress part, which samples OS schedules",
                 "sleep-set reduction treats atomic steps (and the code following them) on counts in different heap blocks as commuting",
                 "sequentially consistent interleavings only (x86-64, __sync builtins); weak-memory reorderings are not explored",
                 "each thread operates on its own handles (the property's precondition); self-assignment of one handle to itself is not generated"],
)
