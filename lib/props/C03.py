from registry import rc

PROP = dict(
    parts=[rc('C03_string', quick_workers=4, thorough_workers=16, quick_timeout=300, thorough_timeout=3600)],
    floor=dict(quick=120000, thorough=4000000),
    rule=("Three generated parts, every String under test a separate heap object (its 16 inline bytes end at the end of a "
          "24-byte block) and every C-string / (ptr,n) argument an exact-size heap block, all under AddressSanitizer. "
          "(hist) rapidcheck op histories of up to 80 ops over 3 String slots mirrored by a std::string model: all "
          "constructors (C string, (ptr,n), char, repeat, Array<char>, ByteArray, (cap,n), copy, int/unsigned/Long/ULong/float/"
          "double/bool, String(n,fmt,...) and String::f), = from String / C string / number, s = s, s = *s + k, "
          "s.assign(*s + k, n), s = s.substring(i,j), += and << with String / C string / char / number, s += s, s += *s + k, "
          "s.append(*s + k, n), every operator+ form and concat incl. the string's own tail, substring, substr (negative "
          "start, over-long count), indexOf/lastIndexOf/contains/startsWith/endsWith with char, C string and String "
          "(patterns taken from the subject's own content or generated; non-empty), split(sep) both overloads + "
          "join(sep) identity, split(), split(sep1,sep2), join, replace (non-empty pattern), replaceme, trim, trimmed, "
          "resize(n, keep, newlen) followed by external filling and fix()/fix(n), SafeString, clear, ==/!=/</compare with "
          "equal, nearly equal and unrelated operands, [] read/write, toInt/toLong/(int)/(unsigned)/toDouble/hexToInt/isTrue "
          "on the current text, ASCII case mapping, and the string as the argument of its own const operations. "
          "Positions are reduced modulo the live length so that only in-range arguments occur; text lengths are biased to "
          "0,1,14-17,19-25,47,48,1022-1026 and otherwise uniform up to 2100, appended/doubled up to 128 KiB; bytes 1..255 "
          "from a small separator-rich alphabet, all bytes, numeric or ASCII. After every op all three slots are compared "
          "with the model: length() == model length == strlen(), equal bytes, length() < cap(); every returned value is "
          "compared with the model's. (num) for int, unsigned, Long and ULong: all values 10^k+d, -(10^k+d), 2^k+d, "
          "-(2^k+d) with |d| <= 2 (enumerated), dense neighbourhoods of the 15/16-character storage switch and of the "
          "32-bit limits, and random values of uniform bit pattern and of uniform magnitude class: text of String(x), "
          "s = x and s << x equals an independently computed decimal text, and (int)s / (unsigned)s / (Long)s / toLong() "
          "return x (ULong through toLong() below 2^63 and through a strict reference parser above). (fmt) 0-3 directives "
          "%[-0+ #][width][.prec]{d,i,u,x,X,c,s,f,g,e,lld,llu,%} with only the flags legal for the conversion, generated "
          "arguments and literal text, through String(n0, fmt, ...) with n0 in {0,1,14-17,19,20,24,100,253-256,300,1024} "
          "and String::f, compared with snprintf into a 64 KiB buffer; widths biased so that results of length 15/16, "
          "254/255/256 and first-buffer-size -1/+0 occur. "
          "Non-trivial: a history with a storage transition (inline->heap, heap growth below 1 KiB, growth from 1 KiB), "
          "or an effective self-aliasing argument, or a slot at a boundary length; every format case; every integer. "
          "Distinct = distinct FNV-1a hash of the serialised case (hist, fmt) or of (type, value as converted to that "
          "type) for every integer."),
    assumptions=["std::string, snprintf, atoi/atof/strtoul of the C library and the harness's digit-by-digit decimal "
                 "writer/parser are right",
                 "AddressSanitizer reports every access outside exact-size heap blocks and heap-allocated String objects "
                 "(reads past a String's 16 inline bytes land in the block's redzone)",
                 "domain: NUL-free text, non-empty separators and patterns, 0 <= i <= j <= length() for substring, "
                 "-length() <= i and 0 <= n <= length()+3 for substr, start offsets <= length(), non-zero characters; "
                 "replaceme never writes a NUL; moved-from/uninitialised Strings are not used",
                 "(unsigned)s is checked on this platform's atoi (glibc: wraps through long); the library has no "
                 "String -> ULong conversion",
                 "Unicode case mapping, UTF conversions, count()/chars()/wide-character access belong to C08 and are "
                 "not exercised here"],
)
