from registry import rc

PROP = dict(
    parts=[rc('C16_streams', quick_workers=4, thorough_workers=16, quick_timeout=900, thorough_timeout=3600)],
    floor=dict(quick=3000, thorough=100000),
    rule=("Generated (rapidcheck, shrinking): sequences of up to 64 items, each a byte-order switch (BIG / LITTLE / NATIVE, also the order given to the "
          "constructors), a scalar of one of bool, char, signed char, byte, short, unsigned short, int, unsigned, Long, ULong, float, double given as a "
          "raw bit pattern (uniform 64-bit patterns, the width boundaries 0x7f/0x80/0x7fff/0x8000/... , +-small values, for float/double quiet and "
          "signalling NaN payloads, infinities, denormals, -0), an Array<T> of 0..100 such elements for every T (lengths biased to 0,1,2,3,4,7,8,9,15..17,"
          "99,100), or a string (const char* / String, NUL-free, and ByteArray with any bytes, up to 300 bytes). Every sequence is written through "
          "operator<< to all three sinks: a StreamBuffer (bytes compared after every item), a File under build/tmp/<pid>/ (bytes obtained with POSIX "
          "read after closing) and a Socket over a socketpair (bytes drained from the peer descriptor after every item). Oracle: the bytes equal a "
          "reference serializer that has no asl code and emits each value's unsigned bit pattern with explicit shifts (sizeof(T) bytes per scalar, "
          "length x sizeof(T) per array, string bytes without terminator) in the order in force at that point. Then the reference bytes are read back "
          "with the same types and the same order switches by StreamBufferReader (over an exact-size heap block and over a ByteArray, alternating "
          "operator>> and read<T>()), by a File opened for reading, and by a Socket whose peer sends each item's reference bytes just before it is "
          "read; every value must come back with the identical bit pattern (memcmp semantics, so NaN payloads count; arrays element by element, "
          "strings with read(n)), nothing may be left over, the socket must not be in an error state. Plus a deterministic grid: every type x every "
          "order x 12 byte-distinct patterns x array lengths 0,1,2,3,100 with an order switch between two copies of the same array. "
          "The source Array objects of a sequence are created once, live until the case ends and are shared by the three sinks; an 'ra' item writes the "
          "SAME Array object again later (in the order then in force, also after a switch), and after every << the argument (Array, String, "
          "ByteArray, C string) must still equal the model: writing does not change what was written. Delivery in pieces: in one sequence of eight, "
          "and in a dedicated part of short sequences of multi-byte scalars and small arrays (socket sink only), everything is additionally read back "
          "from a Socket whose peer (a feeder thread) sends the reference bytes cut at 1..5 generated places - inside a value or an array element, on "
          "a value boundary, with one or several following values in the next piece; after each piece the feeder waits until the reader has drained "
          "the socket (so a cut inside a value leaves the reader in a read that needs another recv) plus 0..500 us, then sends the next piece, and "
          "finally shuts its side down; timing only decides which path of the reader is taken, the oracle is values read == reference, no error "
          "state, nothing left. The grid also writes five of its arrays again in the next order and two in the first one. "
          "Length-prefixed strings (op 'ls'): written as << int(length) << String and read back with File >> String and Socket >> String, which "
          "the library defines as an int32 length in the stream's byte order followed by that many bytes (StreamBufferReader: int, then bytes; the empty "
          "string over a Socket is read as its length only, because a zero-byte read is recorded as a receive error by the unchanged library). "
          "Reconnects (part reconn): one client Socket object, byte order set ONCE before the first connect, 2..3 TCP sessions to a loopback listener of "
          "the harness (port 0, read back) with close() + connect() in between; each session is either written by the client (the accepted peer reads "
          "exactly the reference bytes of every item, nothing extra before end of stream) or read by it (the peer sends the reference bytes); the order "
          "in force carries over from session to session and changes only at 'order' items. "
          "Accepted sockets (part accept): an asl Socket binds 127.0.0.1:0, is given setEndian(BIG / LITTLE / NATIVE) or nothing, listens and accepts "
          "a connection made by the harness; the accepted Socket is used as it comes (3 of 4 cases: its order is its own default, NATIVE, whatever the "
          "listener was set to) or after its own setEndian, and writes typed values to / reads them from a peer that expects / sends the reference bytes. "
          "Copies of a configured File (op 'fcopy', one sequence in four): the order is set on an unopened File object and a copy of it - copy-constructed, "
          "passed to and returned from a function by value, or stored in an Array<File> - opens the file and does all writing / reading; the copy keeps "
          "the configured order, as the unchanged library's copy constructor does. Big writes (part bigwrite, 3 cases per worker in quick, 12 in "
          "thorough): an Array of 1..2 MiB (unsigned, int, double, Long, unsigned short or bytes) in a non-swapping order is written with ONE << to a TCP "
          "loopback socket with 16 KB buffers and a 20 ms send timeout (Socket::setOption) against a reader that takes about 4 KB per millisecond, so the "
          "single Socket::write needs many short send()s; an order switch and more values follow; the reader's bytes must equal the reference. If a "
          "send() makes no progress within its timeout the library abandons the write with its error flag set (defined behaviour): such a run is counted "
          "as inconclusive, not judged. "
          "Reader skips (op 'sk'): the reader skips the next value / array / string - StreamBufferReader::skip, File::seek from the current position, "
          "Socket::skip - and must read the following items right; blocks of 1023..5000 bytes (String / ByteArray) are generated as skip targets. "
          "In one case of 16 the File part first runs two writers at once (the case's thread and a second thread, each with its own File and file, 200 rounds of short/int/Long/double arrays in the case's order and in BIG or LITTLE): both files must hold exactly their own bytes. "
          "Non-trivial: the sequence contains a non-empty array of a multi-byte type, or an effective order switch, or NATIVE order, or a multi-byte "
          "array written again, or a cut inside a value whose next piece holds more than the rest of that value, or a later session of a reconnecting Socket that carries multi-byte data in BIG order without an order item of its own, or an untouched accepted Socket next to a BIG listener carrying multi-byte data, or multi-byte data in BIG order written / read through a copy of the configured File. Distinct = distinct FNV-1a hash of "
          "the serialised case."),
    assumptions=["the reference serializer (shifts of the unsigned bit pattern; NATIVE decided by inspecting the bytes of uint16_t 1) is right",
                 "bool values are true/false only (a bool object holding another bit pattern is not a value)",
                 "reading is checked on the reference bytes, writing against the reference bytes, so a compensating error in writer and reader cannot cancel",
                 "a socketpair delivers bytes in order and completely; items are at most 800 bytes, far below the socket buffer; a read() on it returns what is "
                 "queued (at most what was asked for), so a value cut by the feeder is completed by a second recv",
                 "AddressSanitizer reports reads past the exact-size blocks holding C strings and reader input"],
)
