#!/bin/bash
# xcheck.sh <check-prop> <seeded-dir-name> : run another property's quick check against a stored seeded change
P=$1; D=$2
S=/tmp/xc_${P}_$D; rm -rf $S; rsync -a --exclude _build --exclude .git /repo/ $S/
git apply --whitespace=nowarn --unsafe-paths --directory=$S /verif/seeded/$D/patch.diff || { echo "patch does not apply"; exit 3; }
cd /verif; VF_REPO=$S VF_BUILD=/tmp/xcb_${P}_$D ./vf check $P --tier quick 2>&1 | grep -E "^OK|^VIOLATION|what:|^INFRA" | head -4 | cut -c1-300
rm -rf $S /tmp/xcb_${P}_$D
