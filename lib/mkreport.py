#!/usr/bin/env python3
"""Prints the markdown tables of DESIGN.md section 9.3-9.5 from known_findings.json, selftest_results.json and seeded/*/meta.json."""
import json, glob, os
R = os.path.dirname(os.path.dirname(os.path.abspath(__file__)))
k = json.load(open(R + '/known_findings.json'))['findings']
print('### 9.3 Findings: every genuine defect the machinery established, and its disposition\n')
print('| id | property | disposition | what failed | witness (replayed on every run) |')
print('|----|----------|-------------|-------------|---------------------------------|')
for f in k:
    disp = ('fixed by /repo commit `%s`' % f['commit']) if f['status'] == 'fixed' else '**known finding** (not repaired)'
    what = f.get('what_failed') or f.get('what_fails')
    wit = f.get('witness') or ', '.join(f.get('witnesses', []))
    print('| %s | %s | %s | %s | `%s` |' % (f['id'], ','.join(f['properties']), disp, what.replace('|', '\\|'), wit))
print()
st = R + '/selftest_results.json'
if os.path.exists(st):
    s = json.load(open(st))
    print('### 9.4 Sensitivity catalogue (`./vf selftest`): hand-written mutants, each compiles and keeps the 28 unit tests green\n')
    byp = {}
    for name, res in sorted(s.items()):
        pid = name.split('/')[1][:3]
        byp.setdefault(pid, []).append((os.path.basename(name)[:-5], res))
    print('| property | killed / total | mutants (all killed unless marked) |')
    print('|----------|----------------|------------------------------------|')
    for pid, l in sorted(byp.items()):
        kl = sum(1 for _, r in l if r == 'killed')
        print('| %s | %d / %d | %s |' % (pid, kl, len(l), ', '.join(n + ('' if r == 'killed' else ' **(%s)**' % r) for n, r in l)))
    print()
print('### 9.5 Independently seeded changes (fresh sub-agents given only the property text and a scratch worktree)\n')
print('| seeded change | breaks | needs, in order to manifest | quick check |')
print('|---------------|--------|-----------------------------|-------------|')
for mp in sorted(glob.glob(R + '/seeded/*/meta.json')):
    m = json.load(open(mp))
    c = m.get('check_quick', {})
    print('| seeded/%s | %s | %s | %s%s |' % (os.path.basename(os.path.dirname(mp)), m['property'], m.get('needs', '(see notes in the directory)').replace('|', '\\|'),
          c.get('result', '?'), (' — ' + m['caught_by']) if m.get('caught_by') else ''))
