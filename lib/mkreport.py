#!/usr/bin/env python3
"""Prints the markdown tables of DESIGN.md section 9.3-9.5 from known_findings.json, selftest_results.json and seeded/*/meta.json."""
import json, glob, os, sys, io
_out = io.StringIO()
_print = print
def print(*a, **k):
    _print(*a, file=_out, **k)
R = os.path.dirname(os.path.dirname(os.path.abspath(__file__)))
k = json.load(open(R + '/known_findings.json'))['findings']
print('### 9.3 Findings: every genuine defect the machinery established, and its disposition\n')
print('| id | property | disposition | what failed | witness (replayed on every run) |')
print('|----|----------|-------------|-------------|---------------------------------|')
for f in k:
    disp = ('fixed by /repo commit `%s`' % f['commit']) if f['status'] == 'fixed' else '**known finding** (not repaired)'
    what = f.get('what_failed') or f.get('what_fails')
    wit = f.get('witness') or ', '.join(f.get('witnesses', []))
    print('| %s | %s | %s | %s | `%s` |' % (f['id'], ','.join(f['properties']), disp, what.replace('|', '\\|'), wit))
print()
st = R + '/selftest_results.json'
if os.path.exists(st):
    s = json.load(open(st))
    print('### 9.4 Sensitivity catalogue (`./vf selftest`): hand-written mutants, each compiles and keeps the 28 unit tests green\n')
    byp = {}
    for name, res in sorted(s.items()):
        pid = name.split('/')[1][:3]
        byp.setdefault(pid, []).append((os.path.basename(name)[:-5], res))
    print('| property | killed / total | mutants (all killed unless marked) |')
    print('|----------|----------------|------------------------------------|')
    for pid, l in sorted(byp.items()):
        kl = sum(1 for _, r in l if r == 'killed')
        print('| %s | %d / %d | %s |' % (pid, kl, len(l), ', '.join(n + ('' if r == 'killed' else ' **(%s)**' % r) for n, r in l)))
    print()
print('### 9.5 Independently seeded changes (fresh sub-agents given only the property text and a scratch worktree)\n')
print('Each change was produced by a fresh sub-agent that saw only the property text and its own worktree of /repo (nothing from /verif),')
print('in eight rounds of (up to) two changes per property (letters A/B, C/D, E/F, G/H, I/J, K/L, M/N, O/P). Later rounds were told which sites earlier rounds had used;')
print('round 4 was additionally told to assume model-based tests of the main API with boundary-biased sizes and to aim at rarely used overloads,')
print('objects reused after close/clear/reset, aliasing between arguments, state carried between calls and helper code in other files; round 5 to')
print('assume all of that plus fuzzing, and to aim at implementation-specific buffer sizes, numeric extremes, combinations of settings, hidden state')
print('across three or more calls, error / partial-I/O paths, locale/time-zone/environment dependence; rounds 6 to 8 were told in addition what the')
print('earlier rounds had led to (signals, symlinks, time zones, long-lived processes, giant arrays ...) and to aim at sibling-overload asymmetries,')
print('operating-system conditions, state left by failed operations, boundaries that need two conditions at once, second invocations, sign / width')
print('conversions on rare branches (prompts: `lib/mkseedprompt.py`).')
import collections as _c
_rounds = dict(A=1, B=1, C=2, D=2, E=3, F=3, G=4, H=4, I=5, J=5, K=6, L=6, M=7, N=7, O=8, P=8)
_tot, _sv, _pre = _c.Counter(), _c.Counter(), _c.Counter()
for _mp in glob.glob(R + '/seeded/*/meta.json'):
    _d = os.path.basename(os.path.dirname(_mp)); _r = _rounds.get(_d[-1], 0); _m = json.load(open(_mp)); _tot[_r] += 1
    if (_m.get('history') and not _m.get('obsolete')) or _m.get('first_run') == 'SURVIVED': _sv[_r] += 1
    if _m.get('note'): _pre[_r] += 1
print('Changes per round that survived the first run of their own property\'s check (out of the confirmed changes of that round; "+n" = killed at first run only because the check')
print('had been strengthened after reading the description): ' + ', '.join('round %d: %d of %d%s' % (r, _sv[r], _tot[r], ' +%d' % _pre[r] if _pre[r] else '') for r in sorted(_tot)) + '.')
print('`lib/seedcheck.py` confirmed every one in a scratch copy:')
print('the 28 unit tests pass with the patch, the demonstration fails with it and passes without it (3 runs each); then the quick check')
print('was run against the patched copy. "history" in a directory\'s meta.json tells what happened when a change first survived.\n')
print('| seeded change | site | needs, in order to manifest | quick check |')
print('|---------------|------|-----------------------------|-------------|')
for mp in sorted(glob.glob(R + '/seeded/*/meta.json')):
    m = json.load(open(mp))
    c = m.get('check_quick', {})
    print('| seeded/%s | %s | %s | %s%s |' % (os.path.basename(os.path.dirname(mp)), m.get('site', '?').replace('|', '\\|'), m.get('needs', '(see notes in the directory)').replace('|', '\\|'),
          ('obsolete' if m.get('obsolete') else 'killed by the %s check' % m['caught_by']['property'] if m.get('caught_by') else c.get('result', '?')),
          ' (see below)' if m.get('caught_by') or m.get('obsolete') or m.get('out_of_scope') else ' (after strengthening, see below)' if m.get('history') else ''))
surv = [(os.path.basename(os.path.dirname(mp)), json.load(open(mp))) for mp in sorted(glob.glob(R + '/seeded/*/meta.json'))]
surv = [(n, m) for n, m in surv if m.get('history')]
print()
print('Changes that survived their first run, and what was strengthened because of them:\n')
for n, m in surv:
    print('* **%s** - %s' % (n, m['history']))
pre = [(os.path.basename(os.path.dirname(mp)), json.load(open(mp))) for mp in sorted(glob.glob(R + '/seeded/*/meta.json'))]
pre = [(n, m) for n, m in pre if m.get('note')]
if pre:
    print()
    print('Changes whose first recorded run was already a kill because the check had been strengthened after reading the change\'s description:\n')
    for n, m in pre:
        print('* **%s** - %s' % (n, m['note']))
tot = len(glob.glob(R + '/seeded/*/meta.json'))
print()
obs = [n for n, m in surv if m.get('obsolete')]
oos = [n for n, m in surv if m.get('out_of_scope')]
other = [n for n, m in surv if m.get('caught_by')]
allm = [(os.path.basename(os.path.dirname(mp)), json.load(open(mp))) for mp in sorted(glob.glob(R + '/seeded/*/meta.json'))]
open_ = [n for n, m in allm if m.get('check_quick', {}).get('result') != 'killed' and not m.get('caught_by') and not m.get('obsolete') and not m.get('out_of_scope')]
print('%d seeded changes confirmed; %d survived the first run of their own property\'s check; %s by the current quick checks (re-run after every strengthening)%s%s.' % (
    tot, len(surv), 'every one is caught' if not open_ else 'all but %d (%s) are caught' % (len(open_), ', '.join(open_)), ', %d of them by the check of the sibling property whose subject they touch (%s)' % (len(other), ', '.join(other)) if other else '',
    ('; %d no longer applies because a later fix removed the code it mutated (%s)' % (len(obs), ', '.join(obs)) if obs else '') +
    ('; %d judged outside its property and not claimed (%s)' % (len(oos), ', '.join(oos)) if oos else '')))

text = _out.getvalue()
if '--update' in sys.argv:
    d = R + '/DESIGN.md'
    t = open(d).read()
    b, e = '<!-- REPORT-BEGIN (generated by lib/mkreport.py --update) -->\n', '<!-- REPORT-END -->\n'
    if b in t:
        t = t[:t.index(b) + len(b)] + text + t[t.index(e):]
    else:
        t = t.replace('### 9.6 Per-property notes', b + text + e + '\n### 9.6 Per-property notes', 1)
    open(d, 'w').write(t)
    _print('DESIGN.md updated (%d lines of tables)' % text.count('\n'))
else:
    _print(text)
