# Per-property configuration of the checks: which harness binaries run, with how many workers, and the
# texts that go into the evidence file.  (Budgets in *cases* live in the harness sources: Args::n(quick, thorough).)
#
# part kinds:
#   rc    harness built on harness/common/vf.h (rapidcheck generators and/or enumerators); protocol in vf.h
#   fuzz  libFuzzer target built on harness/common/vffuzz.h
#
# 'confirm': how a failure found by the search is confirmed before it is reported:
#   det   deterministic harness: the saved case must fail again in a fresh --replay process
#   flaky thread/network harness: the case is replayed up to 'confirm_runs' times, any failure confirms

def rc(bin, quick_workers=4, thorough_workers=16, quick_timeout=300, thorough_timeout=3600, confirm='det',
       confirm_runs=3, set='asan', replay_timeout=60, extra_src=(), libs=(), src=None):
    return dict(kind='rc', bin=bin, src=src or 'harness/%s.cpp' % bin, set=set,
                workers=dict(quick=quick_workers, thorough=thorough_workers),
                timeout=dict(quick=quick_timeout, thorough=thorough_timeout),
                confirm=confirm, confirm_runs=confirm_runs, replay_timeout=replay_timeout,
                extra_src=list(extra_src), libs=list(libs))


def fuzz(bin, quick_runs=200000, thorough_runs=3000000, quick_jobs=2, thorough_jobs=16, max_len=4096,
         quick_timeout=300, thorough_timeout=3600, hang=False, corpus=None, extra_src=(), unit_timeout=10):
    return dict(kind='fuzz', bin=bin, src='fuzz/%s.cpp' % bin, set='fuzz',
                runs=dict(quick=quick_runs, thorough=thorough_runs),
                jobs=dict(quick=quick_jobs, thorough=thorough_jobs),
                timeout=dict(quick=quick_timeout, thorough=thorough_timeout),
                max_len=max_len, hang=hang, corpus=corpus, extra_src=list(extra_src), unit_timeout=unit_timeout,
                confirm='det', confirm_runs=3, replay_timeout=60)


PROPS = {}
HOOK_COMMITS = ['61f94cf', 'deb99e5', '49b92ec', '78800be']  # /repo commits that add the ASL_VERIF instrumentation
NOT_CLAIMED = {}


def load():
    """every lib/props/Cxx.py defines PROP (see lib/props/C15.py)"""
    import importlib.util, os, glob
    d = os.path.join(os.path.dirname(os.path.abspath(__file__)), 'props')
    for f in sorted(glob.glob(os.path.join(d, 'C*.py'))):
        pid = os.path.basename(f)[:-3]
        spec = importlib.util.spec_from_file_location('props_' + pid, f)
        m = importlib.util.module_from_spec(spec)
        spec.loader.exec_module(m)
        PROPS[pid] = m.PROP
