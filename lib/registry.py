# Per-property configuration of the checks: which harness binaries run, with how many workers, and the
# texts that go into the evidence file.  (Budgets in *cases* live in the harness sources: Args::n(quick, thorough).)
#
# part kinds:
#   rc    harness built on harness/common/vf.h (rapidcheck generators and/or enumerators); protocol in vf.h
#   fuzz  libFuzzer target built on harness/common/vffuzz.h
#
# 'confirm': how a failure found by the search is confirmed before it is reported:
#   det   deterministic harness: the saved case must fail again in a fresh --replay process
#   flaky thread/network harness: the case is replayed up to 'confirm_runs' times, any failure confirms

def rc(bin, quick_workers=4, thorough_workers=16, quick_timeout=300, thorough_timeout=3600, confirm='det',
       confirm_runs=3, set='asan', replay_timeout=60, extra_src=(), libs=()):
    return dict(kind='rc', bin=bin, src='harness/%s.cpp' % bin, set=set,
                workers=dict(quick=quick_workers, thorough=thorough_workers),
                timeout=dict(quick=quick_timeout, thorough=thorough_timeout),
                confirm=confirm, confirm_runs=confirm_runs, replay_timeout=replay_timeout,
                extra_src=list(extra_src), libs=list(libs))


def fuzz(bin, quick_runs=200000, thorough_runs=3000000, quick_jobs=2, thorough_jobs=16, max_len=4096,
         quick_timeout=300, thorough_timeout=3600, hang=False, corpus=None, extra_src=(), unit_timeout=10):
    return dict(kind='fuzz', bin=bin, src='fuzz/%s.cpp' % bin, set='fuzz',
                runs=dict(quick=quick_runs, thorough=thorough_runs),
                jobs=dict(quick=quick_jobs, thorough=thorough_jobs),
                timeout=dict(quick=quick_timeout, thorough=thorough_timeout),
                max_len=max_len, hang=hang, corpus=corpus, extra_src=list(extra_src), unit_timeout=unit_timeout,
                confirm='det', confirm_runs=3, replay_timeout=60)


PROPS = {}

PROPS['C15'] = dict(
    parts=[rc('C15_codec')],
    floor=dict(quick=1000, thorough=10000),
    rule=("Generated: a random byte array for EVERY length 0..1024 (Base64/hex: encode == independent RFC 4648 / hex reference, "
          "decode(encode(x)) == x through every overload, also with space/TAB/CR/LF inserted at generated positions) plus rapidcheck "
          "arrays and sampled sizes up to 1 MiB (4 MiB thorough); SHA-1 for EVERY message length 0..260 x several contents plus "
          "sampled sizes (8 MiB thorough) through all four overloads against an independent FIPS 180-4 implementation; "
          "Url::decode(Url::encode(s,mode)) == s for NUL-free byte strings in both modes incl. all single bytes and hot triples, "
          "output alphabet checked and decoded by a reference decoder; parseQuery(params(d)) == d for generated dictionaries "
          "with non-empty keys; hostile decoder input: ALL strings of length <= 6 (quick) / 8 (thorough) over "
          "{A z 9 + / = SP LF * 0x80} for Base64, {0 9 a F g SP} for hex, {% 4 a G 0 z +} for percent-decoding, plus random longer "
          "ones, inputs in exact-size heap blocks under ASan, result length >= 0 and <= input length. "
          "Non-trivial: Base64 length not a multiple of 3; SHA-1 length within 9 bytes of a 64-byte block edge; percent strings "
          "with a non-alphanumeric byte; dictionaries with >= 2 entries; hostile strings with '=' not at the end / odd length or "
          "non-hex digit / containing '%'. Distinct = distinct FNV-1a hash of the case (hashed parts) or distinct by construction "
          "(enumerated parts)."),
    assumptions=["the harness's reference Base64/hex/percent/SHA-1 implementations are right (audited against python's base64, binascii, "
                 "urllib.parse and hashlib by `vf audit`)",
                 "AddressSanitizer reports every out-of-bounds access to heap blocks sized exactly to the input",
                 "decodeBase64(ptr, n) is only called with n == strlen(ptr) or n == -1 (NUL-terminated text, as all library callers do)"],
)
