// C12 -- shared handles and atomic counters under scheduled interleavings.
// Real asl::Thread workers copy/assign/drop their own handles to shared objects while a deterministic scheduler
// (sched/vsched.h, driven by the ASL_VERIF hook points before and after every atomicInc/atomicDec) decides which
// thread runs between two atomic steps. Schedules are enumerated depth-first (optionally preemption-bounded) or
// taken from generated choice vectors.
// Oracles: every payload destroyed exactly once (ASan: double free / use after free; live-instance count 0 at the
// end; canary re-read through every live handle after every op), AtomicCount: every returned value and the final
// value equal the ones implied by the executed order of atomic steps.
#include "common/vfrc.h"
#include "../sched/vsched.h"
#include <asl/Array.h>
#include <asl/Map.h>
#include <asl/HashMap.h>
#include <asl/Pointer.h>
#include <asl/Shared.h>
#include <asl/Thread.h>
#include <new>

using namespace asl;

const char* vf_harness_name() { return "C12_sched"; }

// ---------------------------------------------------------------------------------------------
// payloads

static int g_live = 0; // only touched by the token holder (one thread at a time), so plain ints are exact
static int g_created = 0;

struct Elem {
	int canary;
	int oid;
	int* heap;
	explicit Elem(int o = -1) : canary(0x5a5a5a5a), oid(o), heap(new int(o))
	{
		g_live++;
		g_created++;
	}
	Elem(const Elem& e) : canary(0x5a5a5a5a), oid(e.oid), heap(new int(e.oid))
	{
		g_live++;
		g_created++;
	}
	Elem& operator=(const Elem& e)
	{
		oid = e.oid;
		*heap = e.oid;
		return *this;
	}
	~Elem()
	{
		canary = 0;
		delete heap;
		g_live--;
	}
	bool ok(int o) const { return canary == 0x5a5a5a5a && oid == o && *heap == o; }
};

struct Payload : public Elem {
	explicit Payload(int o) : Elem(o) {}
	Payload* clone() const { return new Payload(oid); }
};

ASL_SMART_CLASS(SObj, SmartObject)
{
	ASL_SMART_INNER_DEF(SObj)
	Elem e;
	SObj_() : e(-1) {}
	SObj_(int o) : e(o) {}
	SObj_(const SObj_& s) : e(s.e) {}
};
class SObj : public SmartObject
{
public:
	ASL_SMART_DEF(SObj, SmartObject)
	SObj(int o) : ASL_SMART_INIT(o) {}
	bool ok(int o) const { return _()->e.ok(o); }
};

template <class H>
struct Kind;
template <>
struct Kind<Array<Elem>> {
	static Array<Elem> make(int oid)
	{
		Array<Elem> a;
		a << Elem(oid) << Elem(oid);
		return a;
	}
	static bool ok(const Array<Elem>& h, int oid) { return h.length() == 2 && h[0].ok(oid) && h[1].ok(oid); }
	static void dup(Array<Elem>& h) { h.dup(); }
};
template <>
struct Kind<Map<int, Elem>> {
	static Map<int, Elem> make(int oid)
	{
		Map<int, Elem> m;
		m[7] = Elem(oid);
		return m;
	}
	static bool ok(const Map<int, Elem>& h, int oid) { return h.length() == 1 && h.has(7) && h[7].ok(oid); }
	static void dup(Map<int, Elem>& h) { h.dup(); }
};
template <>
struct Kind<HashMap<int, Elem>> {
	static HashMap<int, Elem> make(int oid)
	{
		HashMap<int, Elem> m;
		m[7] = Elem(oid);
		m[7 + 256] = Elem(oid);
		return m;
	}
	static bool ok(const HashMap<int, Elem>& h, int oid) { return h.length() == 2 && h.has(7) && h.get(7, Elem(-2)).ok(oid) && h.has(263); }
	static void dup(HashMap<int, Elem>& h) { h.dup(); }
};
template <>
struct Kind<Shared<Payload>> {
	static Shared<Payload> make(int oid) { return Shared<Payload>(new Payload(oid)); }
	static bool ok(const Shared<Payload>& h, int oid) { return h->ok(oid); }
	static void dup(Shared<Payload>& h) { h = h.clone(); }
};
template <>
struct Kind<SObj> {
	static SObj make(int oid) { return SObj(oid); }
	static bool ok(const SObj& h, int oid) { return h.ok(oid); }
	static void dup(SObj& h) { h = h.clone(); }
};

// ---------------------------------------------------------------------------------------------
// scenario

enum { OP_COPY = 0, OP_DROP = 1, OP_ASSIGN = 2, OP_ASSIGN_TMP = 3, OP_INC = 4, OP_DEC = 5, OP_DUP = 6, NOPS_HANDLE = 4 };

struct TOp {
	int code, a, b;
};

struct Scenario {
	int kind = 0; // 0 Array 1 Map 2 HashMap 3 Shared 4 SmartObject 5 AtomicCount
	int nthreads = 2;
	int prefillB = 0;    // bit t: worker t's slot 1 starts as a handle to B
	int mainDrop = 0;    // 0: main drops its handles after starting the workers; 1: before
	std::vector<TOp> ops[4];
};

static const int NSLOT = 2;

template <class H>
struct Slots {
	alignas(H) char mem[NSLOT][sizeof(H)];
	bool live[NSLOT] = {false, false};
	int oid[NSLOT] = {-1, -1};
	H& h(int i) { return *(H*)mem[i]; }
	void put(int i, const H& x, int o)
	{
		new (mem[i]) H(x);
		live[i] = true;
		oid[i] = o;
	}
	void drop(int i)
	{
		if (live[i]) {
			h(i).~H();
			live[i] = false;
		}
	}
};

static std::string g_err; // first oracle failure seen by any thread (token holder only)
static void note(const std::string& e)
{
	if (g_err.empty())
		g_err = e;
}

template <class H>
struct Worker : public Thread {
	Slots<H> s;
	std::vector<TOp> ops;
	int id = 0;
	int* next_oid = 0;
	void verify(const char* when)
	{
		for (int i = 0; i < NSLOT; i++)
			if (s.live[i] && !Kind<H>::ok(s.h(i), s.oid[i]))
				note(vf::str("worker ", id, ": object ", s.oid[i], " seen through live handle slot ", i, " is not intact ", when));
	}
	void run()
	{
		verify("at start");
		for (auto& o : ops) {
			int a = o.a % NSLOT, b = o.b % NSLOT;
			switch (o.code) {
			case OP_COPY:
				if (!s.live[a] && s.live[b])
					s.put(a, s.h(b), s.oid[b]);
				break;
			case OP_DROP:
				s.drop(a);
				break;
			case OP_ASSIGN:
				if (a != b && s.live[a] && s.live[b]) {
					s.h(a) = s.h(b);
					s.oid[a] = s.oid[b];
				}
				break;
			case OP_DUP: // detach this handle from the others (dup() / clone()): the object it shared stays alive for them
				if (s.live[a])
					Kind<H>::dup(s.h(a));
				break;
			case OP_ASSIGN_TMP:
				if (s.live[a]) {
					int o2 = 100 + id * 10 + (*next_oid)++;
					s.h(a) = Kind<H>::make(o2);
					s.oid[a] = o2;
				}
				break;
			}
			verify("after an op");
		}
		for (int i = 0; i < NSLOT; i++)
			s.drop(i);
	}
};

struct RunResult {
	std::vector<vsched::Decision> decisions;
	uint64_t trace_hash = 0;
	bool interleaved = false; // some count was touched by thread X, then by Y, then by X again
	int events = 0;
};

static void analyse_trace(RunResult& r)
{
	vsched::State& S = vsched::S();
	std::map<const volatile void*, std::vector<int>> by;
	uint64_t h = 1469598103934665603ULL;
	std::map<const volatile void*, int> addr_class;
	for (auto& e : S.trace) {
		if (e.kind == 1 || e.kind == 2) {
			by[e.obj].push_back(e.thread);
			if (!addr_class.count(e.obj)) {
				int n = (int)addr_class.size();
				addr_class[e.obj] = n;
			}
			int v[3] = {e.thread, e.kind, addr_class[e.obj]};
			h = vf::fnv(v, sizeof v, h);
		}
	}
	r.events = (int)S.trace.size();
	r.trace_hash = h;
	for (auto& kv : by) {
		auto& v = kv.second;
		for (size_t i = 0; i + 2 < v.size() && !r.interleaved; i++)
			for (size_t j = i + 1; j < v.size() && !r.interleaved; j++)
				if (v[j] != v[i])
					for (size_t k = j + 1; k < v.size(); k++)
						if (v[k] == v[i]) {
							r.interleaved = true;
							break;
						}
	}
}

template <class H>
static RunResult run_handles(const Scenario& sc, const std::vector<int>& choices, int bound)
{
	g_err.clear();
	{
		// one-time function statics inside the library (e.g. the default value of Map's const operator[]) are not leaks
		H warm = Kind<H>::make(0);
		(void)Kind<H>::ok(warm, 0);
	}
	int live0 = g_live;
	RunResult r;
	{
		int next_oid = 0;
		H A = Kind<H>::make(1), B = Kind<H>::make(2);
		std::vector<Worker<H>*> ws;
		for (int t = 0; t < sc.nthreads; t++) {
			Worker<H>* w = new Worker<H>;
			w->id = t + 1;
			w->ops = sc.ops[t];
			w->next_oid = &next_oid;
			w->s.put(0, A, 1);
			if (sc.prefillB & (1 << t))
				w->s.put(1, B, 2);
			ws.push_back(w);
		}
		Slots<H> mine;
		mine.put(0, A, 1);
		mine.put(1, B, 2);
		A = Kind<H>::make(3); // the named locals stop referring to objects 1 and 2 (plain single-threaded code)
		B = A;
		vsched::begin(choices, bound, (1u << 1) | (1u << 2) | (1u << 3));
		if (sc.mainDrop) {
			mine.drop(0);
			mine.drop(1);
		}
		for (auto w : ws)
			w->start();
		if (!sc.mainDrop) {
			mine.drop(0);
			mine.drop(1);
		}
		for (auto w : ws)
			w->join();
		vsched::end();
		r.decisions = vsched::S().decisions;
		analyse_trace(r);
		for (auto w : ws)
			delete w;
	}
	if (!g_err.empty())
		VF_FAIL(g_err);
	VF_CHECK(g_live == live0, "payload instances alive after every handle was dropped: ", g_live - live0, " (leak: an object was never destroyed)");
	return r;
}

struct CWorker : public Thread {
	AtomicCount* c;
	std::vector<TOp> ops;
	std::vector<int> rets;
	void run()
	{
		for (auto& o : ops)
			rets.push_back(o.code == OP_INC ? ++*c : --*c);
	}
};

static RunResult run_counter(const Scenario& sc, const std::vector<int>& choices, int bound)
{
	RunResult r;
	AtomicCount* c = new AtomicCount(5);
	std::vector<CWorker*> ws;
	int sum = 0;
	for (int t = 0; t < sc.nthreads; t++) {
		CWorker* w = new CWorker;
		w->c = c;
		for (auto& o : sc.ops[t])
			if (o.code == OP_INC || o.code == OP_DEC) {
				w->ops.push_back(o);
				sum += o.code == OP_INC ? 1 : -1;
			}
		ws.push_back(w);
	}
	vsched::begin(choices, bound, (1u << 1) | (1u << 2) | (1u << 3));
	for (auto w : ws)
		w->start();
	for (auto w : ws)
		w->join();
	vsched::end();
	r.decisions = vsched::S().decisions;
	analyse_trace(r);
	int final_ = *c;
	// the order of the atomic steps is the order of their "after" points in the trace
	std::map<int, size_t> idx;
	int running = 5;
	std::string err;
	for (auto& e : vsched::S().trace) {
		if (e.kind != 3)
			continue;
		// scheduler thread id -> worker, through the Thread object announced at ENTRY
		int t = -1;
		if (e.thread >= 0 && e.thread < (int)vsched::S().th.size())
			for (size_t w = 0; w < ws.size(); w++)
				if ((const volatile void*)static_cast<Thread*>(ws[w]) == vsched::S().th[e.thread]->obj)
					t = (int)w;
		if (t < 0)
			continue;
		size_t k = idx[t]++;
		if (k >= ws[t]->ops.size())
			continue;
		running += ws[t]->ops[k].code == OP_INC ? 1 : -1;
		if (k < ws[t]->rets.size() && ws[t]->rets[k] != running && err.empty())
			err = vf::str("AtomicCount op #", k, " of worker ", t + 1, " returned ", ws[t]->rets[k], " but the executed order of atomic steps gives ", running);
	}
	for (auto w : ws)
		delete w;
	delete c;
	if (!err.empty())
		VF_FAIL(err);
	VF_CHECK(final_ == 5 + sum, "AtomicCount final value ", final_, " != initial 5 + sum of operations ", sum);
	return r;
}

static RunResult run_scenario(const Scenario& sc, const std::vector<int>& choices, int bound)
{
	static bool pinned = false;
	if (!pinned) {
		// only one thread runs at a time: cross-CPU wake-ups would dominate the cost of a schedule
		pinned = true;
		vsched::pin_to_cpu(vf::runner().args.mode == "search" ? vf::runner().args.worker : (int)getpid());
	}
	switch (sc.kind) {
	case 0:
		return run_handles<Array<Elem>>(sc, choices, bound);
	case 1:
		return run_handles<Map<int, Elem>>(sc, choices, bound);
	case 2:
		return run_handles<HashMap<int, Elem>>(sc, choices, bound);
	case 3:
		return run_handles<Shared<Payload>>(sc, choices, bound);
	case 4:
		return run_handles<SObj>(sc, choices, bound);
	default:
		return run_counter(sc, choices, bound);
	}
}

// ---------------------------------------------------------------------------------------------
// case <-> scenario

static const char* KINDS[] = {"Array", "Map", "HashMap", "Shared", "SmartObject", "AtomicCount"};

struct Parsed {
	Scenario sc;
	std::vector<int> choices;
	bool dfs = false;
	int bound = 1 << 30;
	long max_schedules = 2000000;
};

static Parsed parse_case(const vf::Case& c)
{
	Parsed p;
	for (auto& o : c.ops) {
		if (o.name == "cfg") {
			p.sc.kind = (int)((o.i(0) % 6 + 6) % 6);
			p.sc.nthreads = (int)(o.i(1) < 1 ? 1 : o.i(1) > 3 ? 3 : o.i(1));
			p.sc.prefillB = (int)o.i(2) & 7;
			p.sc.mainDrop = (int)o.i(3) & 1;
		}
		else if (o.name == "op") {
			int t = (int)(((o.i(0) % 3) + 3) % 3);
			if (p.sc.ops[t].size() < 6)
				p.sc.ops[t].push_back(TOp{(int)((o.i(1) % 7 + 7) % 7), (int)(o.i(2) & 1), (int)(o.i(3) & 1)});
		}
		else if (o.name == "sched") {
			for (auto v : o.a)
				p.choices.push_back((int)(v < 0 ? -v : v) % 8);
		}
		else if (o.name == "dfs") {
			p.dfs = true;
			p.bound = o.i(0) < 0 ? (1 << 30) : (int)o.i(0);
			if (o.i(1) > 0)
				p.max_schedules = o.i(1);
		}
	}
	return p;
}

struct DfsStats {
	long schedules = 0, interleaved = 0, pruned = 0;
	bool complete = false;
	std::unordered_set<uint64_t> traces;
};

static DfsStats g_last_dfs;

static std::string sched_str(const std::vector<vsched::Decision>& d)
{
	std::string s;
	for (auto& x : d)
		s += std::to_string(x.chosen) + " ";
	return s;
}

void vf_run_case(const std::string& part, const vf::Case& c)
{
	Parsed p = parse_case(c);
	g_last_dfs = DfsStats();
	if (!p.dfs) {
		RunResult r = run_scenario(p.sc, p.choices, 1 << 30);
		g_last_dfs.schedules = 1;
		g_last_dfs.interleaved = r.interleaved;
		if (r.interleaved) {
			uint64_t sh = vf::fnv(vf::serialize(c));
			vf::stats().nt(vf::fnv(&r.trace_hash, 8, sh));
		}
		vf::stats().cls(r.interleaved ? "run.interleaved" : "run.serial");
		vf::stats().cls(vf::str("kind.", KINDS[p.sc.kind]));
		return;
	}
	std::vector<int> choices;
	bool sleepsets = p.bound >= (1 << 30); // unbounded: all interleavings, explored modulo commuting steps on different objects
	vsched::dfs_reset(sleepsets);
	while (true) {
		RunResult r;
		try {
			r = run_scenario(p.sc, choices, p.bound);
		}
		catch (vf::Failure& f) {
			f.msg += " [schedule (choice per decision): " + sched_str(vsched::S().decisions) + "]";
			vsched::dfs_reset(false);
			throw;
		}
		if (vsched::S().nondeterminism) {
			vsched::dfs_reset(false);
			VF_FAIL("scheduler saw a different set of enabled threads when re-running a schedule prefix (harness nondeterminism)");
		}
		g_last_dfs.schedules++;
		if (r.interleaved) {
			g_last_dfs.interleaved++;
			g_last_dfs.traces.insert(r.trace_hash);
		}
		bool more = sleepsets ? vsched::dfs_advance() : vsched::next_schedule(r.decisions, choices);
		if (!more) {
			g_last_dfs.complete = true;
			break;
		}
		if (g_last_dfs.schedules >= p.max_schedules)
			break;
	}
	g_last_dfs.pruned = sleepsets ? vsched::S().pruned_runs : 0;
	vsched::dfs_reset(false);
	if (getenv("VF_VERBOSE"))
		fprintf(stderr, "dfs: %ld schedules (%ld redundant, cut by sleep sets), %ld interleaved, %zu distinct traces, complete=%d\n", g_last_dfs.schedules, g_last_dfs.pruned, g_last_dfs.interleaved, g_last_dfs.traces.size(), (int)g_last_dfs.complete);
	{
		uint64_t sh = vf::fnv(vf::serialize(c));
		for (auto h : g_last_dfs.traces)
			vf::stats().nt(vf::fnv(&h, 8, sh));
		vf::stats().evaluations += g_last_dfs.schedules - 1;
		vf::stats().cls(g_last_dfs.complete ? "dfs.complete" : "dfs.truncated");
		vf::stats().cls("dfs.schedules", g_last_dfs.schedules);
		vf::stats().cls("dfs.schedules_interleaved", g_last_dfs.interleaved);
		vf::stats().cls(vf::str("kind.", KINDS[p.sc.kind]));
	}
}

// ---------------------------------------------------------------------------------------------
// search

static vf::Case make_case(int kind, int nth, int prefill, int mainDrop, const std::vector<std::vector<TOp>>& ops)
{
	vf::Case c;
	c.add(vf::Op("cfg", {kind, nth, prefill, mainDrop}));
	for (size_t t = 0; t < ops.size(); t++)
		for (auto& o : ops[t])
			c.add(vf::Op("op", {(long long)t, o.code, o.a, o.b}));
	return c;
}

static rc::Gen<vf::Case> gen_scenario(int nth, int maxops, bool counter)
{
	using namespace rc;
	auto opg = counter ? gen::map(vf::irange<int>(4, 5), [](int c) { return TOp{c, 0, 0}; })
	                   : gen::map(gen::tuple(gen::weightedElement<int>({{3, OP_COPY}, {3, OP_DROP}, {4, OP_ASSIGN}, {2, OP_ASSIGN_TMP}, {2, OP_DUP}}), vf::irange<int>(0, 1), vf::irange<int>(0, 1)),
	                              [](const std::tuple<int, int, int>& t) { return TOp{std::get<0>(t), std::get<1>(t), std::get<2>(t)}; });
	auto thr = gen::container<std::vector<TOp>>(opg);
	return gen::map(gen::tuple(counter ? gen::just(5) : vf::irange<int>(0, 4), vf::irange<int>(0, 7), vf::irange<int>(0, 1), gen::container<std::vector<std::vector<TOp>>>((size_t)nth, thr)),
	                [=](const std::tuple<int, int, int, std::vector<std::vector<TOp>>>& t) {
		                auto ops = std::get<3>(t);
		                for (auto& v : ops)
			                if ((int)v.size() > maxops)
				                v.resize(maxops);
		                return make_case(std::get<0>(t), nth, std::get<1>(t), std::get<2>(t), ops);
	                });
}

void vf_search(const vf::Args& a)
{
	using namespace rc;
	vsched::S().record_trace = true;

	// (1) DFS of fixed small configurations for every object kind.
	//     quick: 2 threads x 2 ops, unbounded preemptions => EVERY interleaving of the instrumented steps (exhaustive)
	//     thorough: additionally 2 threads x 3 ops with preemption bound 3 and 3 threads x 2 ops with bound 2
	[&]() {
		struct Cfg {
			vf::Case c;
			int bound;
			long cap;
		};
		std::vector<Cfg> cfgs;
		std::vector<TOp> t1 = {{OP_ASSIGN, 0, 1}, {OP_DROP, 1, 0}, {OP_COPY, 1, 0}, {OP_ASSIGN_TMP, 0, 0}};
		std::vector<TOp> t2 = {{OP_COPY, 1, 0}, {OP_DROP, 0, 0}, {OP_ASSIGN_TMP, 1, 0}, {OP_ASSIGN, 0, 1}};
		std::vector<TOp> t3 = {{OP_DROP, 0, 0}, {OP_COPY, 0, 1}};
		auto sub = [](const std::vector<TOp>& v, int n) { return std::vector<TOp>(v.begin(), v.begin() + n); };
		for (int kind = 0; kind < 5; kind++) {
			// main drops its own handles before the workers start: 2 concurrent threads, every interleaving
			// (HashMap has two counts per handle operation, its own and the bucket array's: one op fewer in the quick tier)
			// (every HashMap handle operation has several atomic steps - its own count and the bucket array's - so its
			// complete enumeration, 10^5..10^6 schedules, is left to the thorough tier; quick bounds it to 3 preemptions)
			int l = kind == 2 ? 1 : 2, bnd = kind == 2 && a.quick() ? 3 : -1;
			cfgs.push_back({make_case(kind, 2, 1, 1, {sub(t1, l), sub(t2, l)}), bnd, 1000000});
			cfgs.push_back({make_case(kind, 2, 2, 1, {sub(t2, l), sub(t1, l)}), bnd, 1000000});
			// one thread detaches its handle (dup / clone) while the other drops the only other handle
			cfgs.push_back({make_case(kind, 2, 0, 1, {{{OP_DUP, 0, 0}}, {{OP_DROP, 0, 0}}}), kind == 2 && a.quick() ? 3 : -1, 1000000});
			// main drops concurrently with the workers (3 participants): preemption-bounded
			cfgs.push_back({make_case(kind, 2, 1, 0, {sub(t1, 2), sub(t2, 2)}), 2, 300000});
			if (!a.quick()) {
				cfgs.push_back({make_case(kind, 2, 3, 1, {sub(t1, 3), sub(t2, 3)}), -1, 1000000});
				cfgs.push_back({make_case(kind, 2, 1, 0, {sub(t1, 3), sub(t2, 3)}), 3, 400000});
				cfgs.push_back({make_case(kind, 2, 2, 1, {sub(t2, 4), sub(t1, 4)}), 3, 400000});
				cfgs.push_back({make_case(kind, 3, 5, 0, {sub(t1, 2), sub(t2, 2), t3}), 2, 400000});
			}
		}
		cfgs.push_back({make_case(5, 2, 0, 0, {{{OP_INC, 0, 0}, {OP_DEC, 0, 0}, {OP_INC, 0, 0}}, {{OP_DEC, 0, 0}, {OP_INC, 0, 0}, {OP_INC, 0, 0}}}), -1, 400000});
		cfgs.push_back({make_case(5, 3, 0, 0, {{{OP_INC, 0, 0}, {OP_DEC, 0, 0}}, {{OP_DEC, 0, 0}, {OP_INC, 0, 0}}, {{OP_INC, 0, 0}, {OP_INC, 0, 0}}}), a.quick() ? 2 : -1, 1000000});
		if (!a.quick())
			cfgs.push_back({make_case(5, 2, 0, 0, {{{OP_INC, 0, 0}, {OP_DEC, 0, 0}, {OP_INC, 0, 0}, {OP_DEC, 0, 0}}, {{OP_DEC, 0, 0}, {OP_INC, 0, 0}, {OP_INC, 0, 0}, {OP_DEC, 0, 0}}}), -1, 1000000});
		for (size_t i = 0; i < cfgs.size(); i++) {
			if ((int)(i % a.workers) != a.worker)
				continue;
			vf::Case c = cfgs[i].c;
			c.add(vf::Op("dfs", {cfgs[i].bound, cfgs[i].cap}));
			if (!vf::runner().run("dfs", c))
				return;
			Parsed p = parse_case(c);
			bool unbounded = cfgs[i].bound < 0;
			std::string name = vf::str("dfs.", KINDS[p.sc.kind], ".", p.sc.nthreads, "threads.cfg", i, unbounded ? ".all_interleavings" : vf::str(".preemption_bound_", cfgs[i].bound));
			vf::stats().part(name, g_last_dfs.schedules, g_last_dfs.complete && unbounded);
			if (i < 2 || i == cfgs.size() - 2)
				vf::stats().sample(vf::str("DFS over ", g_last_dfs.schedules, " schedules (", unbounded ? "all interleavings" : "preemption-bounded", ", complete=", g_last_dfs.complete, ") of scenario:\n", vf::serialize(c)));
		}
	}();

	// (2) generated scenarios (2 threads x <= 3 ops), each explored completely up to a preemption bound of 2
	[&]() {
		auto g = gen::map(gen_scenario(2, 3, false), [](vf::Case c) {
			c.add(vf::Op("dfs", {2, 20000}));
			return c;
		});
		vf::check_cases("dfs_pb2", a.n(12, 150), 100, g, nullptr);
	}();
	[&]() {
		auto g = gen::map(gen_scenario(2, 4, true), [](vf::Case c) {
			c.add(vf::Op("dfs", {2, 20000}));
			return c;
		});
		vf::check_cases("dfs_pb2_counter", a.n(4, 40), 100, g, nullptr);
	}();

	// (3) generated schedules (choice vectors) for larger generated scenarios: 3 threads x <= 4 ops
	[&]() {
		auto g = gen::map(gen::pair(gen::oneOf(gen_scenario(3, 4, false), gen_scenario(2, 4, false), gen_scenario(3, 4, true)),
		                            gen::container<std::vector<int>>(gen::weightedOneOf<int>({{5, gen::just(0)}, {2, vf::irange<int>(1, 2)}}))),
		                  [](const std::pair<vf::Case, std::vector<int>>& p) {
			                  vf::Case c = p.first;
			                  vf::Op s("sched");
			                  for (int v : p.second)
				                  s.a.push_back(v);
			                  c.add(s);
			                  return c;
		                  });
		uint64_t before = vf::stats().evaluations;
		vf::check_cases("sampled", a.n(1500, 30000), 120, g, nullptr);
		vf::stats().cls("sampled.schedules", vf::stats().evaluations - before);
	}();
}
