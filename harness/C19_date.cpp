// C19 -- Date: epoch seconds <-> UTC calendar fields as a bijection, format/parse round trips, ISO zone offsets,
// parser robustness.  Oracle: harness/common/ref_civil.h (independent days-from-civil / civil-from-days,
// audited against python's datetime at every start).  TZ=UTC, LC_ALL=C are set by the driver.
//
// ops (one per line; a case is normally one op, any list is tolerated):
//   day z                      the three instants 00:00:00, 12:00:00, 23:59:59 of day z (days since 1970-01-01,
//                              folded into 0001-01-01..9999-12-31)
//   sec t                      the whole-second instant t (folded into years 1..9999)
//   frac t | digits            the instant t + 0.<digits> (1..9 digits)
//   iso z sod flags sign hh mm | digits
//                              an ISO 8601 text written by the harness for local day z, second-of-day sod;
//                              flags bit0 = basic form, bit1 = without seconds, bits 2..3 = zone form
//                              (0 +-hh, 1 +-hhmm, 2 +-hh:mm, 3 Z); optional fraction digits
//   str | text                 arbitrary text to Date(String): terminates, ASan-clean, nothing else asserted
//   zone k t                   the whole-second instant t under the time zone ref::zones()[k] (harness/common/ref_tz.h), set
//                              with setenv("TZ")+tzset() for the duration of the op and restored afterwards: zone-less
//                              LONG/SHORT/FULL and UTC LONG/HTTP round trips, explicit-offset texts, UTC fields; skipped
//                              (counted) when t is within 2 h (1970..2037) / 12 days (other years) of a DST transition
//   mt n rounds seed           n threads (1..4), each doing `rounds` HTTP/LONG/FULL round trips in UTC on its own
//                              instants, interleaved with parses of HTTP-shaped junk ("Xxx, 01 Qqq 2000 00:00:00 GMT")
#include "common/vfrc.h"
#include "common/ref_civil.h"
#include "common/ref_codec.h"
#include "common/ref_tz.h"
#include <asl/Date.h>
#include <cmath>
#include <memory>
#include <thread>

using namespace asl;

const char* vf_harness_name() { return "C19_date"; }

static const int64_t T_MIN = ref::CIVIL_DAY_MIN * 86400;        // 0001-01-01T00:00:00
static const int64_t T_MAX = ref::CIVIL_DAY_MAX * 86400 + 86399; // 9999-12-31T23:59:59

static int64_t fold(int64_t v, int64_t lo, int64_t hi) { return lo + ref::floormod(v - lo, hi - lo + 1); }

static std::string S(const String& s) { return std::string(*s, (size_t)s.length()); }

static std::string show(const DateData& p)
{
	char b[96];
	snprintf(b, sizeof b, "%04d-%02d-%02d %02d:%02d:%02d wd%d", p.year, p.month, p.day, p.hours, p.minutes, p.seconds, p.weekDay);
	return b;
}
static bool same(const DateData& p, const ref::Fields& f)
{
	return p.year == f.year && p.month == f.month && p.day == f.day && p.hours == f.hours && p.minutes == f.minutes && p.seconds == f.seconds &&
	       p.weekDay == f.weekDay;
}
static std::string num(double x)
{
	char b[64];
	snprintf(b, sizeof b, "%.6f", x);
	return b;
}

// The text goes through a heap-allocated String: a text of 15 bytes ends with the last byte of the String object and
// one of >= 19 bytes lives in a heap block of exactly length+1 bytes, so an over-read hits an ASan redzone.
static double parse(const std::string& text)
{
	std::unique_ptr<String> s(new String(text.c_str()));
	Date d(*s);
	return d.time();
}

struct Fmt {
	Date::Format f;
	const char* name;
};
static const Fmt FORMATS[4] = {{Date::LONG, "LONG"}, {Date::SHORT, "SHORT"}, {Date::FULL, "FULL"}, {Date::HTTP, "HTTP"}};

static double ulp(double x)
{
	x = fabs(x);
	return nextafter(x, INFINITY) - x;
}

// The per-field accessors year() ... weekDay() and split() are local-time based.  The driver sets TZ=UTC, so they must
// give the UTC fields; they are compared only when the process really runs in UTC (otherwise a search is an
// infrastructure error and a replay skips these comparisons).
static bool local_is_utc()
{
	static const bool ok = []() {
		const char* tz = getenv("TZ");
		if (!tz || strcmp(tz, "UTC") != 0)
			return false;
		for (double t : {0.0, 1.7e9, 1.72e9, -3.0e9, 2.0e11, -6.0e10})
			if (Date(t).localOffset() != 0)
				return false;
		return true;
	}();
	return ok;
}
static DateData accessors(const Date& d)
{
	DateData p;
	p.year = d.year();
	p.month = d.month();
	p.day = d.day();
	p.hours = d.hours();
	p.minutes = d.minutes();
	p.seconds = d.seconds();
	p.weekDay = d.weekDay();
	return p;
}

// whole-second instant: fields, weekday, inverse, and the four format/parse round trips
static void check_instant(int64_t t, bool all_accessors = true)
{
	const double td = (double)t;
	const ref::Fields f = ref::fields_from_seconds(t);
	Date d(td);
	DateData p = d.splitUTC();
	VF_CHECK(same(p, f), "splitUTC of t=", t, " gives ", show(p), ", calendar says ", ref::fields_str(f));
	if (local_is_utc()) {
		if (all_accessors) {
			DateData q = accessors(d);
			VF_CHECK(same(q, f), "year()/month()/day()/hours()/minutes()/seconds()/weekDay() of t=", t, " (TZ=UTC) give ", show(q), ", calendar says ", ref::fields_str(f));
		}
		DateData l = d.split();
		VF_CHECK(same(l, f), "split() of t=", t, " (TZ=UTC) gives ", show(l), ", calendar says ", ref::fields_str(f));
	}
	Date c(Date::UTC, (int)f.year, f.month, f.day, f.hours, f.minutes, f.seconds);
	VF_CHECK(c.time() == td, "Date(UTC, ", ref::fields_str(f), ").time() = ", num(c.time()), ", want ", t, " (delta ", num(c.time() - td), ")");
	for (const Fmt& fm : FORMATS) {
		// the String is parsed as the library produced it (no copy: this loop runs 12.7 million times in a quick run;
		// LONG, FULL and HTTP texts are >= 19 bytes and therefore live in heap blocks of exactly length+1 bytes)
		String text = d.toUTCString(fm.f);
		double r = Date(text).time();
		if (fm.f == Date::FULL)
			VF_CHECK(fabs(r - td) < 0.001, "FULL format of t=", t, " (", ref::fields_str(f), ") is ", vf::show(S(text)), " which parses to ", num(r), " (delta ", num(r - td), ")");
		else
			VF_CHECK(r == td, fm.name, " format of t=", t, " (", ref::fields_str(f), ") is ", vf::show(S(text)), " which parses to ", num(r), " (delta ", num(r - td), ")");
	}
}

static bool digits_ok(const std::string& s)
{
	if (s.empty() || s.size() > 9)
		return false;
	for (char ch : s)
		if (ch < '0' || ch > '9')
			return false;
	return true;
}

// instant with a fraction of a second.  The instant is the double t = X + 0.digits.
//  - splitUTC gives the fields of the civil second containing t; within the last millisecond before the next second
//    the fields of that next second are accepted as well ("to the millisecond"), but all seven fields must belong together
//  - FULL round trip within a millisecond; LONG/SHORT/HTTP return the civil second (same carry allowance)
// The last second of year 9999 is not used as X (rounded up it is an instant of year 10000).
static void op_frac(const vf::Op& o)
{
	int64_t X = fold(o.i(0), T_MIN, T_MAX - 1);
	std::string dg = o.str(0);
	if (!digits_ok(dg))
		dg = "5";
	double fr = strtod(("0." + dg).c_str(), 0);
	double t = (double)X + fr;
	double fl = floor(t), ft = t - fl;
	const int64_t F = (int64_t)fl;
	const bool carry_ok = ft >= 0.999;
	ref::Fields a = ref::fields_from_seconds(F), b = ref::fields_from_seconds(F + 1);
	Date d(t);
	DateData p = d.splitUTC();
	VF_CHECK(same(p, a) || (carry_ok && same(p, b)), "splitUTC of t=", num(t), " gives ", show(p), ", the instant lies in ", ref::fields_str(a),
	         carry_ok ? " (or, rounded to the millisecond, " + ref::fields_str(b) + ")" : std::string());
	if (local_is_utc()) {
		DateData q = accessors(d);
		VF_CHECK(same(q, a) || (carry_ok && same(q, b)), "year()...weekDay() of t=", num(t), " (TZ=UTC) give ", show(q), ", the instant lies in ", ref::fields_str(a),
		         carry_ok ? " (or, rounded to the millisecond, " + ref::fields_str(b) + ")" : std::string());
	}
	for (const Fmt& fm : FORMATS) {
		std::string text = S(d.toUTCString(fm.f));
		double r = parse(text);
		if (fm.f == Date::FULL)
			VF_CHECK(fabs(r - t) < 0.001 + 2 * ulp(t), "FULL format of t=", num(t), " (in ", ref::fields_str(a), ") is ", vf::show(text), " which parses to ", num(r),
			         " (delta ", num(r - t), ")");
		else
			VF_CHECK(r == fl || (carry_ok && r == fl + 1), fm.name, " format of t=", num(t), " (in ", ref::fields_str(a), ") is ", vf::show(text), " which parses to ",
			         num(r), " (delta ", num(r - t), ")");
	}
}

// the text of an "iso" op, written from the reference fields (never by asl)
struct IsoText {
	std::string text;
	double expected;
	bool basic, nosecs;
	int zform, offmin;
};
static IsoText iso_text(const vf::Op& o)
{
	IsoText r;
	int64_t z = fold(o.i(0), ref::CIVIL_DAY_MIN + 1, ref::CIVIL_DAY_MAX - 1); // the UTC instant stays inside years 1..9999
	int sod = (int)fold(o.i(1), 0, 86399);
	int flags = (int)fold(o.i(2), 0, 15);
	r.basic = flags & 1;
	r.nosecs = (flags & 2) != 0;
	r.zform = flags >> 2;
	int sign = o.i(3) < 0 ? -1 : 1;
	int oh = (int)fold(o.i(4), 0, 23), om = (int)fold(o.i(5), 0, 59);
	std::string dg = o.str(0);
	if (!digits_ok(dg) || r.nosecs)
		dg.clear();
	if (r.nosecs)
		sod -= sod % 60;
	if (r.zform == 0)
		om = 0;
	if (r.zform == 3)
		oh = om = 0;
	ref::Fields f = ref::fields_from_seconds(z * 86400 + sod);
	char b[96];
	if (r.basic)
		snprintf(b, sizeof b, r.nosecs ? "%04d%02d%02dT%02d%02d" : "%04d%02d%02dT%02d%02d%02d", (int)f.year, f.month, f.day, f.hours, f.minutes, f.seconds);
	else
		snprintf(b, sizeof b, r.nosecs ? "%04d-%02d-%02dT%02d:%02d" : "%04d-%02d-%02dT%02d:%02d:%02d", (int)f.year, f.month, f.day, f.hours, f.minutes, f.seconds);
	r.text = b;
	if (!dg.empty())
		r.text += "." + dg;
	char zb[16];
	switch (r.zform) {
	case 0: snprintf(zb, sizeof zb, "%c%02d", sign < 0 ? '-' : '+', oh); break;
	case 1: snprintf(zb, sizeof zb, "%c%02d%02d", sign < 0 ? '-' : '+', oh, om); break;
	case 2: snprintf(zb, sizeof zb, "%c%02d:%02d", sign < 0 ? '-' : '+', oh, om); break;
	default: snprintf(zb, sizeof zb, "Z");
	}
	r.text += zb;
	r.offmin = sign * (oh * 60 + om);
	// local time = UTC + offset  =>  UTC = local - offset
	r.expected = (double)(z * 86400 + sod - (int64_t)r.offmin * 60);
	if (!dg.empty())
		r.expected += strtod(("0." + dg).c_str(), 0);
	return r;
}

static void op_iso(const vf::Op& o)
{
	IsoText it = iso_text(o);
	double r = parse(it.text);
	double tol = it.expected == floor(it.expected) && it.text.find('.') == std::string::npos ? 0.0 : 4 * ulp(it.expected) + 1e-9;
	VF_CHECK(fabs(r - it.expected) <= tol, "Date(", vf::show(it.text), ").time() = ", num(r), ", the text denotes ", num(it.expected), " (delta ", num(r - it.expected), ")");
}

static void op_str(const vf::Op& o)
{
	std::string t = o.str(0);
	for (auto& ch : t)
		if (ch == 0)
			ch = ' ';
	double r = parse(t);
	// either invalid (NaN) or some value: nothing to assert beyond termination and ASan silence
	bool valid = r == r;
	vf::stats().cls(valid ? "str.result_valid" : "str.result_invalid");
	if (valid && t.size() > 20)
		vf::stats().sample("str: " + vf::show(t) + " -> " + num(r), 12);
}

// ---------------------------------------------------------------------------------------------
// time zones other than UTC.  What the property states holds under every zone and is checked (failing oracles):
//  (a) toString(LONG/SHORT/FULL) [local time, no zone designator] -> Date(String) returns the instant (FULL to the ms),
//      toUTCString(LONG/HTTP) -> Date(String) likewise;
//  (b) the zone-less LONG text T with a numeric offset appended denotes civil(T) - offset whatever TZ is; splitUTC,
//      Date(UTC, fields) are unaffected by TZ.
// What the property does NOT state is only observed (class counters, never a failure): localOffset() == the zone's
// offset, split()/accessors == calendar fields of t + offset, Date(y,m,d,h,mi,s) of those fields == t.  The zone's
// offset comes from the harness's own evaluation of the POSIX rule (ref_tz.h, audited against libc's tm_gmtoff).
// asl derives its offset from localtime()/gmtime() field differences and, outside 1970..2037, from an instant of 1972
// in the same season ("approximate offset out of epoch"), hence the margins around DST transitions.

static const int64_t ZT_MIN = T_MIN + 2 * 86400, ZT_MAX = T_MAX - 2 * 86400; // local texts stay inside years 1..9999

struct ZoneCase {
	const ref::Zone* z;
	int64_t t;
	bool skip;
	int off;
};
static ZoneCase zone_case(const vf::Op& o)
{
	ZoneCase zc;
	const auto& zs = ref::zones();
	zc.z = &zs[(size_t)fold(o.i(0), 0, (int64_t)zs.size() - 1)];
	zc.t = fold(o.i(1), ZT_MIN, ZT_MAX);
	bool epoch = zc.t >= 0 && zc.t <= 2145916800LL;
	// 1970..2037: only the repeated local hour at the end of DST is inherently ambiguous (measured on the unchanged tree:
	// nothing else fails); a symmetric 2 h window covers it.  Other years: asl evaluates the offset at an instant of 1972 in
	// the same season (drift <= 1.7 days, rule dates move by <= 6 days between years): 12 days.
	zc.skip = zc.z->transition_distance(zc.t) < (epoch ? 2 * 3600 : 12 * 86400);
	zc.off = zc.z->offset(zc.t);
	// (Zones whose offset has minutes: before FX-45 the zone-less round trip failed outside 1970..2037 near asl's once-a-year fold
	// boundary and within the offset of the two ends of that range - replays/C19/C19_date.fx-zone-minutes-roundtrip.case.)
	return zc;
}

// "YYYY-MM-DDThh:mm:ss" read by the harness (not by asl)
static bool read_long_text(const std::string& s, int64_t* secs)
{
	int y, mo, d, h, mi, se;
	if (s.size() != 19 || sscanf(s.c_str(), "%4d-%2d-%2dT%2d:%2d:%2d", &y, &mo, &d, &h, &mi, &se) != 6)
		return false;
	if (mo < 1 || mo > 12 || d < 1 || d > 31 || h > 23 || mi > 59 || se > 59)
		return false;
	*secs = ref::seconds_from_fields(y, mo, d, h, mi, se);
	return true;
}

static void op_zone(const vf::Op& o)
{
	ZoneCase zc = zone_case(o);
	if (zc.skip)
		return;
	const int64_t t = zc.t;
	const double td = (double)t;
	const ref::Fields f = ref::fields_from_seconds(t + zc.off), u = ref::fields_from_seconds(t);
	const char* tz = zc.z->tz;
	ref::TzGuard guard(tz); // restored when the op ends, also when a check throws
	Date d(td);
	// clauses 1-2 under the zone: UTC fields, UTC constructor, UTC texts
	DateData p = d.splitUTC();
	VF_CHECK(same(p, u), "TZ=", tz, ": splitUTC() of t=", t, " gives ", show(p), ", UTC calendar fields are ", ref::fields_str(u));
	Date c3(Date::UTC, (int)u.year, u.month, u.day, u.hours, u.minutes, u.seconds);
	VF_CHECK(c3.time() == td, "TZ=", tz, ": Date(UTC, ", ref::fields_str(u), ").time() = ", num(c3.time()), ", want ", t);
	for (Date::Format uf : {Date::LONG, Date::HTTP}) {
		std::string text = S(d.toUTCString(uf));
		double r = parse(text);
		VF_CHECK(r == td, "TZ=", tz, ": UTC text ", vf::show(text), " of t=", t, " parses to ", num(r), " (delta ", num(r - td), ")");
	}
	// (a) local texts, no zone designator
	static const Fmt local_formats[3] = {{Date::LONG, "LONG"}, {Date::SHORT, "SHORT"}, {Date::FULL, "FULL"}};
	std::string longtext;
	for (const Fmt& fm : local_formats) {
		std::string text = S(d.toString(fm.f));
		if (fm.f == Date::LONG)
			longtext = text;
		double r = parse(text);
		VF_CHECK(fm.f == Date::FULL ? fabs(r - td) < 0.001 : r == td, "TZ=", tz, ": local ", fm.name, " format of t=", t, " (", ref::fields_str(u), " UTC) is ", vf::show(text),
		         " which parses to ", num(r), " (delta ", num(r - td), ")");
	}
	// (b) the same text with the zone's numeric offset appended: civil(T) - offset, whatever TZ is
	int64_t civil;
	if (read_long_text(longtext, &civil)) {
		int ao = zc.off < 0 ? -zc.off : zc.off;
		char zb[16];
		snprintf(zb, sizeof zb, "%c%02d:%02d", zc.off < 0 ? '-' : '+', ao / 3600, ao / 60 % 60);
		std::string text = longtext + zb;
		double r = parse(text), want = (double)(civil - zc.off);
		VF_CHECK(r == want, "TZ=", tz, ": Date(", vf::show(text), ").time() = ", num(r), ", the text denotes ", num(want), " (delta ", num(r - want), ")");
		if (want != td)
			vf::stats().cls("zones.obs.local_text_plus_zone_offset_is_another_instant");
	}
	else
		vf::stats().cls("zones.obs.local_LONG_text_not_of_the_documented_shape");
	// observations only (not stated by the property): true local time
	if (d.localOffset() != (double)zc.off)
		vf::stats().cls("zones.obs.localOffset_differs_from_zone_rule");
	DateData l = d.split();
	if (!same(l, f))
		vf::stats().cls("zones.obs.split_differs_from_fields_of_t_plus_zone_offset");
	if (!same(accessors(d), f))
		vf::stats().cls("zones.obs.accessors_differ_from_fields_of_t_plus_zone_offset");
	if (Date(l.year, l.month, l.day, l.hours, l.minutes, l.seconds).time() != td)
		vf::stats().cls("zones.obs.local_constructor_of_split_fields_is_another_instant");
	if (Date((int)f.year, f.month, f.day, f.hours, f.minutes, f.seconds).time() != td)
		vf::stats().cls("zones.obs.local_constructor_of_true_local_fields_is_another_instant");
}

// ---------------------------------------------------------------------------------------------
// several threads, each with its own Date and String objects (nothing is shared by the caller), UTC API only

static std::string junk_http(ref::SplitMix& r)
{
	static const char* months[] = {"Jan", "Feb", "Mar", "Apr", "May", "Jun", "Jul", "Aug", "Sep", "Oct", "Nov", "Dec"};
	std::string tok;
	tok += (char)('A' + r.below(26));
	for (size_t i = 0, n = 2 + r.below(3); i < n; i++)
		tok += (char)('a' + r.below(26));
	for (const char* m : months)
		if (tok == m)
			tok += 'x';
	std::string day;
	day += (char)('B' + r.below(24)); // 'B'..'Y': the RFC 1123 branch
	day += (char)('a' + r.below(26));
	day += (char)('a' + r.below(26));
	char b[64];
	snprintf(b, sizeof b, "%s, %02d %s %04d %02d:%02d:%02d GMT", day.c_str(), (int)r.below(32), tok.c_str(), (int)r.below(10000), (int)r.below(24), (int)r.below(60), (int)r.below(60));
	return b;
}

static void mt_worker(int idx, int rounds, uint64_t seed, std::string* err)
{
	ref::SplitMix r(seed * 64 + (uint64_t)idx);
	for (int i = 0; i < rounds; i++) {
		int64_t t = T_MIN + (int64_t)r.below((uint64_t)(T_MAX - T_MIN + 1));
		Date d((double)t);
		for (Date::Format f : {Date::HTTP, Date::LONG, Date::FULL}) {
			String text = d.toUTCString(f);
			double back = Date(text).time();
			if (!(f == Date::FULL ? fabs(back - (double)t) < 0.001 : back == (double)t) && err->empty())
				*err = vf::str("thread ", idx, " round ", i, ": ", vf::show(S(text)), " (t=", t, ") parses to ", num(back));
		}
		// the junk parser: thread 0 between all of its own round trips, the others now and then
		int nj = idx == 0 ? 2 : (i % 4 == 0 ? 1 : 0);
		for (int k = 0; k < nj; k++) {
			String js(junk_http(r).c_str());
			double v = Date(js).time(); // invalid or some value
			(void)v;
		}
	}
}

static void op_mt(const vf::Op& o)
{
	int n = (int)fold(o.i(0), 1, 4), rounds = (int)fold(o.i(1), 1, 400);
	uint64_t seed = (uint64_t)o.i(2);
	std::vector<std::string> errs((size_t)n);
	std::vector<std::thread> th;
	for (int i = 1; i < n; i++)
		th.emplace_back(mt_worker, i, rounds, seed, &errs[(size_t)i]);
	mt_worker(0, rounds, seed, &errs[0]);
	for (auto& x : th)
		x.join();
	for (auto& e : errs)
		VF_CHECK(e.empty(), n, " threads: ", e);
}

void vf_run_case(const std::string&, const vf::Case& c)
{
	for (auto& o : c.ops) {
		if (o.name == "day") {
			int64_t z = fold(o.i(0), ref::CIVIL_DAY_MIN, ref::CIVIL_DAY_MAX);
			// split() at all three instants; the seven single-field accessors (each a separate split) at one of them,
			// rotating with the day number (budget: this op runs 3.65 million times in a quick run)
			int k = (int)ref::floormod(z, 3);
			check_instant(z * 86400, k == 0);
			check_instant(z * 86400 + 43200, k == 1);
			check_instant(z * 86400 + 86399, k == 2);
		}
		else if (o.name == "sec")
			check_instant(fold(o.i(0), T_MIN, T_MAX));
		else if (o.name == "frac")
			op_frac(o);
		else if (o.name == "iso")
			op_iso(o);
		else if (o.name == "str")
			op_str(o);
		else if (o.name == "zone")
			op_zone(o);
		else if (o.name == "mt")
			op_mt(o);
	}
}

// ---------------------------------------------------------------------------------------------
// sampled days (every second of which is checked): calendar edges first, then a fixed pseudo-random fill up to 200

static std::vector<int64_t> sample_days()
{
	static const int key[][3] = {
	    // the first 12 are in every quick run
	    {1, 1, 1},      {9999, 12, 31}, {1970, 1, 1},   {1969, 12, 31}, {1904, 1, 1},   {1904, 1, 2},  {2098, 12, 31}, {2099, 1, 1},
	    {2000, 2, 29},  {1900, 2, 28},  {2100, 3, 1},   {1600, 12, 31},
	    // ends of the range
	    {1, 1, 2},      {1, 12, 31},    {2, 1, 1},      {4, 2, 29},     {9999, 1, 1},   {9999, 12, 30}, {9996, 2, 29},  {9998, 12, 31},
	    // fast-path limits (1904-01-02 .. 2098-12-31 take the short cut)
	    {1903, 12, 31}, {1904, 2, 29},  {1904, 12, 31}, {1905, 1, 1},   {2096, 2, 29},  {2098, 1, 1},   {2099, 12, 31}, {2100, 1, 1},
	    {2100, 2, 28},  {2100, 12, 31}, {2101, 1, 1},
	    // century and 400-year edges
	    {100, 2, 28},   {100, 3, 1},    {100, 12, 31},  {101, 1, 1},    {400, 2, 29},   {400, 12, 31},  {401, 1, 1},    {399, 12, 31},
	    {1600, 1, 1},   {1600, 2, 29},  {1601, 1, 1},   {1599, 12, 31}, {1700, 2, 28},  {1700, 3, 1},   {1700, 12, 31}, {1800, 2, 28},
	    {1800, 3, 1},   {1899, 12, 31}, {1900, 1, 1},   {1900, 3, 1},   {1900, 12, 31}, {1901, 1, 1},   {1999, 12, 31}, {2000, 1, 1},
	    {2000, 2, 28},  {2000, 3, 1},   {2000, 12, 31}, {2001, 1, 1},   {2400, 2, 29},  {2400, 12, 31}, {9600, 2, 29},  {9900, 2, 28},
	    {9900, 3, 1},   {9999, 2, 28},  {8000, 2, 29},  {8000, 12, 31},
	    // ordinary leap days / neighbours, epoch neighbours, 2038
	    {1972, 2, 29},  {1972, 12, 31}, {2023, 2, 28},  {2023, 3, 1},   {2024, 2, 29},  {2024, 12, 31}, {1970, 1, 2},   {1968, 2, 29},
	    {2038, 1, 19},  {2037, 12, 31}, {1901, 12, 13}, {1582, 10, 4},  {1582, 10, 15},
	};
	std::vector<int64_t> d;
	std::set<int64_t> seen;
	for (auto& k : key) {
		int64_t z = ref::days_from_civil(k[0], k[1], k[2]);
		if (seen.insert(z).second)
			d.push_back(z);
	}
	ref::SplitMix rng(19); // a constant: the list does not depend on the run seed
	while (d.size() < 200) {
		int64_t z = ref::CIVIL_DAY_MIN + (int64_t)rng.below((uint64_t)ref::CIVIL_NDAYS);
		if (d.size() % 3 == 0) { // every third fill day is a month end
			ref::Civil c = ref::civil_from_days(z);
			z = ref::days_from_civil(c.year, c.month, ref::days_in_month(c.year, c.month));
		}
		if (seen.insert(z).second)
			d.push_back(z);
	}
	return d;
}

static const char* day_class(int64_t z)
{
	ref::Civil c = ref::civil_from_days(z);
	if (c.month == 2 && c.day == 29)
		return c.year % 400 == 0 ? "leapday.400" : "leapday";
	if (c.year % 100 == 0)
		return c.year % 400 == 0 ? "year.multiple_of_400" : "year.century_not_leap";
	if ((c.month == 12 && c.day == 31) || (c.month == 1 && c.day == 1))
		return "year_edge";
	if (c.day == 1 || c.day == ref::days_in_month(c.year, c.month))
		return "month_edge";
	return "other";
}

// ---------------------------------------------------------------------------------------------
// generators

static const char ALPHA[] = "0123456789TZ:-+. abcdefghijklmnopqrstuvwxyzABCDEFGHIJKLMNOPQRSUVWXY";

static rc::Gen<long long> gen_day()
{
	using namespace rc;
	static const std::vector<int64_t> days = sample_days();
	return gen::oneOf(gen::map(gen::elementOf(days), [](int64_t z) { return (long long)z; }),
	                  gen::map(vf::irange<long long>(ref::CIVIL_DAY_MIN, ref::CIVIL_DAY_MAX), [](long long z) { return z; }),
	                  gen::map(vf::irange<long long>(-25000, 48000), [](long long z) { return z; })); // around the fast-path window
}

static rc::Gen<long long> gen_sod()
{
	using namespace rc;
	return gen::oneOf(gen::elementOf(std::vector<long long>{0, 1, 59, 60, 3599, 3600, 43199, 43200, 86340, 86398, 86399, 86399, 86399}),
	                  vf::irange<long long>(0, 86399), gen::map(vf::irange<long long>(0, 23), [](long long h) { return h * 3600 + 3599; }));
}

static rc::Gen<std::string> gen_digits()
{
	using namespace rc;
	auto dig = [](int lo, int hi) {
		return gen::map(gen::container<std::vector<int>>(vf::irange<int>(0, 9)), [=](std::vector<int> v) {
			std::string s;
			for (size_t i = 0; i < v.size() && (int)s.size() < hi; i++)
				s += (char)('0' + v[i]);
			while ((int)s.size() < lo)
				s += '0';
			return s;
		});
	};
	auto cat = [=](std::vector<std::string> heads, int maxtail) {
		return gen::map(gen::pair(gen::elementOf(heads), dig(0, maxtail)), [](const std::pair<std::string, std::string>& p) { return (p.first + p.second).substr(0, 9); });
	};
	return gen::oneOf(
	    gen::resize(12, dig(1, 9)),                                                         // any 1..9 digits
	    cat({"9995", "9996", "9997", "9998", "9999", "99951", "99999", "999999", "99950"}, 5), // the last half millisecond
	    cat({"9994", "99949", "999499", "9994999", "99949999", "99950000", "9995000", "999500"}, 1), // around the rounding point
	    cat({"0004", "0005", "0000", "00049", "00050", "00000000", "000"}, 2),               // the first half millisecond
	    cat({"1235", "4995", "5005", "12349", "12350", "5", "49", "50", "499", "500"}, 3),   // millisecond rounding points
	    gen::elementOf(std::vector<std::string>{"9", "99", "999", "9999", "99999", "999999", "9999999", "99999999", "999999999", "0", "000000001", "1", "25", "250"}));
}

static std::string gen_valid_text(int64_t t, int form)
{
	ref::Fields f = ref::fields_from_seconds(t);
	static const char* wd[] = {"Sun", "Mon", "Tue", "Wed", "Thu", "Fri", "Sat"};
	static const char* mn[] = {"Jan", "Feb", "Mar", "Apr", "May", "Jun", "Jul", "Aug", "Sep", "Oct", "Nov", "Dec"};
	char b[96];
	switch (form % 8) {
	case 0: snprintf(b, sizeof b, "%04d-%02d-%02dT%02d:%02d:%02dZ", (int)f.year, f.month, f.day, f.hours, f.minutes, f.seconds); break;
	case 1: snprintf(b, sizeof b, "%04d%02d%02dT%02d%02d%02dZ", (int)f.year, f.month, f.day, f.hours, f.minutes, f.seconds); break;
	case 2: snprintf(b, sizeof b, "%04d-%02d-%02dT%02d:%02d:%02d.%03dZ", (int)f.year, f.month, f.day, f.hours, f.minutes, f.seconds, (int)(t % 1000 + 1000) % 1000); break;
	case 3: snprintf(b, sizeof b, "%s %02d %s %04d %02d:%02d:%02d GMT", wd[f.weekDay], f.day, mn[f.month - 1], (int)f.year, f.hours, f.minutes, f.seconds); break;
	case 4: snprintf(b, sizeof b, "%04d-%02d-%02dT%02d:%02d:%02d.%d+%02d:%02d", (int)f.year, f.month, f.day, f.hours, f.minutes, f.seconds, (int)(t % 97 + 97) % 97, f.hours, f.minutes); break;
	case 5: snprintf(b, sizeof b, "%04d%02d%02dT%02d%02d-%02d%02d", (int)f.year, f.month, f.day, f.hours, f.minutes, f.seconds % 24, f.minutes); break;
	case 6: snprintf(b, sizeof b, "%04d-%02d-%02dT%02d:%02d+%02d", (int)f.year, f.month, f.day, f.hours, f.minutes, f.seconds % 24); break;
	default: snprintf(b, sizeof b, "%04d-%02d-%02d", (int)f.year, f.month, f.day);
	}
	return b;
}

static rc::Gen<std::string> gen_text()
{
	using namespace rc;
	auto ch = gen::oneOf(gen::elementOf(std::string("0123456789")), gen::elementOf(std::string("0123456789TZ:-+. ")), gen::elementOf(std::string(ALPHA)));
	auto soup = gen::mapcat(vf::boundary_len({8, 10, 13, 15, 16, 19, 20, 24, 29, 40}, 40), [=](int n) { return gen::container<std::string>((size_t)n, ch); });
	// a valid text with up to 3 edits: replace / delete / insert / truncate
	auto edited = gen::map(gen::tuple(vf::irange<long long>(T_MIN, T_MAX), vf::irange<int>(0, 7), gen::container<std::vector<std::tuple<int, int, char>>>(gen::tuple(vf::irange<int>(0, 3), vf::irange<int>(0, 39), ch))),
	                       [](const std::tuple<long long, int, std::vector<std::tuple<int, int, char>>>& t) {
		                       std::string s = gen_valid_text(std::get<0>(t), std::get<1>(t));
		                       const auto& ed = std::get<2>(t);
		                       for (size_t i = 0; i < ed.size() && i < 3; i++) {
			                       int kind = std::get<0>(ed[i]);
			                       size_t pos = (size_t)std::get<1>(ed[i]) % (s.size() + 1);
			                       char c = std::get<2>(ed[i]);
			                       if (kind == 0 && pos < s.size())
				                       s[pos] = c;
			                       else if (kind == 1 && pos < s.size())
				                       s.erase(pos, 1);
			                       else if (kind == 2)
				                       s.insert(s.begin() + (pos <= s.size() ? pos : s.size()), c);
			                       else
				                       s.resize(pos);
		                       }
		                       return s.substr(0, 40);
	                       });
	// digits and separators laid out like a date, every field drawn separately (out-of-range fields, one wrong separator,
	// over-long fractions, odd zones)
	auto shaped = gen::map(gen::tuple(gen::container<std::vector<int>>(9, vf::irange<int>(0, 99)), gen::container<std::vector<int>>(6, vf::irange<int>(0, 11)),
	                                  gen::elementOf(std::string("T:-+.Z 0t")), gen::container<std::string>(11, gen::elementOf(std::string("0123456789")))),
	                       [](const std::tuple<std::vector<int>, std::vector<int>, char, std::string>& t) {
		                       const auto& v = std::get<0>(t);
		                       const auto& k = std::get<1>(t); // k[0] which separator is wrong (>= 7: none), k[1] basic?, k[2] fraction?, k[3] its length, k[4] zone kind
		                       char bad = std::get<2>(t);
		                       char b[96];
		                       bool basic = k[1] < 5;
		                       auto pick = [&](int i, char good) { return k[0] == i ? bad : good; };
		                       int n = basic ? snprintf(b, sizeof b, "%02d%02d%02d%02d%c%02d%02d%02d", v[0], v[1], v[2] % 14, v[3] % 34, pick(0, 'T'), v[4] % 26, v[5] % 62, v[6] % 62)
		                                     : snprintf(b, sizeof b, "%02d%02d%c%02d%c%02d%c%02d%c%02d%c%02d", v[0], v[1], pick(1, '-'), v[2] % 14, pick(2, '-'), v[3] % 34, pick(0, 'T'),
		                                                v[4] % 26, pick(3, ':'), v[5] % 62, pick(4, ':'), v[6] % 62);
		                       std::string s(b, (size_t)n);
		                       if (k[5] < 3)
			                       s.resize(s.size() - (basic ? 2 : 3)); // no seconds
		                       if (k[2] < 5)
			                       s += "." + std::get<3>(t).substr(0, (size_t)k[3]);
		                       switch (k[4] % 6) {
		                       case 0: s += 'Z'; break;
		                       case 1: snprintf(b, sizeof b, "%c%02d%c%02d", pick(5, '+'), v[7], pick(6, ':'), v[8]); s += b; break;
		                       case 2: snprintf(b, sizeof b, "-%02d%02d", v[7], v[8]); s += b; break;
		                       case 3: s += v[7] % 2 ? '+' : '-'; break;                                  // a zone cut short after its sign
		                       case 4: snprintf(b, sizeof b, "%c%d", v[7] % 2 ? '+' : '-', v[8] % 10); s += b; break; // ... or after one digit
		                       default: break;
		                       }
		                       return s.substr(0, 40);
	                       });
	return gen::oneOf(soup, edited, edited, shaped);
}

// syntactic (asl-independent) test used for the non-trivial rule of "str" cases: the text looks enough like a date to get past the first checks
static bool datelike(const std::string& s)
{
	if (s.size() >= 8 && isdigit((unsigned char)s[0]) && isdigit((unsigned char)s[1]) && isdigit((unsigned char)s[2]) && isdigit((unsigned char)s[3]))
		return true;
	if (!s.empty() && s[0] > 'A' && s[0] < 'Z') {
		int sp = 0;
		for (char c : s)
			sp += c == ' ';
		return sp >= 5;
	}
	return false;
}

// ---------------------------------------------------------------------------------------------
// bulk generation without rapidcheck (about ten times cheaper per case): a SplitMix stream seeded from seed/worker whose
// draws are written into the case, so every case replays from its own text.  Cases are single ops, there is nothing to shrink.

static std::string bulk_digits(ref::SplitMix& r, const char** cls)
{
	auto tail = [&](size_t n) {
		std::string s;
		for (size_t i = 0; i < n; i++)
			s += (char)('0' + r.below(10));
		return s;
	};
	std::string d;
	switch (r.below(8)) {
	case 0: *cls = "any"; d = tail(1 + r.below(9)); break;
	case 1: *cls = "last_half_ms"; d = std::string("999") + (char)('5' + r.below(5)) + tail(r.below(6)); break;
	case 2: { // just below / at / above the rounding point .9995
		*cls = "rounding_point";
		size_t k = r.below(5);
		d = r.below(2) ? "9994" + std::string(k, '9') + tail(r.below(5 - k + 1)) : "9995" + std::string(k, '0') + tail(r.below(5 - k + 1));
		break;
	}
	case 3: *cls = "first_half_ms"; d = std::string("000") + (char)('0' + r.below(6)) + tail(r.below(6)); break;
	case 4: { // rounding points of other milliseconds: abc4999.., abc5000..
		*cls = "ms_rounding_point";
		size_t k = r.below(4);
		d = tail(3) + (r.below(2) ? "4" + std::string(k, '9') : "5" + std::string(k, '0')) + tail(r.below(2));
		break;
	}
	case 5: *cls = "all_nines"; d = std::string(1 + r.below(9), '9'); break;
	case 6: *cls = "short"; d = tail(1 + r.below(3)); break;
	default: *cls = "nine_digits"; d = tail(9);
	}
	return d.substr(0, 9);
}

static long long bulk_day(ref::SplitMix& r, const std::vector<int64_t>& days)
{
	switch (r.below(8)) {
	case 0:
	case 1:
	case 2: return days[r.below(days.size())];
	case 3:
	case 4: return ref::CIVIL_DAY_MIN + (long long)r.below((uint64_t)ref::CIVIL_NDAYS);
	case 5: return -25000 + (long long)r.below(73000); // around the fast-path window 1904..2098
	default: return (long long)r.below(47482);          // 1970..2099
	}
}

static long long bulk_sod(ref::SplitMix& r)
{
	switch (r.below(6)) {
	case 0: return 86399;
	case 1: return 0;
	case 2: return (long long)r.below(24) * 3600 + 3599;
	case 3: return (long long)r.below(1440) * 60 + 59;
	default: return (long long)r.below(86400);
	}
}

static bool run1(const std::string& part, vf::Case& c) { return vf::runner().run(part, c); }

void vf_search(const vf::Args& a)
{
	using namespace rc;
	const int64_t W = a.workers, me = a.worker;
	double t0 = vf::now();
	auto lap = [&](const char* what) {
		double t = vf::now();
		printf("[time] worker %d %s: %.2fs, %zu MB live\n", a.worker, what, t - t0, vf::allocated_bytes() >> 20); // tuning aid in the worker log, never used for a decision
		t0 = t;
	};

	if (!local_is_utc()) {
		printf("INFRA the harness must run with TZ=UTC (local-time accessors are compared with UTC fields)\n");
		exit(2);
	}
	// (0) the reference calendar against the python datetime digests and a day-by-day odometer
	if (a.worker == 0) {
		std::string why;
		if (!ref::civil_audit_ok(&why)) {
			printf("INFRA reference calendar failed its audit: %s\n", why.c_str());
			exit(2);
		}
		vf::stats().cls("audit.reference_calendar_matches_python_datetime_digests");
		if (!ref::tz_audit_ok(&why)) {
			printf("INFRA reference time-zone rules failed their audit against libc: %s\n", why.c_str());
			exit(2);
		}
		vf::stats().cls("audit.reference_zone_offsets_match_libc_tm_gmtoff");
		lap("audit");
	}

	// (1) every day of years 1..9999 at 00:00:00, 12:00:00, 23:59:59
	[&]() {
		vf::Case c;
		c.ops.push_back(vf::Op("day", {0}));
		uint64_t n = 0;
		std::map<const char*, uint64_t> cls;
		for (int64_t z = ref::CIVIL_DAY_MIN + me; z <= ref::CIVIL_DAY_MAX; z += W) {
			c.ops[0].a[0] = z;
			if (!run1("days", c))
				return;
			n++;
			cls[day_class(z)]++;
			if (z > -24107 && z < 47117)
				cls["fast_path_1904-01-02..2098-12-31"]++;
		}
		for (auto& kv : cls)
			vf::stats().cls(std::string("days.") + kv.first, kv.second);
		vf::stats().nt_counted(n); // one case per day (three instants each)
		vf::stats().cls("days.instants", n * 3);
		vf::stats().part("days.every_day_0001-01-01..9999-12-31_x_3_times", n * 3, a.scale >= 1);
		if (me == 0)
			vf::stats().sample("days: day -719162 (0001-01-01) ... day 2932896 (9999-12-31), instants z*86400 + {0, 43200, 86399}");
	}();
	lap("days");

	// (2) every second of the sampled days
	[&]() {
		std::vector<int64_t> days = sample_days();
		std::vector<int64_t> use;
		if (a.quick()) {
			for (int i = 0; i < 12; i++)
				use.push_back(days[i]);
			for (int k = 0; k < 8; k++) // 8 more, rotating with the seed through the other 188
				use.push_back(days[12 + (a.seed * 8 + k) % 188]);
		}
		else
			use = days;
		size_t nd = (size_t)(use.size() * (a.scale < 1 ? a.scale : 1.0));
		if (nd < 1)
			nd = 1;
		use.resize(nd);
		vf::Case c;
		c.ops.push_back(vf::Op("sec", {0}));
		uint64_t n = 0;
		for (int64_t z : use) {
			uint64_t nz = 0;
			for (int64_t s = me; s < 86400; s += W) {
				c.ops[0].a[0] = z * 86400 + s;
				if (!run1("secs", c))
					return;
				nz++;
			}
			n += nz;
			vf::stats().cls(std::string("secs.day.") + day_class(z), nz);
			if (me == 0) {
				ref::Civil cv = ref::civil_from_days(z);
				char b[64];
				snprintf(b, sizeof b, "secs: all 86400 s of %04d-%02d-%02d", (int)cv.year, cv.month, cv.day);
				vf::stats().sample(b, 3);
			}
		}
		vf::stats().nt_counted(n);
		vf::stats().part(vf::str("secs.every_second_of_", use.size(), "_sampled_days"), n, true);
	}();
	lap("secs");

	// (3) fractional instants
	[&]() {
		auto g = gen::map(gen::tuple(gen_day(), gen_sod(), gen_digits()), [](const std::tuple<long long, long long, std::string>& t) {
			vf::Case c;
			vf::Op o("frac", {std::get<0>(t) * 86400 + std::get<1>(t)});
			o.s.push_back(std::get<2>(t));
			c.ops.push_back(o);
			return c;
		});
		vf::check_cases("frac", a.n(20000, 60000), 100, g, [](const vf::Case& c) {
			const vf::Op& o = c.ops[0];
			const std::string& d = o.str(0);
			int64_t sod = ref::floormod(o.i(0), 86400);
			double fr = strtod(("0." + d).c_str(), 0);
			bool lasthalf = fr >= 0.9995, firsthalf = fr < 0.0005;
			vf::stats().cls(vf::str("frac.digits", d.size()));
			vf::stats().cls(lasthalf ? "frac.last_half_ms" : firsthalf ? "frac.first_half_ms" : fabs(fr - 0.9995) < 1e-4 ? "frac.near_rounding_point" : "frac.other");
			if (sod == 86399 && lasthalf)
				vf::stats().cls("frac.last_half_ms_before_midnight");
			if (sod == 86399 && lasthalf && ref::civil_from_days(ref::floordiv(o.i(0), 86400) + 1).day == 1)
				vf::stats().cls("frac.last_half_ms_before_a_month_or_year_end");
			if (lasthalf || firsthalf || sod == 86399 || sod == 0)
				vf::stats().nt(vf::fnv(vf::serialize(c)));
			if (sod == 86399 && lasthalf)
				vf::stats().sample("frac: " + vf::str(o.i(0)) + " + 0." + d, 8);
		});
	}();
	lap("frac");

	// (3b) fractional instants in bulk (SplitMix stream written into the cases)
	[&]() {
		ref::SplitMix rng(a.seed * 1000003ULL + (uint64_t)a.worker * 7919ULL + 1);
		const std::vector<int64_t> days = sample_days();
		long n = a.n(120000, 1500000);
		std::map<std::string, uint64_t> cls;
		vf::Case c;
		c.ops.push_back(vf::Op("frac", {0}, {std::string()}));
		for (long i = 0; i < n; i++) {
			const char* dc = "";
			long long z = bulk_day(rng, days), sod = bulk_sod(rng);
			c.ops[0].a[0] = z * 86400 + sod;
			c.ops[0].s[0] = bulk_digits(rng, &dc);
			if (!run1("frac", c))
				return;
			cls[std::string("frac.bulk.") + dc]++;
			double fr = strtod(("0." + c.ops[0].s[0]).c_str(), 0);
			bool edge = fr >= 0.9995 || fr < 0.0005;
			if (sod == 86399 && fr >= 0.9995)
				cls["frac.bulk.last_half_ms_before_midnight"]++;
			if (edge || sod == 86399 || sod == 0)
				vf::stats().nt(vf::fnv(vf::serialize(c)));
		}
		for (auto& kv : cls)
			vf::stats().cls(kv.first, kv.second);
		vf::stats().part("frac.bulk", (uint64_t)n, false);
	}();
	lap("frac.bulk");

	// (4) ISO texts with zone offsets
	[&]() {
		auto g = gen::map(gen::tuple(gen_day(), gen_sod(), vf::irange<int>(0, 15), vf::irange<int>(0, 1), gen::oneOf(vf::irange<int>(0, 23), gen::elementOf(std::vector<int>{0, 1, 12, 23})),
		                             gen::oneOf(vf::irange<int>(0, 59), gen::elementOf(std::vector<int>{0, 30, 45, 59})), gen::oneOf(gen::just(std::string()), gen_digits())),
		                  [](const std::tuple<long long, long long, int, int, int, int, std::string>& t) {
			                  vf::Case c;
			                  vf::Op o("iso", {std::get<0>(t), std::get<1>(t), std::get<2>(t), std::get<3>(t) ? -1 : 1, std::get<4>(t), std::get<5>(t)});
			                  o.s.push_back(std::get<6>(t));
			                  c.ops.push_back(o);
			                  return c;
		                  });
		vf::check_cases("iso", a.n(20000, 60000), 100, g, [](const vf::Case& c) {
			IsoText it = iso_text(c.ops[0]);
			static const char* zf[] = {"+-hh", "+-hhmm", "+-hh:mm", "Z"};
			vf::stats().cls(vf::str("iso.", it.basic ? "basic" : "extended", it.nosecs ? ".nosecs" : ".secs", ".zone", zf[it.zform]));
			vf::stats().cls(it.offmin > 0 ? "iso.offset.east" : it.offmin < 0 ? "iso.offset.west" : "iso.offset.zero");
			if (it.text.find('.') != std::string::npos)
				vf::stats().cls("iso.with_fraction");
			int64_t sod = ref::floormod(c.ops[0].i(1), 86400);
			if (it.offmin != 0 && (sod - it.offmin * 60 < 0 || sod - it.offmin * 60 >= 86400))
				vf::stats().cls("iso.offset_crosses_midnight");
			if (it.offmin != 0)
				vf::stats().nt(vf::fnv(it.text));
			if (it.offmin != 0 && it.zform == 2)
				vf::stats().sample("iso: " + it.text, 10);
		});
		// all offsets -23:59..+23:59 in the two forms that carry minutes, on one instant per offset
		vf::Case c;
		c.ops.push_back(vf::Op("iso", {0, 0, 0, 1, 0, 0}, {std::string()}));
		uint64_t n = 0;
		for (int off = -1439 + (int)me; off <= 1439; off += (int)W)
			for (int zform = off % 60 == 0 ? 0 : 1; zform <= 2; zform++) // whole hours also in the +-hh form
				for (int basic = 0; basic < 2; basic++) {
					int ao = off < 0 ? -off : off;
					c.ops[0].a = {(long long)(off * 2477 + 11017), (long long)((off + 1439) * 30 + 7), (long long)(basic | zform << 2), off < 0 ? -1 : 1, ao / 60, ao % 60};
					if (!run1("iso", c))
						return;
					n++;
				}
		vf::stats().nt_counted(n);
		vf::stats().part("iso.all_offsets_-23:59..+23:59_x_{hh,hhmm,hh:mm}_x_{basic,extended}", n, true);
	}();
	lap("iso");

	// (4b) ISO texts in bulk
	[&]() {
		ref::SplitMix rng(a.seed * 1000003ULL + (uint64_t)a.worker * 7919ULL + 2);
		const std::vector<int64_t> days = sample_days();
		long n = a.n(150000, 1500000);
		uint64_t nz = 0, cross = 0, withfrac = 0;
		vf::Case c;
		c.ops.push_back(vf::Op("iso", {0, 0, 0, 1, 0, 0}, {std::string()}));
		for (long i = 0; i < n; i++) {
			const char* dc = "";
			long long sod = bulk_sod(rng);
			int oh = (int)rng.below(24), om = rng.below(3) ? (int)rng.below(60) : (int)(rng.below(4) * 15);
			c.ops[0].a = {bulk_day(rng, days), sod, (long long)rng.below(16), rng.below(2) ? -1 : 1, oh, om};
			c.ops[0].s[0] = rng.below(2) ? bulk_digits(rng, &dc) : std::string();
			if (!run1("iso", c))
				return;
			IsoText it = iso_text(c.ops[0]);
			if (it.offmin != 0) {
				nz++;
				vf::stats().nt(vf::fnv(it.text));
				if (sod - it.offmin * 60 < 0 || sod - it.offmin * 60 >= 86400)
					cross++;
			}
			if (it.text.find('.') != std::string::npos)
				withfrac++;
		}
		vf::stats().cls("iso.bulk.offset_nonzero", nz);
		vf::stats().cls("iso.bulk.offset_crosses_midnight", cross);
		vf::stats().cls("iso.bulk.with_fraction", withfrac);
		vf::stats().part("iso.bulk", (uint64_t)n, false);
	}();
	lap("iso.bulk");

	// (5) arbitrary strings
	[&]() {
		auto g = gen::map(gen_text(), [](const std::string& s) {
			vf::Case c;
			vf::Op o("str");
			o.s.push_back(s);
			c.ops.push_back(o);
			return c;
		});
		vf::check_cases("str", a.n(30000, 100000), 100, g, [](const vf::Case& c) {
			const std::string& s = c.ops[0].str(0);
			bool dl = datelike(s); // (no asl call here: the case is not yet registered as the current one)
			vf::stats().cls(s.size() == 15 || s.size() >= 19 ? "str.flush_with_end_of_storage" : "str.slack_after_terminator");
			vf::stats().cls(dl ? "str.datelike" : "str.not_datelike");
			if (dl)
				vf::stats().nt(vf::fnv(s));
		});
	}();
	lap("str");

	// (6) other time zones (TZ set by the case itself, restored to UTC by it)
	[&]() {
		const int NZ = (int)ref::zones().size();
		vf::Case c;
		c.ops.push_back(vf::Op("zone", {0, 0}));
		std::map<std::string, uint64_t> cls;
		uint64_t ran = 0, skipped = 0, idx = 0;
		auto one = [&](int k, int64_t t) -> bool {
			if ((int64_t)(idx++ % (uint64_t)W) != me)
				return true;
			c.ops[0].a = {k, (long long)t};
			ZoneCase zc = zone_case(c.ops[0]);
			if (zc.skip) {
				skipped++;
				if (zc.off % 3600 != 0 && zc.z->transition_distance(zc.t) == INT64_MAX)
					cls["zones.skipped_minute_offset_zone_outside_1970-01-02..2037-12-31"]++;
				return true;
			}
			if (!run1("zones", c))
				return false;
			ran++;
			cls[std::string("zones.tz.") + zc.z->tz]++;
			if (ref::fields_from_seconds(zc.t).year != ref::fields_from_seconds(zc.t + zc.off).year) {
				cls["zones.local_year_differs_from_utc_year"]++;
				if (ref::is_leap(std::min(ref::fields_from_seconds(zc.t).year, ref::fields_from_seconds(zc.t + zc.off).year)))
					cls["zones.local_year_differs_from_utc_year.leap_year_ends"]++;
			}
			cls[zc.t >= 0 && zc.t <= 2145916800LL ? "zones.in_1970..2037" : "zones.outside_1970..2037"]++;
			return true;
		};
		// (6a) New Year +-14 h, hourly, every year 2..9999; every zone for 1969..2039 (thorough: for every year)
		for (int64_t y = 2; y <= 9999; y++)
			for (int h = -14; h <= 14; h++) {
				int64_t t = ref::days_from_civil(y, 1, 1) * 86400 + h * 3600;
				if (!a.quick() || (y >= 1969 && y <= 2039)) {
					for (int k = 0; k < NZ; k++)
						if (!one(k, t))
							return;
				}
				else if (!one((int)((y * 29 + h + 14 + (int64_t)a.seed) % NZ), t))
					return;
			}
		uint64_t n6a = ran;
		// (6b) every 97th day at the three times
		for (int64_t z = ref::CIVIL_DAY_MIN + 2 + (int64_t)(a.seed % 97); z <= ref::CIVIL_DAY_MAX - 2; z += 97)
			for (int64_t sod : {0, 43200, 86399}) {
				if (a.quick()) {
					if (!one((int)ref::floormod(z / 97 + sod, NZ), z * 86400 + sod))
						return;
				}
				else
					for (int k = 0; k < NZ; k++)
						if (!one(k, z * 86400 + sod))
							return;
			}
		// (6c) every 61st second of the sampled days
		{
			std::vector<int64_t> days = sample_days();
			size_t nd = a.quick() ? 20 : days.size();
			for (size_t i = 0; i < nd; i++) {
				int64_t z = fold(days[a.quick() && i >= 12 ? 12 + (a.seed * 8 + (i - 12)) % 188 : i], ref::CIVIL_DAY_MIN + 2, ref::CIVIL_DAY_MAX - 2);
				for (int64_t sod = (int64_t)(i % 61); sod < 86400; sod += 61) {
					if (a.quick()) {
						if (!one((int)((i + (size_t)sod) % NZ), z * 86400 + sod))
							return;
					}
					else
						for (int k = 0; k < NZ; k++)
							if (!one(k, z * 86400 + sod))
								return;
				}
			}
		}
		vf::stats().nt_counted(ran);
		vf::stats().part("zones.new_year_+-14h_hourly_all_years", n6a, !a.quick());
		vf::stats().part("zones.every_97th_day_and_every_61st_second_of_sampled_days", ran - n6a, false);
		// (6d) pseudo-random (zone, instant) pairs, biased to year ends and to the edges of the excluded windows
		ref::SplitMix rng(a.seed * 1000003ULL + (uint64_t)a.worker * 7919ULL + 3);
		long n = a.n(30000, 400000);
		uint64_t before = ran;
		for (long i = 0; i < n; i++) {
			int k = (int)rng.below((uint64_t)NZ);
			const ref::Zone& Z = ref::zones()[(size_t)k];
			int64_t t;
			switch (rng.below(8)) {
			case 0:
			case 1:
			case 2: t = ref::days_from_civil(2 + (int64_t)rng.below(9998), 1, 1) * 86400 - 100000 + (int64_t)rng.below(200000); break; // +-28 h around a New Year
			case 3: t = ref::days_from_civil(1968 + (int64_t)rng.below(72), 1, 1) * 86400 - 60000 + (int64_t)rng.below(120000); break;
			case 4: t = (int64_t)rng.below(2145916800ULL); break;
			case 5: { // just outside the excluded window of a transition
				int64_t tr = rng.below(2) ? Z.start_utc(1970 + (int64_t)rng.below(68)) : Z.end_utc(1970 + (int64_t)rng.below(68));
				t = Z.dst ? tr + (rng.below(2) ? 1 : -1) * (2 * 3600 + (int64_t)rng.below(7200)) : (int64_t)rng.below(2145916800ULL);
				break;
			}
			default: t = ZT_MIN + (int64_t)rng.below((uint64_t)(ZT_MAX - ZT_MIN));
			}
			idx = (uint64_t)me; // every generated pair belongs to this worker
			uint64_t r0 = ran;
			if (!one(k, t))
				return;
			if (ran > r0)
				vf::stats().nt(vf::fnv(vf::serialize(c)));
		}
		vf::stats().part("zones.random", ran - before, false);
		cls["zones.skipped_total"] += skipped;
		for (auto& kv : cls)
			vf::stats().cls(kv.first, kv.second);
		if (me == 0)
			vf::stats().sample("zones: zone 9 0 = TZ=" + std::string(ref::zones()[9].tz) + " at 1970-01-01T00:00:00Z (local 13:00 NZDT)", 14);
	}();
	lap("zones");

	// (7) threads
	[&]() {
		ref::SplitMix rng(a.seed * 1000003ULL + (uint64_t)a.worker * 7919ULL + 4);
		long n = a.n(60, 400);
		vf::Case c;
		c.ops.push_back(vf::Op("mt", {0, 0, 0}));
		for (long i = 0; i < n; i++) {
			int th = i % 5 == 4 ? 1 : 2 + (int)rng.below(3);
			c.ops[0].a = {th, 100 + (long long)rng.below(200), (long long)(rng.next() >> 16)};
			if (!run1("mt", c))
				return;
			vf::stats().cls(vf::str("mt.threads", th));
			vf::stats().nt(vf::fnv(vf::serialize(c)));
		}
		vf::stats().part("mt", (uint64_t)n, false);
	}();
	lap("mt");
}
