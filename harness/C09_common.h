// C09_common.h -- shared by harness/C09_http_parse.cpp and fuzz/C09_request.cpp:
//   * a recording HttpServer subclass whose connection loop is entered in-process (no threads, no accept) through the
//     public base entry  static_cast<SocketServer&>(srv).serve(Socket(fd))  on one end of a socketpair;
//   * a web root with a few files under ./build/tmp/<pid>/ and a secret file next to (outside) the root;
//   * the structure-aware generator of hostile request streams (templated on the source of choices, so that the
//     libFuzzer target decodes fuzz bytes and the rapidcheck harness a PRNG whose output is written into the case).
#pragma once
#include <asl/HttpServer.h>
#include <asl/Http.h>
#include <asl/File.h>
#include <string>
#include <vector>
#include <map>
#include <thread>
#include <atomic>
#include <new>
#include <sys/socket.h>
#include <sys/ioctl.h>
#include <sys/stat.h>
#include <poll.h>
#include <signal.h>
#include <pthread.h>
#include <dirent.h>
#include <fcntl.h>
#include <unistd.h>
#include <errno.h>
#include <time.h>

// The body reader reserves Content-Length bytes up front (up to 2 GiB at the word of any client).  Under ASan such a
// reservation costs tens of milliseconds (shadow poisoning) and coverage-guided fuzzing would spend all its time there,
// so allocations above 32 MiB fail instead, as in a process with a memory limit: the library then throws std::bad_alloc
// out of the connection loop, which run_stream() counts as "connection dropped" (no property speaks about it).
// (quarantine kept small: up to 32 of these processes run side by side)
extern "C" const char* __asan_default_options() { return "max_allocation_size_mb=32:allocator_may_return_null=1:quarantine_size_mb=24"; }

namespace c09 {

inline std::string S(const asl::String& s) { return std::string(*s, (size_t)s.length()); }
inline std::string S(const asl::ByteArray& b) { return std::string((const char*)b.data(), (size_t)b.length()); }
inline asl::String A(const std::string& s)
{
	asl::String r;
	r.append(s.data(), (int)s.size());
	return r;
}

inline double mono()
{
	timespec t;
	clock_gettime(CLOCK_MONOTONIC, &t);
	return t.tv_sec + 1e-9 * t.tv_nsec;
}

inline bool has_dotdot(const std::string& bytes) { return bytes.find("..") != std::string::npos; }

// ------------------------------------------------------------------------------------------------------------------
// web root

struct Root {
	std::string base, root;
	bool made = false;
};
inline Root& webroot()
{
	static Root r;
	return r;
}
#define C09_SECRET "C09-SECRET-OUTSIDE-ROOT-7f3a"
inline void put_file(const std::string& p, const std::string& content)
{
	FILE* f = fopen(p.c_str(), "wb");
	if (f) {
		fwrite(content.data(), 1, content.size(), f);
		fclose(f);
	}
}
inline void remove_tree_at(const std::string& base);
inline void remove_root()
{
	Root& r = webroot();
	if (!r.made)
		return;
	remove_tree_at(r.base);
	r.made = false;
}
inline void remove_tree_at(const std::string& base)
{
	const char* files[] = {"/root/index.html", "/root/a", "/root/a.txt", "/root/f.bin", "/root/e", "/root/d/index.html", "/root/d/x.json", "/secret.txt", "/a"};
	for (auto f : files)
		unlink((base + f).c_str());
	rmdir((base + "/root/d").c_str());
	rmdir((base + "/root").c_str());
	rmdir(base.c_str());
}
// a process that was killed (crash, fuzzer timeout/_Exit) cannot remove its root: the next one does it
inline void remove_stale_roots()
{
	std::vector<std::string> names;
	if (DIR* d = opendir("build/tmp")) {
		while (dirent* e = readdir(d))
			names.push_back(e->d_name);
		closedir(d);
	}
	for (auto& name : names) {
		if (name.empty() || name.find_first_not_of("0123456789") != std::string::npos)
			continue;
		struct stat st;
		if (stat(("/proc/" + name).c_str(), &st) == 0)
			continue; // still running
		if (stat(("build/tmp/" + name + "/secret.txt").c_str(), &st) == 0) // ours
			remove_tree_at("build/tmp/" + name);
	}
}
inline const std::string& make_root()
{
	Root& r = webroot();
	if (r.made)
		return r.root;
	mkdir("build", 0755);
	mkdir("build/tmp", 0755);
	remove_stale_roots();
	r.base = "build/tmp/" + std::to_string(getpid());
	mkdir(r.base.c_str(), 0755);
	r.root = r.base + "/root";
	mkdir(r.root.c_str(), 0755);
	mkdir((r.root + "/d").c_str(), 0755);
	put_file(r.root + "/index.html", "<html>index</html>\n");
	put_file(r.root + "/a", "file-a\n");
	put_file(r.root + "/a.txt", "0123456789");
	std::string big;
	for (int i = 0; i < 40000; i++)
		big += (char)('A' + i % 23);
	put_file(r.root + "/f.bin", big);
	put_file(r.root + "/e", "");
	put_file(r.root + "/d/index.html", "<html>d</html>\n");
	put_file(r.root + "/d/x.json", "{\"x\":1}");
	put_file(r.base + "/secret.txt", C09_SECRET "\n"); // outside the root: must never be served
	put_file(r.base + "/a", C09_SECRET "\n");
	r.made = true;
	atexit(remove_root);
	return r.root;
}

// ------------------------------------------------------------------------------------------------------------------
// recording server

struct Seen {
	std::string method, path, resource, querystring, proto, body;
	std::map<std::string, std::string> headers; // dictionary as stored (canonical names)
	std::map<std::string, std::string> query;   // query() dictionary
	std::vector<std::string> hlook, qlook;      // results of the planned header(name) / query(key) lookups
	// The handler (1) enumerates query(), (2) looks up every planned key and HOLDS the returned const String&, (3) probes the
	// absent keys, (4) reads again through the held references, (5) enumerates headers() and query() again.  `query` and
	// `headers` are the enumerations of step 5, i.e. what the dictionaries say after lookups of absent names.
	std::map<std::string, std::string> query_before;
	std::vector<std::string> qlook_after, hlook_after; // step 4 (headers: looked up again, header() returns by value)
	std::vector<std::string> qabsent, habsent;         // results of the probes of absent keys / names (must be empty)
	std::vector<std::string> qabsent_keys;
	std::string is_errors; // disagreements of request.is(pattern) / suffix() with a reference match (empty = none)
	bool options = false;
};

struct Plan { // lookups to perform on the i-th request the handler sees
	std::vector<std::string> hnames, qkeys;
	std::vector<std::string> qabsent, habsent; // names known not to have been sent
};

struct Opts {
	int closemode = 0; // 0: peer half-closes (shutdown SHUT_WR) and keeps reading the reply; 1: peer closes completely
	int respmode = 0;  // 0 text, 1 serveFile from the web root, 2 echo the body, 3 no body + code 405, 4 chunked write, 5 file by put(File)
	bool cors = false;
	std::vector<Plan> plans;
};

class RecServer : public asl::HttpServer
{
public:
	std::vector<Seen> seen;
	const Opts* opts;
	RecServer(const Opts& o) : opts(&o)
	{
		if (o.respmode == 1 || o.respmode == 5)
			setRoot(make_root().c_str());
		if (o.cors)
			setCrossDomain(true);
	}
	// Route matching as an application's dispatch does it: request.is(pattern), is(method, pattern), suffix(), with patterns
	// derived from the parsed path: the path itself and near misses, prefixes + '*', and '*' patterns whose fixed prefix is
	// LONGER than the path (by 1, 20, 60, 200 bytes) or differs from it in its last byte.  Oracle: plain prefix comparison.
	// (Paths of 16+ bytes live in heap storage, so a comparison running past the path is an ASan report.)
	void check_is(asl::HttpRequest& q, Seen& s)
	{
		const std::string p = S(q.path()), m = S(q.method());
		std::vector<std::string> pats;
		std::string near = p;
		if (!near.empty())
			near[near.size() - 1] = (char)(near[near.size() - 1] == 'x' ? 'y' : 'x');
		auto longer = [&](size_t e) { return p + std::string("/members/roles/and/some/more/segments/").substr(0, e < 38 ? e : 38) + std::string(e < 38 ? 0 : e - 38, 'r') + "*"; };
		// always: exact, a prefix + '*', a pattern much longer than the path, near miss + '*'
		pats.push_back(p);
		pats.push_back(p.substr(0, p.size() / 2) + "*");
		pats.push_back(longer(200));
		pats.push_back(near + "*");
		uint64_t h = 1469598103934665603ULL;
		for (unsigned char ch : p)
			h = (h ^ ch) * 1099511628211ULL;
		if (h % 4 == 0) { // for a quarter of the paths the complete set
			pats.push_back(near);
			pats.push_back(p + "*");
			pats.push_back(longer(60));
			pats.push_back(p + "x");
			pats.push_back(p.substr(0, p.size() ? p.size() - 1 : 0));
			pats.push_back("*");
			pats.push_back(p.substr(0, 1) + "*");
			pats.push_back(p.substr(0, p.size() ? p.size() - 1 : 0) + "*");
			pats.push_back(longer(1));
			pats.push_back(longer(20));
			pats.push_back(near + "/organizations/members*");
			pats.push_back(p + "*tail");
		}
		for (size_t j = 0; j < pats.size(); j++) {
			const std::string& pat = pats[j];
			asl::String apat = A(pat);
			size_t star = pat.find('*');
			bool want = star == std::string::npos ? p == pat : (p.size() >= star && p.compare(0, star, pat, 0, star) == 0);
			size_t wlen = (want && star != std::string::npos) ? p.size() - star : 0;
			bool got = q.is(apat);
			const asl::String& gs = q.suffix();
			bool sufok = (size_t)gs.length() == wlen && (wlen == 0 || memcmp(*gs, p.data() + star, wlen) == 0);
			if (got != want || !sufok) {
				if (s.is_errors.size() < 600)
					s.is_errors += "is(" + pat.substr(0, 80) + ") = " + (got ? "true" : "false") + " suffix '" + S(gs).substr(0, 40) + "', path '" + p.substr(0, 80) + "' wants " +
					               (want ? "true" : "false") + " suffix '" + (wlen ? p.substr(star, 40) : std::string()) + "'; ";
			}
			if (j == 1 || j == 5 || j == 9) { // the method-and-pattern overload
				bool gm = q.is(m.c_str(), apat);
				bool gn = q.is(m == "NOPE" ? "GET" : "NOPE", apat);
				if (gm != want || gn)
					if (s.is_errors.size() < 600)
						s.is_errors += "is(method, " + pat.substr(0, 80) + ") = " + (gm ? "true" : "false") + " / with another method " + (gn ? "true" : "false") + "; ";
			}
		}
	}
	void record(asl::HttpRequest& q, bool options)
	{
		Seen s;
		s.options = options;
		s.method = S(q.method());
		s.path = S(q.path());
		s.resource = S(q.resource());
		s.querystring = S(q.querystring());
		s.proto = S(q.protocol());
		s.body = S(q.body());
		foreach2(asl::String & k, const asl::String& v, q.query())
			s.query_before[S(k)] = S(v);
		size_t i = seen.size();
		static const Plan defplan = {{}, {}, {"zz-not-there"}, {"x-not-there"}};
		const Plan& plan = i < opts->plans.size() ? opts->plans[i] : defplan;
		std::vector<const asl::String*> held;
		for (auto& k : plan.qkeys) {
			const asl::String& v = q.query(A(k));
			held.push_back(&v);
			s.qlook.push_back(S(v));
		}
		for (auto& n : plan.hnames)
			s.hlook.push_back(S(q.header(A(n))));
		for (auto& k : plan.qabsent)
			s.qabsent.push_back(S(q.query(A(k))));
		s.qabsent_keys = plan.qabsent;
		for (auto& n : plan.habsent)
			s.habsent.push_back(S(q.header(A(n))));
		for (auto* v : held)
			s.qlook_after.push_back(S(*v)); // a reference handed out by query(k) stays valid and keeps its value
		for (auto& n : plan.hnames)
			s.hlook_after.push_back(S(q.header(A(n))));
		foreach2(asl::String & k, const asl::String& v, q.headers())
			s.headers[S(k)] = S(v);
		foreach2(asl::String & k, const asl::String& v, q.query())
			s.query[S(k)] = S(v);
		// accessors an application typically uses; they must be total on whatever was parsed
		(void)q.hasHeader("Content-Type");
		check_is(q, s);
		(void)q.sender();
		(void)q.text();
		seen.push_back(s);
	}
	bool handleOptions(asl::HttpRequest& q, asl::HttpResponse& r) override
	{
		if (q.method() == "OPTIONS")
			record(q, true);
		return asl::HttpServer::handleOptions(q, r);
	}
	void serve(asl::HttpRequest& q, asl::HttpResponse& r) override
	{
		record(q, false);
		switch (opts->respmode) {
		case 1: serveFile(q, r); break;
		case 2: r.put(q.body()); break;
		case 3: r.setCode(405); break;
		case 4:
			r.setHeader("Content-Type", "text/plain");
			r.write(asl::String("chunk-one;"));
			r.write(asl::String("chunk-two"));
			break;
		case 5: r.put(asl::File(A(webroot().root + "/a.txt"))); break;
		default: r.put(asl::String("ok ") + q.method()); break;
		}
	}
};

struct Result {
	std::vector<Seen> seen;
	std::string reply;
	double secs = 0;
	bool threaded = false;
	bool bad_alloc = false; // the library gave up with std::bad_alloc (reservation above the allocation limit)
	int signals = 0; // SIGUSR1 deliveries to the serving thread between pieces
	int bursts = 0, bursts_separate = 0; // fragmented delivery: pieces sent / pieces the server had consumed before the next was sent
};

// hang bookkeeping: set while a stream is inside the server loop (read by a watchdog in the rapidcheck harness)
inline std::atomic<double>& serve_started()
{
	static std::atomic<double> t{0};
	return t;
}
inline double thread_cpu()
{
	timespec t;
	clock_gettime(CLOCK_THREAD_CPUTIME_ID, &t);
	return t.tv_sec + 1e-9 * t.tv_nsec;
}
inline std::atomic<double>& serve_cpu0()
{
	static std::atomic<double> t{0};
	return t;
}

inline int cur_buf(int fd)
{
	int v = 0;
	socklen_t l = sizeof v;
	getsockopt(fd, SOL_SOCKET, SO_SNDBUF, &v, &l);
	return v;
}
inline int grow_buf(int fd, int want)
{
	int v = want;
	if (setsockopt(fd, SOL_SOCKET, SO_SNDBUFFORCE, &v, sizeof v) != 0) {
		v = want;
		setsockopt(fd, SOL_SOCKET, SO_SNDBUF, &v, sizeof v);
	}
	socklen_t l = sizeof v;
	v = 0;
	getsockopt(fd, SOL_SOCKET, SO_SNDBUF, &v, &l);
	return v;
}

// upper bound of the socket-buffer space the replies to `stream` can need (every write is charged its bytes plus
// per-packet overhead); used to decide whether the reply can be collected after the call or needs a concurrent reader
inline size_t reply_bound(const std::string& stream, const Opts& o)
{
	size_t nl = 0;
	for (char c : stream)
		if (c == '\n')
			nl++;
	size_t nreq = nl / 2 + 1; // every request takes at least two line ends
	size_t per = 4 * 1300 + 2 * 1024;
	if (o.respmode == 1 || o.respmode == 5)
		per += 2 * 41000 + 4 * 1300;
	size_t echo = (o.respmode == 2) ? 3 * stream.size() : 0;
	return nreq * per + echo;
}

// Feeds `stream` to a fresh server's connection loop and returns what the handler saw and what was written back.
// Normal path: the whole stream is queued and the peer's end-of-stream is signalled *before* the server runs, so the
// server's view is deterministic and no wait in the library can block; the reply is collected afterwards.
inline Result run_stream(const std::string& stream, const Opts& o)
{
	Result res;
	int sv[2];
	if (socketpair(AF_UNIX, SOCK_STREAM, 0, sv) != 0) {
		perror("socketpair");
		_exit(2);
	}
	const int WANT = 64 << 20;
	size_t need_in = stream.size() * 2 + 65536;
	int inbuf = cur_buf(sv[1]);
	if (need_in >= (size_t)inbuf)
		inbuf = grow_buf(sv[1], WANT);
	size_t bound = reply_bound(stream, o);
	int outbuf = cur_buf(sv[0]);
	if (bound >= (size_t)outbuf && o.closemode != 1)
		outbuf = grow_buf(sv[0], WANT);
	bool fits = need_in < (size_t)inbuf && (o.closemode == 1 || bound < (size_t)outbuf);
	// a blocked library write can then never outlive the hang bound by accident (safety net, never expected to fire)
	timeval tv = {6, 0};
	setsockopt(sv[0], SOL_SOCKET, SO_SNDTIMEO, &tv, sizeof tv);
	std::thread helper;
	size_t written = 0;
	if (fits) {
		while (written < stream.size()) {
			ssize_t k = send(sv[1], stream.data() + written, stream.size() - written, MSG_NOSIGNAL | MSG_DONTWAIT);
			if (k <= 0)
				break;
			written += (size_t)k;
		}
	}
	if (fits && written == stream.size()) {
		if (o.closemode == 1) {
			close(sv[1]);
			sv[1] = -1;
		}
		else
			shutdown(sv[1], SHUT_WR);
	}
	else {
		// large stream / potentially large reply: a concurrent peer writes the rest, ends the stream, and reads
		res.threaded = true;
		int fd = sv[1];
		int closemode = o.closemode;
		std::string* reply = &res.reply;
		const std::string* st = &stream;
		helper = std::thread([fd, closemode, reply, st, written]() mutable {
			fcntl(fd, F_SETFL, O_NONBLOCK);
			bool wdone = false;
			char buf[65536];
			for (;;) {
				pollfd p = {fd, (short)(POLLIN | (wdone ? 0 : POLLOUT)), 0};
				if (poll(&p, 1, 1000) < 0 && errno != EINTR)
					break;
				if (!wdone && (p.revents & (POLLOUT | POLLERR | POLLHUP))) {
					ssize_t k = send(fd, st->data() + written, st->size() - written, MSG_NOSIGNAL);
					if (k > 0)
						written += (size_t)k;
					if (written == st->size() || (k < 0 && errno != EAGAIN && errno != EINTR)) {
						wdone = true;
						shutdown(fd, closemode == 1 ? SHUT_RDWR : SHUT_WR);
					}
				}
				if (p.revents & (POLLIN | POLLHUP | POLLERR)) {
					ssize_t k = read(fd, buf, sizeof buf);
					if (k > 0)
						reply->append(buf, (size_t)k);
					else if (k == 0 || (errno != EAGAIN && errno != EINTR))
						break;
				}
			}
		});
	}
	{
		RecServer srv(o);
		double t0 = mono();
		serve_cpu0().store(thread_cpu());
		serve_started().store(t0);
		try {
			static_cast<asl::SocketServer&>(srv).serve(asl::Socket(sv[0])); // the Socket owns and closes sv[0]
		}
		catch (const std::bad_alloc&) {
			res.bad_alloc = true;
		}
		serve_started().store(0);
		res.secs = mono() - t0;
		res.seen.swap(srv.seen);
	}
	if (helper.joinable())
		helper.join();
	else if (sv[1] >= 0) {
		char buf[65536];
		ssize_t k;
		while ((k = read(sv[1], buf, sizeof buf)) > 0)
			res.reply.append(buf, (size_t)k);
	}
	if (sv[1] >= 0)
		close(sv[1]);
	return res;
}

// Fragmented delivery: the stream reaches the server end in the given pieces.  A feeder thread sends a piece, waits until
// the server has consumed it (SIOCOUTQ of the sending end back to 0, bounded wait), pauses `pause_us` so that the reader is
// back in its wait, then sends the next one; after the last piece it half-closes.  The server therefore really reads the
// stream in separate bursts (how many were consumed separately is reported in the result).
// sigmask: bit i set = after piece i has been consumed (and the pause), SIGUSR1 is sent to the thread that serves the
// connection (the caller's thread: serve() runs in it), i.e. normally while it waits in select() for the next piece; the
// handler is a no-op installed without SA_RESTART, so the wait fails with EINTR.
inline void noop_signal(int) {}
inline void install_noop_sigusr1()
{
	static bool done = false;
	if (done)
		return;
	done = true;
	struct sigaction sa;
	memset(&sa, 0, sizeof sa);
	sa.sa_handler = noop_signal;
	sigemptyset(&sa.sa_mask);
	sa.sa_flags = 0; // no SA_RESTART
	sigaction(SIGUSR1, &sa, 0);
}
inline Result run_stream_pieces(const std::vector<std::string>& pieces, const Opts& o, int pause_us, unsigned sigmask = 0)
{
	if (sigmask)
		install_noop_sigusr1();
	pthread_t server_thread = pthread_self();
	std::atomic<bool> serving{false};
	std::atomic<bool>* servingp = &serving;
	Result res;
	int sv[2];
	if (socketpair(AF_UNIX, SOCK_STREAM, 0, sv) != 0) {
		perror("socketpair");
		_exit(2);
	}
	std::string stream;
	for (auto& p : pieces)
		stream += p;
	const int WANT = 64 << 20;
	if (stream.size() * 2 + 65536 >= (size_t)cur_buf(sv[1]))
		grow_buf(sv[1], WANT);
	if (reply_bound(stream, o) >= (size_t)cur_buf(sv[0]))
		grow_buf(sv[0], WANT);
	timeval tv = {6, 0};
	setsockopt(sv[0], SOL_SOCKET, SO_SNDTIMEO, &tv, sizeof tv);
	res.threaded = true;
	int fd = sv[1];
	Result* rp = &res;
	const std::vector<std::string>* pp = &pieces;
	std::thread feeder([fd, rp, pp, pause_us, sigmask, server_thread, servingp]() {
		char buf[65536];
		auto drain = [&]() {
			ssize_t k;
			while ((k = recv(fd, buf, sizeof buf, MSG_DONTWAIT)) > 0)
				rp->reply.append(buf, (size_t)k);
		};
		for (size_t i = 0; i < pp->size(); i++) {
			const std::string& pc = (*pp)[i];
			size_t w = 0;
			bool err = false;
			while (w < pc.size()) {
				ssize_t k = send(fd, pc.data() + w, pc.size() - w, MSG_NOSIGNAL);
				if (k <= 0) {
					err = true;
					break;
				}
				w += (size_t)k;
			}
			rp->bursts++;
			if (err || i + 1 == pp->size())
				break;
			int outq = 1;
			for (int spin = 0; spin < 20000; spin++) { // <= ~2 s
				if (ioctl(fd, TIOCOUTQ, &outq) != 0 || outq == 0)
					break;
				drain();
				usleep(100);
			}
			if (outq == 0)
				rp->bursts_separate++;
			if (pause_us > 0)
				usleep((useconds_t)pause_us);
			if (((sigmask >> i) & 1) && servingp->load()) {
				pthread_kill(server_thread, SIGUSR1);
				rp->signals++;
				usleep((useconds_t)(pause_us > 0 ? pause_us : 1000));
			}
		}
		shutdown(fd, SHUT_WR);
		ssize_t k;
		while ((k = read(fd, buf, sizeof buf)) > 0)
			rp->reply.append(buf, (size_t)k);
	});
	{
		RecServer srv(o);
		double t0 = mono();
		serve_cpu0().store(thread_cpu());
		serve_started().store(t0);
		serving.store(true);
		try {
			static_cast<asl::SocketServer&>(srv).serve(asl::Socket(sv[0]));
		}
		catch (const std::bad_alloc&) {
			res.bad_alloc = true;
		}
		serving.store(false);
		serve_started().store(0);
		res.secs = mono() - t0;
		res.seen.swap(srv.seen);
	}
	feeder.join();
	close(sv[1]);
	return res;
}

// oracles that hold for every stream whatsoever
template <class FailFn>
inline void check_universal(const Result& r, const std::string& stream, FailFn fail)
{
	for (size_t i = 0; i < r.seen.size(); i++) {
		const Seen& s = r.seen[i];
		if (has_dotdot(s.path))
			fail("request #" + std::to_string(i) + " handed to the application has '..' in path(): resource " + s.resource);
		if (s.method.empty())
			fail("request #" + std::to_string(i) + " handed to the application without a method");
		if (!s.is_errors.empty())
			fail("request #" + std::to_string(i) + ": route matching disagrees with a prefix comparison: " + s.is_errors);
		bool really_absent = true;
		for (auto& k : s.qabsent_keys)
			if (s.query_before.count(k))
				really_absent = false;
		if (really_absent) {
			for (size_t j = 0; j < s.qabsent.size(); j++)
				if (!s.qabsent[j].empty())
					fail("request #" + std::to_string(i) + ": query(k) of a parameter that is not in query() returned a non-empty value");
			if (s.query != s.query_before)
				fail("request #" + std::to_string(i) + ": query() lists " + std::to_string(s.query.size()) + " parameters after looking up an absent one, " +
				     std::to_string(s.query_before.size()) + " before (resource " + s.resource + ")");
		}
	}
	// (a stream that itself carries the marker can have it echoed, e.g. from Host into a redirect's Location: not a leak)
	if (r.reply.find(C09_SECRET) != std::string::npos && stream.find("C09-SECRET") == std::string::npos)
		fail("the reply contains the content of a file outside the web root");
}

// ------------------------------------------------------------------------------------------------------------------
// structure-aware hostile stream generator.  Src: unsigned pick(unsigned n) in [0,n);  std::string bytes(unsigned max)

template <class Src>
std::string h_token(Src& s)
{
	static const char* t[] = {"/", "/", ".", "..", "%2e", "%2E", "%2f", "%25", "%00", "%5c", "a", "a.txt", "index.html", "f.bin", "d", "e",
	                          "x.json", "?", "#", "=", "&", "+", "%", "%4", "%zz", "k=v", ";", ":", "@", "//", "/./", "/../", "%2e%2e", "\\"};
	unsigned k = s.pick(40);
	if (k < sizeof(t) / sizeof(t[0]))
		return t[k];
	if (k < 37)
		return s.bytes(3);
	return std::string(1, (char)('a' + s.pick(26)));
}

template <class Src>
std::string h_target(Src& s)
{
	unsigned k = s.pick(12);
	if (k == 0)
		return "/";
	if (k == 1)
		return "/a.txt";
	if (k == 2)
		return "/f.bin";
	if (k == 3)
		return "/d";
	if (k == 4)
		return "/d/";
	if (k == 5)
		return "/e";
	std::string r = s.pick(4) ? "/" : "";
	unsigned n = 1 + s.pick(12);
	for (unsigned i = 0; i < n; i++)
		r += h_token(s);
	return r;
}

template <class Src>
std::string h_request_line(Src& s)
{
	static const char* methods[] = {"GET", "GET", "GET", "POST", "PUT", "HEAD", "OPTIONS", "DELETE", "PATCH", "get", "M-SEARCH", ""};
	static const char* versions[] = {"HTTP/1.1", "HTTP/1.1", "HTTP/1.1", "HTTP/1.0", "HTTP/2", "", "HTTP/1.1 x", "http/1.0"};
	static const char* seps[] = {" ", " ", " ", " ", " ", " ", "  ", "\t", ""};
	static const char* ends[] = {"\r\n", "\r\n", "\r\n", "\r\n", "\r\n", "\n", "\r", ""};
	std::string m = s.pick(16) ? methods[s.pick(12)] : s.bytes(6);
	std::string v = s.pick(16) ? versions[s.pick(8)] : s.bytes(8);
	return m + seps[s.pick(9)] + h_target(s) + seps[s.pick(9)] + v + ends[s.pick(8)];
}

template <class Src>
std::string h_number(Src& s, size_t right)
{
	unsigned k = s.pick(48);
	switch (k) {
	// (each of the next three makes the library reserve gigabytes: kept rare, they cost tens of milliseconds under ASan)
	case 0: return "2147483647";
	case 1: return "99999999999999999999";
	case 2: return "1073741824";
	case 3: return "4294967296";
	case 4:
	case 5: return std::to_string(right + 1);
	case 6:
	case 7: return std::to_string(right + 1000);
	case 8:
	case 9:
	case 10: return right ? std::to_string(right - 1) : "1";
	case 11:
	case 12: return "-1";
	case 13: return "-2147483648";
	case 14:
	case 15: return "abc";
	case 16:
	case 17: return "";
	case 18: return "0x10";
	case 19:
	case 20: return "00";
	case 21: return "+" + std::to_string(right);
	case 22: return std::to_string(right) + " 7";
	case 23:
	case 24: return "0";
	case 25: return "100000";
	default: return std::to_string(right);
	}
}

template <class Src>
std::string h_header(Src& s, size_t bodylen, bool& chunked)
{
	static const char* seps[] = {": ", ": ", ": ", ": ", ":", ":  ", " : ", ":\t"};
	static const char* ends[] = {"\r\n", "\r\n", "\r\n", "\r\n", "\r\n", "\r\n", "\n", ""};
	std::string name, value;
	switch (s.pick(20)) {
	case 0:
	case 1:
		name = s.pick(4) ? "Content-Length" : "content-length";
		value = s.pick(3) ? std::to_string(bodylen) : h_number(s, bodylen);
		break;
	case 2: {
		static const char* te[] = {"chunked", "chunked", "chunked", "Chunked", "gzip", "gzip, chunked", ""};
		name = "Transfer-Encoding";
		value = te[s.pick(7)];
		if (value == "chunked")
			chunked = true;
		break;
	}
	case 3:
	case 4: {
		static const char* rg[] = {"bytes=0-", "bytes=5", "bytes=", "bytes=-5", "bytes=5-2", "bytes=2-5", "bytes=0-0", "bytes=a-b", "bytes=99999999999-",
		                           "bytes=1-2-3", "bytes=--", "units=1-2", "bytes=1-2,4-5", "-", "bytes=3-3", "bytes=0-9", "bytes=0-10", "bytes=9-", "bytes=10-",
		                           "bytes=-0", "bytes=39999-", "bytes=15990-16010", "bytes=-2147483648-5", "bytes=5-2147483647", "bytes"};
		name = "Range";
		value = s.pick(8) ? rg[s.pick(25)] : "bytes=" + s.bytes(6);
		break;
	}
	case 5:
		name = "Expect";
		value = s.pick(4) ? "100-continue" : "200-ok";
		break;
	case 6: {
		static const char* cn[] = {"keep-alive", "keep-alive", "close", "Keep-Alive", "upgrade", ""};
		name = "Connection";
		value = cn[s.pick(6)];
		break;
	}
	case 7:
		name = "Upgrade";
		value = "websocket";
		break;
	case 8:
		name = "Origin";
		value = "http://o.example";
		break;
	case 9:
		name = "Host";
		value = s.pick(3) ? "h.example:80" : s.bytes(8);
		break;
	case 10: {
		static const char* dt[] = {"Sun, 06 Nov 1994 08:49:37 GMT", "Sat, 01 Jan 2050 00:00:00 GMT", "", "yesterday", "2020-01-01T00:00:00Z", "9999999999", "Sun, 99 Foo"};
		name = "If-Modified-Since";
		value = s.pick(6) ? dt[s.pick(7)] : s.bytes(12);
		break;
	}
	case 11:
		name = "Access-Control-Request-Headers";
		value = "x-a, x-b";
		break;
	case 12: return "no colon here" + std::string(ends[s.pick(8)]);
	case 13: return ":starts-with-colon\r\n";
	case 14: return std::string(s.pick(2) ? " " : "\t") + "folded " + s.bytes(4) + "\r\n";
	case 15: {
		unsigned n = s.pick(12) == 0 ? 15990 + s.pick(30) : s.pick(300);
		name = "X-Long";
		value = std::string(n, 'v');
		break;
	}
	case 16:
		name = s.bytes(8);
		value = s.bytes(16);
		break;
	case 17:
		name = "Content-Type";
		value = s.pick(2) ? "application/json" : "application/x-www-form-urlencoded";
		break;
	default:
		name = "X-H" + std::to_string(s.pick(4));
		value = "v" + std::to_string(s.pick(100));
		break;
	}
	return name + seps[s.pick(8)] + value + ends[s.pick(8)];
}

template <class Src>
std::string h_chunks(Src& s, const std::string& body)
{
	std::string out;
	size_t pos = 0;
	unsigned guard = 0;
	while (pos < body.size() && guard++ < 8) {
		size_t n = 1 + s.pick((unsigned)(body.size() - pos));
		char b[40];
		switch (s.pick(12)) {
		case 0: snprintf(b, sizeof b, "%zx;ext=v", n); break;
		case 1: snprintf(b, sizeof b, "%zX", n); break;
		case 2: snprintf(b, sizeof b, "%zx", n + 1 + s.pick(5)); break; // size larger than the data
		case 3: snprintf(b, sizeof b, "7fffffff"); break;
		case 4: snprintf(b, sizeof b, "ffffffff"); break;
		case 5: snprintf(b, sizeof b, "-%zx", n); break;
		case 6: snprintf(b, sizeof b, "zz"); break;
		case 7: snprintf(b, sizeof b, "%s", ""); break;
		case 8: snprintf(b, sizeof b, "100000000"); break;
		default: snprintf(b, sizeof b, "%zx", n); break;
		}
		out += b;
		out += s.pick(10) ? "\r\n" : "\n";
		out.append(body, pos, n);
		if (s.pick(10))
			out += "\r\n";
		pos += n;
	}
	if (s.pick(6))
		out += "0\r\n";
	if (s.pick(6))
		out += "\r\n";
	return out;
}

// one request as a list of protocol lines / pieces (kept apart so that a failing case can be minimised line by line)
template <class Src>
void h_request(Src& s, std::vector<std::string>& pieces)
{
	pieces.push_back(h_request_line(s));
	std::string body = s.pick(3) ? std::string() : (s.pick(4) ? s.bytes(24) : std::string(1 + s.pick(40), 'b'));
	bool chunked = false;
	unsigned nh = s.pick(7);
	for (unsigned i = 0; i < nh; i++)
		pieces.push_back(h_header(s, body.size(), chunked));
	if (!body.empty() && !chunked && s.pick(4))
		pieces.push_back("Content-Length: " + std::to_string(body.size()) + "\r\n");
	pieces.push_back(s.pick(12) ? "\r\n" : (s.pick(2) ? "\n" : ""));
	if (!body.empty())
		pieces.push_back(chunked ? h_chunks(s, body) : body);
}

} // namespace c09
