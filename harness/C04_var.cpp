// C04 -- Var holds, copies, assigns and compares JSON-like values faithfully.
//
// A case builds Var trees in four slots and then runs path-addressed ops on them; a reference value graph
// (harness/common/ref_var.h: scalars/strings by value, arrays/objects as shared nodes) is driven in lock step.
// After EVERY op every slot (and every registered clone) is walked through the const accessors and compared with
// its model, including which Vars share which container (block identity + handle count). At case end everything
// is released and the allocated-bytes baseline must be restored. ASan decides use-after-free / double destroy.
//
// parts:  hist  the generated search (KF-1 triggers are replaced by no-ops and counted)
//         kf1   same interpreter without the KF-1 exclusion: only used to replay the witness of the known finding
#include "common/vfrc.h"
#include "common/ref_var.h"
#include <asl/Var.h>
#include <cerrno>
#include <climits>

using namespace asl;
using ref::VNode;
using ref::VVal;

const char* vf_harness_name() { return "C04_var"; }

// ---------------------------------------------------------------------------------------------
// decoding of generated integers into values

static unsigned long long uabs(long long x) { return x < 0 ? 0ULL - (unsigned long long)x : (unsigned long long)x; }
static int mod(long long x, long long n) { return n <= 0 ? 0 : (int)(uabs(x) % (unsigned long long)n); }

static int int_of(long long x)
{
	static const int t[] = {0, 1, -1, 2147483647, -2147483647 - 1, 255, 256, -128, 65536, 1000000, 7, 100};
	unsigned long long u = uabs(x);
	if (u % 4 == 3)
		return t[(u / 4) % (sizeof t / sizeof *t)];
	return (int)(x % 100000);
}
static double dbl_of(long long x)
{
	static const double t[] = {0.0, 0.5, 1.25, 3.0, 1e300, 2147483647.0, 2147483648.0, 4294967295.0, 4294967296.0, 9007199254740992.0, 1e-5, 0.1,
	                           123456789012345.0, 1e15, 1e16, 2.5e-300, 1.0 / 3.0, 1e21, 65536.0, 7.0, 100.0, 16777217.0};
	unsigned long long u = uabs(x);
	double s = x < 0 ? -1.0 : 1.0;
	switch (u % 4) {
	case 0:
		return s * t[(u / 4) % (sizeof t / sizeof *t)];
	case 1:
		return (double)(x / 4) * 0.25;
	case 2:
		return (double)(x / 4);
	default:
		return (u / 4) % 17 == 0 ? s * INFINITY : (double)(x / 4) / 1000.0;
	}
}
static unsigned unsigned_of(long long x)
{
	static const unsigned t[] = {0u, 1u, 0x7fffffffu, 0x80000000u, 0x80000001u, 0xffffffffu, 0x7ffffffeu, 3000000000u};
	unsigned long long u = uabs(x);
	if (u % 3 == 0)
		return t[(u / 3) % (sizeof t / sizeof *t)];
	return (unsigned)x;
}
static long long long_of(long long x)
{
	static const long long t[] = {0, 2147483647LL, 2147483648LL, 4294967296LL, 9007199254740992LL, 1099511627777LL, 1000000000000LL, 255, 1};
	unsigned long long u = uabs(x);
	if (u % 3 == 0) {
		long long v = t[(u / 3) % (sizeof t / sizeof *t)];
		return x < 0 ? -v : v;
	}
	long long v = x % 9007199254740992LL;
	return v;
}

static const char* const KEYS[] = {"a", "b", "k", "x", "key", "name", "0", "1", "Z", "a_rather_long_key_name", "", "\xc3\xa9", "$type", "kk"};
static const int NKEYS = sizeof KEYS / sizeof *KEYS;
static std::string key_of(long long x) { return KEYS[mod(x, NKEYS)]; }

static std::string S(const String& s) { return std::string(*s, (size_t)s.length()); }

// a C string in an exact-size heap block
struct ExactC {
	char* p;
	explicit ExactC(const std::string& s) : p((char*)malloc(s.size() + 1))
	{
		memcpy(p, s.data(), s.size());
		p[s.size()] = 0;
	}
	~ExactC() { free(p); }
};

// class labels are buffered (string literals only, pre-reserved) so that the statistics allocate nothing between the two
// allocated-bytes measurements of a case
static std::vector<const char*>& cls_buf()
{
	static std::vector<const char*>* b = [] {
		auto* v = new std::vector<const char*>;
		v->reserve(1 << 14);
		return v;
	}();
	return *b;
}
static void CLS(const char* label)
{
	auto& b = cls_buf();
	if (b.size() < b.capacity())
		b.push_back(label);
}
static unsigned long long g_excluded = 0;

// ---------------------------------------------------------------------------------------------
// state

struct Flags {
	bool src_inside = false, typechange_shared = false, eq_cross = false;
	bool clone_mut = false, shared_mut = false;
};

struct State {
	static const int NS = 4, NC = 3;
	Var* slot[NS];
	VVal m[NS];
	Var* cl[NC];
	VVal cm[NC];
	int ncl = 0;
	bool allow_kf1 = false;
	Flags f;
	std::map<const VNode*, int> hc; // handle counts, refreshed after every op
	State()
	{
		for (int i = 0; i < NS; i++)
			slot[i] = new Var;
		for (int i = 0; i < NC; i++)
			cl[i] = 0;
	}
	~State()
	{
		for (int i = 0; i < NS; i++)
			delete slot[i];
		for (int i = 0; i < NC; i++)
			delete cl[i];
	}
	void recount()
	{
		hc.clear();
		for (int i = 0; i < NS; i++)
			ref::count_handles(m[i], hc);
		for (int i = 0; i < NC; i++)
			if (cl[i])
				ref::count_handles(cm[i], hc);
	}
	bool shared(const VVal& v) const
	{
		if (!v.isCont())
			return false;
		auto it = hc.find(v.n.get());
		return it != hc.end() && it->second > 1;
	}
};

// tree-expanded size of a value (what ==, clone, toString and the deep walkers traverse), saturating
static double expanded(const VVal& v, std::map<const VNode*, double>& memo)
{
	if (!v.isCont())
		return 1;
	auto it = memo.find(v.n.get());
	if (it != memo.end())
		return it->second;
	double r = 1;
	for (auto& e : v.n->arr)
		r += expanded(e, memo);
	for (auto& e : v.n->obj)
		r += expanded(e.second, memo);
	if (r > 1e12)
		r = 1e12;
	memo[v.n.get()] = r;
	return r;
}
static double expanded(const VVal& v)
{
	std::map<const VNode*, double> memo;
	return expanded(v, memo);
}
static double total_expanded(const State& st)
{
	std::map<const VNode*, double> memo;
	double r = 0;
	for (int i = 0; i < State::NS; i++)
		r += expanded(st.m[i], memo);
	return r;
}
static const double GROW_LIMIT = 1200; // growth ops are skipped when the slots together already expand to more nodes
static const double WALK_LIMIT = 4000; // deep operations (==, clone, toString) are skipped on bigger operands

// ---------------------------------------------------------------------------------------------
// the independent walker: compares a Var (through const accessors only) with a model value

static Var::Type type_of(const VVal& m)
{
	switch (m.k) {
	case VVal::NONE: return Var::NONE;
	case VVal::NUL: return Var::NUL;
	case VVal::BOOL: return Var::BOOL;
	case VVal::INT: return Var::INT;
	case VVal::NUM: return Var::NUMBER;
	case VVal::FLT: return Var::FLOAT;
	case VVal::STR: return Var::STRING;
	case VVal::ARR: return Var::ARRAY;
	default: return Var::OBJ;
	}
}

struct Walk {
	// sharing: model node -> asl block, and back (identity of shared containers); null = values only
	std::map<const VNode*, const void*>* node2block;
	std::map<const void*, const VNode*>* block2node;
	const std::map<const VNode*, int>* hc;
};

static bool same_double(double a, double b) { return a == b || (a != a && b != b); }

static void check_view(const Var& v, const VVal& m, Walk& w, const std::string& where)
{
	VF_CHECK(v.type() == type_of(m), where, ": type() is ", (int)v.type(), ", model says ", ref::describe(m, 2));
	VF_CHECK(v.ok() == (m.k != VVal::NONE), where, ": ok()");
	switch (m.k) {
	case VVal::NONE:
	case VVal::NUL:
		break;
	case VVal::BOOL:
		VF_CHECK((bool)v == m.b, where, ": bool value, want ", m.b);
		break;
	case VVal::INT:
		VF_CHECK((int)v == m.i, where, ": int value ", (int)v, ", want ", m.i);
		break;
	case VVal::NUM:
	case VVal::FLT:
		VF_CHECK(same_double((double)v, m.d), where, ": double value ", (double)v, ", want ", m.d);
		break;
	case VVal::STR: {
		VF_CHECK(v.length() == (int)m.s.size(), where, ": string length() ", v.length(), ", want ", m.s.size());
		const char* p = *v;
		VF_CHECK(strlen(p) == m.s.size() && m.s == p, where, ": string content ", vf::show(p), ", want ", vf::show(m.s));
		{
			// "compares equal to every Var with the same content": a Var built now from the model's text, both operand orders
			ExactC e(m.s);
			Var fresh((const char*)e.p);
			VF_CHECK(v == fresh && fresh == v && !(v != fresh) && !(fresh != v), where, ": Var == a freshly built Var(", vf::show(m.s), ") is false (", v == fresh, "/", fresh == v, ")");
		}
		break;
	}
	case VVal::ARR: {
		const VNode* n = m.n.get();
		VF_CHECK(v.length() == (int)n->arr.size(), where, ": array length() ", v.length(), ", want ", n->arr.size());
		if (w.node2block) {
			Array<Var> h = v.array();
			const void* blk = (const void*)h.data();
			VF_CHECK(h.length() == (int)n->arr.size(), where, ": array().length()");
			auto it = w.node2block->find(n);
			if (it != w.node2block->end()) {
				VF_CHECK(it->second == blk, where, ": this Var must share its array with an earlier visited Var but has its own storage");
				return; // elements already compared
			}
			auto bt = w.block2node->find(blk);
			VF_CHECK(bt == w.block2node->end(), where, ": this Var shares its array storage with a Var that must be independent of it");
			(*w.node2block)[n] = blk;
			(*w.block2node)[blk] = n;
			auto hi = w.hc->find(n);
			int want = hi == w.hc->end() ? 1 : hi->second;
			VF_CHECK(h.rc() - 1 == want, where, ": array is referenced by ", want, " Vars but its reference count is ", h.rc() - 1);
		}
		for (size_t i = 0; i < n->arr.size(); i++)
			check_view(v[(int)i], n->arr[i], w, where + "[" + std::to_string(i) + "]");
		break;
	}
	case VVal::OBJ: {
		const VNode* n = m.n.get();
		VF_CHECK(v.length() == (int)n->obj.size(), where, ": object length() ", v.length(), ", want ", n->obj.size());
		Dic<Var> h = v.object();
		const void* blk = (const void*)h.kv().data();
		VF_CHECK(h.length() == (int)n->obj.size(), where, ": object().length()");
		if (w.node2block) {
			auto it = w.node2block->find(n);
			if (it != w.node2block->end()) {
				VF_CHECK(it->second == blk, where, ": this Var must share its object with an earlier visited Var but has its own storage");
				return;
			}
			auto bt = w.block2node->find(blk);
			VF_CHECK(bt == w.block2node->end(), where, ": this Var shares its object storage with a Var that must be independent of it");
			(*w.node2block)[n] = blk;
			(*w.block2node)[blk] = n;
			auto hi = w.hc->find(n);
			int want = hi == w.hc->end() ? 1 : hi->second;
			VF_CHECK(h.kv().rc() - 1 == want, where, ": object is referenced by ", want, " Vars but its reference count is ", h.kv().rc() - 1);
		}
		int i = 0;
		for (auto& e : n->obj) {
			const String& k = h.kv()[i].key;
			VF_CHECK(S(k) == e.first, where, ": key #", i, " is ", vf::show(S(k)), ", want ", vf::show(e.first));
			VF_CHECK(v.has(String(e.first.c_str())), where, ": has(", vf::show(e.first), ") false");
			check_view(v[String(e.first.c_str())], e.second, w, where + "[" + vf::show(e.first) + "]");
			i++;
		}
		break;
	}
	}
}

// values only (no sharing assertions): used for "target equals the value the source had before" and frozen clones
static void check_value(const Var& v, const VVal& m, const std::string& where)
{
	Walk w{0, 0, 0};
	check_view(v, m, w, where);
}

static void check_all(State& st, const char* after)
{
	st.recount();
	std::map<const VNode*, const void*> n2b;
	std::map<const void*, const VNode*> b2n;
	Walk w{&n2b, &b2n, &st.hc};
	for (int i = 0; i < State::NS; i++)
		check_view(*st.slot[i], st.m[i], w, vf::str("after ", after, ": slot", i));
	for (int i = 0; i < State::NC; i++)
		if (st.cl[i])
			check_view(*st.cl[i], st.cm[i], w, vf::str("after ", after, ": clone", i, " (taken earlier, never touched)"));
}

// ---------------------------------------------------------------------------------------------
// paths

struct Loc {
	Var* v;
	VVal* m;
	VNode* parent; // container node directly holding this location (null for a slot)
	Var* pv;       // the Var through which the parent container was reached (null for a slot)
	int slot;
	int steps;
	std::string name;
};

enum { ANY = 0, WANT_ARR = 1, WANT_OBJ = 2, WANT_CONT = 3 };
static bool wanted(const VVal& m, int want)
{
	return m.k == VVal::NONE || ((want & WANT_ARR) && m.k == VVal::ARR) || ((want & WANT_OBJ) && m.k == VVal::OBJ);
}

// want != ANY: if the path ends on a Var of another kind, the last Var of a wanted kind (or undefined) on the path is taken
static Loc resolve_from(Loc l, const vf::Op& o, int base, int nsteps, int want = ANY, bool forceFirst = false)
{
	Loc best = l;
	bool haveBest = want != ANY && wanted(*l.m, want);
	for (int k = 0; k < nsteps; k++) {
		long long step = o.i(base + k, -1);
		if (step < 0) {
			if (k == 0 && forceFirst)
				step = -step - 1;
			else
				break;
		}
		if (l.m->k == VVal::ARR) {
			size_t n = l.m->n->arr.size();
			if (n == 0)
				break;
			int idx = mod(step, (long long)n);
			l.parent = l.m->n.get();
			l.pv = l.v;
			l.v = &(*l.v)[idx];
			l.m = &l.parent->arr[idx];
			l.name += "[" + std::to_string(idx) + "]";
		}
		else if (l.m->k == VVal::OBJ) {
			size_t n = l.m->n->obj.size();
			if (n == 0)
				break;
			int idx = mod(step, (long long)n);
			auto it = l.m->n->obj.begin();
			std::advance(it, idx);
			l.parent = l.m->n.get();
			l.pv = l.v;
			l.v = &(*l.v)[String(it->first.c_str())];
			l.m = &it->second;
			l.name += "[" + vf::show(it->first) + "]";
		}
		else
			break;
		l.steps++;
		if (want != ANY && wanted(*l.m, want)) {
			best = l;
			haveBest = true;
		}
	}
	if (want != ANY && !wanted(*l.m, want) && haveBest)
		return best;
	return l;
}

// op ints base..base+4 = slot, step1..step4 (a negative step ends the path)
static Loc resolve(State& st, const vf::Op& o, int base, int want = ANY)
{
	int s = mod(o.i(base), State::NS);
	Loc l{st.slot[s], &st.m[s], 0, 0, s, 0, "slot" + std::to_string(s)};
	return resolve_from(l, o, base + 1, 4, want);
}

// ---------------------------------------------------------------------------------------------
// tree construction (any integer vector decodes to a tree)

struct Cursor {
	const std::vector<long long>& a;
	const std::vector<std::string>& s;
	size_t p, sp;
	long long next() { return p < a.size() ? a[p++] : 0; }
	std::string nexts()
	{
		if (s.empty())
			return "";
		return s[sp++ % s.size()];
	}
};

static void build(Cursor& c, int depth, Var& out, VVal& m, double& budget)
{
	int k = mod(c.next(), 16);
	if ((depth >= 4 || budget <= 0) && k >= 10)
		k = k % 10;
	budget -= 1;
	switch (k) {
	case 0: {
		int x = int_of(c.next());
		out = x;
		m = ref::vint(x);
		break;
	}
	case 1: { // string through const char* (inline below 8 bytes, heap from 8)
		std::string s = c.nexts();
		ExactC e(s);
		out = (const char*)e.p;
		m = ref::vstr(s);
		break;
	}
	case 2: {
		double x = dbl_of(c.next());
		out = x;
		m = ref::vnum(x);
		break;
	}
	case 3: {
		bool x = c.next() & 1;
		out = x;
		m = ref::vbool(x);
		break;
	}
	case 4:
		out = Var::NUL;
		m = ref::vnul();
		break;
	case 5:
		out = Var();
		m = ref::vnone();
		break;
	case 6: {
		float x = (float)dbl_of(c.next());
		out = x;
		m = ref::vflt(x);
		break;
	}
	case 7: { // heap STRING shortened below 8 chars: stays in the heap representation
		std::string s = c.nexts(), l = s + "_make_it_long";
		out = String(l.c_str());
		std::string sh = s.substr(0, mod(c.next(), 8));
		ExactC e(sh);
		out = (const char*)e.p;
		m = ref::vstr(sh);
		break;
	}
	case 8: {
		unsigned x = unsigned_of(c.next());
		out = x;
		m = ref::vunsigned(x);
		break;
	}
	case 9: { // string through String
		std::string s = c.nexts();
		out = String(s.c_str());
		m = ref::vstr(s);
		break;
	}
	case 10:
	case 11:
	case 12: {
		int n = mod(c.next(), 7), route = mod(c.next(), 4);
		m = ref::varr();
		if (route == 0) {
			out = Var(Var::ARRAY);
			for (int i = 0; i < n; i++) {
				Var ch;
				VVal cm;
				build(c, depth + 1, ch, cm, budget);
				out << ch;
				m.n->arr.push_back(cm);
			}
		}
		else if (route == 1) {
			out = Var();
			out.resize(n);
			m.n->arr.resize(n);
			for (int i = 0; i < n; i++)
				build(c, depth + 1, out[i], m.n->arr[i], budget);
		}
		else if (route == 2) {
			out = Var();
			if (n == 0)
				out = Var(Var::ARRAY);
			for (int i = 0; i < n; i++) {
				Var ch;
				VVal cm;
				build(c, depth + 1, ch, cm, budget);
				out[i] = ch;
				m.n->arr.push_back(cm);
			}
		}
		else {
			Array<Var> arr;
			for (int i = 0; i < n; i++) {
				Var ch;
				VVal cm;
				build(c, depth + 1, ch, cm, budget);
				arr << ch;
				m.n->arr.push_back(cm);
			}
			out = Var(arr);
		}
		break;
	}
	default: {
		int n = mod(c.next(), 7), route = mod(c.next(), 3);
		m = ref::vobj();
		Dic<Var> d;
		out = Var(Var::OBJ);
		for (int i = 0; i < n; i++) {
			std::string key = key_of(c.next());
			Var ch;
			VVal cm;
			build(c, depth + 1, ch, cm, budget);
			if (route == 0)
				out[String(key.c_str())] = ch;
			else if (route == 1)
				out(key.c_str(), ch);
			else
				d[String(key.c_str())] = ch;
			m.n->obj[key] = cm;
		}
		if (route == 2)
			out = Var(d);
		break;
	}
	}
}

// ---------------------------------------------------------------------------------------------
// model-side expectations of conversions (defined = the property says something about it)

static bool exp_int(const VVal& m, int& r)
{
	if (m.k == VVal::INT) {
		r = m.i;
		return true;
	}
	if (m.k == VVal::NUM || m.k == VVal::FLT) {
		if (m.d > -2147483649.0 && m.d < 2147483648.0) {
			r = (int)m.d;
			return true;
		}
		return false;
	}
	if (m.k == VVal::STR) {
		errno = 0;
		long v = strtol(m.s.c_str(), 0, 10);
		if (errno || v < INT_MIN || v > INT_MAX)
			return false;
		r = (int)v;
		return true;
	}
	return false;
}
static bool exp_double(const VVal& m, double& r)
{
	if (m.isNum()) {
		r = m.num();
		return true;
	}
	if (m.k == VVal::STR) {
		r = strtod(m.s.c_str(), 0);
		return true;
	}
	return false;
}
static bool exp_bool(const VVal& m, bool& r)
{
	switch (m.k) {
	case VVal::BOOL: r = m.b; return true;
	case VVal::INT: r = m.i != 0; return true;
	case VVal::NUM:
	case VVal::FLT: r = m.d != 0; return true;
	case VVal::STR: r = !m.s.empty(); return true;
	case VVal::ARR:
	case VVal::OBJ: r = true; return true;
	case VVal::NUL:
	case VVal::NONE: r = false; return true;
	}
	return false;
}

static bool is_type(const VVal& m, Var::Type t)
{
	switch (t) {
	case Var::NONE: return m.k == VVal::NONE;
	case Var::NUL: return m.k == VVal::NUL;
	case Var::NUMBER: return m.isNum();
	case Var::BOOL: return m.k == VVal::BOOL;
	case Var::INT: return m.k == VVal::INT;
	case Var::FLOAT: return m.k == VVal::FLT;
	case Var::STRING:
	case Var::SSTRING: return m.k == VVal::STR;
	case Var::ARRAY: return m.k == VVal::ARR;
	case Var::OBJ: return m.k == VVal::OBJ;
	}
	return false;
}

static void observe(const Var& v, const VVal& m, const std::string& where, long long x)
{
	static const Var::Type types[] = {Var::NONE, Var::NUL, Var::NUMBER, Var::BOOL, Var::INT, Var::SSTRING, Var::FLOAT, Var::STRING, Var::ARRAY, Var::OBJ};
	for (Var::Type t : types)
		VF_CHECK(v.is(t) == is_type(m, t), where, ": is(", (int)t, ") on ", ref::describe(m, 1));
	int ei;
	if (exp_int(m, ei)) {
		VF_CHECK((int)v == ei, where, ": (int) gives ", (int)v, ", want ", ei, " for ", ref::describe(m, 1));
		if (m.k != VVal::STR || ei >= 0)
			if (m.k == VVal::INT || ei >= 0)
				VF_CHECK((unsigned)v == (unsigned)ei, where, ": (unsigned) gives ", (unsigned)v, ", want ", (unsigned)ei);
		VF_CHECK((Long)v == (Long)ei || m.isNum(), where, ": (Long) gives ", (Long)v, ", want ", ei);
	}
	if (m.isNum()) {
		double d = m.num();
		if (d > -9.2e18 && d < 9.2e18) {
			VF_CHECK((Long)v == (Long)d, where, ": (Long) gives ", (Long)v, ", want ", (Long)d);
			if (d >= 0)
				VF_CHECK((ULong)v == (ULong)d, where, ": (ULong) gives ", (ULong)v, ", want ", (ULong)d);
		}
		if (d >= 0 && d < 4294967296.0 && m.k != VVal::INT)
			VF_CHECK((unsigned)v == (unsigned)d, where, ": (unsigned) gives ", (unsigned)v, ", want ", (unsigned)d);
		VF_CHECK(same_double((double)(float)v, (double)(float)d), where, ": (float) gives ", (float)v, ", want ", (float)d);
	}
	double ed;
	if (exp_double(m, ed))
		VF_CHECK(same_double((double)v, ed), where, ": (double) gives ", (double)v, ", want ", ed, " for ", ref::describe(m, 1));
	bool eb;
	if (exp_bool(m, eb))
		VF_CHECK((bool)v == eb, where, ": (bool) gives ", (bool)v, ", want ", eb, " for ", ref::describe(m, 1));
	if (expanded(m) <= WALK_LIMIT) {
		std::string want = ref::text(m);
		String ts = v.toString();
		VF_CHECK(S(ts) == want, where, ": toString() gives ", vf::show(S(ts)), ", want ", vf::show(want));
		VF_CHECK((int)strlen(*ts) == ts.length(), where, ": toString() length/terminator");
		String cs = v;
		VF_CHECK(S(cs) == want, where, ": (String) gives ", vf::show(S(cs)), ", want ", vf::show(want));
		VF_CHECK(S(v.string()) == want, where, ": string()");
	}
	VF_CHECK((v | 35).type() == (m.k == VVal::NONE ? Var::INT : type_of(m)), where, ": operator|");
	// containers: copies out
	Array<Var> av = v.array();
	Dic<Var> ov = v.object();
	VF_CHECK(av.length() == (m.k == VVal::ARR ? (int)m.n->arr.size() : 0), where, ": array().length()");
	VF_CHECK(ov.length() == (m.k == VVal::OBJ ? (int)m.n->obj.size() : 0), where, ": object().length()");
	Array<int> ai = v;
	Array<double> ad = v;
	Array<String> as = v;
	Array<int> ai2(3);
	ai2 = v;
	Array<String> as2(2);
	as2 = v;
	Dic<int> di = v;
	Dic<String> ds = v;
	if (m.k == VVal::ARR) {
		size_t n = m.n->arr.size();
		VF_CHECK(ai.length() == (int)n && ad.length() == (int)n && as.length() == (int)n && ai2.length() == (int)n && as2.length() == (int)n, where, ": Array<T> conversion lengths");
		for (size_t i = 0; i < n; i++) {
			const VVal& e = m.n->arr[i];
			int xi;
			if (exp_int(e, xi)) {
				VF_CHECK(ai[(int)i] == xi, where, ": Array<int>[", i, "] = ", ai[(int)i], ", want ", xi);
				VF_CHECK(ai2[(int)i] == xi, where, ": Array<int> = var, [", i, "] = ", ai2[(int)i], ", want ", xi);
			}
			double xd;
			if (exp_double(e, xd))
				VF_CHECK(same_double(ad[(int)i], xd), where, ": Array<double>[", i, "] = ", ad[(int)i], ", want ", xd);
			if (expanded(e) <= WALK_LIMIT) {
				std::string t = ref::text(e);
				VF_CHECK(S(as[(int)i]) == t, where, ": Array<String>[", i, "] = ", vf::show(S(as[(int)i])), ", want ", vf::show(t));
				VF_CHECK(S(as2[(int)i]) == t, where, ": Array<String> = var, [", i, "]");
			}
		}
		for (Var::Type t : types) {
			bool all = true;
			for (auto& e : m.n->arr)
				all = all && is_type(e, t);
			VF_CHECK(v.isArrayOf(t) == all, where, ": isArrayOf(", (int)t, ")");
			VF_CHECK(v.isArrayOf((int)n, t) == all, where, ": isArrayOf(n,", (int)t, ")");
			VF_CHECK(!v.isArrayOf((int)n + 1, t), where, ": isArrayOf(n+1,t) true");
		}
		// enumeration
		size_t cnt = 0;
		foreach (Var& e, v) {
			VF_CHECK(cnt < n && e.type() == type_of(m.n->arr[cnt]), where, ": foreach item ", cnt);
			cnt++;
		}
		VF_CHECK(cnt == n, where, ": foreach visited ", cnt, " of ", n);
		cnt = 0;
		for (auto& e : v) {
			VF_CHECK(cnt < n && e.type() == type_of(m.n->arr[cnt]), where, ": range-for item ", cnt);
			cnt++;
		}
		VF_CHECK(cnt == n, where, ": range-for visited ", cnt, " of ", n);
		// contains(x) for a literal and for an own element
		Var lit = int_of(x);
		ref::Tri any = ref::F;
		for (auto& e : m.n->arr) {
			ref::Tri t = ref::equal(e, ref::vint(int_of(x)));
			if (t == ref::T)
				any = ref::T;
		}
		VF_CHECK(v.contains(lit) == (any == ref::T), where, ": contains(", int_of(x), ")");
		if (n > 0) {
			const VVal& e = m.n->arr[mod(x, (long long)n)];
			if (expanded(e) <= WALK_LIMIT && ref::equal(e, e) == ref::T) {
				Var ecopy = v[mod(x, (long long)n)];
				VF_CHECK(v.contains(ecopy), where, ": contains(own element ", mod(x, (long long)n), ") false");
			}
		}
	}
	else {
		VF_CHECK(ai.length() == 0 && ad.length() == 0 && as.length() == 0 && ai2.length() == 0 && as2.length() == 0, where, ": Array<T> conversion of a non-array is not empty");
		VF_CHECK(!v.isArrayOf(Var::NUMBER) && !v.isArrayOf(0, Var::NONE), where, ": isArrayOf on a non-array");
		VF_CHECK(!v.contains(Var(1)), where, ": contains on a non-array");
	}
	if (m.k == VVal::OBJ) {
		size_t n = m.n->obj.size();
		VF_CHECK(di.length() == (int)n && ds.length() == (int)n, where, ": Dic<T> conversion lengths");
		size_t cnt = 0;
		auto it = m.n->obj.begin();
		foreach2 (String & k, Var & e, v) {
			VF_CHECK(cnt < n && S(k) == it->first && e.type() == type_of(it->second), where, ": foreach2 item ", cnt);
			cnt++;
			++it;
		}
		VF_CHECK(cnt == n, where, ": foreach2 visited ", cnt, " of ", n);
		cnt = 0;
		it = m.n->obj.begin();
		for (auto& e : ov) {
			VF_CHECK(cnt < n && S(e.key) == it->first && e.value.type() == type_of(it->second), where, ": range-for over object() item ", cnt);
			cnt++;
			++it;
		}
		for (auto& e : m.n->obj) {
			String k(e.first.c_str());
			int xi;
			if (exp_int(e.second, xi))
				VF_CHECK(di[k] == xi, where, ": Dic<int>[", vf::show(e.first), "] = ", di[k], ", want ", xi);
			if (expanded(e.second) <= WALK_LIMIT)
				VF_CHECK(S(ds[k]) == ref::text(e.second), where, ": Dic<String>[", vf::show(e.first), "]");
		}
	}
	else
		VF_CHECK(di.length() == 0 && ds.length() == 0, where, ": Dic<T> conversion of a non-object is not empty");
	for (int i = 0; i < NKEYS; i++) {
		String k(KEYS[i]);
		bool has = m.k == VVal::OBJ && m.n->obj.count(KEYS[i]);
		VF_CHECK(v.has(k) == has, where, ": has(", vf::show(KEYS[i]), ") = ", v.has(k));
		for (Var::Type t : {Var::NUMBER, Var::STRING, Var::ARRAY, Var::NONE})
			VF_CHECK(v.has(k, t) == (has && is_type(m.n->obj[KEYS[i]], t)), where, ": has(", vf::show(KEYS[i]), ",", (int)t, ")");
		Var c = v(k);
		VF_CHECK(c.type() == (has ? type_of(m.n->obj[KEYS[i]]) : Var::NONE), where, ": v(key) type");
		VF_CHECK((v.getp(k) != 0) == has, where, ": getp(key)");
		int rd = 12345;
		v.read(k, rd);
		int xi;
		if (!has)
			VF_CHECK(rd == 12345, where, ": read() of a missing key changed the variable");
		else if (exp_int(m.n->obj[KEYS[i]], xi))
			VF_CHECK(rd == xi, where, ": read(", vf::show(KEYS[i]), ") = ", rd, ", want ", xi);
	}
	bool isclass = m.k == VVal::OBJ && m.n->obj.count("$type") && m.n->obj["$type"].k == VVal::STR && m.n->obj["$type"].s == "name";
	VF_CHECK(v.is("name") == isclass, where, ": is(class)");
}


// builds a Var from a model value (for comparison operands); STR hint bit 0 = heap representation whatever the length
static void from_model(const VVal& m, Var& out)
{
	switch (m.k) {
	case VVal::NONE: out = Var(); break;
	case VVal::NUL: out = Var::NUL; break;
	case VVal::BOOL: out = m.b; break;
	case VVal::INT: out = m.i; break;
	case VVal::NUM: out = m.d; break;
	case VVal::FLT: out = (float)m.d; break;
	case VVal::STR: {
		ExactC e(m.s);
		if (m.hint & 1) {
			out = String((m.s + "_make_it_long").c_str());
			out = (const char*)e.p;
		}
		else
			out = Var((const char*)e.p);
		break;
	}
	case VVal::ARR:
		out = Var(Var::ARRAY);
		for (auto& e : m.n->arr) {
			Var ch;
			from_model(e, ch);
			out << ch;
		}
		break;
	case VVal::OBJ:
		out = Var(Var::OBJ);
		for (auto& e : m.n->obj) {
			Var ch;
			from_model(e.second, ch);
			out[String(e.first.c_str())] = ch;
		}
		break;
	}
}

// the same content in other representations (INT <-> NUMBER <-> FLOAT where exact, inline <-> heap strings), as a fresh tree;
// leaf number `perturb` (if any) is changed to a different content
static VVal rerep(const VVal& m, unsigned long long& salt, int& leaf, int perturb)
{
	salt = salt * 6364136223846793005ULL + 1442695040888963407ULL;
	unsigned pick = (unsigned)(salt >> 33) & 3;
	VVal r = m;
	r.hint = 0;
	if (m.isCont()) {
		r.n = std::make_shared<VNode>();
		r.n->isObj = m.n->isObj;
		for (auto& e : m.n->arr)
			r.n->arr.push_back(rerep(e, salt, leaf, perturb));
		for (auto& e : m.n->obj)
			r.n->obj[e.first] = rerep(e.second, salt, leaf, perturb);
		return r;
	}
	bool hit = leaf++ == perturb;
	switch (m.k) {
	case VVal::INT: {
		int i = hit ? (m.i == INT_MAX ? m.i - 1 : m.i + 1) : m.i;
		if (pick == 0)
			r = ref::vint(i);
		else if (pick == 1 || (double)(float)i != (double)i)
			r = ref::vnum((double)i);
		else
			r = ref::vflt((float)i);
		break;
	}
	case VVal::NUM:
	case VVal::FLT: {
		double d = m.d;
		if (hit) {
			double e = d + 1;
			if (e == d)
				e = std::isinf(d) ? 0 : d * 2;
			d = e;
		}
		if (pick != 0 && d == std::floor(d) && d >= -2147483648.0 && d <= 2147483647.0)
			r = ref::vint((int)d);
		else if ((pick == 2 || m.k == VVal::NUM) && (double)(float)d == d && pick != 0)
			r = ref::vflt((float)d);
		else
			r = ref::vnum(d);
		break;
	}
	case VVal::STR: {
		std::string t = m.s;
		if (hit) {
			if ((pick & 2) && !t.empty())
				t.back() = t.back() == 'a' ? 'b' : 'a';
			else
				t += "x";
		}
		r = ref::vstr(t);
		r.hint = pick & 1;
		break;
	}
	case VVal::BOOL:
		r = ref::vbool(hit ? !m.b : m.b);
		break;
	case VVal::NUL:
		if (hit)
			r = ref::vbool(false);
		break;
	default:
		if (hit)
			r = ref::vint(0);
		break;
	}
	return r;
}

// ---------------------------------------------------------------------------------------------
// large containers (capacity beyond the 2048-byte block size where Array switches allocation strategy)

static std::string bigkey(int i)
{
	char b[16];
	snprintf(b, sizeof b, "key%03d", i);
	return b;
}

// kind 0: array from Array<int> (capacity == n); 1: array grown by << (capacity 192/384/768); 2: object from Dic<int>
// (capacity == n); 3: object grown by [key] = (capacity 96/192/384). Element 1 / key001 optionally holds a small array.
static VVal build_big(Var& out, int kind, int n, long long x, bool nested)
{
	VVal m = kind < 2 ? ref::varr() : ref::vobj();
	Var local;
	if (kind == 0) {
		Array<int> a(n);
		for (int i = 0; i < n; i++)
			a[i] = int_of(x) + i;
		local = Var(a);
	}
	else if (kind == 1) {
		for (int i = 0; i < n; i++)
			local << (int_of(x) + i);
	}
	else if (kind == 2) {
		Dic<int> d;
		for (int i = 0; i < n; i++)
			d[String(bigkey(i).c_str())] = int_of(x) + i;
		local = Var(d);
	}
	else {
		for (int i = 0; i < n; i++)
			local[String(bigkey(i).c_str())] = int_of(x) + i;
	}
	for (int i = 0; i < n; i++) {
		if (kind < 2)
			m.n->arr.push_back(ref::vint(int_of(x) + i));
		else
			m.n->obj[bigkey(i)] = ref::vint(int_of(x) + i);
	}
	if (nested && n > 1) {
		VVal sub = ref::varr();
		sub.n->arr = {ref::vint(1), ref::vstr("a string on the heap")};
		Var sv(Var::ARRAY);
		sv << 1 << "a string on the heap";
		if (kind < 2) {
			local[1] = sv;
			m.n->arr[1] = sub;
		}
		else {
			local[String(bigkey(1).c_str())] = sv;
			m.n->obj[bigkey(1)] = sub;
		}
	}
	out = local;
	return m;
}

static int big_size(int kind, long long code) { return kind < 2 ? 130 + mod(code, 271) : 55 + mod(code, 146); }

// removes elements/properties through `v` until `keep` are left; style 0: one removeAt(i, n) (arrays), 1: one by one from the
// back, 2: one by one from the front, 3: alternating. The model node is updated in step.
static void remove_down_to(Var& v, VVal& m, int keep, int style, long long x)
{
	if (m.k == VVal::ARR) {
		auto& a = m.n->arr;
		int len = (int)a.size();
		if (keep >= len)
			return;
		if (style == 0) {
			int i = mod(x, keep + 1), n = len - keep;
			v.removeAt(i, n);
			a.erase(a.begin() + i, a.begin() + i + n);
			return;
		}
		for (int k = 0; (int)a.size() > keep; k++) {
			int i = style == 1 ? (int)a.size() - 1 : style == 2 ? 0 : (k & 1) ? (int)a.size() - 1 : 0;
			v.removeAt(i);
			a.erase(a.begin() + i);
		}
	}
	else if (m.k == VVal::OBJ) {
		auto& o = m.n->obj;
		for (int k = 0; (int)o.size() > keep; k++) {
			auto it = style == 1 ? std::prev(o.end()) : style == 2 ? o.begin() : (k & 1) ? std::prev(o.end()) : o.begin();
			if (style == 0) {
				it = o.begin();
				std::advance(it, mod(x + k * 7, (long long)o.size()));
			}
			std::string key = it->first;
			v.remove(String(key.c_str()));
			o.erase(key);
		}
	}
}

// a self-contained scenario on private Vars: a large container is built through one Var, then shared by further Vars (copies,
// an element of another array, a property of an object), a clone is taken, elements are removed through ONE of the handles
// down to a few, everything is read back through ALL handles after every step, and the handles are dropped in a generated order
static void big_shared_scenario(const vf::Op& o, const std::string& tag)
{
	int kind = mod(o.i(0), 4), n = big_size(kind, o.i(1)), nshare = 1 + mod(o.i(2), 3), nest = mod(o.i(3), 3);
	int keep = mod(o.i(5), 6), style = mod(o.i(6), 4);
	long long x = o.i(8);
	std::vector<Var*> h;
	std::vector<VVal> hm;
	struct Guard {
		std::vector<Var*>& h;
		~Guard()
		{
			for (Var* p : h)
				delete p;
		}
	} guard{h};
	auto check_local = [&](const char* after) {
		std::map<const VNode*, int> hc;
		for (auto& m : hm)
			ref::count_handles(m, hc);
		std::map<const VNode*, const void*> n2b;
		std::map<const void*, const VNode*> b2n;
		Walk w{&n2b, &b2n, &hc};
		for (size_t i = 0; i < h.size(); i++)
			check_view(*h[i], hm[i], w, vf::str(tag, " (large shared container) after ", after, ": handle", i));
	};
	h.push_back(new Var);
	hm.push_back(VVal());
	hm[0] = build_big(*h[0], kind, n, x, (o.i(3) & 8) != 0);
	CLS(kind < 2 ? "bigshare.array" : "bigshare.object");
	for (int i = 0; i < nshare; i++) { // plain copies: copy constructor and assignment
		if (i & 1) {
			h.push_back(new Var(int_of(x)));
			*h.back() = *h[0];
		}
		else
			h.push_back(new Var(*h[0]));
		hm.push_back(hm[0]);
	}
	if (nest == 1) { // element of another (fresh, unshared) array
		h.push_back(new Var(Var::ARRAY));
		*h.back() << 7 << *h[0];
		VVal outer = ref::varr();
		outer.n->arr = {ref::vint(7), hm[0]};
		hm.push_back(outer);
	}
	else if (nest == 2) { // property of another object
		h.push_back(new Var(Var::OBJ));
		(*h.back())["big"] = *h[0];
		VVal outer = ref::vobj();
		outer.n->obj["big"] = hm[0];
		hm.push_back(outer);
	}
	size_t shared_handles = h.size();
	// an independent deep copy that must keep the full content
	h.push_back(new Var(h[0]->clone()));
	hm.push_back(ref::deep(hm[0]));
	check_local("sharing");
	// removal through one generated handle (possibly the nested one)
	size_t sel = (size_t)mod(o.i(4), (long long)shared_handles);
	Var* via = h[sel];
	if (nest == 1 && sel == shared_handles - 1)
		via = &(*h[sel])[1];
	else if (nest == 2 && sel == shared_handles - 1)
		via = &(*h[sel])["big"];
	remove_down_to(*via, hm[0], keep, style, x);
	check_local("removal through one handle");
	// Var == Var between two handles of the same container, and against the clone
	VF_CHECK(*h[0] == *h[1] && *h[1] == *h[0], tag, ": two Vars sharing one container compare unequal after removals");
	VF_CHECK(*h[0] != *h.back(), tag, ": the clone taken before the removals compares equal to the shortened container");
	// a write through another handle is seen by all
	if (hm[0].n->size() > 0) {
		Var* other = h[(sel + 1) % shared_handles == shared_handles - 1 && nest ? 0 : (sel + 1) % shared_handles];
		if (hm[0].k == VVal::ARR) {
			(*other)[0] = "changed through another handle";
			hm[0].n->arr[0] = ref::vstr("changed through another handle");
		}
		else {
			std::string k0 = hm[0].n->obj.begin()->first;
			(*other)[String(k0.c_str())] = "changed through another handle";
			hm[0].n->obj[k0] = ref::vstr("changed through another handle");
		}
		check_local("write through another handle");
	}
	// a second round of removals through yet another handle, down to nothing or one
	if (o.i(7) & 1) {
		Var* second = h[(sel + 1) % shared_handles == shared_handles - 1 && nest ? 0 : (sel + 1) % shared_handles];
		remove_down_to(*second, hm[0], mod(o.i(7) >> 1, 2), (style + 1) % 4, x + 1);
		check_local("second removal through another handle");
	}
	// drop the handles in a generated order
	unsigned long long order = uabs(o.i(7)) * 2654435761ULL + 12345;
	while (!h.empty()) {
		size_t k = (size_t)((order >> 16) % h.size());
		order = order * 6364136223846793005ULL + 1442695040888963407ULL;
		delete h[k];
		h.erase(h.begin() + k);
		hm.erase(hm.begin() + k);
		check_local("dropping a handle");
	}
}

// a self-contained scenario on a private, UNSHARED array (one handle: not KF-1): elements of the array itself are appended
// BY REFERENCE (a << a[k], chained, with the comma operator) and assigned (a[i] = a[j]) while the length sweeps upwards
// through every capacity boundary; the appended value must be a copy of what the element held before the call
static void self_append_scenario(const vf::Op& o, const std::string& tag)
{
	int len0 = 1 + mod(o.i(0), 50), route = mod(o.i(1), 3), count = 1 + mod(o.i(2), 52);
	unsigned long long r = uabs(o.i(3)) * 2654435761ULL + 99;
	auto next = [&]() {
		r = r * 6364136223846793005ULL + 1442695040888963407ULL;
		return (long long)(r >> 33);
	};
	Var a;
	VVal m = ref::varr();
	auto elem = [&](int i, Var& out) -> VVal {
		switch (mod(next(), 5)) {
		case 0: out = i; return ref::vint(i);
		case 1: out = "short"; return ref::vstr("short");
		case 2: {
			std::string s = "a string on the heap #" + std::to_string(i);
			out = String(s.c_str());
			return ref::vstr(s);
		}
		case 3: out = 0.5 * i; return ref::vnum(0.5 * i);
		default: {
			out = Var(Var::ARRAY);
			out << i << "nested element on the heap";
			VVal v = ref::varr();
			v.n->arr = {ref::vint(i), ref::vstr("nested element on the heap")};
			return v;
		}
		}
	};
	if (route == 1)
		a.resize(len0); // capacity == length whenever len0 > 3: the very first append moves the block
	for (int i = 0; i < len0; i++) {
		Var e;
		VVal em = elem(i, e);
		if (route == 1)
			a[i] = e;
		else if (route == 0)
			a << e; // capacities 3, 6, 12, 24, 48, 96
		else
			a[i] = e; // auto-resize: reserve() growth
		m.n->arr.push_back(em);
	}
	auto check_local = [&](const char* after, int step) {
		std::map<const VNode*, int> hc;
		ref::count_handles(m, hc);
		std::map<const VNode*, const void*> n2b;
		std::map<const void*, const VNode*> b2n;
		Walk w{&n2b, &b2n, &hc};
		check_view(a, m, w, vf::str(tag, " (own element appended by reference) step ", step, " after ", after, ", length ", m.n->arr.size()));
	};
	check_local("construction", 0);
	for (int step = 1; step <= count && m.n->arr.size() < 110; step++) {
		int n = (int)m.n->arr.size();
		bool full = a.array().cap() == n;
		int k = mod(next(), n), k2 = mod(next(), n);
		switch (mod(next(), 8)) {
		case 0:
		case 1:
		case 2:
			a << a[k];
			m.n->arr.push_back(VVal(m.n->arr[k]));
			CLS(full ? "selfapp.append_own_element_at_capacity" : "selfapp.append_own_element");
			break;
		case 3:
			(a, a[k]);
			m.n->arr.push_back(VVal(m.n->arr[k]));
			CLS(full ? "selfapp.append_own_element_at_capacity" : "selfapp.append_own_element");
			break;
		case 4: { // two appends in a row (the second one may be the one that finds the array full)
			a << a[k];
			m.n->arr.push_back(VVal(m.n->arr[k]));
			a << a[k2];
			m.n->arr.push_back(VVal(m.n->arr[k2]));
			CLS(full ? "selfapp.append_own_element_at_capacity" : "selfapp.append_own_element");
			break;
		}
		case 5: // the last element, the one next to the insertion point
			a << a[n - 1];
			m.n->arr.push_back(VVal(m.n->arr[n - 1]));
			CLS(full ? "selfapp.append_own_element_at_capacity" : "selfapp.append_own_element");
			break;
		case 6: { // a[i] = a[j] (no growth)
			VVal tmp = m.n->arr[k2];
			a[k] = a[k2];
			m.n->arr[k] = tmp;
			CLS("selfapp.assign_own_element");
			break;
		}
		default: { // an element of a nested array appended to the outer one (block of the argument does not move)
			int j = -1;
			for (int q = 0; q < n; q++)
				if (m.n->arr[(k + q) % n].k == VVal::ARR && !m.n->arr[(k + q) % n].n->arr.empty()) {
					j = (k + q) % n;
					break;
				}
			if (j < 0) {
				a << a[k];
				m.n->arr.push_back(VVal(m.n->arr[k]));
			}
			else {
				a << a[j][1];
				m.n->arr.push_back(VVal(m.n->arr[j].n->arr[1]));
			}
			CLS(full ? "selfapp.append_own_element_at_capacity" : "selfapp.append_own_element");
			break;
		}
		}
		check_local("the op", step);
	}
}

// ---------------------------------------------------------------------------------------------
// the interpreter

static int cap_of(const Var& v, const VVal& m)
{
	if (m.k == VVal::ARR)
		return v.array().cap();
	if (m.k == VVal::OBJ)
		return v.object().kv().cap();
	return 0;
}

// would the op reallocate a container that other Vars reference too? (open known finding KF-1)
static bool kf1(State& st, const Loc& t, int needed)
{
	if (!t.m->isCont() || !st.shared(*t.m))
		return false;
	if (needed <= cap_of(*t.v, *t.m))
		return false;
	if (st.allow_kf1)
		return false;
	g_excluded++;
	CLS("excluded.kf1_shared_growth");
	return true;
}

static bool too_big(State& st, const char* what)
{
	if (total_expanded(st) <= GROW_LIMIT)
		return false;
	CLS(what);
	return true;
}

// assigns a typed value to *t.v through the matching operator= overload (or constructs and assigns), returns the model value
static VVal assign_typed(Var& dst, int kind, long long x, const std::string& s)
{
	switch (kind) {
	case 0: {
		int v = int_of(x);
		dst = v;
		return ref::vint(v);
	}
	case 1: {
		unsigned v = unsigned_of(x);
		if (x & 16)
			dst = Var(v); // constructor route
		else
			dst = v; // operator=(unsigned)
		return ref::vunsigned(v);
	}
	case 2: {
		Long v = long_of(x);
		dst = v;
		return ref::vnum((double)v);
	}
	case 3: {
		ULong v = (ULong)uabs(long_of(x));
		dst = v;
		return ref::vnum((double)v);
	}
	case 4: {
		float v = (float)dbl_of(x);
		dst = v;
		return ref::vflt(v);
	}
	case 5: {
		double v = dbl_of(x);
		dst = v;
		return ref::vnum(v);
	}
	case 6: {
		bool v = x & 1;
		dst = v;
		return ref::vbool(v);
	}
	case 7: {
		char v = (char)(32 + mod(x, 95));
		dst = v;
		return ref::vint(v);
	}
	case 8: {
		ExactC e(s);
		dst = (const char*)e.p;
		return ref::vstr(s);
	}
	case 9: {
		String v(s.c_str());
		dst = v;
		return ref::vstr(s);
	}
	case 10: {
		long v = int_of(x);
		dst = v;
		return ref::vint((int)v);
	}
	case 11:
		dst = Var();
		return ref::vnone();
	case 12:
		dst = Var::NUL;
		return ref::vnul();
	case 13:
		dst = Var(Var::ARRAY);
		return ref::varr();
	case 14:
		dst = Var(Var::OBJ);
		return ref::vobj();
	case 15: {
		int n = mod(x, 6);
		Array<int> a;
		VVal m = ref::varr();
		for (int i = 0; i < n; i++) {
			a << int_of(x + i * 7);
			m.n->arr.push_back(ref::vint(int_of(x + i * 7)));
		}
		if (x & 64)
			dst = a;
		else
			dst = Var(a);
		return m;
	}
	case 16: {
		int n = mod(x, 5);
		Array<String> a;
		VVal m = ref::varr();
		for (int i = 0; i < n; i++) {
			std::string e = s + std::string((size_t)i, '+');
			a << String(e.c_str());
			m.n->arr.push_back(ref::vstr(e));
		}
		if (x & 64)
			dst = a;
		else
			dst = Var(a);
		return m;
	}
	case 17: {
		int n = mod(x, 5);
		Array<double> a;
		VVal m = ref::varr();
		for (int i = 0; i < n; i++) {
			a << dbl_of(x + i * 5);
			m.n->arr.push_back(ref::vnum(dbl_of(x + i * 5)));
		}
		if (x & 64)
			dst = a;
		else
			dst = Var(a);
		return m;
	}
	case 18: {
		int n = mod(x, 5);
		Dic<int> d;
		VVal m = ref::vobj();
		for (int i = 0; i < n; i++) {
			std::string k = key_of(x + i * 3);
			d[String(k.c_str())] = int_of(x + i);
			m.n->obj[k] = ref::vint(int_of(x + i));
		}
		if (x & 64)
			dst = d;
		else
			dst = Var(d);
		return m;
	}
	case 19: {
		int n = mod(x, 5);
		Dic<String> d;
		VVal m = ref::vobj();
		for (int i = 0; i < n; i++) {
			std::string k = key_of(x + i * 3), e = s + std::string((size_t)i, '-');
			d[String(k.c_str())] = String(e.c_str());
			m.n->obj[k] = ref::vstr(e);
		}
		if (x & 64)
			dst = d;
		else
			dst = Var(d);
		return m;
	}
	case 20: {
		int a = int_of(x), b = int_of(x + 1), c = int_of(x + 2);
		dst = {a, b, c};
		VVal m = ref::varr();
		m.n->arr = {ref::vint(a), ref::vint(b), ref::vint(c)};
		return m;
	}
	case 21: {
		int a = int_of(x);
		double b = dbl_of(x);
		String str(s.c_str());
		dst = Var::array({a, str, b, true});
		VVal m = ref::varr();
		m.n->arr = {ref::vint(a), ref::vstr(s), ref::vnum(b), ref::vbool(true)};
		return m;
	}
	case 22: {
		int a = int_of(x);
		String str(s.c_str());
		dst = Var{{"k", a}, {"s", str}, {"a", {1, 2}}};
		VVal m = ref::vobj();
		m.n->obj["k"] = ref::vint(a);
		m.n->obj["s"] = ref::vstr(s);
		VVal arr = ref::varr();
		arr.n->arr = {ref::vint(1), ref::vint(2)};
		m.n->obj["a"] = arr;
		return m;
	}
	case 23: {
		Array<Var> a;
		a << Var(int_of(x)) << Var(String(s.c_str()));
		if (x & 64)
			dst = a; // element-wise copy (template operator=)
		else
			dst = Var(a); // shares the block with `a`, which goes away
		VVal m = ref::varr();
		m.n->arr = {ref::vint(int_of(x)), ref::vstr(s)};
		return m;
	}
	case 24: {
		Dic<Var> d;
		d["x"] = int_of(x);
		d[String(key_of(x).c_str())] = String(s.c_str());
		if (x & 64)
			dst = d;
		else
			dst = Var(d);
		VVal m = ref::vobj();
		m.n->obj["x"] = ref::vint(int_of(x));
		m.n->obj[key_of(x)] = ref::vstr(s);
		return m;
	}
	case 25: {
		unsigned long v = (unsigned long)(unsigned)int_of(x) & 0x7fffffffUL;
		dst = v;
		return ref::vint((int)v);
	}
	default: { // pseudo-literal object
		String str(s.c_str());
		dst = Var("name", str)("x", dbl_of(x))("visible", true);
		VVal m = ref::vobj();
		m.n->obj["name"] = ref::vstr(s);
		m.n->obj["x"] = ref::vnum(dbl_of(x));
		m.n->obj["visible"] = ref::vbool(true);
		return m;
	}
	}
}
static const int NKINDS = 27;

static void run_body(const std::string& part, const vf::Case& c, Flags& flags_out)
{
	State st;
	st.allow_kf1 = part == "kf1";
	int opno = 0;
	for (auto& o : c.ops) {
		opno++;
		const std::string& nm = o.name;
		std::string tag = vf::str("op ", opno, " ", nm);
		if (nm == "tree") {
			int s = mod(o.i(0), State::NS);
			std::vector<long long> rest(o.a.begin() + (o.a.empty() ? 0 : 1), o.a.end());
			Cursor cur{rest, o.s, 0, 0};
			Var* nv = new Var;
			VVal nmv;
			double budget = 60;
			build(cur, 0, *nv, nmv, budget);
			delete st.slot[s];
			st.slot[s] = nv;
			st.m[s] = nmv;
		}
		else if (nm == "set") {
			Loc t = resolve(st, o, 0);
			if (t.steps == 0 && t.m->isCont() && t.m->n->size() && (o.i(7) & 3) != 0) // mostly keep the slot's tree: descend
				t = resolve_from(t, o, 1, 4, ANY, true);
			int kind = mod(o.i(5), NKINDS);
			if (t.m->isCont() && st.shared(*t.m))
				st.f.typechange_shared = true, CLS("set.on_shared_container");
			VVal nv = assign_typed(*t.v, kind, o.i(6), o.str(0));
			*t.m = nv;
			check_value(*t.v, nv, tag + ": target just assigned");
		}
		else if (nm == "asg") {
			Loc t = resolve(st, o, 0);
			Loc s = (o.i(10) & 1) && t.m->isCont() && t.m->n->size() ? resolve_from(t, o, 6, 4, ANY, true) : resolve(st, o, 5);
			VVal tmp = *s.m;
			bool inside = t.m->isCont() && s.parent && s.v != t.v && ref::reaches(t.m->n.get(), s.parent);
			if (tmp.isCont() && t.parent && ref::reaches(tmp.n.get(), t.parent)) {
				CLS("skipped.cycle");
				continue;
			}
			if (tmp.isCont() && too_big(st, "skipped.size.asg"))
				continue;
			if (inside)
				st.f.src_inside = true, CLS(tmp.isCont() ? "asg.src_inside_target.container" : "asg.src_inside_target.scalar");
			if (t.m->isCont() && st.shared(*t.m) && tmp.k != t.m->k)
				st.f.typechange_shared = true, CLS("asg.typechange_on_shared_container");
			if (s.v == t.v)
				CLS("asg.self");
			else if (t.m->k == VVal::STR && tmp.k == VVal::STR)
				CLS(t.v->isPod() == s.v->isPod() ? "asg.str_same_rep" : "asg.str_cross_rep");
			VVal before = expanded(tmp) <= WALK_LIMIT ? ref::deep(tmp) : VVal();
			bool have = expanded(tmp) <= WALK_LIMIT;
			*t.v = *s.v;
			*t.m = tmp;
			if (have)
				check_value(*t.v, before, tag + ": target vs the value the source had before the assignment");
		}
		else if (nm == "cpy") {
			int d = mod(o.i(0), State::NS);
			Loc s = resolve(st, o, 1, (o.i(6) & 3) != 0 ? WANT_CONT : ANY);
			if (s.m->isCont() && too_big(st, "skipped.size.cpy"))
				continue;
			VVal tmp = *s.m;
			Var* nv = new Var(*s.v);
			delete st.slot[d];
			st.slot[d] = nv;
			st.m[d] = tmp;
		}
		else if (nm == "idx") {
			Loc t = resolve(st, o, 0, (o.i(7) & 6) != 0 ? WANT_ARR : ANY);
			if (t.m->k != VVal::ARR && t.m->k != VVal::NONE) {
				CLS("skipped.type");
				continue;
			}
			int len = t.m->k == VVal::ARR ? (int)t.m->n->arr.size() : 0;
			int i = mod(o.i(5), len + 3);
			if (kf1(st, t, i + 1) || (i >= len && too_big(st, "skipped.size.idx")))
				continue;
			if (t.m->k == VVal::ARR && st.shared(*t.m))
				st.f.shared_mut = true;
			if (t.m->k == VVal::NONE)
				*t.m = ref::varr();
			if ((int)t.m->n->arr.size() < i + 1)
				t.m->n->arr.resize(i + 1);
			int x = int_of(o.i(6));
			(*t.v)[i] = x;
			t.m->n->arr[i] = ref::vint(x);
			CLS(i >= len ? "idx.autoresize" : "idx.inrange");
		}
		else if (nm == "key") {
			Loc t = resolve(st, o, 0, (o.i(7) & 6) != 0 ? WANT_OBJ : ANY);
			if (t.m->k != VVal::OBJ && t.m->k != VVal::NONE) {
				CLS("skipped.type");
				continue;
			}
			std::string key = key_of(o.i(5));
			bool isnew = t.m->k == VVal::NONE || !t.m->n->obj.count(key);
			int len = t.m->k == VVal::OBJ ? (int)t.m->n->obj.size() : 0;
			if (isnew && (kf1(st, t, len + 1) || too_big(st, "skipped.size.key")))
				continue;
			if (t.m->k == VVal::OBJ && st.shared(*t.m))
				st.f.shared_mut = true;
			if (t.m->k == VVal::NONE)
				*t.m = ref::vobj();
			int x = int_of(o.i(6));
			if (o.i(7) & 1)
				(*t.v)(key.c_str(), x);
			else
				(*t.v)[String(key.c_str())] = x;
			t.m->n->obj[key] = ref::vint(x);
			CLS(isnew ? "key.created" : "key.overwritten");
		}
		else if (nm == "app") {
			Loc t = resolve(st, o, 0, (o.i(7) & 6) != 0 ? WANT_ARR : ANY);
			int len = t.m->k == VVal::ARR ? (int)t.m->n->arr.size() : 0;
			if (kf1(st, t, len + 1) || too_big(st, "skipped.size.app"))
				continue;
			if (t.m->k == VVal::ARR && st.shared(*t.m))
				st.f.shared_mut = true;
			int kind = mod(o.i(5), 7);
			long long x = o.i(6);
			const std::string& s = o.str(0);
			VVal e;
			Var& T = *t.v;
			switch (kind) {
			case 0: T << int_of(x); e = ref::vint(int_of(x)); break;
			case 1: T << dbl_of(x); e = ref::vnum(dbl_of(x)); break;
			case 2: {
				ExactC ec(s);
				T << (const char*)ec.p;
				e = ref::vstr(s);
				break;
			}
			case 3: T << String(s.c_str()); e = ref::vstr(s); break;
			case 4: T << (bool)(x & 1); e = ref::vbool(x & 1); break;
			case 5: T << (float)dbl_of(x); e = ref::vflt((float)dbl_of(x)); break;
			default: (T, int_of(x)); e = ref::vint(int_of(x)); break;
			}
			if (t.m->k == VVal::NONE)
				*t.m = ref::varr();
			if (t.m->k == VVal::ARR)
				t.m->n->arr.push_back(e);
			else
				CLS("app.on_non_array_noop");
		}
		else if (nm == "appv") {
			Loc t = resolve(st, o, 0, (o.i(11) & 6) != 0 ? WANT_ARR : ANY);
			Loc s = (o.i(10) & 1) && t.m->isCont() && t.m->n->size() ? resolve_from(t, o, 6, 4, ANY, true) : resolve(st, o, 5);
			VVal tmp = *s.m;
			if (t.v == s.v && t.m->k == VVal::NONE) { // x << x on an undefined x would make the new array contain itself
				CLS("skipped.cycle");
				continue;
			}
			if (t.m->k == VVal::ARR || t.m->k == VVal::NONE) {
				VNode* holder = t.m->k == VVal::ARR ? t.m->n.get() : t.parent;
				if (tmp.isCont() && holder && ref::reaches(tmp.n.get(), holder)) {
					CLS("skipped.cycle");
					continue;
				}
			}
			int len = t.m->k == VVal::ARR ? (int)t.m->n->arr.size() : 0;
			if (kf1(st, t, len + 1) || too_big(st, "skipped.size.appv"))
				continue;
			if (t.m->k == VVal::ARR && st.shared(*t.m))
				st.f.shared_mut = true;
			// an element of the receiving array itself, passed by reference (a << a[k]); when the array is exactly full the
			// block moves while the argument still points into it
			bool own_elem = t.m->k == VVal::ARR && s.parent == t.m->n.get();
			if (own_elem)
				CLS(len + 1 > cap_of(*t.v, *t.m) ? "appv.own_element_by_ref_at_capacity" : "appv.own_element_by_ref");
			if (o.i(11) & 1)
				(*t.v, *s.v);
			else
				*t.v << *s.v;
			if (t.m->k == VVal::NONE)
				*t.m = ref::varr();
			if (t.m->k == VVal::ARR) {
				t.m->n->arr.push_back(tmp);
				if (tmp.isCont())
					CLS("appv.container_now_shared");
			}
		}
		else if (nm == "rmat") {
			Loc t = resolve(st, o, 0, (o.i(7) & 6) != 0 ? WANT_ARR : ANY);
			int len = t.m->k == VVal::ARR ? (int)t.m->n->arr.size() : 0;
			int i = mod(o.i(5), len + 3) - 1, n = mod(o.i(6), len + 3) - 1;
			if (o.i(7) & 1)
				n = 1;
			else if ((o.i(7) & 24) == 8 && len > 8) { // one big removal that leaves only a few elements
				i = mod(o.i(5), 3);
				n = len - i - mod(o.i(6), 4);
			}
			bool valid = t.m->k == VVal::ARR && i >= 0 && n > 0 && i < len && i + n <= len;
			if (t.m->k == VVal::ARR && st.shared(*t.m) && valid)
				st.f.shared_mut = true;
			if (o.i(7) & 1)
				t.v->removeAt(i);
			else
				t.v->removeAt(i, n);
			if (valid)
				t.m->n->arr.erase(t.m->n->arr.begin() + i, t.m->n->arr.begin() + i + n);
			CLS(valid ? "rmat.valid" : t.m->k == VVal::ARR ? "rmat.out_of_range_noop" : "rmat.non_array_noop");
		}
		else if (nm == "rmkey") {
			Loc t = resolve(st, o, 0, (o.i(7) & 6) != 0 ? WANT_OBJ : ANY);
			std::string key = key_of(o.i(5));
			if (t.m->k == VVal::OBJ && !t.m->n->obj.empty() && (o.i(6) & 1)) {
				auto it = t.m->n->obj.begin();
				std::advance(it, mod(o.i(5), (long long)t.m->n->obj.size()));
				key = it->first;
			}
			t.v->remove(String(key.c_str()));
			if (t.m->k == VVal::OBJ) {
				if (st.shared(*t.m))
					st.f.shared_mut = true;
				CLS(t.m->n->obj.erase(key) ? "rmkey.removed" : "rmkey.missing");
			}
		}
		else if (nm == "ext") {
			Loc t = resolve(st, o, 0, (o.i(11) & 6) != 0 ? WANT_OBJ : ANY);
			Loc s = o.i(10) & 1 ? resolve_from(t, o, 6, 4, WANT_OBJ, true) : resolve(st, o, 5, WANT_OBJ);
			if (s.m->k != VVal::OBJ) {
				CLS("skipped.type");
				continue;
			}
			VVal src = *s.m;
			std::vector<std::pair<std::string, VVal>> items(src.n->obj.begin(), src.n->obj.end());
			bool active = t.m->k == VVal::OBJ || t.m->k == VVal::NONE;
			if (active) {
				VNode* holder = t.m->k == VVal::OBJ ? t.m->n.get() : t.parent;
				// an undefined receiver that is itself a property of the source becomes an object first and would then be
				// copied into itself
				bool cyc = t.m->k == VVal::NONE && t.parent == src.n.get();
				int newkeys = 0;
				for (auto& kv : items) {
					if (kv.second.k == VVal::NONE)
						continue;
					if (kv.second.isCont() && holder && ref::reaches(kv.second.n.get(), holder))
						cyc = true;
					if (t.m->k == VVal::NONE || !t.m->n->obj.count(kv.first))
						newkeys++;
				}
				if (cyc) {
					CLS("skipped.cycle");
					continue;
				}
				int len = t.m->k == VVal::OBJ ? (int)t.m->n->obj.size() : 0;
				if ((newkeys && kf1(st, t, len + newkeys)) || too_big(st, "skipped.size.ext"))
					continue;
				if (t.m->k == VVal::OBJ && st.shared(*t.m))
					st.f.shared_mut = true;
			}
			// a source that lives inside the receiving object would be modified/moved while it is being enumerated: copy
			bool src_in_t = t.m->k == VVal::OBJ && s.parent && s.v != t.v && ref::reaches(t.m->n.get(), s.parent);
			if (src_in_t) {
				Var copy(*s.v);
				t.v->extend(copy);
				CLS("ext.source_inside_receiver_by_copy");
			}
			else
				t.v->extend(*s.v);
			if (active) {
				if (t.m->k == VVal::NONE)
					*t.m = ref::vobj();
				for (auto& kv : items)
					if (kv.second.k != VVal::NONE)
						t.m->n->obj[kv.first] = kv.second;
				CLS(s.v == t.v ? "ext.self" : "ext.done");
			}
			else
				CLS("ext.on_non_object_noop");
		}
		else if (nm == "sstr") {
			// two string assignments in a row through generated overloads: the second text usually shorter than the first and
			// both on the inline side of the 7/8-byte boundary (in-place overwrite of an inline string)
			Loc t = resolve(st, o, 0);
			if (t.steps == 0 && t.m->isCont() && t.m->n->size() && (o.i(7) & 8) == 0)
				t = resolve_from(t, o, 1, 4, ANY, true);
			const std::string &s1 = o.str(0), &s2 = o.str(1);
			if (t.m->isCont() && st.shared(*t.m))
				st.f.typechange_shared = true;
			bool wasHeap = t.m->k == VVal::STR && !t.v->isPod();
			if (wasHeap || (o.i(5) & 4))
				*t.v = 0; // a heap string would stay a heap string
			ExactC e1(s1), e2(s2);
			if (o.i(5) & 1)
				*t.v = (const char*)e1.p;
			else
				*t.v = String(e1.p);
			bool inl = t.v->isPod();
			if (o.i(5) & 2)
				*t.v = (const char*)e2.p;
			else
				*t.v = String(e2.p);
			*t.m = ref::vstr(s2);
			CLS(inl && s2.size() < s1.size() ? "sstr.shorter_over_longer_inline" : inl && s2.size() < 8 ? "sstr.inline_over_inline" : "sstr.other");
			check_value(*t.v, *t.m, tag + ": string assigned over a string");
			Var fresh2 = String(e2.p);
			VF_CHECK(*t.v == fresh2 && fresh2 == *t.v && !(*t.v != fresh2), tag, ": ", t.name, " == Var(String(", vf::show(s2), ")) is false after assigning it over ", vf::show(s1));
			Var cl = t.v->clone(), cp = *t.v;
			VF_CHECK(cl == fresh2 && fresh2 == cp, tag, ": clone/copy of ", t.name, " == fresh Var(", vf::show(s2), ") is false");
			if (t.pv && t.parent && !t.parent->isObj) {
				VF_CHECK(t.pv->contains(fresh2), tag, ": parent array does not contain() a fresh Var(", vf::show(s2), ") although ", t.name, " holds that text");
				VF_CHECK(t.pv->contains(*t.v), tag, ": parent array does not contain() its own element");
			}
			// element-wise through the whole slot: the slot against a freshly built tree with the same content
			const VVal& root = st.m[t.slot];
			if (expanded(root) <= GROW_LIMIT && ref::equal(root, root) == ref::T) {
				unsigned long long salt = (unsigned long long)o.i(6);
				int leaf = 0;
				VVal am = rerep(root, salt, leaf, -1);
				Var av;
				from_model(am, av);
				VF_CHECK(*st.slot[t.slot] == av && av == *st.slot[t.slot], tag, ": slot", t.slot, " == a freshly built tree with the same content is false after the string assignment at ", t.name, ": ", ref::describe(root));
				st.f.eq_cross = true;
				CLS("sstr.whole_slot_compared");
			}
			if (mod(o.i(6), 8) < 6) {
				// a heap string re-assigned from its own text through the pointer operator*() gives: the whole text (same pointer) or a
				// tail that does not overlap the bytes it is copied to (after seeded C04-P)
				std::string big = s1 + "|" + s2 + "|0123456789";
				ExactC eb(big);
				*t.v = (const char*)eb.p;
				int L = (int)big.size(), kmin = (L + 2) / 2;
				int k = mod(o.i(6), 8) == 0 ? 0 : kmin + mod(o.i(6) >> 3, L - kmin + 1);
				const char* own = *(*t.v);
				*t.v = own + k;
				*t.m = ref::vstr(big.substr((size_t)k));
				CLS(k == 0 ? "sstr.own_text_whole" : L - k < 8 ? "sstr.own_tail_short" : "sstr.own_tail_long");
				check_value(*t.v, *t.m, tag + ": heap string assigned a tail of its own text");
				ExactC et(big.substr((size_t)k));
				Var fresh3 = String(et.p);
				VF_CHECK(*t.v == fresh3 && fresh3 == *t.v, tag, ": ", t.name, " == Var(", vf::show(big.substr((size_t)k)), ") is false after assigning it from its own text at offset ", k);
			}
		}
		else if (nm == "big") {
			Loc t = resolve(st, o, 0);
			if (too_big(st, "skipped.size.big"))
				continue;
			int kind = mod(o.i(5), 4), n = big_size(kind, o.i(6));
			if (t.m->isCont() && st.shared(*t.m))
				st.f.typechange_shared = true;
			Var tmp;
			VVal nv = build_big(tmp, kind, n, o.i(7), (o.i(7) & 8) != 0);
			*t.v = tmp;
			*t.m = nv;
			CLS(kind < 2 ? "big.array" : "big.object");
		}
		else if (nm == "rmmany") {
			Loc t = resolve(st, o, 0, (o.i(7) & 6) != 0 ? WANT_CONT : ANY);
			if (!t.m->isCont())
				continue;
			int before = (int)t.m->n->size();
			bool sh = st.shared(*t.m);
			if (sh)
				st.f.shared_mut = true;
			remove_down_to(*t.v, *t.m, mod(o.i(5), 5), mod(o.i(6), 4), o.i(6));
			CLS(before >= 128 || (t.m->k == VVal::OBJ && before >= 52) ? (sh ? "rmmany.large_shared" : "rmmany.large_unshared") : (sh ? "rmmany.small_shared" : "rmmany.small_unshared"));
		}
		else if (nm == "selfapp") {
			self_append_scenario(o, tag);
			continue; // works on a private Var only
		}
		else if (nm == "bigshare") {
			big_shared_scenario(o, tag);
			continue; // works on private Vars only
		}
		else if (nm == "clr") {
			Loc t = resolve(st, o, 0, (o.i(7) & 6) != 0 ? WANT_CONT : ANY);
			t.v->clear();
			if (t.m->isCont()) {
				if (st.shared(*t.m))
					st.f.shared_mut = true;
				t.m->n->arr.clear();
				t.m->n->obj.clear();
			}
		}
		else if (nm == "rsz") {
			Loc t = resolve(st, o, 0, (o.i(7) & 6) != 0 ? WANT_ARR : ANY);
			int n = mod(o.i(5), (o.i(6) & 3) == 0 ? 40 : 9);
			if (t.m->k == VVal::ARR || t.m->k == VVal::NONE) {
				if (kf1(st, t, n) || too_big(st, "skipped.size.rsz"))
					continue;
				if (t.m->k == VVal::ARR && st.shared(*t.m))
					st.f.shared_mut = true;
			}
			t.v->resize(n);
			if (t.m->k == VVal::NONE)
				*t.m = ref::varr();
			if (t.m->k == VVal::ARR)
				t.m->n->arr.resize(n);
		}
		else if (nm == "clone") {
			int d = mod(o.i(0), State::NS);
			Loc s = resolve(st, o, 1, (o.i(6) & 3) != 0 ? WANT_CONT : ANY);
			if (expanded(*s.m) > GROW_LIMIT || too_big(st, "skipped.size.clone")) {
				continue;
			}
			VVal tmp = ref::deep(*s.m);
			CLS(s.m->isCont() ? "clone.container" : "clone.scalar");
			Var* nv = new Var(s.v->clone());
			// registry entry: a second clone that no op can address, with a frozen snapshot
			int r = st.ncl++ % State::NC;
			delete st.cl[r];
			st.cl[r] = new Var(s.v->clone());
			st.cm[r] = ref::deep(*s.m);
			delete st.slot[d];
			st.slot[d] = nv;
			st.m[d] = tmp;
		}
		else if (nm == "drop") {
			int d = mod(o.i(0), State::NS);
			delete st.slot[d];
			st.slot[d] = new Var;
			st.m[d] = VVal();
		}
		else if (nm == "obs") {
			Loc t = resolve(st, o, 0);
			observe(*t.v, *t.m, tag + " " + t.name, o.i(5));
			continue; // read-only
		}
		else if (nm == "eq") {
			Loc a = resolve(st, o, 0);
			Loc b = o.i(10) & 1 ? resolve_from(a, o, 6, 4, ANY, true) : resolve(st, o, 5);
			if (expanded(*a.m) > WALK_LIMIT || expanded(*b.m) > WALK_LIMIT)
				continue;
			if (o.i(10) & 2) { // compare with a clone / a copy of itself
				Var cp = (o.i(10) & 4) ? a.v->clone() : Var(*a.v);
				ref::Tri e = ref::equal(*a.m, *a.m);
				if (e != ref::U) {
					VF_CHECK((*a.v == cp) == (e == ref::T), tag, ": ", a.name, " == its own ", (o.i(10) & 4) ? "clone" : "copy", " is ", *a.v == cp, " for ", ref::describe(*a.m));
					VF_CHECK((cp == *a.v) == (e == ref::T), tag, ": (reversed) own copy == ", a.name);
					CLS("eq.own_copy");
				}
			}
			ref::Tri e = ref::equal(*a.m, *b.m);
			bool r1 = *a.v == *b.v, r2 = *b.v == *a.v, n1 = *a.v != *b.v, n2 = *b.v != *a.v;
			VF_CHECK(r1 != n1 && r2 != n2, tag, ": == and != agree");
			if (e == ref::U) {
				CLS("eq.not_asserted_none");
				continue;
			}
			VF_CHECK(r1 == (e == ref::T), tag, ": ", a.name, " == ", b.name, " is ", r1, " for ", ref::describe(*a.m), " vs ", ref::describe(*b.m));
			VF_CHECK(r2 == (e == ref::T), tag, ": ", b.name, " == ", a.name, " is ", r2, " for ", ref::describe(*b.m), " vs ", ref::describe(*a.m));
			bool cross = (a.m->isNum() && b.m->isNum() && a.m->k != b.m->k) || (a.m->k == VVal::STR && b.m->k == VVal::STR && a.v->isPod() != b.v->isPod());
			if (cross)
				st.f.eq_cross = true;
			bool eqt = e == ref::T;
			CLS(cross ? (eqt ? "eq.cross_representation.equal" : "eq.cross_representation.unequal")
			          : a.m->isCont() && b.m->isCont() ? (eqt ? "eq.containers.equal" : "eq.containers.unequal") : (eqt ? "eq.plain.equal" : "eq.plain.unequal"));
			continue;
		}
		else if (nm == "eqrep") {
			Loc a = resolve(st, o, 0, (o.i(7) & 6) != 0 ? WANT_CONT : ANY);
			if (expanded(*a.m) > GROW_LIMIT)
				continue;
			unsigned long long salt = (unsigned long long)o.i(5);
			int leaves = 0;
			{
				unsigned long long s0 = salt;
				rerep(*a.m, s0, leaves, -1);
			}
			int perturb = (o.i(6) & 1) ? mod(o.i(6) >> 1, leaves + 1) : -1;
			int leaf = 0;
			VVal am = rerep(*a.m, salt, leaf, perturb);
			if (perturb == leaves) { // no leaf left to change: change the size of the root container, or nothing
				if (am.k == VVal::ARR)
					am.n->arr.push_back(ref::vnul());
				else if (am.k == VVal::OBJ)
					am.n->obj["~extra"] = ref::vnul();
				else
					perturb = -1;
			}
			Var av;
			from_model(am, av);
			ref::Tri e = ref::equal(*a.m, am);
			bool r1 = *a.v == av, r2 = av == *a.v, n1 = *a.v != av, n2 = av != *a.v;
			VF_CHECK(r1 != n1 && r2 != n2, tag, ": == and != agree");
			if (e == ref::U) {
				CLS("eqrep.not_asserted_none");
				continue;
			}
			VF_CHECK(perturb >= 0 || e == ref::T, tag, ": harness: re-represented value differs in the model");
			VF_CHECK(r1 == (e == ref::T), tag, ": ", a.name, " == same content in other representations", perturb >= 0 ? " with one difference" : "", " is ", r1, ": ", ref::describe(*a.m), " vs ", ref::describe(am));
			VF_CHECK(r2 == (e == ref::T), tag, ": (reversed) same content in other representations", perturb >= 0 ? " with one difference" : "", " == ", a.name, " is ", r2, ": ", ref::describe(am), " vs ", ref::describe(*a.m));
			if (e == ref::T && leaves > 0)
				st.f.eq_cross = true;
			CLS(e == ref::T ? (a.m->isCont() ? "eqrep.equal.container" : "eqrep.equal.scalar") : (a.m->isCont() ? "eqrep.one_difference.container" : "eqrep.one_difference.scalar"));
			continue;
		}
		else if (nm == "eqlit") {
			Loc a = resolve(st, o, 0);
			const Var& v = *a.v;
			const VVal& m = *a.m;
			int kind = mod(o.i(5), 8);
			long long x = o.i(6);
			// the literal is the addressed value itself when it has the right kind (so that "equal" is exercised), else decoded from x
			bool own = o.i(7) & 1;
			switch (kind) {
			case 0: {
				int l = own && m.k == VVal::INT ? m.i : int_of(x);
				bool want = m.isNum() && m.num() == (double)l;
				VF_CHECK((v == l) == want && (v != l) == !want, tag, ": ", a.name, " == (int)", l, " is ", v == l, " for ", ref::describe(m, 1));
				VF_CHECK((v == Var(l)) == want && (Var(l) == v) == want, tag, ": ", a.name, " == Var((int)", l, ") for ", ref::describe(m, 1));
				if (want && m.k != VVal::INT)
					st.f.eq_cross = true, CLS("eq.cross_representation.literal");
				break;
			}
			case 1: {
				double l = own && m.isNum() ? m.num() : dbl_of(x);
				bool want = m.isNum() && m.num() == l;
				VF_CHECK((v == l) == want && (v != l) == !want, tag, ": ", a.name, " == (double)", l, " is ", v == l, " for ", ref::describe(m, 1));
				VF_CHECK((v == Var(l)) == want && (Var(l) == v) == want, tag, ": ", a.name, " == Var((double)", l, ") for ", ref::describe(m, 1));
				if (want && m.k != VVal::NUM)
					st.f.eq_cross = true, CLS("eq.cross_representation.literal");
				break;
			}
			case 2: {
				float l = own && m.isNum() ? (float)m.num() : (float)dbl_of(x);
				bool want = m.isNum() && m.num() == (double)l;
				// an INT against a float literal is C++'s own int == float (the int is rounded to float); only Var == Var is
				// claimed to be exact, so the literal form is held to the language rule
				bool wantlit = m.k == VVal::INT ? (float)m.i == l : want;
				VF_CHECK((v == l) == wantlit && (v != l) == !wantlit, tag, ": ", a.name, " == (float)", l, " is ", v == l, " for ", ref::describe(m, 1));
				VF_CHECK((v == Var(l)) == want && (Var(l) == v) == want, tag, ": ", a.name, " == Var((float)", l, ") for ", ref::describe(m, 1));
				if (want && m.k != VVal::FLT)
					st.f.eq_cross = true, CLS("eq.cross_representation.literal");
				break;
			}
			case 3: {
				bool l = own && m.k == VVal::BOOL ? m.b : (x & 1);
				bool want = m.k == VVal::BOOL && m.b == l;
				VF_CHECK((v == l) == want && (v != l) == !want, tag, ": ", a.name, " == (bool)", l, " is ", v == l, " for ", ref::describe(m, 1));
				VF_CHECK((v == Var(l)) == want && (Var(l) == v) == want, tag, ": ", a.name, " == Var((bool)", l, ")");
				break;
			}
			case 4:
			case 5:
			case 6: {
				std::string l = own && m.k == VVal::STR ? m.s : o.str(0);
				bool want = m.k == VVal::STR && m.s == l;
				ExactC e(l);
				String ls(e.p);
				VF_CHECK((v == (const char*)e.p) == want && (v != (const char*)e.p) == !want, tag, ": ", a.name, " == (const char*)", vf::show(l), " is ", v == (const char*)e.p, " for ", ref::describe(m, 1));
				VF_CHECK((v == ls) == want && (v != ls) == !want, tag, ": ", a.name, " == String ", vf::show(l), " for ", ref::describe(m, 1));
				// a Var holding the same text in the other representation (inline vs heap) where possible
				Var viaChar((const char*)e.p);
				Var heap(String((l + "_make_it_long").c_str()));
				heap = (const char*)e.p; // stays a heap string whatever the length
				VF_CHECK((v == viaChar) == want && (viaChar == v) == want, tag, ": ", a.name, " == Var(", vf::show(l), ")");
				VF_CHECK((v == heap) == want && (heap == v) == want, tag, ": ", a.name, " == heap-string Var(", vf::show(l), ") for ", ref::describe(m, 1));
				if (want && l.size() < 8)
					st.f.eq_cross = true, CLS("eq.cross_representation.short_heap_string");
				break;
			}
			default: {
				bool want = m.k == VVal::NUL;
				VF_CHECK((v == Var(Var::NUL)) == want && (Var(Var::NUL) == v) == want, tag, ": ", a.name, " == null for ", ref::describe(m, 1));
				break;
			}
			}
			continue;
		}
		else if (nm == "cidx") {
			Loc t = resolve(st, o, 0, (o.i(7) & 6) != 0 ? WANT_ARR : ANY);
			const Var& v = *t.v;
			if (t.m->k == VVal::ARR) {
				if (t.m->n->arr.empty())
					continue;
				int i = mod(o.i(5), (long long)t.m->n->arr.size());
				if (expanded(t.m->n->arr[i]) <= WALK_LIMIT)
					check_value(v[i], t.m->n->arr[i], tag + ": const [] of " + t.name);
			}
			else
				VF_CHECK(v[mod(o.i(5), 5)].type() == Var::NONE, tag, ": const [int] on a non-array is not NONE");
			continue;
		}
		else if (nm == "ckey") {
			Loc t = resolve(st, o, 0, (o.i(7) & 6) != 0 ? WANT_OBJ : ANY);
			const Var& v = *t.v;
			std::string key = key_of(o.i(5));
			if (t.m->k == VVal::OBJ && t.m->n->obj.count(key)) {
				if (expanded(t.m->n->obj[key]) <= WALK_LIMIT)
					check_value(v[String(key.c_str())], t.m->n->obj[key], tag + ": const [key] of " + t.name);
				check_value(v[key.c_str()], t.m->n->obj[key], tag + ": const [const char*] of " + t.name);
			}
			else {
				VF_CHECK(v[String(key.c_str())].type() == Var::NONE, tag, ": const [key] without such a property is not NONE");
				VF_CHECK(v.length() == (t.m->isCont() ? (int)t.m->n->size() : t.m->k == VVal::STR ? (int)t.m->s.size() : 0), tag, ": const [key] changed the length");
			}
			continue;
		}
		else
			continue;
		check_all(st, tag.c_str());
		if (st.ncl > 0 && nm != "clone" && nm != "tree")
			st.f.clone_mut = true;
	}
	check_all(st, "end of case");
	flags_out = st.f;
}

void vf_run_case(const std::string& part, const vf::Case& c)
{
	Flags f;
	cls_buf().clear();
	g_excluded = 0;
	size_t base = vf::allocated_bytes();
	run_body(part, c, f);
	size_t after = vf::allocated_bytes();
	if (after != base) {
		// one-time initialisations (iostream locale, function-local statics) allocate once and never again: a real leak is
		// deterministic and shows again when the same case is run a second time
		cls_buf().clear();
		g_excluded = 0;
		base = vf::allocated_bytes();
		run_body(part, c, f);
		after = vf::allocated_bytes();
	}
	VF_CHECK(after == base, "storage not released: ", (long long)after - (long long)base, " bytes still allocated after every Var of the case was destroyed");
	auto& st = vf::stats();
	for (const char* l : cls_buf())
		st.cls(l);
	cls_buf().clear();
	st.excluded_known += g_excluded;
	g_excluded = 0;
	if (f.src_inside || f.typechange_shared || f.eq_cross) {
		st.nt(vf::fnv(vf::serialize(c)));
		if (f.src_inside)
			st.cls("case.source_inside_target");
		if (f.typechange_shared)
			st.cls("case.typechange_on_shared");
		if (f.eq_cross)
			st.cls("case.equality_across_representations");
	}
	if (f.clone_mut)
		st.cls("case.clone_checked_after_mutations");
	if (f.shared_mut)
		st.cls("case.shared_container_mutated_in_place");
}

// ---------------------------------------------------------------------------------------------
// generators

namespace {
using namespace rc;

Gen<long long> valueGen()
{
	return gen::oneOf(gen::cast<long long>(vf::irange<int>(0, 15)), gen::cast<long long>(vf::irange<int>(-2000, 2000)),
	                  gen::cast<long long>(gen::arbitrary<int>()), gen::arbitrary<long long>());
}

Gen<std::string> strGen()
{
	// lengths on both sides of the 7/8-byte inline boundary; NUL-free bytes, mostly printable; some numeric texts
	auto text = gen::mapcat(vf::boundary_len({0, 7, 8, 16}, 40), [](int n) {
		return gen::map(gen::container<std::vector<int>>((size_t)n, gen::weightedOneOf<int>({{8, vf::irange<int>('a', 'z')}, {2, vf::irange<int>(32, 126)}, {1, vf::irange<int>(1, 255)}})),
		                [](const std::vector<int>& v) {
			                std::string s;
			                for (int x : v)
				                s += (char)x;
			                return s;
		                });
	});
	auto numeric = gen::elementOf(std::vector<std::string>{"12", "-3.5", "1e3", " 42abc", "0x10", "2147483647", "-2147483648", "99999999999", "0", "1234567", "12345678", "true", "3.0"});
	return gen::weightedOneOf<std::string>({{6, text}, {1, numeric}});
}

Gen<std::vector<long long>> pathGen()
{
	// slot, then 4 steps; a negative step ends the path
	auto step = gen::map(vf::irange<int>(0, 11), [](int x) { return (long long)(x < 4 ? -1 : x - 4); });
	auto first = gen::map(vf::irange<int>(0, 11), [](int x) { return (long long)(x < 2 ? -1 : x - 2); });
	return gen::map(gen::tuple(vf::irange<int>(0, 3), first, gen::container<std::vector<long long>>(3, step)), [](const std::tuple<int, long long, std::vector<long long>>& p) {
		std::vector<long long> r;
		r.push_back(std::get<0>(p));
		r.push_back(std::get<1>(p));
		for (auto s : std::get<2>(p))
			r.push_back(s);
		return r;
	});
}

vf::Op mkop(const char* name, std::initializer_list<std::vector<long long>> parts, std::vector<std::string> strs = {})
{
	vf::Op o(name);
	for (auto& p : parts)
		for (auto v : p)
			o.a.push_back(v);
	o.s = strs;
	return o;
}

Gen<vf::Op> treeGen()
{
	// the first value selects the root kind: a container most of the time
	auto values = gen::map(gen::pair(gen::weightedOneOf<long long>({{8, gen::cast<long long>(vf::irange<int>(10, 15))}, {2, gen::cast<long long>(vf::irange<int>(0, 9))}}),
	                                 gen::container<std::vector<long long>>(valueGen())),
	                       [](const std::pair<long long, std::vector<long long>>& p) {
		                       std::vector<long long> r;
		                       r.push_back(p.first);
		                       r.insert(r.end(), p.second.begin(), p.second.end());
		                       return r;
	                       });
	return gen::map(gen::tuple(vf::irange<int>(0, 3), values, gen::container<std::vector<std::string>>(strGen())),
	                [](const std::tuple<int, std::vector<long long>, std::vector<std::string>>& t) {
		                vf::Op o("tree");
		                o.a.push_back(std::get<0>(t));
		                for (auto v : std::get<1>(t))
			                o.a.push_back(v);
		                o.s = std::get<2>(t);
		                if (o.s.size() > 6)
			                o.s.resize(6);
		                return o;
	                });
}

Gen<vf::Op> opGen()
{
	auto P = pathGen();
	auto V = valueGen();
	auto small = gen::cast<long long>(vf::irange<int>(0, 63));
	auto one = [](long long v) { return std::vector<long long>{v}; };
	auto two = [=](const char* name, int w) {
		// two paths + mode flags (bit0: second path continues from the first = source inside target)
		return gen::map(gen::tuple(P, P, gen::weightedElement<long long>({{(size_t)w, 1}, {3, 0}}), small), [=](const std::tuple<std::vector<long long>, std::vector<long long>, long long, long long>& t) {
			return mkop(name, {std::get<0>(t), std::get<1>(t), one(std::get<2>(t)), one(std::get<3>(t))});
		});
	};
	auto pxy = [=](const char* name) {
		return gen::map(gen::tuple(P, V, V, small), [=](const std::tuple<std::vector<long long>, long long, long long, long long>& t) {
			return mkop(name, {std::get<0>(t), one(std::get<1>(t)), one(std::get<2>(t)), one(std::get<3>(t))});
		});
	};
	auto pxys = [=](const char* name) {
		return gen::map(gen::tuple(P, V, V, small, strGen()), [=](const std::tuple<std::vector<long long>, long long, long long, long long, std::string>& t) {
			return mkop(name, {std::get<0>(t), one(std::get<1>(t)), one(std::get<2>(t)), one(std::get<3>(t))}, {std::get<4>(t)});
		});
	};
	auto sp = [=](const char* name) {
		return gen::map(gen::tuple(vf::irange<int>(0, 3), P, small), [=](const std::tuple<int, std::vector<long long>, long long>& t) {
			return mkop(name, {one(std::get<0>(t)), std::get<1>(t), one(std::get<2>(t))});
		});
	};
	auto eq = gen::map(gen::tuple(P, P, vf::irange<int>(0, 7)), [=](const std::tuple<std::vector<long long>, std::vector<long long>, int>& t) {
		return mkop("eq", {std::get<0>(t), std::get<1>(t), one(std::get<2>(t))});
	});
	// two strings, mostly both shorter than 8 bytes and the second shorter than the first
	auto inlineStr = [](int lo, int hi) {
		return gen::mapcat(vf::irange<int>(lo, hi), [](int n) {
			return gen::map(gen::container<std::vector<int>>((size_t)n, gen::weightedOneOf<int>({{8, vf::irange<int>('a', 'z')}, {1, vf::irange<int>(1, 255)}})), [](const std::vector<int>& v) {
				std::string r;
				for (int c : v)
					r += (char)c;
				return r;
			});
		});
	};
	auto twoStr = gen::weightedOneOf<std::pair<std::string, std::string>>(
	    {{6, gen::mapcat(inlineStr(1, 7), [=](const std::string& a) {
		      return gen::map(inlineStr(0, (int)a.size() - 1), [=](const std::string& b) { return std::make_pair(a, b); });
	      })},
	     {1, gen::mapcat(inlineStr(1, 7), [=](const std::string& a) { // the second is a proper prefix of the first
		      return gen::map(vf::irange<int>(0, (int)a.size() - 1), [=](int n) { return std::make_pair(a, a.substr(0, (size_t)n)); });
	      })},
	     {2, gen::pair(strGen(), strGen())}});
	auto sstr = gen::map(gen::tuple(P, small, V, small, twoStr), [=](const std::tuple<std::vector<long long>, long long, long long, long long, std::pair<std::string, std::string>>& t) {
		return mkop("sstr", {std::get<0>(t), one(std::get<1>(t)), one(std::get<2>(t)), one(std::get<3>(t))}, {std::get<4>(t).first, std::get<4>(t).second});
	});
	auto bigshare = gen::map(gen::container<std::vector<long long>>(9, gen::cast<long long>(vf::irange<int>(0, 999))), [=](const std::vector<long long>& v) { return mkop("bigshare", {v}); });
	return gen::weightedOneOf<vf::Op>({
	    {8, pxys("set")},
	    {10, two("asg", 5)},
	    {6, sp("cpy")},
	    {4, pxy("idx")},
	    {4, pxy("key")},
	    {4, pxys("app")},
	    {6, two("appv", 2)},
	    {3, pxy("rmat")},
	    {3, pxy("rmkey")},
	    {4, two("ext", 2)},
	    {1, pxy("clr")},
	    {2, pxy("rsz")},
	    {4, sp("clone")},
	    {1, gen::map(vf::irange<int>(0, 3), [=](int s) { return mkop("drop", {one(s)}); })},
	    {3, pxy("obs")},
	    {6, eq},
	    {5, pxys("eqlit")},
	    {6, pxy("eqrep")},
	    {1, pxy("cidx")},
	    {1, pxy("ckey")},
	    {3, treeGen()},
	    {5, sstr},
	    {1, pxy("big")},
	    {1, pxy("rmmany")},
	    {1, bigshare},
	    {2, gen::map(gen::container<std::vector<long long>>(4, gen::cast<long long>(vf::irange<int>(0, 9999))), [=](const std::vector<long long>& v) { return mkop("selfapp", {v}); })},
	});
}

Gen<vf::Case> caseGen(int maxops)
{
	// four generated trees (one per slot; shrinking may remove them), then the op history
	return gen::map(gen::pair(gen::container<std::vector<vf::Op>>(4, gen::scale(0.7, treeGen())), gen::container<std::vector<vf::Op>>(opGen())),
	                [=](const std::pair<std::vector<vf::Op>, std::vector<vf::Op>>& p) {
		                vf::Case c;
		                for (size_t i = 0; i < p.first.size() && i < 4; i++) {
			                c.ops.push_back(p.first[i]);
			                c.ops.back().a[0] = (long long)i;
		                }
		                for (size_t i = 0; i < p.second.size() && (int)i < maxops; i++)
			                c.ops.push_back(p.second[i]);
		                return c;
	                });
}
} // namespace

void vf_search(const vf::Args& a)
{
	[&]() {
		int maxops = a.quick() ? 60 : 150;
		long n = a.n(3000, 10000);
		int shown = 0;
		vf::check_cases("hist", n, a.quick() ? 60 : 150, caseGen(maxops), [&](const vf::Case& c) {
			vf::stats().cls(c.ops.size() < 10 ? "len.<10" : c.ops.size() < 40 ? "len.10-39" : "len.>=40");
			if (c.ops.size() >= 6 && c.ops.size() <= 9 && shown < 3) {
				shown++;
				vf::stats().sample("hist: " + vf::serialize(c));
			}
		});
	}();
}
