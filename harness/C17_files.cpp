// C17 -- File and TextFile return exactly the bytes, text and lines that were written; Directory::copy / move keep bytes.
//
// Ground truth is always the file read with plain POSIX open/read (ref::slurp) compared with a std::string model of
// what the history wrote; every API result is then compared with the model through fresh objects (a File opened for
// writing is not a documented reader).
//
// part "hist" / "copy": write/append/reopen history on one path, one op per write phase (each ends closed):
//   put n seed kind                  File(P).put(ByteArray)                                     -> model = content
//   fw mode n seed kind chunk pos cl File f(P, mode 0 WRITE / 1 APPEND / 2 RW+seek(pos)); f.write in chunks; cl: close() or destructor
//   fs mode seed k                   File f(P, mode); f << String << const char* << ByteArray << int << double << byte ... (k items)
//   tw how n seed kind               TextFile(P).write / put / append / << String / << const char* / printf (one-shot objects)
//   tm mode seed k                   TextFile t(P, mode) then k of write/append/<</printf on the open object
//   cp how                           Directory::copy / File::copy (bit0) to a file name or into a directory (bit1)
//   mv how                           Directory::move / File::move there and back; bit2 is honoured only when $VF_XDEV_DIR names a
//                                    directory on another file system (opt-in, never set by the driver): the target is a file there
//   content(n, seed, kind): kind 0 any bytes, 1 text with LF/CRLF/CR lines around the 255-byte chunk, 2 one long line,
//   3 NUL-free bytes (first byte ASCII); n is used as given (generators aim it at 255 / 65536 multiples)
//   as how mode n seed kind same     File (how 0) / TextFile (how 1) object opened WRITE / APPEND, n bytes written and NOT closed, then the object is
//                                    assigned File(the same path) (same&1) or File(another existing path): the handle is closed by the assignment;
//                                    size(), content(), text() through the object and the fresh-object checks must see the target file
//   sl how n seed kind               through a symbolic link c17_link.dat -> c17_main.dat (made by the harness with symlink(2)): how 0 verify the
//                                    file through the link, 1 File(link).put, 2 TextFile(link).write, 3 TextFile(link).append, 4 File(link, APPEND)
//                                    write; afterwards the file is verified through the real path AND through the link
//   ms how                           move onto itself under another spelling (0 Directory::move(P, dir+"/"), 1 dir+"/./name", 2 dir+"/sub/../name",
//                                    3 File::move(dir+"//name"), 4 File::move(dir+"/"), 5 relative source / absolute destination): returns true and
//                                    the file is untouched; 6 move onto an existing different file, 7 into a directory holding another file of that name
//   fo how n seed kind               a FAILED open followed by work through the same object (the path is removed first): 0 File f; f.open(P, READ) fails,
//                                    f.put(data) writes P; 1 TextFile t(P, READ) fails, t.append writes P; 2 File f(other); f.open(P, RW) fails, f.open(WRITE)
//                                    + write goes to P and leaves the other file alone; 3 File f(P); f.open(path in a missing directory, WRITE) fails, f.put
//                                    fails too and P stays as it was; 4 TextFile t; t.open(P, READ) fails, t << String writes P; 5 File f; f.open(P, RW) fails,
//                                    f.open(WRITE), f << String
//   fc how mode n1 s1 kind fl n2 s2 after   File (how 0) / TextFile (how 1) open for WRITE / APPEND, n1 bytes written, [flush()], f.copy(other), n2 more bytes
//                                    through the same object (after: put/append, write/<<, << ByteArray / put), close: the original holds everything,
//                                    the copy holds the first part (exactly when flushed before, else a prefix of it)
//   fb how n seed kind               an object with cached file information (how 0 size(), 1 exists(), 2 a copy of a File that answered size()) while the
//                                    file GROWS by n bytes through another object (append); then firstBytes(m) through the first object for m below,
//                                    at and above the new size returns min(m, actual size) bytes of the actual content; then size() after close()
//   cs how                           copy onto itself under another spelling: 0 Directory::copy(P, dir+"/"), 1 copy(P, dir) (dir + name is P), 2 dir+"/./name",
//                                    3 dir+"/c17_sub/../name", 4 File(P).copy(dir), 5 File(P).copy(dir+"//name"), 6 relative source / absolute destination,
//                                    7 copy(P, link to P), 8 copy(link to P, P): whatever the call returns, the file keeps its bytes; 9 copy onto an
//                                    existing different file (ordinary overwrite: returns true, destination == source)
//   cp / mv bit3                     the destination directory (bit1) is given as a symbolic link to it
//   so how mode n1 seed1 kind q fl n2 seed2   one File (how 0) / TextFile (how 1) object for writing AND reading: open(mode), write n1 bytes,
//                                    [flush()], info query q on the OPEN object (0 none, 1 size, 2 lastModified, 3 isFile, 4 isDirectory,
//                                    5 creationDate, 6 exists), write n2 more bytes, close(); then size(), content(), firstBytes(),
//                                    text(), lines() through the SAME object (close() between reads) must equal the model
// part "lines": ln len end fill seed (end 0 LF, 1 CRLF, 2 lone CR, 3 nothing)...; wr how (0 TextFile::write, 1 put, 2 POSIX)
// part "bom":   bom enc how | utf8   enc 0 UTF-8+BOM, 1 UTF-16LE+BOM, 2 UTF-16BE+BOM, 3 UTF-8 without BOM
//               bomr enc how f1 n1 s1 f2 n2 s2 ..   long texts by runs: n_i filler characters of kind f_i (0 ASCII, 1 three-byte BMP,
//                                    2 two-byte, 3 LF + ASCII) followed by the scalar value s_i (mapped onto a non-zero scalar); used to
//                                    place supplementary-plane characters (surrogate pairs) and CR LF around every multiple of 2048 code units
#include "common/vfrc.h"
#include "common/ref_io.h"
#include "common/ref_utf.h"
#include <algorithm>
#include <asl/File.h>
#include <asl/TextFile.h>
#include <asl/Directory.h>

using namespace asl;

const char* vf_harness_name() { return "C17_files"; }

static std::string S(const String& s) { return std::string(*s, (size_t)s.length()); }
static std::string S(const ByteArray& b) { return std::string((const char*)b.data(), (size_t)b.length()); }
static ByteArray BA(const std::string& s)
{
	ByteArray a((int)s.size());
	if (!s.empty())
		memcpy(a.data(), s.data(), s.size());
	return a;
}
static String AS(const std::string& s) { return String(s.c_str()); }

// ---------------------------------------------------------------------------------------------
// reference

// split at LF, drop one CR before each LF ("a\n" -> ["a",""], "" -> [""])
static std::vector<std::string> ref_lines(const std::string& t)
{
	std::vector<std::string> r;
	size_t p = 0;
	for (;;) {
		size_t q = t.find('\n', p);
		if (q == std::string::npos) {
			r.push_back(t.substr(p));
			break;
		}
		size_t e = q;
		if (e > p && t[e - 1] == '\r')
			e--;
		r.push_back(t.substr(p, e - p));
		p = q + 1;
	}
	return r;
}

static bool bom_like(const std::string& m)
{
	if (m.size() >= 2 && (unsigned char)m[0] == 0xff && (unsigned char)m[1] == 0xfe)
		return true;
	if (m.size() >= 2 && (unsigned char)m[0] == 0xfe && (unsigned char)m[1] == 0xff)
		return true;
	return m.size() >= 3 && (unsigned char)m[0] == 0xef && (unsigned char)m[1] == 0xbb && (unsigned char)m[2] == 0xbf;
}

static const int MAXLEN = 17 * 1024 * 1024;

static std::string content(long long n_, uint64_t seed, int kind)
{
	size_t n = (size_t)(n_ < 0 ? 0 : n_ > MAXLEN ? MAXLEN : n_);
	ref::Mix g(seed * 2654435761ULL + (uint64_t)kind);
	std::string s(n, '\0');
	kind = ((kind % 4) + 4) % 4;
	if (kind == 0) {
		size_t i = 0;
		while (i < n) {
			uint64_t v = g.next();
			for (int k = 0; k < 8 && i < n; k++, i++)
				s[i] = (char)(v >> (8 * k));
		}
	}
	else if (kind == 1) {
		size_t i = 0;
		int style = (int)g.below(4);
		while (i < n) {
			static const int lens[] = {0, 1, 253, 254, 255, 256, 507, 508, 509, 510, 511, 512, 40, 80};
			size_t len = style == 0 ? g.below(90) : style == 1 ? (size_t)lens[g.below(14)] : style == 2 ? g.below(2001) : (size_t)(250 + g.below(10));
			for (size_t k = 0; k < len && i < n; k++, i++)
				s[i] = (char)(32 + g.below(95));
			int e = (int)g.below(8);
			if (e < 4) {
				if (i < n)
					s[i++] = '\n';
			}
			else if (e < 7) {
				if (i < n)
					s[i++] = '\r';
				if (i < n)
					s[i++] = '\n';
			}
			else if (i < n)
				s[i++] = '\r';
		}
	}
	else if (kind == 2) {
		for (size_t i = 0; i < n; i++)
			s[i] = (char)('a' + (i + seed) % 26);
	}
	else {
		size_t i = 0;
		while (i < n) {
			uint64_t v = g.next();
			for (int k = 0; k < 8 && i < n; k++, i++) {
				unsigned char c = (unsigned char)(v >> (8 * k));
				s[i] = (char)(c ? c : 1 + k);
			}
		}
		if (n)
			s[0] = (char)(1 + ((unsigned char)s[0] % 126));
	}
	return s;
}

// ---------------------------------------------------------------------------------------------
// verification of one file against the model, through fresh objects

static std::string diffmsg(const std::string& got, const std::string& want)
{
	size_t i = 0;
	while (i < got.size() && i < want.size() && got[i] == want[i])
		i++;
	size_t b = i > 8 ? i - 8 : 0;
	return vf::str("length ", got.size(), " want ", want.size(), "; first difference at offset ", i, ": got ...", vf::show(got.substr(b, 24)), " want ...", vf::show(want.substr(b, 24)));
}

static void check_lines(const std::string& path, const std::string& model, const char* ctx)
{
	std::vector<std::string> want = ref_lines(model);
	{
		Array<String> got = TextFile(AS(path)).lines();
		VF_CHECK((size_t)got.length() == want.size(), ctx, ": lines() returned ", got.length(), " lines, want ", want.size(), " for a text of ", model.size(), " bytes");
		for (size_t i = 0; i < want.size(); i++)
			VF_CHECK(S(got[(int)i]) == want[i], ctx, ": lines()[", i, "] of ", want.size(), ": ", diffmsg(S(got[(int)i]), want[i]));
	}
	{
		// the documented loop: while(!end()) readLine()
		TextFile f(AS(path), File::READ);
		VF_CHECK(!!f, "harness: cannot open ", path);
		size_t i = 0;
		while (!f.end()) {
			String l = f.readLine();
			VF_CHECK(i < want.size(), ctx, ": readLine() loop produced more than the ", want.size(), " lines of the text; extra line ", vf::show(S(l)));
			VF_CHECK(S(l) == want[i], ctx, ": readLine() #", i, " of ", want.size(), ": ", diffmsg(S(l), want[i]));
			VF_CHECK((int)strlen(*l) == l.length(), ctx, ": readLine() #", i, " length()/terminator disagree");
			i++;
		}
		VF_CHECK(i == want.size(), ctx, ": readLine() loop produced ", i, " lines, want ", want.size());
	}
	{
		// readLine(String&) into one reused string; returns true exactly for lines that ended in LF
		TextFile f(AS(path), File::READ);
		String l = "previous content that must be replaced";
		for (size_t i = 0; i < want.size(); i++) {
			bool more = f.readLine(l);
			VF_CHECK(S(l) == want[i], ctx, ": readLine(String&) #", i, " of ", want.size(), ": ", diffmsg(S(l), want[i]));
			if (i + 1 < want.size())
				VF_CHECK(more, ctx, ": readLine(String&) #", i, " returned false before the last line");
		}
	}
	// (this overload reads byte by byte: bounded to keep the budget)
	if (model.size() > 40000 || (model.size() > 5000 && model.size() % 4 != 0))
		return;
	{
		// readLine(char newline) with '\n': the same sequence; this overload leaves a CR before the LF in place, the property's
		// sequence has it removed, so one CR before an LF is accepted either way
		TextFile f(AS(path), File::READ);
		size_t i = 0;
		while (!f.end()) {
			String l = f.readLine('\n');
			VF_CHECK(i < want.size(), ctx, ": readLine('\\n') loop produced more than the ", want.size(), " lines of the text; extra line ", vf::show(S(l)));
			std::string got = S(l);
			if (i + 1 < want.size() && got.size() == want[i].size() + 1 && got.back() == '\r')
				got.pop_back();
			VF_CHECK(got == want[i], ctx, ": readLine('\\n') #", i, " of ", want.size(), ": ", diffmsg(S(l), want[i]));
			VF_CHECK((int)strlen(*l) == l.length(), ctx, ": readLine('\\n') #", i, " length()/terminator disagree");
			i++;
		}
		VF_CHECK(i == want.size(), ctx, ": readLine('\\n') loop produced ", i, " lines, want ", want.size());
	}
	if (model.size() <= 2500) {
		// another delimiter: the pieces between its occurrences
		char d = (model.size() % 2) ? '\r' : 'a';
		std::vector<std::string> pieces;
		size_t p0 = 0;
		for (;;) {
			size_t q = model.find(d, p0);
			pieces.push_back(model.substr(p0, q == std::string::npos ? std::string::npos : q - p0));
			if (q == std::string::npos)
				break;
			p0 = q + 1;
		}
		TextFile f(AS(path), File::READ);
		size_t i = 0;
		while (!f.end()) {
			String l = f.readLine(d);
			VF_CHECK(i < pieces.size(), ctx, ": readLine(", (int)d, ") loop produced more than the ", pieces.size(), " pieces of the text");
			VF_CHECK(S(l) == pieces[i], ctx, ": readLine(char ", (int)d, ") #", i, " of ", pieces.size(), ": ", diffmsg(S(l), pieces[i]));
			i++;
		}
		VF_CHECK(i == pieces.size(), ctx, ": readLine(char ", (int)d, ") loop produced ", i, " pieces, want ", pieces.size());
	}
}

static void verify(const std::string& path, const std::string& model, const char* ctx, bool textchecks = true)
{
	std::string truth;
	VF_CHECK(ref::slurp(path, truth), ctx, ": the file does not exist / cannot be read");
	VF_CHECK(truth == model, ctx, ": bytes in the file (POSIX read) differ from what was written: ", diffmsg(truth, model));
	long long sz = (long long)model.size();
	{
		File f(AS(path));
		VF_CHECK(f.size() == sz, ctx, ": size() = ", (long long)f.size(), " want ", sz);
	}
	{
		ByteArray c = File(AS(path)).content();
		VF_CHECK(S(c) == model, ctx, ": content(): ", diffmsg(S(c), model));
	}
	for (long long n : {0LL, 1LL, sz / 2, sz - 1, sz, sz + 1, sz + 1000}) {
		if (n < 0 || (sz > 300000 && n != sz))
			continue;
		ByteArray c = File(AS(path)).firstBytes((int)n);
		std::string want = model.substr(0, (size_t)std::min(n, sz));
		VF_CHECK(S(c) == want, ctx, ": firstBytes(", n, ") on a file of ", sz, " bytes: ", diffmsg(S(c), want));
	}
	{
		File f(AS(path), File::READ);
		VF_CHECK(!!f, "harness: cannot open ", path);
		std::string got;
		size_t chunk = sz > 100000 ? 65536 : sz > 1000 ? 4096 : 100;
		std::string buf(chunk, '\0');
		for (;;) {
			int n = f.read(&buf[0], (int)chunk);
			VF_CHECK(n >= 0 && n <= (int)chunk, ctx, ": read() returned ", n);
			got.append(buf.data(), (size_t)n);
			if (n < (int)chunk)
				break;
		}
		VF_CHECK(got == model, ctx, ": read() in chunks of ", chunk, ": ", diffmsg(got, model));
		VF_CHECK(f.position() == sz, ctx, ": position() after reading everything = ", (long long)f.position(), " want ", sz);
		VF_CHECK(f.end(), ctx, ": end() false after a short read");
	}
	if (textchecks && model.find('\0') == std::string::npos && !bom_like(model)) {
		String t = TextFile(AS(path)).text();
		VF_CHECK(S(t) == model, ctx, ": text(): ", diffmsg(S(t), model));
		VF_CHECK((int)strlen(*t) == t.length(), ctx, ": text() length()/terminator disagree");
		if (sz <= 400000)
			check_lines(path, model, ctx);
	}
}

// ---------------------------------------------------------------------------------------------
// history interpreter

static std::string P() { return ref::tmpdir() + "/c17_main.dat"; }

static void cleanup()
{
	std::string d = ref::tmpdir();
	unlink((d + "/c17_main.dat").c_str());
	unlink((d + "/c17_other.dat").c_str());
	unlink((d + "/c17_sub/c17_main.dat").c_str());
	unlink((d + "/c17_sub/c17_other.dat").c_str());
	rmdir((d + "/c17_sub").c_str());
	unlink((d + "/c17_link.dat").c_str());
	unlink((d + "/c17_sublink").c_str());
	if (const char* xdev = getenv("VF_XDEV_DIR"))
		if (*xdev)
			unlink((std::string(xdev) + "/vf_c17_" + std::to_string((long)getpid()) + ".dat").c_str());
}

struct Hist {
	bool exists = false;
	std::string model;
};

static void overlay(std::string& m, size_t pos, const std::string& data)
{
	if (m.size() < pos + data.size())
		m.resize(pos + data.size(), '\0');
	memcpy(&m[pos], data.data(), data.size());
}

static std::string text_content(long long n, uint64_t seed, int kind)
{
	kind = ((kind % 4) + 4) % 4;
	return content(n, seed, kind == 0 ? 1 : kind);
}

static void run_history(const vf::Case& c)
{
	cleanup();
	Hist h;
	String path = AS(P());
	int opno = 0;
	for (const vf::Op& o : c.ops) {
		std::string ctx = "op#" + std::to_string(opno++) + " " + o.name;
		bool wrote = false;
		if (o.name == "put") {
			std::string data = content(o.i(0), (uint64_t)o.i(1), (int)o.i(2));
			bool ok = File(path).put(BA(data));
			VF_CHECK(ok, ctx, ": File::put returned false");
			h.model = data;
			h.exists = wrote = true;
			ctx += " File::put of " + std::to_string(data.size()) + " bytes";
		}
		else if (o.name == "fw") {
			int mode = (int)(((o.i(0) % 3) + 3) % 3);
			if (mode == 2 && !h.exists)
				continue; // RW needs an existing file
			std::string data = content(o.i(1), (uint64_t)o.i(2), (int)o.i(3));
			size_t chunk = (size_t)(o.i(4) < 1 ? 1 : o.i(4));
			if (data.size() / chunk > 4000)
				chunk = data.size() / 4000 + 1;
			size_t pos = 0;
			{
				File f(path, mode == 0 ? File::WRITE : mode == 1 ? File::APPEND : File::RW);
				VF_CHECK(!!f, ctx, ": cannot open in mode ", mode);
				if (mode == 2) {
					pos = (size_t)((o.i(5) < 0 ? -o.i(5) : o.i(5)) % (long long)(h.model.size() + 1));
					f.seek((Long)pos);
				}
				for (size_t off = 0; off < data.size(); off += chunk) {
					size_t n = std::min(chunk, data.size() - off);
					int w = f.write(data.data() + off, (int)n);
					VF_CHECK(w == (int)n, ctx, ": write(p, ", n, ") returned ", w);
				}
				if (o.i(6) & 1)
					f.close();
			}
			if (mode == 0)
				h.model = data;
			else if (mode == 1)
				h.model += data;
			else
				overlay(h.model, pos, data);
			h.exists = wrote = true;
			ctx += vf::str(" mode ", mode == 0 ? "WRITE" : mode == 1 ? "APPEND" : "RW", " ", data.size(), " bytes in chunks of ", chunk, mode == 2 ? " at " : "", mode == 2 ? std::to_string(pos) : "");
		}
		else if (o.name == "fs") {
			int mode = (int)(((o.i(0) % 2) + 2) % 2);
			ref::Mix g((uint64_t)o.i(1));
			int k = (int)(o.i(2) < 0 ? 0 : o.i(2) > 40 ? 40 : o.i(2));
			std::string out;
			{
				File f(path, mode == 0 ? File::WRITE : File::APPEND);
				VF_CHECK(!!f, ctx, ": cannot open");
				for (int i = 0; i < k; i++) {
					int what = (int)g.below(7);
					static const int lens[] = {0, 1, 14, 15, 16, 17, 254, 255, 256, 1000, 5000};
					size_t len = (size_t)lens[g.below(11)];
					if (what == 0) {
						std::string s = content((long long)len, g.next(), 1 + (int)g.below(3));
						f << AS(s);
						out += s;
					}
					else if (what == 1) {
						std::string s = content((long long)len, g.next(), 1 + (int)g.below(3));
						f << s.c_str();
						out += s;
					}
					else if (what == 2) {
						std::string s = content((long long)len, g.next(), 0);
						f << BA(s);
						out += s;
					}
					else if (what == 3) {
						int x = (int)g.next();
						f << x;
						out.append((const char*)&x, sizeof x); // File's default order is the host's
					}
					else if (what == 4) {
						double x = (double)(long long)g.next() / 1024.0;
						f << x;
						out.append((const char*)&x, sizeof x);
					}
					else if (what == 5) {
						byte x = (byte)g.next();
						f << x;
						out += (char)x;
					}
					else {
						char x = (char)g.next();
						f << x;
						out += x;
					}
				}
			}
			if (mode == 0)
				h.model = out;
			else
				h.model += out;
			h.exists = wrote = true;
			ctx += vf::str(" File << ... (", k, " items, ", out.size(), " bytes) mode ", mode == 0 ? "WRITE" : "APPEND");
		}
		else if (o.name == "tw") {
			int how = (int)(((o.i(0) % 7) + 7) % 7);
			std::string s = text_content(o.i(1), (uint64_t)o.i(2), (int)o.i(3));
			static const char* names[] = {"TextFile::write", "TextFile::put", "TextFile::append", "TextFile << String", "TextFile << const char*", "TextFile::printf(\"%s\")", "TextFile << int << char"};
			bool ok = true;
			std::string written = s;
			if (how == 0)
				ok = TextFile(path).write(AS(s));
			else if (how == 1)
				ok = TextFile(path).put(AS(s));
			else if (how == 2)
				ok = TextFile(path).append(AS(s));
			else if (how == 3)
				TextFile(path) << AS(s);
			else if (how == 4)
				TextFile(path) << s.c_str();
			else if (how == 5)
				ok = TextFile(path).printf("%s", s.c_str());
			else {
				int x = (int)o.i(2);
				char ch = (char)('A' + (o.i(1) < 0 ? -o.i(1) : o.i(1)) % 26);
				TextFile t(path);
				t << x << ch << AS(s);
				written = std::to_string(x) + ch + s;
			}
			VF_CHECK(ok, ctx, ": ", names[how], " returned false");
			if (how == 2 && h.exists)
				h.model += written;
			else
				h.model = written;
			h.exists = wrote = true;
			ctx += vf::str(" ", names[how], " of ", written.size(), " bytes");
		}
		else if (o.name == "tm") {
			int mode = (int)(((o.i(0) % 3) + 3) % 3);
			if (mode == 2 && !h.exists)
				continue;
			ref::Mix g((uint64_t)o.i(1));
			int k = (int)(o.i(2) < 0 ? 0 : o.i(2) > 30 ? 30 : o.i(2));
			std::string out;
			{
				TextFile t(path, mode == 0 ? File::WRITE : mode == 1 ? File::APPEND : File::RW);
				VF_CHECK(!!t, ctx, ": cannot open");
				for (int i = 0; i < k; i++) {
					int what = (int)g.below(6);
					static const int lens[] = {0, 1, 14, 15, 16, 100, 253, 254, 255, 256, 257, 2000};
					std::string s = content(lens[g.below(12)], g.next(), 1 + (int)g.below(3));
					bool ok = true;
					if (what == 0)
						ok = t.write(AS(s));
					else if (what == 1)
						ok = t.append(AS(s));
					else if (what == 2)
						t << AS(s);
					else if (what == 3)
						t << s.c_str();
					else if (what == 4) {
						int x = (int)g.next();
						ok = t.printf("%i:%s\n", x, s.c_str());
						s = std::to_string(x) + ":" + s + "\n";
					}
					else
						ok = t.put(AS(s));
					VF_CHECK(ok, ctx, ": write #", i, " on the open TextFile returned false");
					out += s;
				}
			}
			if (mode == 0)
				h.model = out;
			else if (mode == 1)
				h.model += out;
			else
				overlay(h.model, 0, out);
			h.exists = wrote = true;
			ctx += vf::str(" open TextFile mode ", mode == 0 ? "WRITE" : mode == 1 ? "APPEND" : "RW", ", ", k, " writes, ", out.size(), " bytes");
		}
		else if (o.name == "as") {
			// an object that has the path open for writing is assigned another File: that closes (and flushes) it; then the
			// object is read (size first: bounded, no loop that depends on reaching the end of a stream)
			int how = (int)(o.i(0) & 1), mode = (int)(o.i(1) & 1);
			bool same = (o.i(5) & 1) != 0;
			std::string data = how ? text_content(o.i(2), (uint64_t)o.i(3), (int)o.i(4)) : content(o.i(2), (uint64_t)o.i(3), (int)o.i(4));
			std::string expect = mode == 0 ? data : h.model + data;
			std::string opath = ref::tmpdir() + "/c17_other.dat", ocontent = content(37 + (o.i(2) < 0 ? 0 : o.i(2)) % 500, (uint64_t)o.i(3) + 5, 1);
			if (!same)
				VF_CHECK(ref::spit(opath, ocontent), "harness: cannot write ", opath);
			const std::string& target = same ? expect : ocontent;
			ctx += vf::str(how ? " TextFile" : " File", " open for ", mode == 0 ? "WRITE" : "APPEND", ", ", data.size(), " bytes written, then assigned ", how ? "TextFile(" : "File(", same ? "the same path" : "another path",
			               "), then read through that object");
			auto readback = [&](File& f, TextFile* t) {
				long long sz = (long long)target.size();
				VF_CHECK(f.size() == sz, ctx, ": size() = ", (long long)f.size(), " want ", sz);
				ByteArray c1 = f.content();
				VF_CHECK(S(c1) == target, ctx, ": content(): ", diffmsg(S(c1), target));
				f.close();
				if (t && target.find('\0') == std::string::npos && !bom_like(target)) {
					String tx = t->text();
					VF_CHECK(S(tx) == target, ctx, ": text(): ", diffmsg(S(tx), target));
					t->close();
				}
			};
			File::OpenMode om = mode == 0 ? File::WRITE : File::APPEND;
			if (how) {
				TextFile t(path, om);
				VF_CHECK(!!t, ctx, ": cannot open");
				VF_CHECK(t.append(AS(data)), ctx, ": append returned false");
				t = TextFile(AS(same ? P() : opath));
				readback(t, &t);
			}
			else {
				File f(path, om);
				VF_CHECK(!!f, ctx, ": cannot open");
				VF_CHECK(f.write(data.data(), (int)data.size()) == (int)data.size(), ctx, ": write returned a short count");
				f = File(AS(same ? P() : opath));
				readback(f, 0);
			}
			unlink(opath.c_str());
			h.model = expect;
			h.exists = wrote = true;
		}
		else if (o.name == "sl") {
			int how = (int)(((o.i(0) % 5) + 5) % 5);
			if (how == 0 && !h.exists)
				continue;
			std::string link = ref::tmpdir() + "/c17_link.dat";
			if (symlink("c17_main.dat", link.c_str()) != 0)
				VF_CHECK(errno == EEXIST, "harness: symlink failed, errno ", errno);
			String lp = AS(link);
			std::string data = (how == 2 || how == 3) ? text_content(o.i(1), (uint64_t)o.i(2), (int)o.i(3)) : content(o.i(1), (uint64_t)o.i(2), (int)o.i(3));
			static const char* names[] = {"read only", "File(link).put", "TextFile(link).write", "TextFile(link).append", "File(link, APPEND) write"};
			if (how == 1) {
				VF_CHECK(File(lp).put(BA(data)), ctx, ": File(link).put returned false");
				h.model = data;
			}
			else if (how == 2) {
				VF_CHECK(TextFile(lp).write(AS(data)), ctx, ": TextFile(link).write returned false");
				h.model = data;
			}
			else if (how == 3) {
				VF_CHECK(TextFile(lp).append(AS(data)), ctx, ": TextFile(link).append returned false");
				h.model = h.exists ? h.model + data : data;
			}
			else if (how == 4) {
				File f(lp, File::APPEND);
				VF_CHECK(!!f, ctx, ": cannot open the link for APPEND");
				VF_CHECK(f.write(data.data(), (int)data.size()) == (int)data.size(), ctx, ": write returned a short count");
				f.close();
				h.model = h.exists ? h.model + data : data;
			}
			h.exists = true;
			ctx += vf::str(" through a symbolic link to the file (", names[how], how ? vf::str(", ", data.size(), " bytes") : std::string(), ")");
			std::string c1 = ctx + ", read through the real path", c2 = ctx + ", read through the link";
			verify(P(), h.model, c1.c_str());
			verify(link, h.model, c2.c_str());
			{
				File lf(lp);
				VF_CHECK(lf.isFile() && !lf.isDirectory() && lf.exists(), ctx, ": isFile()/isDirectory()/exists() through the link");
			}
			continue;
		}
		else if (o.name == "fo") {
			int how = (int)(((o.i(0) % 6) + 6) % 6);
			std::string d = ref::tmpdir(), opath = d + "/c17_other.dat";
			unlink(P().c_str());
			unlink((d + "/c17_link.dat").c_str());
			h.exists = false;
			h.model.clear();
			bool textual = how == 1 || how == 4 || how == 5;
			std::string data = textual ? text_content(o.i(1), (uint64_t)o.i(2), (int)o.i(3)) : content(o.i(1), (uint64_t)o.i(2), (int)o.i(3));
			static const char* names[] = {"File f; f.open(P, READ) fails; f.put(data)", "TextFile t(P, READ) fails; t.append(text)", "File f(other); f.open(P, RW) fails; f.open(WRITE); f.write(data)",
			                              "File f(P); f.open(path in a missing directory, WRITE) fails; f.put(data)", "TextFile t; t.open(P, READ) fails; t << String", "File f; f.open(P, RW) fails; f.open(WRITE); f << String"};
			ctx += vf::str(" ", names[how], " (", data.size(), " bytes)");
			if (how == 0) {
				File f;
				VF_CHECK(!f.open(path, File::READ), ctx, ": open(READ) of a missing file returned true");
				VF_CHECK(f.put(BA(data)), ctx, ": put returned false");
				h.model = data;
			}
			else if (how == 1) {
				TextFile t(path, File::READ);
				VF_CHECK(!t, ctx, ": TextFile(P, READ) of a missing file is open");
				VF_CHECK(t.append(AS(data)), ctx, ": append returned false");
				h.model = data;
			}
			else if (how == 2) {
				std::string ocontent = content(53, (uint64_t)o.i(2) + 1, 2);
				VF_CHECK(ref::spit(opath, ocontent), "harness: cannot write ", opath);
				{
					File f(AS(opath));
					VF_CHECK(!f.open(path, File::RW), ctx, ": open(RW) of a missing file returned true");
					VF_CHECK(f.open(File::WRITE), ctx, ": open(WRITE) after the failed open(P, RW) returned false");
					VF_CHECK(f.write(data.data(), (int)data.size()) == (int)data.size(), ctx, ": write returned a short count");
					f.close();
				}
				std::string c2 = ctx + ": the other file the object referred to before";
				verify(opath, ocontent, c2.c_str(), false);
				unlink(opath.c_str());
				h.model = data;
			}
			else if (how == 3) {
				std::string before = content(100, (uint64_t)o.i(2) + 2, 2);
				VF_CHECK(ref::spit(P(), before), "harness: cannot write ", P());
				File f(path);
				VF_CHECK(!f.open(AS(d + "/c17_nodir/x.dat"), File::WRITE), ctx, ": open(WRITE) in a missing directory returned true");
				VF_CHECK(!f.put(BA(data)), ctx, ": put returned true although the object's path lies in a missing directory");
				VF_CHECK(!ref::exists(d + "/c17_nodir"), ctx, ": the missing directory appeared");
				h.model = before;
			}
			else if (how == 4) {
				TextFile t;
				VF_CHECK(!t.open(path, File::READ), ctx, ": open(READ) of a missing file returned true");
				t << AS(data);
				t.close();
				h.model = data;
			}
			else {
				File f;
				VF_CHECK(!f.open(path, File::RW), ctx, ": open(RW) of a missing file returned true");
				VF_CHECK(f.open(File::WRITE), ctx, ": open(WRITE) after the failed open(P, RW) returned false");
				f << AS(data);
				f.close();
				h.model = data;
			}
			h.exists = wrote = true;
		}
		else if (o.name == "fc") {
			int how = (int)(o.i(0) & 1), mode = (int)(o.i(1) & 1), after = (int)(((o.i(8) % 3) + 3) % 3);
			bool fl = (o.i(5) & 1) != 0;
			std::string d1 = how ? text_content(o.i(2), (uint64_t)o.i(3), (int)o.i(4)) : content(o.i(2), (uint64_t)o.i(3), (int)o.i(4));
			std::string d2 = how ? text_content(o.i(6), (uint64_t)o.i(7), (int)o.i(4)) : content(o.i(6), (uint64_t)o.i(7), (int)o.i(4));
			std::string sofar = (mode == 1 && h.exists ? h.model : std::string()) + d1, opath = ref::tmpdir() + "/c17_other.dat";
			unlink(opath.c_str());
			ctx += vf::str(how ? " TextFile" : " File", " open for ", mode ? "APPEND" : "WRITE", ", ", d1.size(), " bytes written, ", fl ? "flush(), " : "", "copy(other), ", d2.size(), " more bytes through the same object (",
			               after == 0 ? (how ? "append" : "put") : after == 1 ? (how ? "<< String" : "write") : (how ? "put" : "<< ByteArray"), "), close()");
			auto check_copy = [&]() {
				std::string got;
				VF_CHECK(ref::slurp(opath, got), ctx, ": the copy does not exist");
				if (fl)
					VF_CHECK(got == sofar, ctx, ": the copy taken after flush() differs from what had been written: ", diffmsg(got, sofar));
				else
					VF_CHECK(got.size() <= sofar.size() && sofar.compare(0, got.size(), got) == 0, ctx, ": the copy is not a prefix of what had been written: ", diffmsg(got, sofar));
			};
			File::OpenMode om = mode ? File::APPEND : File::WRITE;
			if (how) {
				TextFile t(path, om);
				VF_CHECK(!!t, ctx, ": cannot open");
				VF_CHECK(t.append(AS(d1)), ctx, ": append returned false");
				if (fl)
					t.flush();
				VF_CHECK(t.copy(AS(opath)), ctx, ": copy returned false");
				check_copy();
				if (after == 0)
					VF_CHECK(t.append(AS(d2)), ctx, ": append after the copy returned false");
				else if (after == 1)
					t << AS(d2);
				else
					VF_CHECK(t.put(AS(d2)), ctx, ": put after the copy returned false");
				t.close();
			}
			else {
				File f(path, om);
				VF_CHECK(!!f, ctx, ": cannot open");
				VF_CHECK(f.write(d1.data(), (int)d1.size()) == (int)d1.size(), ctx, ": write returned a short count");
				if (fl)
					f.flush();
				VF_CHECK(f.copy(AS(opath)), ctx, ": copy returned false");
				check_copy();
				if (after == 0)
					VF_CHECK(f.put(BA(d2)), ctx, ": put after the copy returned false");
				else if (after == 1)
					VF_CHECK(!!f && f.write(d2.data(), (int)d2.size()) == (int)d2.size(), ctx, ": the object is no longer open after copy() / write returned a short count");
				else {
					VF_CHECK(!!f, ctx, ": the object is no longer open after copy()");
					f << BA(d2);
				}
				f.close();
			}
			unlink(opath.c_str());
			h.model = sofar + d2;
			h.exists = wrote = true;
		}
		else if (o.name == "fb") {
			if (!h.exists)
				continue;
			int how = (int)(((o.i(0) % 3) + 3) % 3);
			std::string data = content(o.i(1), (uint64_t)o.i(2), (int)o.i(3));
			File g(path);
			long long old = (long long)h.model.size();
			VF_CHECK(g.size() == old, ctx, ": size() = ", (long long)g.size(), " want ", old);
			File f(how == 2 ? g : File(path));
			if (how == 0)
				VF_CHECK(f.size() == old, ctx, ": size() = ", (long long)f.size(), " want ", old);
			else if (how == 1)
				VF_CHECK(f.exists(), ctx, ": exists() false");
			{
				File w(path, File::APPEND);
				VF_CHECK(!!w && w.write(data.data(), (int)data.size()) == (int)data.size(), ctx, ": append through another object failed");
			}
			h.model += data;
			long long sz = (long long)h.model.size();
			ctx += vf::str(" object with cached info (", how == 0 ? "size()" : how == 1 ? "exists()" : "copy of a File that answered size()", ", file had ", old, " bytes), file grown to ", sz, " through another object");
			for (long long m : {old + 1, (old + sz) / 2, sz, sz + 7}) {
				ByteArray got = f.firstBytes((int)m);
				std::string want = h.model.substr(0, (size_t)std::min(m, sz));
				VF_CHECK(S(got) == want, ctx, ": firstBytes(", m, ") through that object: ", diffmsg(S(got), want));
				f.close();
			}
			VF_CHECK(f.size() == sz, ctx, ": size() through that object after close() = ", (long long)f.size(), " want ", sz);
			// the same object (its information is cached again now) appends more, is closed and read
			std::string d2 = content(1 + o.i(1) % 700, (uint64_t)o.i(2) + 11, (int)o.i(3));
			VF_CHECK(f.open(File::APPEND), ctx, ": reopen for APPEND failed");
			f << BA(d2);
			f.close();
			h.model += d2;
			sz = (long long)h.model.size();
			VF_CHECK(f.size() == sz, ctx, ": size() through the same object after reopen(APPEND), <<, close() = ", (long long)f.size(), " want ", sz);
			ByteArray all = f.content();
			VF_CHECK(S(all) == h.model, ctx, ": content() through the same object after reopen(APPEND), <<, close(): ", diffmsg(S(all), h.model));
			f.close();
			wrote = true;
		}
		else if (o.name == "cs") {
			if (!h.exists)
				continue;
			int how = (int)(((o.i(0) % 10) + 10) % 10);
			std::string d = ref::tmpdir();
			if (how == 9) {
				std::string to = d + "/c17_other.dat";
				VF_CHECK(ref::spit(to, content(77, (uint64_t)o.i(0) + 9, 2)), "harness: cannot write ", to);
				ctx += " copy onto an existing different file";
				VF_CHECK(Directory::copy(path, AS(to)), ctx, ": returned false");
				verify(to, h.model, ctx.c_str(), false);
				std::string c1 = ctx + ": the source afterwards";
				verify(P(), h.model, c1.c_str(), false);
				unlink(to.c_str());
				continue;
			}
			std::string from = P(), to, link = d + "/c17_link.dat";
			bool viaFile = false;
			if (how == 0)
				to = d + "/";
			else if (how == 1)
				to = d;
			else if (how == 2)
				to = d + "/./c17_main.dat";
			else if (how == 3) {
				mkdir((d + "/c17_sub").c_str(), 0755);
				to = d + "/c17_sub/../c17_main.dat";
			}
			else if (how == 4) {
				to = d;
				viaFile = true;
			}
			else if (how == 5) {
				to = d + "//c17_main.dat";
				viaFile = true;
			}
			else if (how == 6) {
				char cwd[4096];
				std::string c = getcwd(cwd, sizeof cwd) ? std::string(cwd) + "/" : std::string();
				to = d + "/c17_main.dat";
				if (!c.empty() && d.compare(0, c.size(), c) == 0)
					from = d.substr(c.size()) + "/c17_main.dat";
				else
					to = d + "/./c17_main.dat";
			}
			else {
				if (symlink("c17_main.dat", link.c_str()) != 0)
					VF_CHECK(errno == EEXIST, "harness: symlink failed, errno ", errno);
				if (how == 7)
					to = link;
				else {
					from = link;
					to = P();
				}
			}
			// the return value is not judged (refusing, or succeeding as a no-op, both keep the content)
			bool ok = viaFile ? File(AS(from)).copy(AS(to)) : Directory::copy(AS(from), AS(to));
			ctx += vf::str(viaFile ? " File(\"" : " Directory::copy(\"", from, viaFile ? "\").copy(\"" : "\", \"", to, "\") = ", ok ? "true" : "false", ": the destination is the source file itself", how >= 7 ? " (through a symbolic link)" : " under another spelling");
			VF_CHECK(ref::exists(P()), ctx, ": the file is gone");
			verify(P(), h.model, ctx.c_str(), false);
			continue;
		}
		else if (o.name == "ms") {
			if (!h.exists)
				continue;
			int how = (int)(((o.i(0) % 8) + 8) % 8);
			std::string d = ref::tmpdir(), other = content(41, (uint64_t)o.i(0) + 3, 2);
			if (how <= 5) {
				std::string from = P(), to;
				bool viaFile = false;
				if (how == 0)
					to = d + "/";
				else if (how == 1)
					to = d + "/./c17_main.dat";
				else if (how == 2) {
					mkdir((d + "/c17_sub").c_str(), 0755);
					to = d + "/c17_sub/../c17_main.dat";
				}
				else if (how == 3) {
					to = d + "//c17_main.dat";
					viaFile = true;
				}
				else if (how == 4) {
					to = d + "/";
					viaFile = true;
				}
				else {
					// relative spelling of the source, absolute of the destination (when the temp directory lies below the working directory)
					char cwd[4096];
					std::string c = getcwd(cwd, sizeof cwd) ? std::string(cwd) + "/" : std::string();
					to = d + "/c17_main.dat";
					if (!c.empty() && d.compare(0, c.size(), c) == 0)
						from = d.substr(c.size()) + "/c17_main.dat";
					else
						to = d + "/./c17_main.dat";
				}
				bool ok = viaFile ? File(AS(from)).move(AS(to)) : Directory::move(AS(from), AS(to));
				ctx += vf::str(viaFile ? " File(\"" : " Directory::move(\"", from, viaFile ? "\").move(\"" : "\", \"", to, "\"): the destination is the file itself under another spelling");
				VF_CHECK(ok, ctx, ": returned false");
				VF_CHECK(ref::exists(P()), ctx, ": the file is gone");
				verify(P(), h.model, ctx.c_str(), false);
			}
			else {
				std::string to = d + "/c17_other.dat", dest = to;
				if (how == 7) {
					mkdir((d + "/c17_sub").c_str(), 0755);
					to = d + "/c17_sub";
					dest = to + "/c17_main.dat";
				}
				VF_CHECK(ref::spit(dest, other), "harness: cannot write ", dest);
				bool ok = Directory::move(path, AS(to));
				ctx += how == 6 ? " move onto an existing different file" : " move into a directory that holds another file of that name";
				VF_CHECK(ok, ctx, ": returned false");
				VF_CHECK(!ref::exists(P()), ctx, ": the source still exists");
				verify(dest, h.model, ctx.c_str(), false);
				VF_CHECK(Directory::move(AS(dest), path), ctx, ": move back returned false");
				std::string c1 = ctx + ": after moving back";
				verify(P(), h.model, c1.c_str(), false);
			}
			continue;
		}
		else if (o.name == "so") {
			// one object writes, is queried while open, is closed and then read: ordinary use of a File / TextFile
			int how = (int)(o.i(0) & 1), mode = (int)(((o.i(1) % 3) + 3) % 3);
			if (mode == 2 && !h.exists)
				continue;
			int tk = how ? 1 : 0; // TextFile needs NUL-free text
			std::string d1 = tk ? text_content(o.i(2), (uint64_t)o.i(3), (int)o.i(4)) : content(o.i(2), (uint64_t)o.i(3), (int)o.i(4));
			std::string d2 = tk ? text_content(o.i(7), (uint64_t)o.i(8), (int)o.i(4)) : content(o.i(7), (uint64_t)o.i(8), (int)o.i(4));
			int q = (int)(((o.i(5) % 7) + 7) % 7);
			bool fl = (o.i(6) & 1) != 0;
			static const char* qn[] = {"none", "size()", "lastModified()", "isFile()", "isDirectory()", "creationDate()", "exists()"};
			std::string expect = mode == 0 ? std::string() : h.model; // WRITE truncates
			size_t pos = mode == 1 ? expect.size() : 0;
			overlay(expect, pos, d1);
			std::string sofar = expect;
			overlay(expect, pos + d1.size(), d2);
			ctx += vf::str(how ? " TextFile" : " File", " mode ", mode == 0 ? "WRITE" : mode == 1 ? "APPEND" : "RW", ": ", d1.size(), " bytes, ", fl ? "flush(), " : "", qn[q], " while open, ", d2.size(),
			               " more bytes, close(), then read through the same object");
			auto session = [&](File& f, TextFile* t) {
				VF_CHECK(!!f, ctx, ": cannot open");
				if (t)
					VF_CHECK(t->append(AS(d1)), ctx, ": append returned false");
				else
					VF_CHECK(f.write(d1.data(), (int)d1.size()) == (int)d1.size(), ctx, ": write returned a short count");
				if (fl)
					f.flush();
				// info queries on the open writer; only what the library defines is asserted: after flush() the first
				// size() query of this object is the number of bytes in the file (without flush() buffered bytes are not counted)
				if (q == 1) {
					Long sz = f.size();
					if (fl)
						VF_CHECK(sz == (Long)sofar.size(), ctx, ": size() on the open, flushed writer = ", (long long)sz, " want ", sofar.size());
				}
				else if (q == 2)
					(void)f.lastModified();
				else if (q == 3)
					VF_CHECK(f.isFile(), ctx, ": isFile() false on the open writer");
				else if (q == 4)
					VF_CHECK(!f.isDirectory(), ctx, ": isDirectory() true on the open writer");
				else if (q == 5)
					(void)f.creationDate();
				else if (q == 6)
					VF_CHECK(f.exists(), ctx, ": exists() false on the open writer");
				if (t)
					*t << AS(d2);
				else
					VF_CHECK(f.write(d2.data(), (int)d2.size()) == (int)d2.size(), ctx, ": write returned a short count");
				f.close();
				h.model = expect;
				h.exists = true;
				// the same object is now an ordinary closed File on the path
				long long sz = (long long)expect.size();
				VF_CHECK(f.size() == sz, ctx, ": size() through the same object after close() = ", (long long)f.size(), " want ", sz);
				ByteArray c1 = f.content();
				VF_CHECK(S(c1) == expect, ctx, ": content() through the same object after close(): ", diffmsg(S(c1), expect));
				f.close();
				long long n = sz > 3 ? sz - 2 : sz + 5;
				ByteArray c2 = f.firstBytes((int)n);
				VF_CHECK(S(c2) == expect.substr(0, (size_t)std::min(n, sz)), ctx, ": firstBytes(", n, ") through the same object after close(): ", diffmsg(S(c2), expect.substr(0, (size_t)std::min(n, sz))));
				f.close();
				VF_CHECK(f.size() == sz, ctx, ": size() through the same object after reading = ", (long long)f.size(), " want ", sz);
				if (t && expect.find('\0') == std::string::npos && !bom_like(expect)) {
					String tx = t->text();
					VF_CHECK(S(tx) == expect, ctx, ": text() through the same object after close(): ", diffmsg(S(tx), expect));
					t->close();
					Array<String> ls = t->lines();
					std::vector<std::string> want = ref_lines(expect);
					VF_CHECK((size_t)ls.length() == want.size(), ctx, ": lines() through the same object returned ", ls.length(), " lines, want ", want.size());
					for (size_t i = 0; i < want.size(); i++)
						VF_CHECK(S(ls[(int)i]) == want[i], ctx, ": lines()[", i, "] through the same object: ", diffmsg(S(ls[(int)i]), want[i]));
					t->close();
				}
			};
			File::OpenMode om = mode == 0 ? File::WRITE : mode == 1 ? File::APPEND : File::RW;
			if (how) {
				TextFile t(path, om);
				session(t, &t);
			}
			else {
				File f(path, om);
				session(f, 0);
			}
			wrote = true;
		}
		else if (o.name == "cp" || o.name == "mv") {
			if (!h.exists)
				continue;
			int how = (int)(((o.i(0) % 4) + 4) % 4);
			std::string d = ref::tmpdir();
			std::string to = d + "/c17_other.dat", dest = to;
			// opt-in only (the driver never sets it): a directory on another file system exercises the EXDEV branch of move
			const char* xdev = getenv("VF_XDEV_DIR");
			bool cross = xdev && *xdev && (o.i(0) & 4);
			if (cross) {
				to = dest = std::string(xdev) + "/vf_c17_" + std::to_string((long)getpid()) + ".dat";
				how &= 1;
				vf::stats().cls("hist.cross_device_target");
			}
			bool vialink = false;
			if (how >= 2) {
				mkdir((d + "/c17_sub").c_str(), 0755);
				to = d + "/c17_sub";
				if (o.i(0) & 8) {
					// the directory is named through a symbolic link
					to = d + "/c17_sublink";
					if (symlink("c17_sub", to.c_str()) != 0)
						VF_CHECK(errno == EEXIST, "harness: symlink failed, errno ", errno);
					vialink = true;
					vf::stats().cls("hist.copy_or_move_into_symlinked_directory");
				}
				dest = to + "/c17_main.dat";
			}
			if (vialink)
				ctx += " (directory given as a symbolic link)";
			if (o.name == "cp") {
				bool ok = (how & 1) ? File(path).copy(AS(to)) : Directory::copy(path, AS(to));
				VF_CHECK(ok, ctx, ": copy returned false");
				std::string c2 = ctx + ((how & 1) ? " File::copy" : " Directory::copy") + (how >= 2 ? " into a directory: the copy" : ": the copy");
				verify(dest, h.model, c2.c_str(), false);
				std::string c1 = ctx + ": the source after the copy";
				verify(P(), h.model, c1.c_str(), false);
				unlink(dest.c_str());
			}
			else {
				bool ok = (how & 1) ? File(path).move(AS(to)) : Directory::move(path, AS(to));
				VF_CHECK(ok || cross, ctx, ": move returned false"); // (the copy+remove fallback reports false although it moved; content is what the property states)
				VF_CHECK(!ref::exists(P()), ctx, ": the source still exists after move");
				std::string c2 = ctx + ((how & 1) ? " File::move" : " Directory::move") + (how >= 2 ? " into a directory: the moved file" : ": the moved file");
				verify(dest, h.model, c2.c_str(), false);
				ok = Directory::move(AS(dest), path);
				VF_CHECK(ok || cross, ctx, ": move back returned false");
				VF_CHECK(!ref::exists(dest), ctx, ": the source still exists after moving back");
				std::string c1 = ctx + ": after moving back";
				verify(P(), h.model, c1.c_str(), false);
			}
			continue;
		}
		else
			continue;
		if (wrote)
			verify(P(), h.model, ctx.c_str());
	}
	cleanup();
}

// ---------------------------------------------------------------------------------------------
// line structures

static std::string line_fill(size_t len, int fill, uint64_t seed)
{
	ref::Mix g(seed);
	std::string s(len, 'x');
	fill = ((fill % 4) + 4) % 4;
	for (size_t i = 0; i < len; i++) {
		if (fill == 0)
			s[i] = (char)('a' + (i % 26));
		else if (fill == 1)
			s[i] = (char)(32 + g.below(95));
		else if (fill == 2) {
			// any byte except NUL, LF and the bytes that could form a byte-order mark
			unsigned c = 1 + (unsigned)g.below(0xee);
			s[i] = (char)(c == '\n' ? ' ' : c);
		}
		else
			s[i] = g.below(6) == 0 ? '\r' : (char)('A' + g.below(26)); // CRs inside and at the end of the line text
	}
	return s;
}

static std::string lines_text(const vf::Case& c, int* how = 0)
{
	std::string t;
	int nl = 0;
	for (const vf::Op& o : c.ops) {
		if (o.name == "ln" && nl < 400) {
			long long len = o.i(0) < 0 ? 0 : o.i(0) > 70000 ? 70000 : o.i(0);
			t += line_fill((size_t)len, (int)o.i(2), (uint64_t)o.i(3));
			int e = (int)(((o.i(1) % 4) + 4) % 4);
			t += e == 0 ? "\n" : e == 1 ? "\r\n" : e == 2 ? "\r" : "";
			nl++;
		}
		else if (o.name == "wr" && how)
			*how = (int)(((o.i(0) % 3) + 3) % 3);
	}
	return t;
}

static void run_lines(const vf::Case& c)
{
	cleanup();
	int how = 0;
	std::string t = lines_text(c, &how);
	String path = AS(P());
	if (how == 0)
		VF_CHECK(TextFile(path).write(AS(t)), "TextFile::write returned false");
	else if (how == 1)
		VF_CHECK(TextFile(path).put(AS(t)), "TextFile::put returned false");
	else
		VF_CHECK(ref::spit(P(), t), "harness: cannot write ", P());
	verify(P(), t, how == 0 ? "text written with TextFile::write" : how == 1 ? "text written with TextFile::put" : "text written with POSIX write");
	cleanup();
}

// ---------------------------------------------------------------------------------------------
// BOM files

// UTF-16 files are compared modulo the CR LF -> LF folding that the reader performs by design (DESIGN 2.6)
static std::string fold_crlf(const std::string& s)
{
	std::string r;
	for (size_t i = 0; i < s.size(); i++) {
		if (s[i] == '\r' && i + 1 < s.size() && s[i + 1] == '\n')
			continue;
		r += s[i];
	}
	return r;
}

static uint32_t to_scalar(long long v)
{
	if (v < 0)
		v = -v;
	uint32_t c = (uint32_t)(v % 0x110000);
	if (c == 0 || !ref::is_scalar(c))
		c = '?';
	return c;
}

// the scalar values of a "bomr" op
static std::vector<uint32_t> bomr_scalars(const vf::Op& o)
{
	std::vector<uint32_t> cps;
	for (size_t k = 2; k + 2 < o.a.size() && cps.size() < 20000; k += 3) {
		int f = (int)(((o.a[k] % 4) + 4) % 4);
		long long n = o.a[k + 1] < 0 ? 0 : o.a[k + 1] > 10000 ? 10000 : o.a[k + 1];
		for (long long i = 0; i < n; i++)
			cps.push_back(f == 0 ? (uint32_t)('a' + i % 26) : f == 1 ? (uint32_t)(0x4E00 + i % 100) : f == 2 ? (uint32_t)(0xE9 + i % 20) : (i == 0 ? (uint32_t)'\n' : (uint32_t)('A' + i % 26)));
		cps.push_back(to_scalar(o.a[k + 2]));
	}
	return cps;
}

static void check_bom(int enc, int how, std::vector<uint32_t> cps)
{
	cps.erase(std::remove(cps.begin(), cps.end(), 0u), cps.end());
	if (enc == 3 && !cps.empty() && cps[0] == 0xFEFF)
		return; // that *is* a BOM file
	std::string u8 = ref::utf8(cps), bytes, want = u8;
	if (enc == 0)
		bytes = "\xef\xbb\xbf" + u8;
	else if (enc == 3)
		bytes = u8;
	else {
		std::vector<uint16_t> w = ref::utf16(cps);
		bytes = enc == 1 ? "\xff\xfe" : "\xfe\xff";
		for (uint16_t u : w) {
			char lo = (char)(u & 0xff), hi = (char)(u >> 8);
			if (enc == 1) {
				bytes += lo;
				bytes += hi;
			}
			else {
				bytes += hi;
				bytes += lo;
			}
		}
	}
	if (how & 1)
		VF_CHECK(File(AS(P())).put(BA(bytes)), "File::put returned false");
	else
		VF_CHECK(ref::spit(P(), bytes), "harness: cannot write ", P());
	static const char* names[] = {"UTF-8 with BOM", "UTF-16LE with BOM", "UTF-16BE with BOM", "UTF-8 without BOM"};
	// UTF-16: the text itself or the text with every CR LF folded into LF (what the reader does by design) is accepted
	bool u16 = enc == 1 || enc == 2;
	std::string folded = u16 ? fold_crlf(want) : want;
	String t = TextFile(AS(P())).text();
	VF_CHECK(S(t) == want || S(t) == folded, names[enc], " file of ", cps.size(), " scalars (", bytes.size(), " bytes): text(): ", diffmsg(S(t), want));
	VF_CHECK((int)strlen(*t) == t.length(), names[enc], ": text() length()/terminator disagree");
	// an already open TextFile gives the same
	{
		TextFile f(AS(P()), File::READ);
		String t2 = f.text();
		VF_CHECK(S(t2) == want || S(t2) == folded, names[enc], " file, explicitly opened: text(): ", diffmsg(S(t2), want));
	}
	std::string truth;
	VF_CHECK(ref::slurp(P(), truth) && truth == bytes, names[enc], ": reading changed the file");
}

static void run_bom(const vf::Case& c)
{
	cleanup();
	for (const vf::Op& o : c.ops) {
		int enc = (int)(((o.i(0) % 4) + 4) % 4);
		if (o.name == "bom") {
			std::vector<uint32_t> cps;
			if (!ref::utf8_decode(o.str(0), &cps))
				continue; // not a scalar-value sequence (only after hand editing)
			check_bom(enc, (int)o.i(1), cps);
		}
		else if (o.name == "bomr")
			check_bom(enc, (int)o.i(1), bomr_scalars(o));
	}
	cleanup();
}

void vf_run_case(const std::string& part, const vf::Case& c)
{
	if (part == "lines")
		run_lines(c);
	else if (part == "bom" || part == "bomlong")
		run_bom(c);
	else
		run_history(c);
}

// ---------------------------------------------------------------------------------------------
// generators

using namespace rc;

static Gen<long long> sizegen(bool big)
{
	return gen::exec([big]() -> long long {
		int w = *vf::irange<int>(0, 99);
		if (w < 30)
			return *gen::elementOf(std::vector<long long>{0, 1, 2, 3, 253, 254, 255, 256, 257, 507, 508, 509, 510, 511, 512, 762, 763, 764, 1016, 1017});
		if (w < 60)
			return *vf::irange<long long>(0, 600);
		if (w < 80)
			return *vf::irange<long long>(0, 5000);
		if (!big)
			return *vf::irange<long long>(0, 20000);
		if (w < 92)
			return *gen::elementOf(std::vector<long long>{65535, 65536, 65537, 131071, 131072, 131073, 196608, 65536 + 255, 4095, 4096, 4097, 8191, 8192, 8193});
		return *vf::irange<long long>(0, 200000);
	});
}

static Gen<vf::Op> histop()
{
	return gen::exec([]() {
		vf::Op o;
		int w = *vf::irange<int>(0, 99);
		long long seed = *vf::irange<long long>(0, 1000000000LL);
		if (w < 14) {
			o.name = "put";
			o.a = {*sizegen(true), seed, *vf::irange<int>(0, 3)};
		}
		else if (w < 38) {
			o.name = "fw";
			long long n = *sizegen(true);
			long long chunk = *gen::elementOf(std::vector<long long>{1, 7, 255, 256, 4096, 65536, 1000000, 1000000});
			o.a = {*gen::elementOf(std::vector<int>{0, 1, 1, 2, 2}), n, seed, *vf::irange<int>(0, 3), chunk, *vf::irange<long long>(0, 300000), *vf::irange<int>(0, 1)};
		}
		else if (w < 46) {
			o.name = "fs";
			o.a = {*vf::irange<int>(0, 1), seed, *vf::irange<int>(0, 12)};
		}
		else if (w < 60) {
			o.name = "tw";
			o.a = {*gen::elementOf(std::vector<int>{0, 1, 2, 2, 2, 3, 4, 5, 6}), *sizegen(false), seed, *vf::irange<int>(1, 3)};
		}
		else if (w < 63) {
			o.name = "fb";
			o.a = {*vf::irange<int>(0, 2), *sizegen(false), seed, *vf::irange<int>(0, 3)};
		}
		else if (w < 65) {
			o.name = "fo";
			o.a = {*vf::irange<int>(0, 5), *sizegen(false), seed, *vf::irange<int>(0, 3)};
		}
		else if (w < 68) {
			o.name = "fc";
			o.a = {*vf::irange<int>(0, 1), *vf::irange<int>(0, 1), *sizegen(false), seed, *vf::irange<int>(0, 3), *gen::elementOf(std::vector<int>{1, 1, 0}), *sizegen(false), seed + 1, *vf::irange<int>(0, 2)};
		}
		else if (w < 75) {
			o.name = "tm";
			o.a = {*gen::elementOf(std::vector<int>{0, 1, 1, 2}), seed, *vf::irange<int>(0, 8)};
		}
		else if (w < 79) {
			o.name = "sl";
			o.a = {*gen::elementOf(std::vector<int>{0, 0, 1, 2, 3, 4}), *sizegen(false), seed, *vf::irange<int>(0, 3)};
		}
		else if (w < 81) {
			o.name = "ms";
			o.a = {*vf::irange<int>(0, 7)};
		}
		else if (w < 83) {
			o.name = "cs";
			o.a = {*vf::irange<int>(0, 9)};
		}
		else if (w < 90) {
			// one object for writing, querying and reading
			o.name = "so";
			o.a = {*vf::irange<int>(0, 1), *gen::elementOf(std::vector<int>{0, 1, 1, 1, 2}), *sizegen(false), seed, *vf::irange<int>(0, 3), *gen::elementOf(std::vector<int>{0, 1, 1, 1, 2, 3, 4, 5, 6}),
			       *vf::irange<int>(0, 1), *sizegen(false), seed + 1};
		}
		else if (w < 93) {
			o.name = "as";
			o.a = {*vf::irange<int>(0, 1), *vf::irange<int>(0, 1), *sizegen(true), seed, *vf::irange<int>(0, 3), *gen::elementOf(std::vector<int>{1, 1, 1, 0})};
		}
		else if (w < 97) {
			o.name = "cp";
			o.a = {*vf::irange<int>(0, 15)};
		}
		else {
			o.name = "mv";
			o.a = {*vf::irange<int>(0, 15)};
		}
		return o;
	});
}

static vf::Case mkcase(const std::vector<vf::Op>& v)
{
	vf::Case c;
	c.ops = v;
	return c;
}

static Gen<vf::Case> histgen()
{
	return gen::map(gen::container<std::vector<vf::Op>>(histop()), mkcase);
}

static Gen<vf::Case> copygen()
{
	return gen::exec([]() {
		vf::Case c;
		int k = *vf::irange<int>(1, 3);
		long long n = 65536LL * k + *gen::elementOf(std::vector<long long>{-65536, -65535, -2, -1, 0, 0, 1, 2, 255, -255});
		if (*vf::irange<int>(0, 9) == 0)
			n = *vf::irange<long long>(0, 200000);
		c.add(vf::Op("put", {n, *vf::irange<long long>(0, 1000000000LL), 0}));
		int m = *vf::irange<int>(1, 3);
		for (int i = 0; i < m; i++)
			c.add(vf::Op(*vf::irange<int>(0, 1) ? "cp" : "mv", {*vf::irange<int>(0, 7)}));
		return c;
	});
}

static Gen<vf::Case> linesgen()
{
	auto ln = gen::exec([]() {
		int w = *vf::irange<int>(0, 99);
		long long len;
		if (w < 35)
			len = *gen::elementOf(std::vector<long long>{252, 253, 254, 255, 256, 257, 506, 507, 508, 509, 510, 511, 512, 761, 762, 763, 1015, 1016, 1017});
		else if (w < 65)
			len = *vf::irange<long long>(0, 5);
		else if (w < 80)
			len = *vf::irange<long long>(0, 300);
		else if (w < 88)
			len = *gen::elementOf(std::vector<long long>{998, 999, 1000, 1001, 1002, 1003, 2001, 2002, 2003, 2004, 2005, 2999, 3000});
		else
			len = *vf::irange<long long>(0, 3000);
		int end = *gen::elementOf(std::vector<int>{0, 0, 0, 1, 1, 1, 2, 3});
		return vf::Op("ln", {len, end, *vf::irange<int>(0, 3), *vf::irange<long long>(0, 1000000000LL)});
	});
	return gen::map(gen::pair(gen::container<std::vector<vf::Op>>(ln), gen::elementOf(std::vector<int>{0, 0, 1, 2})), [](const std::pair<std::vector<vf::Op>, int>& p) {
		vf::Case c;
		c.ops = p.first;
		if (c.ops.size() > 40)
			c.ops.resize(40);
		c.add(vf::Op("wr", {p.second}));
		return c;
	});
}

static Gen<vf::Case> bomgen()
{
	auto scalar = gen::exec([]() -> uint32_t {
		int w = *vf::irange<int>(0, 99);
		if (w < 30)
			return (uint32_t)*vf::irange<int>(32, 126);
		if (w < 45)
			return *gen::elementOf(std::vector<uint32_t>{'\r', '\n', '\r', '\n', '\t', 0x7f, 0x80, 0x7ff, 0x800, 0xfeff, 0xfffe, 0xffff, 0xd7ff, 0xe000, 0xfffd, 0x10000, 0x10ffff, 0xfeff, 0xa, 0xd, 0x0a0d, 0x0d0a, 0xff, 0xfe, 0xbb, 0xef, 0xbf, 0xfec0, 0xfb00});
		if (w < 60)
			return (uint32_t)*vf::irange<int>(0x80, 0x7ff);
		if (w < 80)
			return ref::nth_scalar((uint64_t)*vf::irange<long long>(0x7ff, 0xf7fe)); // BMP
		return (uint32_t)*vf::irange<int>(0x10000, 0x10ffff);
	});
	return gen::exec([scalar]() {
		int n = *gen::oneOf(vf::irange<int>(0, 6), vf::irange<int>(0, 60), vf::irange<int>(0, 400));
		std::vector<uint32_t> cps;
		for (int i = 0; i < n; i++) {
			uint32_t s = *scalar;
			if (s == 0 || !ref::is_scalar(s))
				s = '?';
			cps.push_back(s);
			if (s == '\r' && *vf::irange<int>(0, 2) > 0) {
				cps.push_back('\n');
				i++;
			}
		}
		vf::Case c;
		vf::Op o("bom", {*vf::irange<int>(0, 3), *vf::irange<int>(0, 1)});
		o.s = {ref::utf8(cps)};
		c.add(o);
		return c;
	});
}

// long BOM texts: supplementary-plane characters (surrogate pairs in UTF-16), CR LF and BMP characters placed at generated
// offsets around every multiple of 2048 code units; total 2040..2056, 4088..4104 and random lengths up to ~9000 code units
static Gen<vf::Case> bomlonggen()
{
	return gen::exec([]() {
		vf::Op o("bomr", {*gen::elementOf(std::vector<int>{1, 1, 2, 2, 0, 3}), *vf::irange<int>(0, 1)});
		auto special = []() -> long long {
			int w = *vf::irange<int>(0, 9);
			if (w < 6)
				return *gen::oneOf(vf::irange<long long>(0x10000, 0x10ffff), gen::elementOf(std::vector<long long>{0x1F600, 0x10000, 0x10ffff, 0x1D11E, 0x20000}));
			if (w < 8)
				return '\r'; // with filler 3 (LF first) this is a CR LF pair across the position
			return *gen::elementOf(std::vector<long long>{0x20AC, 0xFEFF, 0xFFFD, 0xD7FF, 0xE000, 'x', 0xE9});
		};
		int shape = *vf::irange<int>(0, 9);
		long long units = 0; // UTF-16 code units so far
		auto add = [&](int f, long long n, long long sc) {
			o.a.push_back(f);
			o.a.push_back(n);
			o.a.push_back(sc);
			units += n + (sc >= 0x10000 ? 2 : 1);
		};
		int kmax = shape < 4 ? 1 : shape < 7 ? 2 : *vf::irange<int>(1, 4);
		for (int k = 1; k <= kmax; k++) {
			// the special character starts at code unit 2048k-1+delta
			long long delta = *gen::elementOf(std::vector<long long>{-1, -1, -1, 0, 0, 0, 0, 1, 1, -2, 2, -3, 3, -4, 4});
			long long target = 2048LL * k - 1 + delta;
			if (shape >= 8 && *vf::irange<int>(0, 1))
				target = *vf::irange<long long>(units, units + 3000); // anywhere
			if (target < units)
				target = units;
			int f = *gen::elementOf(std::vector<int>{0, 0, 1, 2, 3});
			// optionally an earlier pair in the run, so that BMP-count and unit-count differ
			if (target - units > 40 && *vf::irange<int>(0, 3) == 0) {
				long long n0 = *vf::irange<long long>(0, 30);
				add(f, n0, *vf::irange<long long>(0x10000, 0x10ffff));
			}
			add(f, target - units, special());
			// directly following characters: more pairs / CR LF right after the edge
			int extra = *vf::irange<int>(0, 2);
			for (int e = 0; e < extra; e++)
				add(*gen::elementOf(std::vector<int>{0, 3}), *vf::irange<long long>(0, 2), special());
		}
		// tail: total length 2040..2056 / 4088..4104 or a short remainder
		long long tail = *vf::irange<long long>(0, 9);
		add(0, tail, 'z');
		vf::Case c;
		c.add(o);
		return c;
	});
}

// ---- classification (also decides non-triviality)

static void classify_hist(const vf::Case& c)
{
	auto& st = vf::stats();
	bool exists = false, nt = false, appended_after_reopen = false;
	long long size = 0;
	for (const vf::Op& o : c.ops) {
		st.cls("hist.op." + o.name);
		long long before = size;
		if (o.name == "put") {
			size = o.i(0);
			exists = true;
		}
		else if (o.name == "fw") {
			int mode = (int)o.i(0) % 3;
			if (mode == 2 && !exists)
				continue;
			if (mode == 0)
				size = o.i(1);
			else if (mode == 1) {
				if (exists) {
					appended_after_reopen = true;
					st.cls("hist.append_after_reopen");
				}
				size += o.i(1);
			}
			else {
				long long pos = o.i(5) % (size + 1);
				size = std::max(size, pos + o.i(1));
				st.cls("hist.rw_seek");
			}
			exists = true;
		}
		else if (o.name == "tw") {
			if (o.i(0) == 2 && exists) {
				appended_after_reopen = true;
				st.cls("hist.append_after_reopen");
				size += o.i(1);
			}
			else
				size = o.i(1);
			exists = true;
		}
		else if (o.name == "sl") {
			int how = (int)(o.i(0) % 5);
			if (how == 0 && !exists)
				continue;
			static const char* nm[] = {"read_only", "File.put", "TextFile.write", "TextFile.append", "File.APPEND_write"};
			st.cls(std::string("hist.through_symlink.") + nm[how]);
			if (how == 1 || how == 2)
				size = o.i(1);
			else if (how >= 3)
				size = (exists ? size : 0) + o.i(1);
			if (size >= 0 && size != 12)
				nt = true; // (12 = length of the link's own target string)
			exists = true;
		}
		else if (o.name == "fb") {
			if (exists) {
				st.cls("hist.firstBytes_through_object_with_cached_info_after_growth");
				if (o.i(1) > 0)
					nt = true;
				size = size >= 0 ? size + o.i(1) : -1;
			}
		}
		else if (o.name == "fo") {
			static const char* nm[] = {"File.open(READ)_then_put", "TextFile(READ)_then_append", "reused.open(RW)_then_open(WRITE)", "reused.open_in_missing_dir_then_put", "TextFile.open(READ)_then_<<", "File.open(RW)_then_open(WRITE)_<<"};
			st.cls(std::string("hist.failed_open.") + nm[o.i(0) % 6]);
			exists = true;
			size = (o.i(0) % 6) == 3 ? 100 : o.i(1);
			nt = true;
		}
		else if (o.name == "fc") {
			st.cls(std::string("hist.copy_while_open_for_write.") + ((o.i(5) & 1) ? "flushed" : "unflushed"));
			if (o.i(6) > 0) {
				st.cls("hist.copy_while_open_for_write.then_more_written");
				nt = true;
			}
			size = ((o.i(1) & 1) && exists && size >= 0 ? size : 0) + o.i(2) + o.i(6);
			exists = true;
		}
		else if (o.name == "cs") {
			if (exists) {
				int how = (int)(o.i(0) % 10);
				st.cls(how == 9 ? "hist.copy_onto_existing_other_file" : how >= 7 ? "hist.copy_onto_itself_through_symlink" : (how == 1 || how == 4 || how == 0) ? "hist.copy_onto_itself_directory_form" : "hist.copy_onto_itself_other_spelling");
				if (how != 9 && size != 0)
					nt = true;
			}
		}
		else if (o.name == "ms") {
			if (exists)
				st.cls((o.i(0) % 8) <= 5 ? "hist.move_onto_itself_other_spelling" : "hist.move_onto_existing_other_file");
			if (exists && (o.i(0) % 8) <= 5)
				nt = true;
		}
		else if (o.name == "as") {
			bool same = (o.i(5) & 1) != 0;
			st.cls(std::string("hist.assign_while_open_for_write.") + (same ? "same_path" : "other_path"));
			if (same && o.i(2) > 0) {
				nt = true;
				st.cls(o.i(2) >= 4096 ? "hist.assign_while_open_for_write.same_path.>=4096_bytes_pending" : "hist.assign_while_open_for_write.same_path.<4096_bytes_pending");
			}
			if ((o.i(1) & 1) && exists) {
				appended_after_reopen = true;
				st.cls("hist.append_after_reopen");
				size += o.i(2);
			}
			else
				size = o.i(2);
			exists = true;
		}
		else if (o.name == "so") {
			int mode = (int)o.i(1) % 3;
			if (mode == 2 && !exists)
				continue;
			static const char* qn[] = {"none", "size", "lastModified", "isFile", "isDirectory", "creationDate", "exists"};
			int q = (int)(o.i(5) % 7);
			st.cls(std::string("hist.same_object.") + (o.i(0) & 1 ? "TextFile" : "File"));
			st.cls(std::string("hist.same_object.query_while_open.") + qn[q]);
			if (q && o.i(7) > 0) {
				st.cls("hist.same_object.query_while_open_then_more_written");
				nt = true;
			}
			if (q == 1 && (o.i(6) & 1))
				st.cls("hist.same_object.size_after_flush_asserted");
			if (mode == 1 && exists) {
				appended_after_reopen = true;
				st.cls("hist.append_after_reopen");
			}
			exists = true;
			size = -1;
		}
		else if (o.name == "fs" || o.name == "tm") {
			if ((o.i(0) % (o.name == "fs" ? 2 : 3)) == 1 && exists) {
				appended_after_reopen = true;
				st.cls("hist.append_after_reopen");
			}
			exists = true;
			size = -1; // unknown without running
		}
		else if ((o.name == "cp" || o.name == "mv") && exists && size >= 65536)
			st.cls("hist.copy_or_move>=65536");
		if (size >= 0 && before >= 0) {
			if (size >= 255)
				nt = true;
			if (size >= 65536)
				st.cls("hist.size>=65536");
			if (size == 65536 || size == 131072 || size == 196608)
				st.cls("hist.size==k*65536");
			if (size >= 253 && size <= 257)
				st.cls("hist.size~255");
		}
		if (size < 0)
			size = 0, nt = true;
	}
	if (nt || appended_after_reopen)
		st.nt(vf::fnv(vf::serialize(c)));
	if (c.ops.size() >= 3 && c.ops.size() <= 5)
		st.sample("hist: " + vf::serialize(c), 3);
}

static void classify_lines(const vf::Case& c)
{
	auto& st = vf::stats();
	std::string t = lines_text(c);
	std::vector<std::string> l = ref_lines(t);
	bool edge = false, crlf = t.find("\r\n") != std::string::npos, lone = false;
	for (size_t i = 0; i + 1 < t.size(); i++)
		if (t[i] == '\r' && t[i + 1] != '\n')
			lone = true;
	if (!t.empty() && t.back() == '\r')
		lone = true;
	// raw line lengths (with CR) relative to the 254-char fgets chunk
	size_t p = 0;
	for (;;) {
		size_t q = t.find('\n', p);
		size_t raw = (q == std::string::npos ? t.size() : q + 1) - p; // including LF
		if (raw >= 254) {
			edge = true;
			size_t r = raw % 254;
			if (r <= 2)
				st.cls(r == 0 ? "lines.raw%254==0" : r == 1 ? "lines.raw%254==1(LF alone in chunk)" : "lines.raw%254==2(CRLF alone in chunk)");
		}
		if (q == std::string::npos)
			break;
		// CR is the last byte of a full chunk and LF the first of the next
		if (q >= p + 1 && t[q - 1] == '\r' && (q - p) % 254 == 0 && q > p)
			st.cls("lines.CR|LF split across chunks");
		p = q + 1;
	}
	for (const std::string& one : l) {
		if (one.size() >= 1001) {
			st.cls("lines.line>=1001(readLine(char) buffer grows)");
			edge = true;
		}
		if (one.size() >= 1000 && one.size() <= 1002)
			st.cls("lines.line_1000..1002");
		if (one.size() >= 2002 && one.size() <= 2005)
			st.cls("lines.line_2002..2005");
	}
	st.cls(t.empty() ? "lines.empty_text" : t.back() == '\n' ? "lines.final_newline" : "lines.no_final_newline");
	if (crlf)
		st.cls("lines.has_CRLF");
	if (lone)
		st.cls("lines.has_lone_CR");
	if (edge)
		st.cls("lines.line>=254");
	if (edge || (crlf && lone))
		st.nt(vf::fnv(vf::serialize(c)));
	if (c.ops.size() == 4 && t.size() < 40)
		st.sample("lines: " + vf::show(t) + " -> " + std::to_string(l.size()) + " lines", 2);
}

static void classify_bom(const vf::Case& c)
{
	auto& st = vf::stats();
	const vf::Op& o = c.ops[0];
	std::vector<uint32_t> cps;
	if (o.name == "bomr") {
		cps = bomr_scalars(o);
		std::vector<uint16_t> w = ref::utf16(cps);
		bool edge = false, near = false, crlfedge = false;
		for (size_t i = 0; i + 1 < w.size(); i++) {
			if (w[i] >= 0xD800 && w[i] < 0xDC00) {
				if (i % 2048 == 2047)
					edge = true;
				if ((i + 4) % 2048 <= 8)
					near = true;
			}
			if (w[i] == '\r' && w[i + 1] == '\n' && i % 2048 == 2047)
				crlfedge = true;
		}
		static const char* en[] = {"utf8", "utf16le", "utf16be", "none"};
		int enc = (int)(o.i(0) % 4);
		st.cls(std::string("bom.long.") + en[enc]);
		st.cls(w.size() >= 2040 && w.size() <= 2056 ? "bom.long.units_2040..2056" : w.size() >= 4088 && w.size() <= 4104 ? "bom.long.units_4088..4104" : w.size() > 4104 ? "bom.long.units>4104" : "bom.long.other_length");
		if (near)
			st.cls("bom.long.surrogate_pair_within_4_units_of_a_2048_multiple");
		if (edge) {
			st.cls("bom.long.high_surrogate_at_unit_2048k-1");
			if (enc == 1 || enc == 2)
				st.cls("bom.long.high_surrogate_at_unit_2048k-1.utf16");
		}
		if (crlfedge)
			st.cls("bom.long.CR|LF_across_unit_2048k");
		st.nt(vf::fnv(vf::serialize(c)));
		return;
	}
	ref::utf8_decode(o.str(0), &cps);
	bool nonbmp = false, crlf = o.str(0).find("\r\n") != std::string::npos;
	for (uint32_t s : cps)
		if (s >= 0x10000)
			nonbmp = true;
	static const char* names[] = {"bom.utf8", "bom.utf16le", "bom.utf16be", "bom.none"};
	st.cls(names[o.i(0) % 4]);
	if (nonbmp)
		st.cls("bom.nonBMP");
	if (crlf && (o.i(0) == 1 || o.i(0) == 2))
		st.cls("bom.utf16_with_CRLF");
	if (cps.empty())
		st.cls("bom.empty_text");
	if (nonbmp || crlf)
		st.nt(vf::fnv(vf::serialize(c)));
	if (cps.size() == 4)
		st.sample("bom: enc " + std::to_string(o.i(0)) + " text " + vf::show(o.str(0)), 2);
}

void vf_search(const vf::Args& a)
{
	// (1) fixed grid: every size of the boundary list through put / write / TextFile::write, then copy and move
	[&]() {
		std::vector<long long> sizes = {0, 1, 2, 3, 254, 255, 256, 509, 510, 511, 65535, 65536, 65537, 131072};
		sizes.push_back((1 << 20) + 1); // larger than any plausible copy buffer
		if (!a.quick()) {
			sizes.push_back(1 << 20);
			sizes.push_back(4 << 20);
			sizes.push_back((4 << 20) + 1);
			sizes.push_back(16 << 20);
		}
		uint64_t n = 0;
		for (size_t i = 0; i < sizes.size(); i++) {
			if (sizes[i] > 200000 && (int)(i % (size_t)a.workers) != a.worker)
				continue;
			for (int kind = 0; kind < 4; kind++) {
				if (sizes[i] > 200000 && kind != 0 && kind != 1)
					continue;
				vf::Case c;
				long long seed = (long long)(a.seed * 977 + i * 13 + (uint64_t)kind);
				c.add(vf::Op("put", {sizes[i], seed, kind}));
				c.add(vf::Op("cp", {kind}));
				c.add(vf::Op("mv", {kind}));
				c.add(vf::Op("fw", {1, sizes[i] > 200000 ? 65536 : sizes[i], seed + 1, kind, 65536, 0, 1}));
				c.add(vf::Op("cp", {kind + 1}));
				if (kind != 0 && sizes[i] <= 200000) {
					c.add(vf::Op("tw", {0, sizes[i], seed + 2, kind}));
					c.add(vf::Op("tw", {2, sizes[i], seed + 3, kind}));
				}
				if (!vf::runner().run("hist", c))
					return;
				vf::stats().nt(vf::fnv(vf::serialize(c)));
				vf::stats().cls(sizes[i] > 200000 ? "grid.MiB_sizes" : "grid.boundary_sizes");
				n++;
			}
		}
		vf::stats().part("hist.grid(boundary sizes x content kind)", n, false);
	}();
	[&]() { vf::check_cases("hist", a.n(1800, 10000), 12, histgen(), classify_hist); }();
	[&]() {
		vf::check_cases("copy", a.n(120, 600), 10, copygen(), [](const vf::Case& c) {
			vf::stats().nt(vf::fnv(vf::serialize(c)));
			long long n = c.ops[0].i(0);
			vf::stats().cls(n % 65536 == 0 && n > 0 ? "copy.size==k*65536" : (n % 65536 == 1 || n % 65536 == 65535) ? "copy.size==k*65536+-1" : "copy.other_size");
		});
	}();
	[&]() { vf::check_cases("lines", a.n(3000, 12000), 30, linesgen(), classify_lines); }();
	[&]() { vf::check_cases("bom", a.n(3000, 15000), 100, bomgen(), classify_bom); }();
	[&]() { vf::check_cases("bomlong", a.n(250, 4000), 100, bomlonggen(), classify_bom); }();
}
