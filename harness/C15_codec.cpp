// C15 -- Base64, hex, percent-encoding, SHA-1 against independent references; hostile decoder inputs.
#include "common/vfrc.h"
#include "common/ref_codec.h"
#include <asl/util.h>
#include <asl/Http.h>
#include <asl/SHA1.h>
#include <asl/Map.h>
#include <thread>
#include <atomic>

using namespace asl;

const char* vf_harness_name() { return "C15_codec"; }

static std::string S(const String& s) { return std::string(*s, (size_t)s.length()); }
static std::string S(const ByteArray& b) { return std::string((const char*)b.data(), (size_t)b.length()); }
static ByteArray BA(const std::string& s)
{
	ByteArray a((int)s.size());
	if (!s.empty())
		memcpy(a.data(), s.data(), s.size());
	return a;
}
// a C string in an exact-size heap block: an over-read of the terminator hits an ASan redzone
struct ExactC {
	char* p;
	explicit ExactC(const std::string& s) : p((char*)malloc(s.size() + 1))
	{
		memcpy(p, s.data(), s.size());
		p[s.size()] = 0;
	}
	~ExactC() { free(p); }
};

static std::string insert_ws(const std::string& text, const std::vector<long long>& pos)
{
	static const char ws[] = {' ', '\t', '\r', '\n'};
	std::string r = text;
	for (size_t i = 0; i < pos.size(); i++) {
		size_t p = (size_t)(pos[i] < 0 ? -pos[i] : pos[i]) % (r.size() + 1);
		r.insert(r.begin() + p, ws[(pos[i] < 0 ? -pos[i] : pos[i]) / 7 % 4]);
	}
	return r;
}

// The codecs are pure functions from the first instruction of the program on: results computed during static initialisation
// (before main, in whatever order the translation units are initialised) are compared with the reference later.
struct EarlyResults {
	std::string dec, dec_ws, hexdec, enc, hex, url, urldec, sha;
	EarlyResults()
	{
		dec = S(decodeBase64("aGVsbG8sIHdvcmxkIQ=="));
		dec_ws = S(decodeBase64(String("aGVs\r\nbG8s IHdv\ncmxk IQ==")));
		hexdec = S(decodeHex(String("00ff10Ab")));
		enc = S(encodeBase64((const byte*)"hello, world!", 13));
		hex = S(encodeHex((const byte*)"\x00\xff\x10\xab", 4));
		url = S(Url::encode(String("a b&c=d/e?f"), true));
		urldec = S(Url::decode(String("a%20b%26c%3Dd")));
		SHA1::Hash h = SHA1::hash((const byte*)"abc", 3);
		sha = std::string((const char*)(const byte*)h, 20);
	}
};
static EarlyResults g_early;
static void check_early()
{
	static bool done = false;
	if (done)
		return;
	done = true;
	VF_CHECK(g_early.dec == "hello, world!", "decodeBase64 called during static initialisation returned ", vf::show(g_early.dec));
	VF_CHECK(g_early.dec_ws == "hello, world!", "decodeBase64 (text with whitespace) called during static initialisation returned ", vf::show(g_early.dec_ws));
	VF_CHECK(g_early.hexdec == std::string("\x00\xff\x10\xab", 4), "decodeHex called during static initialisation returned ", vf::show(g_early.hexdec));
	VF_CHECK(g_early.enc == "aGVsbG8sIHdvcmxkIQ==", "encodeBase64 called during static initialisation returned ", vf::show(g_early.enc));
	VF_CHECK(g_early.hex == "00ff10ab", "encodeHex called during static initialisation returned ", vf::show(g_early.hex));
	VF_CHECK(ref::pct_decode(g_early.url) == "a b&c=d/e?f", "Url::encode called during static initialisation returned ", vf::show(g_early.url));
	VF_CHECK(g_early.urldec == "a b&c=d", "Url::decode called during static initialisation returned ", vf::show(g_early.urldec));
	VF_CHECK(g_early.sha == ref::Sha1::hash("abc"), "SHA1::hash called during static initialisation returned ", ref::hex(g_early.sha));
	vf::stats().cls("early.results_from_static_initialisation_checked");
}

static void op_b64(const vf::Op& o)
{
	const std::string& data = o.str(0);
	std::string want = ref::base64(data);
	ByteArray ba = BA(data);
	String enc = encodeBase64(ba);
	VF_CHECK(S(enc) == want, "encodeBase64(ByteArray) len=", data.size(), " got ", vf::show(S(enc)), " want ", vf::show(want));
	VF_CHECK((int)strlen(*enc) == enc.length(), "encodeBase64 result length/terminator");
	String enc2 = encodeBase64((const byte*)data.data(), (int)data.size());
	VF_CHECK(S(enc2) == want, "encodeBase64(ptr,n)");
	{
		String enc3 = encodeBase64(String(data.data(), (int)data.size()));
		VF_CHECK(S(enc3) == want, "encodeBase64(String of ", data.size(), " bytes)");
	}
	ByteArray dec = decodeBase64(enc);
	VF_CHECK(S(dec) == data, "decodeBase64(encodeBase64(x)) != x, len=", data.size(), " got len ", dec.length());
	{
		// the result belongs to the caller: changing it must not change what the next call returns
		dec << (byte)0xa5;
		ByteArray again = decodeBase64(enc);
		VF_CHECK(S(again) == data, "decodeBase64(encodeBase64(x)) != x after the caller appended a byte to the result of an earlier identical call, len=", data.size(), " got len ", again.length());
	}
	{
		ExactC c(want);
		ByteArray dec2 = decodeBase64(c.p);
		VF_CHECK(S(dec2) == data, "decodeBase64(const char*) != x");
		ByteArray dec3 = decodeBase64(c.p, (int)want.size());
		VF_CHECK(S(dec3) == data, "decodeBase64(const char*, n) != x");
	}
	if (!o.a.empty()) {
		std::string w = insert_ws(want, o.a);
		ExactC c(w);
		ByteArray dec4 = decodeBase64(c.p);
		VF_CHECK(S(dec4) == data, "decodeBase64 with whitespace != x: ", vf::show(w));
		ByteArray dec5 = decodeBase64(String(w.c_str()));
		VF_CHECK(S(dec5) == data, "decodeBase64(String with whitespace) != x: ", vf::show(w));
	}
	// hex
	std::string hx = ref::hex(data);
	String eh = encodeHex(ba);
	VF_CHECK(S(eh) == hx, "encodeHex got ", vf::show(S(eh)), " want ", vf::show(hx));
	VF_CHECK((int)strlen(*eh) == eh.length(), "encodeHex result length/terminator");
	String eh2 = encodeHex((const byte*)data.data(), (int)data.size());
	VF_CHECK(S(eh2) == hx, "encodeHex(ptr,n)");
	ByteArray dh = decodeHex(eh);
	VF_CHECK(S(dh) == data, "decodeHex(encodeHex(x)) != x");
	{
		dh << (byte)0xa5;
		ByteArray again = decodeHex(eh);
		VF_CHECK(S(again) == data, "decodeHex(encodeHex(x)) != x after the caller appended a byte to the result of an earlier identical call");
	}
	std::string up = hx;
	for (auto& ch : up)
		ch = (char)toupper(ch);
	ByteArray dh2 = decodeHex(String(up.c_str()));
	VF_CHECK(S(dh2) == data, "decodeHex(upper-case hex) != x");
}

static bool url_allowed(unsigned char c, bool component)
{
	if (isalnum(c))
		return true;
	return strchr(component ? "-_.!~*'()" : "-_.!~*'();/?:@&=+$,#", c) != 0 && c != 0;
}

static void op_url(const vf::Op& o)
{
	const std::string& s = o.str(0); // any bytes, NUL included (a String built with String(ptr, n) holds them)
	bool component = o.i(0) != 0;
	String in(s.data(), (int)s.size());
	String e = Url::encode(in, component);
	std::string es = S(e);
	VF_CHECK((int)strlen(*e) == e.length(), "Url::encode length/terminator");
	// output consists of allowed characters and %XX only, and denotes s
	for (size_t i = 0; i < es.size(); i++) {
		unsigned char c = es[i];
		if (c == '%') {
			VF_CHECK(i + 2 < es.size() && isxdigit((unsigned char)es[i + 1]) && isxdigit((unsigned char)es[i + 2]), "bad escape in ", vf::show(es));
			i += 2;
		}
		else
			VF_CHECK(url_allowed(c, component), "char ", (int)c, " left unencoded in ", vf::show(es));
	}
	VF_CHECK(ref::pct_decode(es) == s, "reference decoder disagrees on ", vf::show(es));
	// characters that must be escaped in this mode are escaped (no over-permissive pass-through is covered above);
	// unreserved characters are never escaped
	String d = Url::decode(e);
	VF_CHECK(S(d) == s, "Url::decode(Url::encode(s)) != s for ", vf::show(s), " mode ", component, " enc ", vf::show(es), " got ", vf::show(S(d)));
	VF_CHECK(d.length() == (int)s.size() && (*d)[d.length()] == 0, "Url::decode length/terminator");
}

static void op_query(const vf::Case& c)
{
	Dic<> d;
	std::map<std::string, std::string> m;
	for (auto& o : c.ops) {
		if (o.name != "kv" || o.str(0).empty())
			continue;
		// values may hold any byte; keys are kept NUL-free: Dic orders its keys as C strings, so two keys that differ only behind a
		// NUL are ONE key to the dictionary itself (Map/String semantics, not this property's subject)
		std::string key = o.str(0);
		for (auto& ch : key)
			if (ch == 0)
				ch = 'N';
		d[String(key.data(), (int)key.size())] = String(o.str(1).data(), (int)o.str(1).size());
		m[key] = o.str(1);
	}
	String q = Url::params(d);
	Dic<> back = Url::parseQuery(q);
	VF_CHECK(back.length() == (int)m.size(), "parseQuery(params(d)) has ", back.length(), " entries, want ", m.size(), " query ", vf::show(S(q)));
	for (auto& kv : m) {
		String k(kv.first.data(), (int)kv.first.size());
		VF_CHECK(back.has(k), "key lost: ", vf::show(kv.first), " query ", vf::show(S(q)));
		VF_CHECK(S(back[k]) == kv.second, "value changed for key ", vf::show(kv.first), ": got ", vf::show(S(back[k])), " want ", vf::show(kv.second));
	}
}

static void op_sha1(const vf::Op& o)
{
	const std::string& m = o.str(0);
	std::string want = ref::Sha1::hash(m);
	SHA1::Hash h1 = SHA1::hash((const byte*)m.data(), (int)m.size());
	VF_CHECK(std::string((const char*)(const byte*)h1, 20) == want, "SHA1::hash(ptr,len) len=", m.size(), " got ", ref::hex(std::string((const char*)(const byte*)h1, 20)), " want ", ref::hex(want));
	SHA1::Hash h2 = SHA1::hash(BA(m));
	VF_CHECK(std::string((const char*)(const byte*)h2, 20) == want, "SHA1::hash(ByteArray) len=", m.size());
	{
		// the fixed-size-array overloads of the encoders, as used on a digest (WebSocket accept keys are made this way)
		String hx = encodeHex(h2);
		VF_CHECK(S(hx) == ref::hex(want), "encodeHex(SHA1::Hash) = ", vf::show(S(hx)), " want ", ref::hex(want));
		String b64 = encodeBase64(h2);
		VF_CHECK(S(b64) == ref::base64(want), "encodeBase64(SHA1::Hash) = ", vf::show(S(b64)), " want ", ref::base64(want));
	}
	{
		// a String may hold any byte (built with String(ptr, n)): its overload must hash all of them
		SHA1::Hash h5 = SHA1::hash(String(m.data(), (int)m.size()));
		VF_CHECK(std::string((const char*)(const byte*)h5, 20) == want, "SHA1::hash(String built from ", m.size(), " bytes", m.find('\0') != std::string::npos ? " incl. a NUL" : "", ")");
	}
	if (m.find('\0') == std::string::npos) {
		ExactC c(m);
		SHA1::Hash h3 = SHA1::hash(c.p);
		VF_CHECK(std::string((const char*)(const byte*)h3, 20) == want, "SHA1::hash(const char*) len=", m.size());
		SHA1::Hash h4 = SHA1::hash(String(c.p));
		VF_CHECK(std::string((const char*)(const byte*)h4, 20) == want, "SHA1::hash(String) len=", m.size());
	}
}

// SHA1::hash is a pure function of its message: also when several threads hash their own messages at the same time
// sha1mt nthreads rounds | message   (thread k hashes message + k bytes of padding so the block edges differ per thread)
static void op_sha1mt(const vf::Op& o)
{
	int nth = (int)(o.i(0) < 2 ? 2 : o.i(0) > 16 ? 16 : o.i(0));
	int rounds = (int)(o.i(1) < 1 ? 1 : o.i(1) > 2000 ? 2000 : o.i(1));
	const std::string& base = o.str(0);
	std::vector<std::string> msg(nth), want(nth), bad(nth);
	for (int k = 0; k < nth; k++) {
		msg[k] = base + std::string((size_t)k * 7, (char)('a' + k));
		want[k] = ref::Sha1::hash(msg[k]);
	}
	std::atomic<int> go{0};
	std::vector<std::thread> ths;
	for (int k = 0; k < nth; k++)
		ths.emplace_back([&, k]() {
			go++;
			while (go < nth) {
			}
			for (int r = 0; r < rounds && bad[k].empty(); r++) {
				SHA1::Hash h = r % 2 ? SHA1::hash(BA(msg[k])) : SHA1::hash((const byte*)msg[k].data(), (int)msg[k].size());
				std::string got((const char*)(const byte*)h, 20);
				if (got != want[k])
					bad[k] = vf::str("thread ", k, " round ", r, ": SHA1::hash of its ", msg[k].size(), "-byte message is ", ref::hex(got), ", FIPS 180-4 says ", ref::hex(want[k]));
			}
		});
	for (auto& t : ths)
		t.join();
	for (int k = 0; k < nth; k++)
		VF_CHECK(bad[k].empty(), nth, " threads hashing their own messages concurrently: ", bad[k]);
}

// hostile Base64 text (NUL-free): terminates, in bounds (ASan), non-negative length
static void op_b64h(const vf::Op& o)
{
	const std::string& t = o.str(0);
	ExactC c(t);
	ByteArray a = decodeBase64(c.p);
	VF_CHECK(a.length() >= 0, "decodeBase64(", vf::show(t), ") has length ", a.length());
	VF_CHECK(a.length() <= (int)t.size(), "decodeBase64 result longer than its input");
	ByteArray b = decodeBase64(String(c.p));
	VF_CHECK(b.length() >= 0, "decodeBase64(String ", vf::show(t), ") has length ", b.length());
	ByteArray d = decodeBase64(c.p, (int)t.size());
	VF_CHECK(d.length() >= 0, "decodeBase64(ptr,n ", vf::show(t), ") has length ", d.length());
	// touch every byte of the result (it must be live storage)
	unsigned sum = 0;
	for (int i = 0; i < a.length(); i++)
		sum += a[i];
	for (int i = 0; i < b.length(); i++)
		sum += b[i];
	(void)sum;
	// the three overloads agree, and the result belongs to the caller: appending to it does not change the next call's result
	VF_CHECK(S(a) == S(b) && S(a) == S(d), "decodeBase64 overloads disagree on ", vf::show(t), ": lengths ", a.length(), " ", b.length(), " ", d.length());
	std::string first = S(a);
	a << (byte)0xa5 << (byte)0x5a;
	ByteArray a2 = decodeBase64(c.p);
	VF_CHECK(S(a2) == first, "decodeBase64(", vf::show(t), ") returned ", a2.length(), " bytes after the caller appended 2 bytes to the result of an earlier identical call (", first.size(), " bytes before)");
}

static void op_hexh(const vf::Op& o)
{
	const std::string& t = o.str(0);
	ByteArray a = decodeHex(String(t.c_str()));
	VF_CHECK(a.length() >= 0, "decodeHex(", vf::show(t), ") has length ", a.length());
	VF_CHECK(a.length() <= (int)t.size(), "decodeHex result longer than its input");
	unsigned sum = 0;
	for (int i = 0; i < a.length(); i++)
		sum += a[i];
	(void)sum;
	// on well-formed even-length hex the value is the reference one
	bool wf = t.size() % 2 == 0;
	for (unsigned char ch : t)
		if (!isxdigit(ch))
			wf = false;
	if (wf) {
		std::string low = t;
		for (auto& ch : low)
			ch = (char)tolower(ch);
		VF_CHECK(ref::hex(S(a)) == low, "decodeHex(", vf::show(t), ") wrong value");
	}
	{
		// the result belongs to the caller
		std::string first = S(a);
		a << (byte)0xa5;
		ByteArray a2 = decodeHex(String(t.c_str()));
		VF_CHECK(S(a2) == first, "decodeHex(", vf::show(t), ") changed after the caller appended a byte to the result of an earlier identical call");
	}
}

// Url::decode on arbitrary NUL-free text: total and in bounds; equals the reference on well-formed input
static void op_pcth(const vf::Op& o)
{
	const std::string& t = o.str(0);
	String* in = new String(t.c_str()); // heap object: inline storage ends near the block end
	String d = Url::decode(*in);
	VF_CHECK(d.length() >= 0 && d.length() <= (int)t.size(), "Url::decode length ", d.length(), " for input of ", t.size());
	bool wf = true;
	for (size_t i = 0; i < t.size(); i++)
		if (t[i] == '%') {
			if (i + 2 < t.size() && isxdigit((unsigned char)t[i + 1]) && isxdigit((unsigned char)t[i + 2]) && !(t[i + 1] == '0' && t[i + 2] == '0'))
				i += 2;
			else
				wf = false;
		}
	if (wf)
		VF_CHECK(S(d) == ref::pct_decode(t), "Url::decode(", vf::show(t), ") = ", vf::show(S(d)));
	delete in;
}

void vf_run_case(const std::string& part, const vf::Case& c)
{
	check_early();
	if (part == "query") {
		op_query(c);
		return;
	}
	for (auto& o : c.ops) {
		if (o.name == "b64")
			op_b64(o);
		else if (o.name == "url")
			op_url(o);
		else if (o.name == "sha1")
			op_sha1(o);
		else if (o.name == "sha1mt")
			op_sha1mt(o);
		else if (o.name == "b64h")
			op_b64h(o);
		else if (o.name == "hexh")
			op_hexh(o);
		else if (o.name == "pcth")
			op_pcth(o);
	}
}

// ---------------------------------------------------------------------------------------------

static bool run1(const std::string& part, const vf::Op& o)
{
	vf::Case c;
	c.ops.push_back(o);
	return vf::runner().run(part, c);
}

static void enumerate_alphabet(const std::string& part, const std::string& opname, const std::vector<std::string>& alphabet, int maxlen,
                               const vf::Args& a, std::function<bool(const std::string&)> nontrivial)
{
	// all strings of length <= maxlen over the alphabet; workers split the space by index stride
	uint64_t idx = 0, ran = 0, nt = 0;
	size_t A = alphabet.size();
	for (int len = 0; len <= maxlen; len++) {
		uint64_t total = 1;
		for (int i = 0; i < len; i++)
			total *= A;
		for (uint64_t k = 0; k < total; k++, idx++) {
			if ((int)(idx % (uint64_t)a.workers) != a.worker)
				continue;
			std::string s;
			uint64_t v = k;
			for (int i = 0; i < len; i++) {
				s += alphabet[v % A];
				v /= A;
			}
			vf::Op o(opname);
			o.s.push_back(s);
			if (!run1(part, o))
				return;
			ran++;
			if (nontrivial(s)) {
				nt++;
				if (nt % 50021 == 1)
					vf::stats().sample(part + ": " + vf::show(s));
			}
		}
	}
	vf::stats().nt_counted(nt);
	vf::stats().cls(part + ".enumerated", ran);
	vf::stats().part(part + ".enum(len<=" + std::to_string(maxlen) + ")", ran, a.workers == 1 || true);
}

void vf_search(const vf::Args& a)
{
	using namespace rc;
	ref::SplitMix rng(a.seed * 1000 + a.worker);

	// (1) every length 0..1024: Base64 + hex round trips and reference equality
	[&]() {
		int per = (int)a.n(1, 4);
		uint64_t n = 0;
		for (int len = 0; len <= 1024; len++)
			for (int r = 0; r < per; r++) {
				vf::Op o("b64");
				o.s.push_back(rng.bytes(len));
				int nws = (int)rng.below(6);
				for (int i = 0; i < nws; i++)
					o.a.push_back((long long)rng.below(100000));
				if (!run1("b64", o))
					return;
				n++;
				if (len % 3 != 0)
					vf::stats().nt(vf::fnv(o.s[0]));
				vf::stats().cls(len % 3 == 0 ? "b64.tail0" : len % 3 == 1 ? "b64.tail1" : "b64.tail2");
				if (len == 5 && r == 0)
					vf::stats().sample("b64: bytes " + vf::hexs(o.s[0]) + " -> " + ref::base64(o.s[0]));
			}
		vf::stats().part("b64.every_length_0..1024", n, false);
		// sampled big lengths
		std::vector<int> big = {4095, 4096, 4097, 65535, 65536, 65537, 1 << 20};
		if (!a.quick()) {
			big.push_back((4 << 20) - 1);
			big.push_back(4 << 20);
			big.push_back((4 << 20) + 1);
		}
		for (int len : big) {
			if ((len % a.workers) != a.worker && a.workers > 1 && len > 100000)
				continue;
			vf::Op o("b64");
			o.s.push_back(rng.bytes(len));
			o.a = {17, 4242, 99991};
			if (!run1("b64", o))
				return;
			vf::stats().nt(vf::fnv(o.s[0]));
			vf::stats().cls("b64.big");
		}
	}();
	// (2) rapidcheck: arbitrary byte arrays with generated whitespace positions (shrinkable)
	[&]() {
		auto g = gen::map(gen::pair(gen::container<std::vector<int>>(vf::irange<int>(0, 255)), gen::container<std::vector<int>>(vf::irange<int>(0, 5000))),
		                  [](const std::pair<std::vector<int>, std::vector<int>>& p) {
			                  vf::Op o("b64");
			                  std::string s;
			                  for (int v : p.first)
				                  s += (char)v;
			                  o.s.push_back(s);
			                  for (size_t i = 0; i < p.second.size() && i < 8; i++)
				                  o.a.push_back(p.second[i]);
			                  vf::Case c;
			                  c.ops.push_back(o);
			                  return c;
		                  });
		if (!vf::check_cases("b64", a.n(3000, 40000), 300, g, [](const vf::Case& c) {
			    if (c.ops[0].str(0).size() % 3)
				    vf::stats().nt(vf::fnv(c.ops[0].str(0)));
			    vf::stats().cls(c.ops[0].a.empty() ? "b64.rc.nows" : "b64.rc.ws");
		    }))
			return;
	}();
	// (3) SHA-1: every message length 0..260, several contents each; sampled big
	[&]() {
		int per = (int)a.n(8, 32);
		uint64_t n = 0;
		for (int len = 0; len <= 260; len++)
			for (int r = 0; r < per; r++) {
				vf::Op o("sha1");
				// NUL-free in half of the cases so that the C-string and String overloads are exercised
				o.s.push_back(r % 2 ? rng.bytes(len, 1, 255) : rng.bytes(len));
				if (!run1("sha1", o))
					return;
				n++;
				int m = len % 64;
				if (m >= 55 || m <= 0)
					vf::stats().nt(vf::fnv(o.s[0]));
				vf::stats().cls(m < 55 ? "sha1.pad_same_block" : m < 56 ? "sha1.pad_exact" : "sha1.pad_extra_block");
				if (len == 3 && r == 1)
					vf::stats().sample("sha1: msg " + vf::hexs(o.s[0]) + " -> " + ref::hex(ref::Sha1::hash(o.s[0])));
			}
		vf::stats().part("sha1.every_length_0..260", n, false);
		std::vector<int> big = {1000, 4095, 4096, 65535, 65536, 1000003};
		if (!a.quick()) {
			big.push_back(8 << 20);
			big.push_back((8 << 20) - 9);
			big.push_back((8 << 20) + 55);
		}
		for (int len : big) {
			vf::Op o("sha1");
			o.s.push_back(rng.bytes(len, 1, 255));
			if (!run1("sha1", o))
				return;
			vf::stats().nt(vf::fnv(o.s[0]));
			vf::stats().cls("sha1.big");
		}
		// several threads hashing their own messages at once (lengths around the padding edges; 2-8 threads)
		{
			static const int L[] = {0, 3, 55, 56, 63, 64, 119, 120, 260, 4096, 65553};
			int reps = (int)a.n(1, 6);
			for (int r = 0; r < reps; r++)
				for (int len : L) {
					vf::Op o("sha1mt", {2 + (long long)rng.below(7), len > 4000 ? 40 : 300});
					o.s.push_back(rng.bytes(len));
					if (!run1("sha1mt", o))
						return;
					vf::stats().nt(vf::fnv(o.s[0]) ^ 0x5a);
					vf::stats().cls("sha1.concurrent_hashing_cases");
				}
		}
		auto g = gen::map(gen::container<std::vector<int>>(vf::irange<int>(0, 255)), [](const std::vector<int>& v) {
			vf::Op o("sha1");
			std::string s;
			for (int x : v)
				s += (char)x;
			o.s.push_back(s);
			vf::Case c;
			c.ops.push_back(o);
			return c;
		});
		if (!vf::check_cases("sha1", a.n(2000, 30000), 400, g, [](const vf::Case& c) {
			    size_t m = c.ops[0].str(0).size() % 64;
			    if (m >= 55 || m == 0)
				    vf::stats().nt(vf::fnv(c.ops[0].str(0)));
		    }))
			return;
	}();
	// (4) percent-encoding round trip, both modes, all byte values
	[&]() {
		auto g = gen::map(gen::pair(gen::container<std::vector<int>>(gen::oneOf(vf::irange<int>(0, 255), gen::elementOf(std::vector<int>{'%', '+', ' ', '&', '=', '/', '?', '#', '~', 0x7f, 0x80, 0xff, '%', '2', 'e', 0}))),
		                            vf::irange<int>(0, 1)),
		                  [](const std::pair<std::vector<int>, int>& p) {
			                  vf::Op o("url");
			                  std::string s;
			                  for (int x : p.first)
				                  s += (char)x;
			                  o.s.push_back(s);
			                  o.a.push_back(p.second);
			                  vf::Case c;
			                  c.ops.push_back(o);
			                  return c;
		                  });
		if (!vf::check_cases("url", a.n(6000, 100000), 200, g, [](const vf::Case& c) {
			    const std::string& s = c.ops[0].str(0);
			    bool special = false;
			    for (unsigned char ch : s)
				    if (!isalnum(ch))
					    special = true;
			    if (special)
				    vf::stats().nt(vf::fnv(s, c.ops[0].i(0)));
			    vf::stats().cls(c.ops[0].i(0) ? "url.component" : "url.uri");
		    }))
			return;
		// every length 0..1100 (internal buffers of any size are crossed): text that needs no escape at all, text that is
		// escaped throughout, and random bytes
		{
			uint64_t m = 0;
			for (int len = 0; len <= 1100; len++)
				for (int kind = 0; kind < 3; kind++) {
					std::string t = kind == 0 ? rng.bytes(len, 'a', 'z') : kind == 1 ? rng.bytes(len, 0x80, 0xff) : rng.bytes(len);
					vf::Op o("url", {(long long)(len + kind) % 2}, {t});
					if (!run1("url", o))
						return;
					m++;
					if (kind)
						vf::stats().nt(vf::fnv(t, kind));
				}
			vf::stats().part("url.every_length_0..1100", m, false);
		}
		// every single byte and every pair from a hot alphabet, both modes
		uint64_t n = 0;
		std::string hot("%+ &=/?#a0~\x7f\x80\xff\0", 15);
		for (int mode = 0; mode < 2; mode++) {
			for (int b = 0; b < 256; b++) {
				vf::Op o("url", {mode}, {std::string(1, (char)b)});
				if (!run1("url", o))
					return;
				n++;
			}
			for (char x : hot)
				for (char y : hot)
					for (char z : hot) {
						vf::Op o("url", {mode}, {std::string() + x + y + z});
						if (!run1("url", o))
							return;
						n++;
					}
		}
		vf::stats().nt_counted(n);
		vf::stats().part("url.all_single_bytes_and_hot_triples", n, true);
	}();
	// (5) query dictionaries
	[&]() {
		auto str = gen::map(gen::container<std::vector<int>>(gen::oneOf(vf::irange<int>(0, 255), gen::elementOf(std::vector<int>{'%', '+', ' ', '&', '=', 0xc3, 0xa9, 0}))), [](const std::vector<int>& v) {
			std::string s;
			for (int x : v)
				s += (char)x;
			return s;
		});
		auto g = gen::map(gen::container<std::vector<std::pair<std::string, std::string>>>(gen::pair(gen::nonEmpty(str), str)), [](const std::vector<std::pair<std::string, std::string>>& v) {
			vf::Case c;
			for (auto& kv : v) {
				vf::Op o("kv");
				o.s = {kv.first, kv.second};
				c.ops.push_back(o);
			}
			return c;
		});
		if (!vf::check_cases("query", a.n(4000, 60000), 40, g, [](const vf::Case& c) {
			    if (c.ops.size() >= 2)
				    vf::stats().nt(vf::fnv(vf::serialize(c)));
			    vf::stats().cls(c.ops.empty() ? "query.empty" : c.ops.size() == 1 ? "query.one" : "query.many");
			    if (c.ops.size() == 3)
				    vf::stats().sample("query: " + vf::serialize(c), 8);
		    }))
			return;
	}();
	// (6) hostile decoders, enumerated
	[&]() {
		std::vector<std::string> b64a = {"A", "z", "9", "+", "/", "=", " ", "\n", "*", "\x80"};
		enumerate_alphabet("b64h", "b64h", b64a, a.quick() ? 6 : 8, a, [](const std::string& s) {
			size_t p = s.find('=');
			return p != std::string::npos && p + 1 < s.size(); // '=' not at the end
		});
		std::vector<std::string> hexa = {"0", "9", "a", "F", "g", " "};
		enumerate_alphabet("hexh", "hexh", hexa, a.quick() ? 6 : 8, a, [](const std::string& s) { return s.size() % 2 == 1 || s.find('g') != std::string::npos; });
		std::vector<std::string> pcta = {"%", "4", "a", "G", "0", "z", "+"};
		enumerate_alphabet("pcth", "pcth", pcta, a.quick() ? 6 : 8, a, [](const std::string& s) { return s.find('%') != std::string::npos; });
		// random longer hostile strings
		auto mk = [](const char* opname, std::vector<int> alpha) {
			return gen::map(gen::container<std::vector<int>>(gen::oneOf(gen::elementOf(alpha), vf::irange<int>(1, 255))), [=](const std::vector<int>& v) {
				vf::Op o(opname);
				std::string s;
				for (int x : v)
					s += (char)x;
				o.s.push_back(s);
				vf::Case c;
				c.ops.push_back(o);
				return c;
			});
		};
		auto ntf = [](const vf::Case& c) {
			if (c.ops[0].str(0).size() > 8)
				vf::stats().nt(vf::fnv(c.ops[0].str(0)));
		};
		if (!vf::check_cases("b64h", a.n(4000, 100000), 300, mk("b64h", {'A', 'z', '9', '+', '/', '=', '=', ' ', '\n', '*', 0x80}), ntf))
			return;
		if (!vf::check_cases("hexh", a.n(4000, 100000), 300, mk("hexh", {'0', '9', 'a', 'F', 'g', ' ', 'x'}), ntf))
			return;
		if (!vf::check_cases("pcth", a.n(4000, 100000), 300, mk("pcth", {'%', '%', '4', 'a', 'G', '0', 'z'}), ntf))
			return;
	}();
}
