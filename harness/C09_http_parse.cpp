// C09 -- HTTP request parsing is total and safe and never yields a path containing "..".
//
// Every stream is fed to HttpServer's connection loop in-process: one end of a socketpair is wrapped in a Socket and
// passed to the public base entry static_cast<SocketServer&>(srv).serve(Socket(fd)); the other end has been written and
// ended (half-closed or closed) before the server runs.  A recording subclass notes what the application is handed.
//
// parts (op grammar in vf_run_case):
//   hostile   structure-aware hostile streams (PRNG-built protocol lines written into the case as `raw` ops, mutations, cut)
//   fidelity  well-formed requests as sent (semantic description + encoding choices -> reference writer), 1-3 per stream,
//             the complete stream and every cut offset
//   fragments pipelined keep-alive streams as in fidelity, delivered to the server in 2..6 separate bursts by a feeder
//   badline   well-formed request with one colon-less line in the header block: dropped, or handed over intact
//   targets   exhaustive request targets over the dot/slash/percent alphabets + random longer ones
//   files     static-file serving under a web root with Range / If-Modified-Since
//   url       Url(String) and Url::decode on strings over URL metacharacters; well-formed URLs against their parts
#include "common/vfrc.h"
#include "common/ref_http.h"
#include "common/ref_codec.h"
#include "C09_common.h"
#include <algorithm>

using namespace asl;
using c09::S;

const char* vf_harness_name() { return "C09_http_parse"; }

// ---------------------------------------------------------------------------------------------------------------
// hang bound: a stream costs ~0.1 ms (the peer has already ended it: no wait in the library can block), so 10 s is
// 10^4..10^5 x the expected time.  To keep a stalled machine (memory pressure, descheduling) from looking like a hang,
// the watchdog asks for 10 s of wall time of which >= 5 s were CPU time of the serving thread (a spin), or 60 s of
// wall time whatever the CPU time (a blocked wait).
static const double HANG_BOUND = 10.0, HANG_CPU = 5.0, HANG_BLOCKED = 60.0;
static bool g_search = false; // set by vf_search; a --replay run never calls it
static clockid_t g_main_cpu_clock;

static void watchdog()
{
	for (;;) {
		usleep(200000);
		double t0 = c09::serve_started().load();
		if (t0 == 0)
			continue;
		double wall = c09::mono() - t0;
		if (wall <= HANG_BOUND)
			continue;
		timespec ts;
		clock_gettime(g_main_cpu_clock, &ts);
		double cpu = ts.tv_sec + 1e-9 * ts.tv_nsec - c09::serve_cpu0().load();
		if (c09::serve_started().load() != t0)
			continue;
		if (cpu >= HANG_CPU || wall > HANG_BLOCKED) {
			char buf[300];
			snprintf(buf, sizeof buf, "the server's connection loop did not return within %.0f s (%.1f s of CPU time in the serving thread) although the peer had ended the stream "
			                          "(expected: well under a millisecond)", wall, cpu);
			std::string msg = buf;
			vf::Current& c = vf::current();
			std::string part = c.header.size() > 9 ? c.header.substr(9, c.header.size() - 10) : "";
			if (!g_search)
				printf("FAIL hang: %s\n", msg.c_str());
			else {
				vf::runner().failures++;
				vf::runner().save_failure(part, std::string(c.p ? c.p : "", c.n), "hang: " + msg);
				vf::stats().dump(true);
				printf("FAILED %s\n", vf::runner().first_failure.c_str());
			}
			fflush(stdout);
			_exit(1);
		}
	}
}
static void start_watchdog()
{
	static bool started = false;
	if (started)
		return;
	started = true;
	pthread_getcpuclockid(pthread_self(), &g_main_cpu_clock); // called from the thread that runs the cases
	std::thread(watchdog).detach();
}

// ---------------------------------------------------------------------------------------------------------------
// sanitizers: every op list denotes a valid case

static bool tchar(unsigned char c) { return isalnum(c) || (c && strchr("!#$%&'*+-.^_`|~", c)); }
static std::string san_token(const std::string& s, const char* def)
{
	std::string r;
	for (unsigned char c : s)
		if (tchar(c))
			r += (char)c;
	return r.empty() ? def : r;
}
static std::string san_path(const std::string& s)
{
	std::string r = "/";
	for (unsigned char c : s) {
		if (c == 0)
			continue;
		if (r.size() == 1 && c == '/' && r == "/")
			continue;
		if (c == '.' && r.back() == '.')
			c = 'x';
		r += (char)c;
	}
	return r;
}
static std::string san_nonul(const std::string& s)
{
	std::string r;
	for (char c : s)
		if (c)
			r += c;
	return r;
}
static std::string san_value(const std::string& s)
{
	std::string r;
	for (unsigned char c : s)
		if ((c >= 0x20 && c != 0x7f) || c == '\t')
			r += (char)c;
	size_t b = 0, e = r.size();
	while (b < e && (r[b] == ' ' || r[b] == '\t'))
		b++;
	while (e > b && (r[e - 1] == ' ' || r[e - 1] == '\t'))
		e--;
	return r.substr(b, e - b);
}
static std::string san_badline(const std::string& s)
{
	std::string r;
	for (unsigned char c : s)
		if (c >= 0x20 && c != 0x7f && c != ':')
			r += (char)c;
	r = san_value(r);
	return r.empty() ? "malformed" : r;
}
static bool reserved_name(const std::string& lower)
{
	return lower == "content-length" || lower == "transfer-encoding" || lower == "connection" || lower == "expect" || lower == "upgrade";
}

// ---------------------------------------------------------------------------------------------------------------
// case interpretation

struct Built {
	c09::Opts o;
	long long cut = -1; // -1 none, -2 sweep, >= 0 offset
	bool frag = false;  // fragmented delivery of the complete stream
	int frag_pause_us = 1000;
	unsigned sigmask = 0; // bit i: a signal hits the serving thread after burst i
	std::vector<long long> frag_at; // piece boundaries (taken modulo the stream length)
	std::string rawstream;
	bool any_raw = false;
	std::vector<refhttp::Request> reqs;
	std::vector<refhttp::Wire> wires;
	std::string stream;
};

static void build(const vf::Case& c, Built& b)
{
	for (auto& op : c.ops) {
		if (op.name == "cfg") {
			b.o.closemode = (int)(op.i(0) & 1);
			b.o.respmode = (int)(((op.i(1) % 6) + 6) % 6);
			b.cut = op.i(2, -1);
			b.o.cors = op.i(3) != 0;
		}
		else if (op.name == "frag") {
			b.frag = true;
			long long p = op.i(0, 1000);
			b.frag_pause_us = (int)(p < 0 ? 0 : p > 20000 ? 20000 : p);
			for (size_t i = 1; i < op.a.size() && i <= 5; i++)
				b.frag_at.push_back(op.a[i]);
		}
		else if (op.name == "sig")
			b.sigmask = (unsigned)(op.i(0) & 31);
		else if (op.name == "raw") {
			b.rawstream += op.str(0);
			b.any_raw = true;
		}
		else if (op.name == "tgt") {
			b.rawstream += "GET " + op.str(0) + " HTTP/1.1\r\n\r\n";
			b.any_raw = true;
		}
		else if (op.name == "req") {
			refhttp::Request q;
			q.http10 = op.i(0) != 0;
			q.enc_seed = (uint64_t)op.i(1);
			q.fragmode = (int)(((op.i(2) % 3) + 3) % 3);
			q.method = san_token(op.str(0), "GET");
			q.path = san_path(op.str(1));
			q.fragment = san_nonul(op.str(2));
			b.reqs.push_back(q);
		}
		else if (b.reqs.empty())
			continue;
		else if (op.name == "q") {
			auto& q = b.reqs.back();
			std::string k = san_nonul(op.str(0));
			if (k.empty())
				k = "k";
			for (bool dup = true; dup;) {
				dup = false;
				for (auto& kv : q.query)
					if (kv.first == k)
						dup = true;
				if (dup)
					k += std::to_string(q.query.size());
			}
			q.query.push_back({k, san_nonul(op.str(1))});
		}
		else if (op.name == "h") {
			auto& q = b.reqs.back();
			refhttp::Header h;
			h.ows_before = (int)op.i(0, 1);
			h.ows_after = (int)op.i(1);
			h.case_seed = (uint64_t)op.i(2);
			h.lookup_seed = (uint64_t)op.i(3, 1);
			h.name = san_token(op.str(0), "X");
			if (reserved_name(refhttp::lower(h.name)))
				h.name = "X-" + h.name;
			for (bool dup = true; dup;) {
				dup = false;
				for (auto& o2 : q.headers)
					if (refhttp::lower(o2.name) == refhttp::lower(h.name))
						dup = true;
				if (dup)
					h.name += std::to_string(q.headers.size());
			}
			h.value = san_value(op.str(1));
			for (size_t i = 2; i < op.s.size() && i < 5; i++) {
				std::string f = san_value(op.s[i]);
				h.folds.push_back(f.empty() ? "f" : f);
			}
			q.headers.push_back(h);
		}
		else if (op.name == "body") {
			auto& q = b.reqs.back();
			q.body_kind = (int)(((op.i(0) % 3) + 3) % 3);
			q.chunk_seed = (uint64_t)op.i(1);
			q.body = q.body_kind ? op.str(0) : std::string();
		}
		else if (op.name == "conn")
			b.reqs.back().conn = (int)(((op.i(0) % 4) + 4) % 4);
		else if (op.name == "expect")
			b.reqs.back().expect = true;
		else if (op.name == "bad") {
			b.reqs.back().bad_pos = (int)op.i(0);
			b.reqs.back().bad_line = san_badline(op.str(0));
		}
	}
	size_t at = 0;
	for (auto& q : b.reqs) {
		refhttp::Wire w = refhttp::write_request(q, at);
		at = w.end;
		b.stream += w.bytes;
		b.wires.push_back(w);
		c09::Plan p;
		for (auto& h : q.headers)
			p.hnames.push_back(refhttp::recase(h.name, h.lookup_seed));
		for (auto& kv : q.query)
			p.qkeys.push_back(kv.first);
		// names that were not sent: one that sorts before every likely key, one that sorts late
		auto absent_key = [&](std::string k, char pad) {
			for (bool dup = true; dup;) {
				dup = false;
				for (auto& kv : q.query)
					if (kv.first == k)
						dup = true;
				if (dup)
					k += pad;
			}
			return k;
		};
		p.qabsent.push_back(absent_key("\x01", '\x01'));
		if (q.enc_seed % 2)
			p.qabsent.push_back(absent_key("zz-not-there", 'z'));
		std::string hn = "x-not-there";
		for (bool dup = true; dup;) {
			dup = false;
			for (auto& h : q.headers)
				if (refhttp::lower(h.name) == hn)
					dup = true;
			if (dup)
				hn += "e";
		}
		p.habsent.push_back(hn);
		b.o.plans.push_back(p);
	}
}

static void universal(const c09::Result& r, const std::string& stream, const std::string& what)
{
	c09::check_universal(r, stream, [&](const std::string& m) { VF_FAIL(m, " [", what, "]"); });
}

// the application was handed request `s`; it must be request `q` as sent.  partial: the stream ended inside q's body.
static void match(const c09::Seen& s, const refhttp::Request& q, size_t idx, bool partial, const std::string& what)
{
	std::string w = "request #" + std::to_string(idx) + " " + what + ": ";
	VF_CHECK(s.method == q.method, w, "method ", vf::show(s.method), " sent ", vf::show(q.method));
	VF_CHECK(s.path == q.path, w, "path ", vf::show(s.path), " sent (decoded) ", vf::show(q.path), " as ", vf::show(refhttp::target_of(q)));
	VF_CHECK(s.proto == (q.http10 ? "HTTP/1.0" : "HTTP/1.1"), w, "protocol ", vf::show(s.proto));
	if (q.fragmode == 2) // "path#frag?k=v": the '?' belongs to the fragment (RFC 3986), no query was sent
		VF_CHECK(s.query.empty(), w, "query parameters reported although the '?' is inside the fragment: ", vf::show(s.querystring));
	else {
		VF_CHECK(s.query.size() == q.query.size(), w, s.query.size(), " query parameters, sent ", q.query.size(), " in ", vf::show(refhttp::target_of(q)));
		for (size_t i = 0; i < q.query.size(); i++) {
			VF_CHECK(i < s.qlook.size() && s.qlook[i] == q.query[i].second, w, "query(", vf::show(q.query[i].first), ") = ",
			         vf::show(i < s.qlook.size() ? s.qlook[i] : "?"), " sent ", vf::show(q.query[i].second), " in ", vf::show(refhttp::target_of(q)));
			auto it = s.query.find(q.query[i].first);
			VF_CHECK(it != s.query.end() && it->second == q.query[i].second, w, "query() dictionary entry ", vf::show(q.query[i].first), " (enumerated after the lookups)");
			VF_CHECK(i < s.qlook_after.size() && s.qlook_after[i] == q.query[i].second, w, "the reference returned by query(", vf::show(q.query[i].first), ") reads ",
			         vf::show(i < s.qlook_after.size() ? s.qlook_after[i] : "?"), " after ", s.qabsent.size(), " lookup(s) of absent parameters, sent ", vf::show(q.query[i].second),
			         " (", q.query.size(), " parameters)");
		}
	}
	for (auto& v : s.qabsent)
		VF_CHECK(v.empty(), w, "query(k) for a parameter that was not sent returned ", vf::show(v));
	for (auto& v : s.habsent)
		VF_CHECK(v.empty(), w, "header(name) for a header that was not sent returned ", vf::show(v));
	VF_CHECK(s.query_before == s.query, w, "query() enumerates ", s.query.size(), " parameters after the lookups, ", s.query_before.size(), " before them, sent ", q.query.size());
	for (size_t i = 0; i < q.headers.size(); i++) {
		const refhttp::Header& h = q.headers[i];
		std::string got = i < s.hlook.size() ? s.hlook[i] : "?";
		VF_CHECK(i < s.hlook_after.size() && s.hlook_after[i] == got, w, "header(", vf::show(h.name), ") changed after the lookup of an absent header");
		if (h.folds.empty())
			VF_CHECK(got == h.value, w, "header(", vf::show(refhttp::recase(h.name, h.lookup_seed)), ") = ", vf::show(got), " sent ", vf::show(h.value),
			         " (optional whitespace before value: ", vf::show(refhttp::ows_b(h.ows_before)), ")");
		else {
			// obs-fold: line breaks + indentation stand for whitespace; compared modulo SP/HTAB (the property does not fix the joint)
			std::string want = h.value;
			for (auto& f : h.folds)
				want += f;
			VF_CHECK(refhttp::strip_ws(got) == refhttp::strip_ws(want), w, "folded header(", vf::show(h.name), ") = ", vf::show(got), " sent parts ",
			         vf::show(h.value), " + ", h.folds.size(), " continuation line(s), joined ", vf::show(want));
		}
	}
	auto hv = [&](const char* n) {
		auto it = s.headers.find(n);
		return it == s.headers.end() ? std::string("<absent>") : it->second;
	};
	if (q.body_kind == 1)
		VF_CHECK(hv("Content-Length") == std::to_string(q.body.size()), w, "Content-Length header ", vf::show(hv("Content-Length")));
	if (q.body_kind == 2)
		VF_CHECK(hv("Transfer-Encoding") == "chunked", w, "Transfer-Encoding header ", vf::show(hv("Transfer-Encoding")));
	if (q.conn)
		VF_CHECK(hv("Connection") == (q.conn == 1 ? "keep-alive" : q.conn == 2 ? "close" : "Keep-Alive"), w, "Connection header ", vf::show(hv("Connection")));
	if (q.expect)
		VF_CHECK(hv("Expect") == "100-continue", w, "Expect header");
	// no invented headers
	for (auto& kv : s.headers) {
		std::string l = refhttp::lower(kv.first);
		bool known = reserved_name(l);
		for (auto& h : q.headers)
			if (refhttp::lower(h.name) == l)
				known = true;
		VF_CHECK(known, w, "header ", vf::show(kv.first), ": ", vf::show(kv.second), " was not sent");
	}
	if (!partial)
		VF_CHECK(s.body == q.body, w, "body of ", s.body.size(), " bytes ", vf::show(s.body, 60), ", sent ", q.body.size(), " bytes ", vf::show(q.body, 60),
		         q.body_kind == 2 ? " (chunked)" : " (Content-Length)");
	else
		VF_CHECK(s.body.size() <= q.body.size() && q.body.compare(0, s.body.size(), s.body) == 0, w, "body of ", s.body.size(),
		         " bytes is not a prefix of the body being sent when the stream ended");
}

static size_t expected_until_close(const std::vector<refhttp::Request>& reqs, size_t upto)
{
	for (size_t i = 0; i < upto; i++)
		if (refhttp::closes(reqs[i]))
			return i + 1;
	return upto;
}

// stream = first `c` bytes of the full stream (c == stream.size(): complete)
static std::vector<size_t> frag_offsets(const Built& b)
{
	std::vector<size_t> at;
	size_t total = b.stream.size();
	for (long long v : b.frag_at) {
		size_t c = (size_t)(((v % (long long)(total + 1)) + (long long)(total + 1)) % (long long)(total + 1));
		if (c > 0 && c < total)
			at.push_back(c);
	}
	std::sort(at.begin(), at.end());
	at.erase(std::unique(at.begin(), at.end()), at.end());
	return at;
}

static void check_fidelity_at(const Built& b, size_t c, int closemode, const std::vector<size_t>* frag = 0)
{
	c09::Opts o = b.o;
	o.closemode = closemode;
	std::string st = b.stream.substr(0, c);
	c09::Result r;
	std::string what;
	bool signalled = false;
	if (frag) {
		std::vector<std::string> pieces;
		size_t prev = 0;
		what = "(complete stream delivered in " + std::to_string(frag->size() + 1) + " bursts split at";
		for (size_t at : *frag) {
			pieces.push_back(st.substr(prev, at - prev));
			prev = at;
			what += " " + std::to_string(at);
		}
		pieces.push_back(st.substr(prev));
		r = c09::run_stream_pieces(pieces, o, b.frag_pause_us, b.sigmask);
		what += " of " + std::to_string(st.size()) + "; " + std::to_string(r.bursts_separate) + " burst(s) consumed before the next was sent";
		if (r.signals) {
			// a handled signal may make the library give the connection up (it treats the interrupted wait as an error):
			// requests may then be missing from some point on, but whatever is handed over is exactly what was sent
			signalled = true;
			what += "; " + std::to_string(r.signals) + " signal(s) delivered to the serving thread between bursts (mask " + std::to_string(b.sigmask) + ")";
			vf::stats().cls("fragments.run.signals_delivered", (uint64_t)r.signals);
		}
		vf::stats().cls("fragments.run.bursts_sent", (uint64_t)r.bursts);
		vf::stats().cls("fragments.run.bursts_consumed_before_next", (uint64_t)r.bursts_separate);
	}
	else {
		r = c09::run_stream(st, o);
		what = c == b.stream.size() ? std::string("(complete stream") : "(stream cut at byte " + std::to_string(c) + " of " + std::to_string(b.stream.size());
	}
	what += closemode ? ", peer closed completely)" : ", peer half-closed)";
	universal(r, st, what);
	size_t n = b.reqs.size(), k = 0;
	while (k < n && b.wires[k].end <= c)
		k++;
	// requests 0..k-1 were delivered completely; request k (if any) partially or not at all
	size_t full = expected_until_close(b.reqs, k);
	bool more = full == k && k < n && c > b.wires[k].start; // a partial request follows on an open connection
	VF_CHECK(r.seen.size() <= full + (more ? 1 : 0), what, ": the application was handed ", r.seen.size(), " requests, only ", k, " were delivered completely",
	         more ? " (+1 partially)" : "", full < k ? " and the connection had to close after request #" + std::to_string(full - 1) : std::string());
	for (size_t i = 0; i < r.seen.size() && i < full; i++)
		match(r.seen[i], b.reqs[i], i, false, what);
	if (closemode == 0 && !signalled)
		VF_CHECK(r.seen.size() >= full, what, ": ", full, " well-formed request(s) were delivered completely but the application was handed only ", r.seen.size());
	if (signalled)
		vf::stats().cls(r.seen.size() >= full ? "fragments.run.signalled.all_requests_handed_over" : "fragments.run.signalled.connection_given_up");
	if (r.seen.size() == full + 1) {
		VF_CHECK(c >= b.wires[k].head_end, what, ": request #", k, " was handed to the application although the stream ended inside its head (head ends at byte ",
		         b.wires[k].head_end, ")");
		match(r.seen[k], b.reqs[k], k, true, what);
	}
}

static void run_fidelity(const Built& b, bool thorough)
{
	size_t total = b.stream.size();
	if (b.frag) {
		std::vector<size_t> at = frag_offsets(b);
		check_fidelity_at(b, total, 0, &at);
		return;
	}
	if (b.cut >= 0) {
		check_fidelity_at(b, (size_t)b.cut % (total + 1), b.o.closemode);
		return;
	}
	check_fidelity_at(b, total, 0);
	check_fidelity_at(b, total, 1);
	if (b.cut != -2)
		return;
	// every offset inside a head; body offsets: all if short, else the ends + a deterministic sample
	std::vector<size_t> cuts;
	size_t per_body = thorough ? 400 : 48;
	for (size_t k = 0; k < b.wires.size(); k++) {
		const refhttp::Wire& w = b.wires[k];
		for (size_t c = w.start; c <= w.head_end && c < total; c++)
			cuts.push_back(c);
		size_t bl = w.end - w.head_end;
		if (bl <= per_body)
			for (size_t c = w.head_end + 1; c < w.end; c++)
				cuts.push_back(c);
		else {
			refhttp::Rng rng(b.reqs[k].chunk_seed + 17 * k + bl);
			for (size_t i = 0; i < 8; i++) {
				cuts.push_back(w.head_end + 1 + i);
				cuts.push_back(w.end - 1 - i);
			}
			for (size_t i = 0; i < per_body - 16; i++)
				cuts.push_back(w.head_end + 1 + rng.below((unsigned)(bl - 1)));
		}
	}
	for (size_t i = 0; i < cuts.size(); i++)
		check_fidelity_at(b, cuts[i], (i % 7 == 3) ? 1 : 0);
	vf::stats().cls("fidelity.cut_streams", cuts.size());
}

// a colon-less line in the header block: the request is dropped (with everything after it) or handed over intact
static void run_badline(const Built& b)
{
	c09::Result r = c09::run_stream(b.stream, b.o);
	universal(r, b.stream, "(malformed header line)");
	size_t bad = b.reqs.size();
	for (size_t i = 0; i < b.reqs.size(); i++)
		if (!b.reqs[i].bad_line.empty()) {
			bad = i;
			break;
		}
	size_t full = expected_until_close(b.reqs, bad);
	VF_CHECK(r.seen.size() >= full || b.o.closemode == 1, "only ", r.seen.size(), " of ", full, " well-formed requests before the malformed one were handed over");
	for (size_t i = 0; i < r.seen.size() && i < b.reqs.size(); i++)
		match(r.seen[i], b.reqs[i], i, false,
		      i == bad ? "(its header block contains the colon-less line " + vf::show(b.reqs[i].bad_line) + ": it must be dropped or handed over with everything that was sent)"
		               : std::string("(stream with a malformed header line in request #") + std::to_string(bad) + ")");
	VF_CHECK(r.seen.size() <= b.reqs.size(), "more requests handed over than sent");
}

static void run_url(const vf::Op& op)
{
	const std::string& t = san_nonul(op.str(0));
	String* in = new String(t.c_str()); // heap object: short strings live inline, close to the end of the block
	{
		Url u(*in);
		auto inb = [&](const String& f, const char* n) {
			VF_CHECK(f.length() >= 0 && f.length() <= (int)t.size() + 1 && (int)strlen(*f) == f.length(), "Url(", vf::show(t), ").", n, " has length ", f.length(), " / strlen ",
			         strlen(*f));
		};
		inb(u.protocol, "protocol");
		inb(u.host, "host");
		inb(u.path, "path");
		String q = u.query();
		VF_CHECK(q.length() >= 0 && q.length() <= (int)t.size(), "Url::query length");
		Dic<> p = u.params();
		(void)p.length();
	}
	delete in;
}

static void run_urlwf(const vf::Op& op)
{
	refhttp::UrlParts u;
	for (unsigned char ch : op.str(0))
		if (isalpha(ch))
			u.protocol += (char)tolower(ch);
	bool v6 = op.i(1) != 0;
	for (unsigned char ch : op.str(1))
		if (v6 ? (isxdigit(ch) || ch == ':') : (isalnum(ch) || ch == '.' || ch == '-'))
			u.host += (char)ch;
	if (u.host.empty())
		u.host = v6 ? "::1" : "h";
	u.port = (int)(((op.i(0) % 65536) + 65536) % 65536);
	std::string p = san_nonul(op.str(2));
	if (!p.empty() && p[0] != '/')
		p = "/" + p;
	if (u.protocol.empty()) // without a scheme the first "://" would be taken for one
		for (size_t i; (i = p.find("://")) != std::string::npos;)
			p[i] = ';';
	u.path = p;
	std::string text = refhttp::write_url(u, v6);
	Url a(String(text.c_str()));
	VF_CHECK(S(a.protocol) == u.protocol, "Url(", vf::show(text), ").protocol = ", vf::show(S(a.protocol)));
	VF_CHECK(S(a.host) == u.host, "Url(", vf::show(text), ").host = ", vf::show(S(a.host)), " want ", vf::show(u.host));
	VF_CHECK(a.port == u.port, "Url(", vf::show(text), ").port = ", a.port, " want ", u.port);
	VF_CHECK(S(a.path) == (u.path.empty() ? "/" : u.path), "Url(", vf::show(text), ").path = ", vf::show(S(a.path)));
}

static void run_dec(const vf::Op& op)
{
	std::string t = san_nonul(op.str(0));
	String* in = new String(t.c_str());
	String d = Url::decode(*in);
	VF_CHECK(d.length() >= 0 && d.length() <= (int)t.size(), "Url::decode length ", d.length(), " for input of ", t.size(), ": ", vf::show(t));
	bool wf = true; // every '%' is followed by two hex digits
	for (size_t i = 0; i < t.size(); i++)
		if (t[i] == '%') {
			if (i + 2 < t.size() && isxdigit((unsigned char)t[i + 1]) && isxdigit((unsigned char)t[i + 2]))
				i += 2;
			else
				wf = false;
		}
	if (wf) {
		std::string want;
		auto v = [](char c) { return c <= '9' ? c - '0' : (c | 32) - 'a' + 10; };
		for (size_t i = 0; i < t.size(); i++)
			if (t[i] == '%') {
				want += (char)(v(t[i + 1]) * 16 + v(t[i + 2]));
				i += 2;
			}
			else
				want += t[i];
		VF_CHECK(S(d) == want, "Url::decode(", vf::show(t), ") = ", vf::show(S(d)), " want ", vf::show(want));
	}
	delete in;
}

static bool g_thorough = false;

void vf_run_case(const std::string& part, const vf::Case& c)
{
	start_watchdog();
	bool stream_ops = false;
	for (auto& op : c.ops) {
		if (op.name == "url")
			run_url(op);
		else if (op.name == "urlwf")
			run_urlwf(op);
		else if (op.name == "dec")
			run_dec(op);
		else
			stream_ops = true;
	}
	if (!stream_ops)
		return;
	Built b;
	build(c, b);
	if (!b.reqs.empty()) {
		bool bad = false;
		for (auto& q : b.reqs)
			if (!q.bad_line.empty())
				bad = true;
		if (bad)
			run_badline(b);
		else
			run_fidelity(b, g_thorough);
		return;
	}
	if (b.any_raw) {
		std::string st = b.rawstream;
		if (b.cut >= 0)
			st.resize((size_t)b.cut % (st.size() + 1));
		c09::Result r = c09::run_stream(st, b.o);
		universal(r, st, "stream " + vf::show(st, 300));
		if (r.bad_alloc)
			vf::stats().cls("bad_alloc(reservation>32MiB)");
	}
}

// ---------------------------------------------------------------------------------------------------------------
// search

struct PrngSrc {
	refhttp::Rng r;
	explicit PrngSrc(uint64_t seed) : r(seed) {}
	unsigned pick(unsigned n) { return r.below(n); }
	std::string bytes(unsigned maxlen)
	{
		unsigned n = r.below(maxlen + 1);
		std::string s;
		for (unsigned i = 0; i < n; i++) {
			unsigned k = r.below(8);
			s += k < 5 ? (char)(32 + r.below(95)) : (char)r.below(256);
		}
		return s;
	}
};

static vf::Op cfg(int closemode, int respmode, long long cut, int cors = 0) { return vf::Op("cfg", {closemode, respmode, cut, cors}); }

static rc::Gen<std::string> g_str(rc::Gen<int> byte, int maxlen)
{
	return rc::gen::mapcat(vf::srange<int>(0, maxlen), [=](int n) {
		return rc::gen::map(rc::gen::container<std::vector<int>>((size_t)n, byte), [](const std::vector<int>& v) {
			std::string s;
			for (int x : v)
				s += (char)x;
			return s;
		});
	});
}

static rc::Gen<int> g_textbyte()
{
	return rc::gen::weightedOneOf<int>({{8, vf::irange<int>('a', 'z')}, {2, vf::irange<int>(0x21, 0x7e)}, {1, rc::gen::element<int>(' ', '\t', ':', ',', ';', '=', '"', '%')},
	                                    {1, vf::irange<int>(0x80, 0xff)}});
}
static rc::Gen<int> g_anybyte1()
{
	return rc::gen::weightedOneOf<int>({{6, vf::irange<int>('a', 'z')}, {3, rc::gen::element<int>(' ', '+', '%', '&', '=', '?', '#', '/', '.', ':', '@', '~', '\\', '"', '<')},
	                                    {2, vf::irange<int>(1, 255)}, {1, rc::gen::element<int>(0xc3, 0xa9, 0xe2, 0x82, 0xac)}});
}

// well-formed requests: rapidcheck chooses the shape (seed, number of requests, header / query counts, body class), a PRNG
// seeded from it fills in the texts; everything ends up in the case's ops
static std::string r_str(refhttp::Rng& r, int kind, unsigned maxlen)
{
	unsigned n = r.below(maxlen + 1);
	std::string s;
	for (unsigned i = 0; i < n; i++) {
		unsigned k = r.below(12);
		if (kind == 0) { // header value text: VCHAR, SP, HTAB, obs-text
			static const char sp[] = " \t:,;=\"%";
			s += k < 8 ? (char)('a' + r.below(26)) : k < 10 ? (char)(0x21 + r.below(0x5e)) : k < 11 ? sp[r.below(8)] : (char)(0x80 + r.below(0x80));
		}
		else if (kind == 1) { // any non-NUL byte, biased to URL-significant ones
			static const char sp[] = " +%&=?#/.:@~\\\"<";
			static const char u8[] = "\xc3\xa9\xe2\x82\xac";
			s += k < 6 ? (char)('a' + r.below(26)) : k < 9 ? sp[r.below(15)] : k < 11 ? (char)(1 + r.below(255)) : u8[r.below(5)];
		}
		else { // header name characters
			static const char tc[] = "abZx--_9!~";
			s += tc[r.below(10)];
		}
	}
	return s;
}

// pipelined: every request keeps the connection open (HTTP/1.1, no "close") and most carry a Content-Length body
static vf::Case make_fidelity(uint64_t seed, int nreq, int maxh, int maxq, int bodyclass, bool badline, bool pipelined = false)
{
	refhttp::Rng r(seed);
	static const char* methods[] = {"GET", "POST", "PUT", "DELETE", "PATCH", "HEAD", "GET", "POST", "OPTIONS", "PROPFIND", "M-SEARCH", "x", "Z9!", "REPORT"};
	static const char* segs[] = {"a", "index.html", "b c", "%41", "\xc3\xa9", ".", "a.b", "?x", "#y", "+", "%", "x%2fy", "~u", "a=b&c", "%2e%2e", "", "..."};
	static const char* names[] = {"Host", "accept", "USER-AGENT", "x-a", "X-B", "Content-Type", "cookie", "Range", "Origin", "If-Modified-Since", "x_y.z", "A"};
	static const char* values[] = {"a:b", "text/html; q=0.8", "  ", "x  y", "\"q\"", "", ""};
	static const char* bads[] = {"garbage", "X-Foo bar", "no colon here", "GET / HTTP/1.1", "="};
	vf::Case c;
	unsigned rm = r.below(6);
	c.ops.push_back(cfg(0, rm == 0 ? 2 : rm == 1 ? 4 : 0, badline || pipelined ? -1 : -2, r.below(10) == 0));
	for (int i = 0; i < nreq; i++) {
		std::string path;
		unsigned ns = r.below(5);
		for (unsigned k = 0; k < ns; k++)
			path += std::string("/") + (r.below(8) < 5 ? std::string(segs[r.below(17)]) : r_str(r, 1, 8));
		if (r.below(2))
			path += "/";
		unsigned fm = r.below(12);
		unsigned enc = r.below(3);
		c.ops.push_back(vf::Op("req", {r.below(10) == 0 && !pipelined, enc == 1 ? 0 : (long long)(r.next() >> 33), fm < 9 ? 0 : fm - 8}, {methods[r.below(14)], path, fm >= 9 ? "frag" + r_str(r, 1, 3) : std::string()}));
		unsigned nq = r.below((unsigned)maxq + 1);
		if (maxq > 0 && r.below(4) == 0) { // exactly at / around the growth steps of the parameter dictionary's array
			// (the long ones mostly in the fragments part: there no cut sweep multiplies the longer head)
			static const unsigned steps[] = {3, 6, 3, 6, 2, 5, 3, 6, 12, 3, 6, 12, 24, 11, 13, 12};
			nq = steps[pipelined ? 6 + r.below(10) : r.below(9)];
		}
		for (unsigned k = 0; k < nq; k++)
			c.ops.push_back(vf::Op("q", {}, {r_str(r, 1, 5) + (char)('a' + r.below(26)), r_str(r, 1, 10)}));
		unsigned nh = r.below((unsigned)maxh + 1);
		for (unsigned k = 0; k < nh; k++) {
			vf::Op o("h", {r.below(5), r.below(4), r.below(2) ? (long long)(r.next() >> 40) : 0, 1 + (long long)(r.next() >> 40)},
			         {r.below(3) ? std::string(names[r.below(12)]) : r_str(r, 2, 12), r.below(8) ? r_str(r, 0, 30) : std::string(values[r.below(7)])});
			unsigned f = r.below(16);
			for (unsigned j = 0; j < (f == 0 ? 1u : f == 1 ? 2u : f == 2 ? 3u : 0u); j++)
				o.s.push_back(r_str(r, 0, 8) + "c");
			c.ops.push_back(o);
		}
		unsigned bk = r.below(6); // 0,1: none  2,3: Content-Length  4,5: chunked
		if (pipelined)
			bk = bk == 0 ? 0 : bk == 5 ? 4 + r.below(2) : 2 + r.below(2);
		if (bk >= 2) {
			static const int edge[] = {15999, 16000, 16001, 32000, 32001};
			unsigned bc = bodyclass <= 0 ? 0 : r.below((unsigned)bodyclass + 1);
			size_t len = bc < 3 ? r.below(41) : bc < 5 ? r.below(2001) : bc < 6 ? (size_t)edge[r.below(5)] : bc < 7 ? 2000 + r.below(20000) : 2000 + r.below(68001);
			std::string body(len, 0);
			for (auto& ch : body)
				ch = (char)r.below(256);
			c.ops.push_back(vf::Op("body", {bk / 2, (bk % 2) ? (long long)(r.next() >> 40) : 0}, {body}));
		}
		unsigned cn = r.below(8);
		if (cn >= 4)
			c.ops.push_back(vf::Op("conn", {cn == 4 ? 1 : cn == 5 ? 3 : cn == 6 || pipelined ? 1 : 2}));
		if (r.below(6) == 0)
			c.ops.push_back(vf::Op("expect"));
		if (badline && i + 1 == nreq)
			c.ops.push_back(vf::Op("bad", {r.below(40)}, {r.below(4) ? std::string(bads[r.below(5)]) : r_str(r, 0, 12)}));
	}
	return c;
}

static rc::Gen<vf::Case> g_fidelity(bool badline)
{
	using namespace rc;
	return gen::map(gen::tuple(gen::arbitrary<uint64_t>(), vf::irange<int>(1, 3), vf::irange<int>(0, 5), vf::irange<int>(0, 4), vf::irange<int>(0, 7)),
	                [=](const std::tuple<uint64_t, int, int, int, int>& t) { return make_fidelity(std::get<0>(t), std::get<1>(t), std::get<2>(t), std::get<3>(t), std::get<4>(t), badline); });
}

// fragmented delivery: a pipelined keep-alive stream + piece boundaries chosen by kind (inside a body that is followed by
// another request, inside any body, inside a head, exactly at a message boundary, anywhere)
static vf::Case make_fragments(uint64_t seed, int nreq, int ncuts, int maxh, int bodyclass)
{
	vf::Case c = make_fidelity(seed, nreq, maxh, 2, bodyclass, false, true);
	Built b;
	build(c, b);
	refhttp::Rng r(seed ^ 0xf7a9c0de);
	size_t total = b.stream.size(), n = b.wires.size();
	vf::Op f("frag", {1000 + (long long)r.below(2001)});
	for (int i = 0; i < ncuts && total > 1; i++) {
		unsigned kind = r.below(20);
		size_t at = 1 + r.below((unsigned)(total - 1));
		std::vector<size_t> cand;
		if (kind < 8) { // inside a body that has a successor on the wire
			for (size_t k = 0; k + 1 < n; k++)
				if (b.wires[k].end - b.wires[k].head_end >= 2)
					cand.push_back(k);
		}
		else if (kind < 11) {
			for (size_t k = 0; k < n; k++)
				if (b.wires[k].end - b.wires[k].head_end >= 2)
					cand.push_back(k);
		}
		if (!cand.empty()) {
			const refhttp::Wire& w = b.wires[cand[r.below((unsigned)cand.size())]];
			size_t bl = w.end - w.head_end;
			unsigned e = r.below(4); // near the start, near the end, anywhere
			at = w.head_end + 1 + (e == 0 ? r.below((unsigned)std::min<size_t>(bl - 1, 3)) : e == 1 ? (bl - 2 - r.below((unsigned)std::min<size_t>(bl - 1, 3))) : r.below((unsigned)(bl - 1)));
		}
		else if (kind >= 11 && kind < 15) { // inside a head
			const refhttp::Wire& w = b.wires[r.below((unsigned)n)];
			at = w.start + 1 + r.below((unsigned)(w.head_end - w.start - 1));
		}
		else if (kind >= 15 && kind < 18) { // message boundary or end of a head
			const refhttp::Wire& w = b.wires[r.below((unsigned)n)];
			at = r.below(3) ? w.end : w.head_end;
		}
		f.a.push_back((long long)at);
	}
	c.ops.push_back(f);
	if (r.below(3) == 0) { // a signal reaches the serving thread in some of the gaps
		unsigned mask = r.below(31) + 1;
		if (r.below(2))
			mask = 1u << r.below((unsigned)(ncuts > 0 ? ncuts : 1));
		c.ops.push_back(vf::Op("sig", {(long long)mask}));
	}
	return c;
}

static void classify_fragments(const vf::Case& c)
{
	Built b;
	build(c, b);
	std::vector<size_t> at = frag_offsets(b);
	vf::Stats& st = vf::stats();
	if (!at.empty())
		st.nt(vf::fnv(vf::serialize(c)));
	st.cls("fragments.bursts_per_stream=" + std::to_string(at.size() + 1));
	st.cls("fragments.requests_per_stream=" + std::to_string(b.reqs.size()));
	for (auto& q : b.reqs)
		if (q.query.size() == 3 || q.query.size() == 6 || q.query.size() == 12 || q.query.size() == 24)
			st.cls("fragments.query_params=" + std::to_string(q.query.size()));
	bool tail = false;
	if (b.sigmask)
		st.cls("fragments.with_signal");
	for (size_t i = 0; i < at.size(); i++) {
		size_t x = at[i], next = i + 1 < at.size() ? at[i + 1] : b.stream.size();
		bool boundary = false, head = false;
		if ((b.sigmask >> i) & 1)
			for (size_t k = 0; k < b.wires.size(); k++) {
				const refhttp::Wire& w = b.wires[k];
				if (x > w.head_end && x < w.end)
					st.cls(b.reqs[k].body_kind == 1 ? "fragments.signal.inside_content_length_body" : "fragments.signal.inside_chunked_body");
				else if (x > w.start && x <= w.head_end)
					st.cls("fragments.signal.inside_head");
				else if (x == w.end)
					st.cls("fragments.signal.between_requests");
			}
		for (size_t k = 0; k < b.wires.size(); k++) {
			const refhttp::Wire& w = b.wires[k];
			if (x == w.end || x == w.start)
				boundary = true;
			else if (x > w.start && x <= w.head_end)
				head = true;
			else if (x > w.head_end && x < w.end) {
				st.cls(b.reqs[k].body_kind == 1 ? "fragments.cut.in_content_length_body" : "fragments.cut.in_chunked_body");
				// the rest of this body and the beginning of the next request travel in the same burst
				if (b.reqs[k].body_kind == 1 && k + 1 < b.wires.size() && next > w.end)
					tail = true;
			}
		}
		if (boundary)
			st.cls("fragments.cut.at_message_boundary");
		else if (head)
			st.cls("fragments.cut.in_head");
	}
	if (tail)
		st.cls("fragments.pipelined_body_tail_and_next_request_in_one_burst");
	if (tail && b.stream.size() < 300)
		st.sample("fragmented stream, pieces at " + vf::serialize(vf::Case().add(c.ops.back())) + " of " + vf::show(b.stream, 300));
}

static void classify_fidelity(const vf::Case& c)
{
	Built b;
	build(c, b);
	vf::Stats& st = vf::stats();
	st.nt(vf::fnv(vf::serialize(c)));
	st.cls("fidelity.requests_per_stream=" + std::to_string(b.reqs.size()));
	for (auto& q : b.reqs) {
		st.cls(q.body_kind == 0 ? "fidelity.body.none" : q.body_kind == 1 ? "fidelity.body.content_length" : "fidelity.body.chunked");
		if (q.body.size() >= 15999)
			st.cls("fidelity.body>=16000");
		if (q.body_kind && q.body.empty())
			st.cls("fidelity.body.empty_framed");
		if (!q.query.empty())
			st.cls("fidelity.with_query");
		if (q.query.size() == 3 || q.query.size() == 6 || q.query.size() == 12 || q.query.size() == 24)
			st.cls("fidelity.query_params=" + std::to_string(q.query.size()));
		if (q.fragmode)
			st.cls(q.fragmode == 1 ? "fidelity.fragment_after_query" : "fidelity.fragment_before_query");
		if (refhttp::target_of(q).find('%') != std::string::npos)
			st.cls("fidelity.pct_encoded_target");
		if (q.http10)
			st.cls("fidelity.http10");
		if (q.conn)
			st.cls("fidelity.connection_header");
		if (q.expect)
			st.cls("fidelity.expect_100");
		for (auto& h : q.headers) {
			st.cls(h.ows_before % 5 == 0 ? "fidelity.header.no_space_after_colon" : h.ows_before % 5 == 1 ? "fidelity.header.one_space" : "fidelity.header.other_ows");
			if (!h.folds.empty())
				st.cls(h.folds.size() == 1 ? "fidelity.header.fold1" : "fidelity.header.fold2+");
			if (h.value.empty())
				st.cls("fidelity.header.empty_value");
		}
	}
	if (b.reqs.size() == 2 && b.stream.size() < 400)
		st.sample("fidelity stream: " + vf::show(b.stream, 400));
}

static void enumerate_targets(const vf::Args& a, const std::string& label, const std::vector<std::string>& alpha, int maxbytes, int respmode)
{
	// all token strings of byte length <= maxbytes, depth first; work split by index
	uint64_t idx = 0, ran = 0, nt = 0;
	bool failed = false;
	std::string cur;
	std::function<void()> rec = [&]() {
		if (failed)
			return;
		if ((int)(idx++ % (uint64_t)a.workers) == a.worker) {
			vf::Case c;
			c.ops.push_back(cfg(0, respmode, -1));
			c.ops.push_back(vf::Op("tgt", {}, {cur}));
			if (!vf::runner().run("targets", c)) {
				failed = true;
				return;
			}
			ran++;
			std::string l = refhttp::lower(cur);
			if (l.find("%2e") != std::string::npos || l.find("%2f") != std::string::npos) {
				nt++;
				if (nt % 100003 == 1)
					vf::stats().sample("target " + vf::show(cur));
			}
		}
		for (auto& t : alpha)
			if ((int)(cur.size() + t.size()) <= maxbytes) {
				size_t n = cur.size();
				cur += t;
				rec();
				cur.resize(n);
			}
	};
	rec();
	vf::stats().nt_counted(nt);
	vf::stats().cls("targets." + label + ".enumerated", ran);
	vf::stats().part("targets." + label + "(bytes<=" + std::to_string(maxbytes) + ")", ran, !failed);
}

void vf_search(const vf::Args& a)
{
	using namespace rc;
	g_thorough = !a.quick();
	g_search = true;
	start_watchdog();
	double t_prev = c09::mono();
	auto lap = [&](const char* what) {
		double t = c09::mono();
		fprintf(stderr, "[C09 w%d] %s: %.1f s\n", a.worker, what, t - t_prev);
		t_prev = t;
	};

	// ---- hostile streams (same builder as the libFuzzer target, driven by a PRNG whose output is the case)
	[&]() {
		auto g = gen::map(gen::tuple(gen::arbitrary<uint64_t>(), vf::irange<int>(0, 255), vf::irange<int>(0, 2)), [](const std::tuple<uint64_t, int, int>& t) {
			PrngSrc s(std::get<0>(t));
			vf::Case c;
			int cfgb = std::get<1>(t);
			std::vector<std::string> pieces;
			unsigned nreq = 1 + s.pick(3);
			for (unsigned i = 0; i < nreq; i++)
				c09::h_request(s, pieces);
			unsigned nm = s.pick(3);
			for (unsigned i = 0; i < nm; i++) {
				std::string& p = pieces[s.pick((unsigned)pieces.size())];
				if (p.empty())
					continue;
				size_t pos = s.pick((unsigned)p.size());
				switch (s.pick(4)) {
				case 0: p[pos] = (char)(p[pos] ^ (1 << s.pick(8))); break;
				case 1: p[pos] = (char)s.pick(256); break;
				case 2: p.insert(p.begin() + pos, (char)s.pick(256)); break;
				default: p.erase(pos, 1 + s.pick(4)); break;
				}
			}
			size_t total = 0;
			for (auto& p : pieces)
				total += p.size();
			long long cut = std::get<2>(t) == 0 ? (long long)s.pick((unsigned)total + 1) : -1;
			c.ops.push_back(cfg(cfgb & 1, (cfgb >> 1) % 6, cut, (cfgb & 0x40) != 0));
			for (auto& p : pieces)
				c.ops.push_back(vf::Op("raw", {}, {p}));
			return c;
		});
		vf::check_cases("hostile", a.n(32000, 800000) / a.workers, 100, g, [](const vf::Case& c) {
			vf::stats().nt(vf::fnv(vf::serialize(c)));
			vf::stats().cls(c.ops[0].i(2) >= 0 ? "hostile.cut" : "hostile.complete");
			vf::stats().cls(c.ops[0].i(1) == 1 || c.ops[0].i(1) == 5 ? "hostile.file_response" : "hostile.other_response");
		});
	}();

	lap("hostile");
	// ---- fidelity of well-formed requests + every cut offset
	[&]() { vf::check_cases("fidelity", a.n(400, 3200) / a.workers, 60, g_fidelity(false), classify_fidelity); }();

	lap("fidelity");
	// ---- the same kind of streams delivered in 2..6 separate bursts (pipelined keep-alive requests)
	[&]() {
		auto g = gen::map(gen::tuple(gen::arbitrary<uint64_t>(), vf::irange<int>(2, 3), vf::irange<int>(1, 5), vf::irange<int>(0, 3), vf::irange<int>(0, 5)), [](const std::tuple<uint64_t, int, int, int, int>& t) {
			return make_fragments(std::get<0>(t), std::get<1>(t), std::get<2>(t), std::get<3>(t), std::get<4>(t));
		});
		vf::check_cases("fragments", a.n(1200, 16000) / a.workers, 60, g, classify_fragments);
	}();
	lap("fragments");
	// ---- malformed header line
	[&]() {
		vf::check_cases("badline", a.n(2000, 60000) / a.workers, 60, g_fidelity(true), [](const vf::Case& c) {
			vf::stats().nt(vf::fnv(vf::serialize(c)));
			vf::stats().cls("badline.cases");
		});
	}();

	lap("badline");
	// ---- request targets, exhaustive + random longer ones
	[&]() {
		std::vector<std::string> a1 = {".", "/", "a", "%2e", "%2E", "%2f", "%25"};
		std::vector<std::string> a2 = {".", "/", "a", "?", "#", "%2e", "%2E", "%2f", "%25", "%00", "%5c"};
		enumerate_targets(a, "dot_slash_pct", a1, a.quick() ? 9 : 12, 1);
		enumerate_targets(a, "with_nul_backslash_query_fragment", a2, a.quick() ? 6 : 7, 1);
		std::vector<std::string> all = a2;
		all.push_back("..");
		all.push_back("/../");
		all.push_back("%2e%2e");
		all.push_back("%252e");
		auto g = gen::map(gen::pair(gen::container<std::vector<std::string>>(gen::elementOf(all)), vf::irange<int>(0, 5)), [](const std::pair<std::vector<std::string>, int>& p) {
			std::string t = "/";
			for (auto& x : p.first)
				t += x;
			vf::Case c;
			c.ops.push_back(cfg(0, p.second == 0 ? 0 : 1, -1));
			c.ops.push_back(vf::Op("tgt", {}, {t}));
			return c;
		});
		vf::check_cases("targets", a.n(20000, 300000) / a.workers, 60, g, [](const vf::Case& c) {
			if (c.ops[1].str(0).size() > 12)
				vf::stats().nt(vf::fnv(c.ops[1].str(0)));
			vf::stats().cls("targets.random_longer");
		});
	}();

	lap("targets");
	// ---- static files with Range / If-Modified-Since
	[&]() {
		auto g_num = gen::weightedOneOf<std::string>({{1, gen::just(std::string())},
		                                              {6, gen::map(gen::element<long long>(0, 1, 2, 5, 9, 10, 11, 15999, 16000, 16001, 39999, 40000, 40001, 2147483647LL, 2147483648LL, 4294967296LL, -1),
		                                                           [](long long v) { return std::to_string(v); })},
		                                              {1, gen::element<std::string>("a", " 3", "0x5", "99999999999999999999")}});
		auto g_range = gen::weightedOneOf<std::string>(
		    {{6, gen::map(gen::pair(g_num, g_num), [](const std::pair<std::string, std::string>& p) { return "bytes=" + p.first + "-" + p.second; })},
		     {2, gen::map(g_num, [](const std::string& s) { return "bytes=" + s; })},
		     {1, gen::element<std::string>("bytes=", "bytes", "bytes=1-2-3", "bytes=--", "bytes=1-2,4-5", "items=1-2", "-", "bytes=-", "bytes= 1 - 2 ")}});
		auto g_file = gen::element<std::string>("/a.txt", "/f.bin", "/e", "/a", "/", "/d", "/d/", "/d/x.json", "/index.html", "/missing", "/d/missing", "/a.txt/", "/%61.txt", "/f.bin?x=1");
		auto g_ims = gen::element<std::string>("", "", "", "Sun, 06 Nov 1994 08:49:37 GMT", "Sat, 01 Jan 2050 00:00:00 GMT", "yesterday", "2020-01-01T00:00:00Z", "0");
		auto g = gen::map(gen::tuple(g_file, g_range, g_ims, vf::irange<int>(0, 9), gen::container<std::vector<int>>(3, vf::irange<int>(0, 3))),
		                  [](const std::tuple<std::string, std::string, std::string, int, std::vector<int>>& t) {
			                  vf::Case c;
			                  int k = std::get<3>(t);
			                  c.ops.push_back(cfg(k == 9, k % 3 == 0 ? 5 : 1, -1));
			                  std::string m = std::get<4>(t)[0] == 0 ? "HEAD" : "GET";
			                  c.ops.push_back(vf::Op("raw", {}, {m + " " + std::get<0>(t) + " HTTP/1.1\r\n"}));
			                  c.ops.push_back(vf::Op("raw", {}, {"Host: h.example\r\n"}));
			                  if (std::get<4>(t)[1])
				                  c.ops.push_back(vf::Op("raw", {}, {"Range: " + std::get<1>(t) + "\r\n"}));
			                  if (!std::get<2>(t).empty())
				                  c.ops.push_back(vf::Op("raw", {}, {"If-Modified-Since: " + std::get<2>(t) + "\r\n"}));
			                  if (std::get<4>(t)[2] == 0)
				                  c.ops.push_back(vf::Op("raw", {}, {"Connection: keep-alive\r\n"}));
			                  c.ops.push_back(vf::Op("raw", {}, {"\r\n"}));
			                  if (std::get<4>(t)[2] == 0)
				                  c.ops.push_back(vf::Op("raw", {}, {"GET /a.txt HTTP/1.1\r\nRange: bytes=2-5\r\n\r\n"}));
			                  return c;
		                  });
		vf::check_cases("files", a.n(12000, 120000) / a.workers, 60, g, [](const vf::Case& c) {
			std::string s = vf::serialize(c);
			bool range = false;
			for (auto& o : c.ops)
				if (o.name == "raw" && o.str(0).compare(0, 6, "Range:") == 0)
					range = true;
			if (range) {
				vf::stats().nt(vf::fnv(s));
				vf::stats().cls("files.with_range");
			}
			else
				vf::stats().cls("files.no_range");
		});
	}();

	lap("files");
	// ---- Url(String), Url::decode
	[&]() {
		auto g_meta = gen::weightedOneOf<int>({{10, gen::element<int>(':', '/', '?', '#', '[', ']', '@', '%', '.', '0', '9', 'a', 'f', ':', '/', '[', ']')}, {1, vf::irange<int>(1, 255)}});
		auto g1 = gen::map(g_str(g_meta, 40), [](const std::string& s) {
			vf::Case c;
			c.ops.push_back(vf::Op("url", {}, {s}));
			c.ops.push_back(vf::Op("dec", {}, {s}));
			return c;
		});
		vf::check_cases("url", a.n(60000, 800000) / a.workers, 100, g1, [](const vf::Case& c) {
			const std::string& s = c.ops[0].str(0);
			if (s.find('[') != std::string::npos || s.find('%') != std::string::npos || s.find("://") != std::string::npos)
				vf::stats().nt(vf::fnv(s));
			vf::stats().cls(s.find('[') != std::string::npos ? "url.with_bracket" : "url.no_bracket");
		});
		// every string of length <= 6 (quick) / 7 over the 8 structural characters
		{
			std::string alpha = ":/[]@%a0";
			int maxlen = a.quick() ? 6 : 7;
			uint64_t idx = 0, ran = 0, nt = 0;
			bool ok = true;
			for (int len = 0; len <= maxlen && ok; len++) {
				uint64_t total = 1;
				for (int i = 0; i < len; i++)
					total *= alpha.size();
				for (uint64_t k = 0; k < total && ok; k++, idx++) {
					if ((int)(idx % (uint64_t)a.workers) != a.worker)
						continue;
					std::string s;
					uint64_t v = k;
					for (int i = 0; i < len; i++) {
						s += alpha[v % alpha.size()];
						v /= alpha.size();
					}
					vf::Case c;
					c.ops.push_back(vf::Op("url", {}, {s}));
					c.ops.push_back(vf::Op("dec", {}, {s}));
					ok = vf::runner().run("url", c);
					ran++;
					if (s.find('[') != std::string::npos || s.find('%') != std::string::npos || s.find("://") != std::string::npos)
						nt++;
				}
			}
			vf::stats().nt_counted(nt);
			vf::stats().part("url.all_strings_over_:/[]@%a0(len<=" + std::to_string(maxlen) + ")", ran, ok);
		}
		auto g2 = gen::map(gen::tuple(gen::element<std::string>("", "http", "https", "ws", "x"), g_str(gen::element<int>('a', 'b', '.', '-', '1', ':', 'f', '0'), 12), g_str(g_meta, 20), vf::irange<int>(0, 65535),
		                              vf::irange<int>(0, 1), vf::irange<int>(0, 3)),
		                   [](const std::tuple<std::string, std::string, std::string, int, int, int>& t) {
			                   vf::Case c;
			                   c.ops.push_back(vf::Op("urlwf", {std::get<5>(t) == 0 ? 0 : std::get<3>(t), std::get<4>(t)}, {std::get<0>(t), std::get<1>(t), std::get<2>(t)}));
			                   return c;
		                   });
		vf::check_cases("url", a.n(20000, 300000) / a.workers, 100, g2, [](const vf::Case& c) {
			vf::stats().nt(vf::fnv(vf::serialize(c)));
			vf::stats().cls(c.ops[0].i(1) ? "urlwf.ipv6" : "urlwf.name");
		});
	}();
	lap("url");
}
