// C06 (structured part) -- JSON/XDL decoding: conformance with RFC 8259 against an independent parser, rejection of every
// proper prefix of array/object/string documents, independence from the partition into chunks, totality on mutated input.
//
//   ops:  doc "|" text          the document (any bytes; NULs are replaced)
//         cut p1 p2 ...         one k-chunk partition of the document (positions taken modulo len+1), any number of these ops
//         nest n kind           instead of doc: n nested containers (kind 0 arrays, 1 objects, 2 alternating) around a scalar
//   parts: json  = doc is a generated RFC 8259 text: (a) accepted and equal to the reference value, (b) every proper prefix
//                  rejected (top-level array/object/string), (c) ALL 2-chunk cuts and the given k-chunk cuts equal the whole result
//          xdl, mut, raw = XDL-flavoured / mutated / random texts: total (terminates, ASan-clean) and (c) only
//          deep  = nest op, n <= 512: (a) and sampled cuts
//          reuse = several doc ops (each optionally followed by one cut op): ONE XdlParser object decodes them in turn, with
//                  reset() between documents; every result equals a fresh parser's.  reset() is only relied upon after a
//                  COMPLETE document (see C06_walk.h); after a rejected one the session continues on a new parser object.
//          paths = op `path kind reader`: Json::read (reader 0) / Xdl::read (1), the chunked decoder behind a path, on a path
//                  that is 0 a directory, 1 a directory with a trailing slash, 2 missing, 3 an empty file, 4 /dev/null, 5 a FIFO
//                  whose writer closes without writing, 6 a file without read permission (skipped when running as root),
//                  7 a directory reached through a symbolic link: the call RETURNS (watchdog 20 s), no memory error, and a
//                  following read of a regular file still gives its document
//          every part with an accepted document also runs a short reuse round on that document (decode, reset, chunks, reset, decode)
#include "common/vfrc.h"
#include "common/ref_json.h"
#include "common/ref_codec.h"
#include "C06_walk.h"
#include "common/ref_io.h"
#include <cmath>
#include <memory>
#include <thread>

using namespace asl;

const char* vf_harness_name() { return "C06_decode"; }

static std::string nest_text(long long n, int kind)
{
	std::string t;
	if (n < 0)
		n = 0;
	if (n > 4000000)
		n = 4000000;
	for (long long i = 0; i < n; i++)
		t += (kind == 0 || (kind == 2 && i % 2 == 0)) ? "[" : "{\"a\":";
	t += "1";
	for (long long i = n; i-- > 0;)
		t += (kind == 0 || (kind == 2 && i % 2 == 0)) ? "]" : "}";
	return t;
}

static Var decode_chunks(const std::string& t, const std::vector<size_t>& cuts)
{
	XdlParser p;
	size_t prev = 0;
	for (size_t i = 0; i <= cuts.size(); i++) {
		size_t e = i < cuts.size() ? cuts[i] : t.size();
		c06::ExactC chunk(t.data() + prev, e - prev);
		p.parse(chunk.p);
		prev = e;
	}
	c06::ExactC sp(" ", 1);
	p.parse(sp.p);
	return p.value();
}

static Var decode_whole(const std::string& t)
{
	XdlParser p;
	c06::ExactC whole(t.data(), t.size());
	return p.decode(whole.p);
}

// feed `t` to an EXISTING parser: whole through decode() when there are no cuts, else chunk by chunk and the final flush
static Var feed(XdlParser& p, const std::string& t, const std::vector<size_t>& cuts)
{
	if (cuts.empty()) {
		c06::ExactC whole(t.data(), t.size());
		return p.decode(whole.p);
	}
	size_t prev = 0;
	for (size_t i = 0; i <= cuts.size(); i++) {
		size_t e = i < cuts.size() ? cuts[i] : t.size();
		c06::ExactC chunk(t.data() + prev, e - prev);
		p.parse(chunk.p);
		prev = e;
	}
	c06::ExactC sp(" ", 1);
	p.parse(sp.p);
	return p.value();
}

static std::vector<size_t> cuts_of(const vf::Op& o, size_t len)
{
	std::vector<size_t> cuts;
	for (long long p : o.a)
		cuts.push_back((size_t)((p < 0 ? -(p + 1) : p) % (long long)(len + 1)));
	std::sort(cuts.begin(), cuts.end());
	return cuts;
}

struct Counts {
	uint64_t prefixes = 0, cuts2 = 0, cutsk = 0, reuse = 0;
};

// a parser object that has decoded a complete document and was reset() behaves like a fresh one
static void check_reuse_same_doc(const std::string& text, const Var& whole, Counts& n)
{
	if (!whole.ok() || c06::may_leave_surrogate_pending(text))
		return;
	XdlParser p;
	std::string why;
	Var a = feed(p, text, {});
	VF_CHECK(c06::same(whole, a, why), "harness: second fresh parser disagrees: ", why);
	p.reset();
	Var b = feed(p, text, {text.size() / 3, text.size() - text.size() / 3});
	VF_CHECK(c06::same(whole, b, why), "reused parser (document, reset(), same document in 3 chunks) differs from a fresh parser: ", why, "; got ", c06::show(b), "; text ", vf::show(text, 300));
	p.reset();
	Var d = feed(p, text, {});
	VF_CHECK(c06::same(whole, d, why), "reused parser (third use after reset()) differs from a fresh parser: ", why, "; got ", c06::show(d), "; text ", vf::show(text, 300));
	n.reuse += 2;
}

// part reuse: one parser object, several documents
static void run_reuse_session(const vf::Case& c)
{
	std::unique_ptr<XdlParser> P(new XdlParser);
	bool fresh = true;
	uint64_t after_reset = 0, restarts = 0, chunked = 0;
	int idx = 0;
	for (size_t i = 0; i < c.ops.size(); i++) {
		if (c.ops[i].name != "doc")
			continue;
		std::string text = c.ops[i].str(0);
		for (auto& ch : text)
			if (ch == 0)
				ch = ' ';
		std::vector<size_t> cuts;
		if (i + 1 < c.ops.size() && c.ops[i + 1].name == "cut")
			cuts = cuts_of(c.ops[i + 1], text.size());
		Var expected = decode_whole(text); // a fresh parser, whole text
		bool did_reset = false;
		if (!fresh || (c.ops[i].i(0) & 1)) { // reset() on a fresh parser must be harmless too
			P->reset();
			did_reset = !fresh;
		}
		Var got = feed(*P, text, cuts);
		std::string why, cs;
		for (size_t x : cuts)
			cs += std::to_string(x) + " ";
		// Only documents a fresh parser ACCEPTS are compared: on the unchanged tree reset() keeps the root list, so a text
		// without any value (empty, blanks, comments) decoded after reset() reports the previous document's value again.
		VF_CHECK(!expected.ok() || c06::same(expected, got, why), "document #", idx, did_reset ? " on a reused parser after reset()" : " on a new parser", cuts.empty() ? "" : " (cut at ", cs,
		         cuts.empty() ? "" : ")", " differs from a fresh parser: ", why, "; got ", c06::show(got), " want ", c06::show(expected), "; text ", vf::show(text, 300));
		if (did_reset && expected.ok()) {
			after_reset++;
			if (!cuts.empty())
				chunked++;
		}
		idx++;
		if (!got.ok() || c06::may_leave_surrogate_pending(text)) {
			// reset() is not defined to recover from an incomplete document (stale open containers / comment flag stay)
			P.reset(new XdlParser);
			fresh = true;
			restarts++;
		}
		else
			fresh = false;
	}
	vf::stats().cls("reuse.documents_decoded_after_reset()", after_reset);
	vf::stats().cls("reuse.documents_decoded_after_reset()_in_chunks", chunked);
	vf::stats().cls("reuse.new_parser_after_rejected_document", restarts);
}

// documents over 600 bytes: positions within 100 bytes of either end and ~100 evenly spaced ones in between
static bool sampled(size_t pos, size_t len)
{
	if (pos <= 100 || pos + 100 >= len)
		return true;
	size_t step = len / 100 + 1;
	return pos % step == 0;
}

static void check_cuts(const std::string& text, const Var& whole, const vf::Case& c, Counts& n, bool all2)
{
	size_t len = text.size();
	// (c) all 2-chunk cuts (documents over 600 bytes: sampled positions)
	for (size_t cut = 0; cut <= len; cut++) {
		if ((!all2 || len > 600) && !sampled(cut, len))
			continue;
		Var v = decode_chunks(text, {cut});
		std::string why;
		VF_CHECK(c06::same(whole, v, why), "chunks [0,", cut, ") + [", cut, ",", len, ") give a different result than the whole text: ", why, "; text ", vf::show(text, 300));
		n.cuts2++;
	}
	for (auto& o : c.ops) {
		if (o.name != "cut")
			continue;
		std::vector<size_t> cuts;
		for (long long p : o.a)
			cuts.push_back((size_t)((p < 0 ? -(p + 1) : p) % (long long)(len + 1)));
		std::sort(cuts.begin(), cuts.end());
		Var v = decode_chunks(text, cuts);
		std::string why, cs;
		for (size_t x : cuts)
			cs += std::to_string(x) + " ";
		VF_CHECK(c06::same(whole, v, why), "cutting at ", cs, "gives a different result than the whole text: ", why, "; text ", vf::show(text, 300));
		n.cutsk++;
	}
}

// ---- the file readers on paths that cannot be read (totality: "terminate ... on any input")

static char g_hang_msg[400];
static void hang_handler(int)
{
	// the read did not come back: leave the case on disk, say so (the driver shows the HANG-DIAG line) and fail the case
	vf::flush_current();
	if (write(1, g_hang_msg, strlen(g_hang_msg)) < 0) {}
	_exit(1);
}

static void run_path_case(const vf::Op& o)
{
	int kind = (int)(((o.i(0) % 8) + 8) % 8);
	int reader = (int)(o.i(1) & 1);
	static const char* KIND[] = {"a directory", "a directory with a trailing slash", "a missing file", "an empty file", "/dev/null", "a FIFO whose writer closes without writing",
	                             "a file without read permission", "a symbolic link to a directory"};
	std::string dir = ref::tmpdir() + "/paths";
	mkdir(dir.c_str(), 0755);
	std::string path;
	std::vector<std::string> cleanup;
	switch (kind) {
	case 0: path = dir; break;
	case 1: path = dir + "/"; break;
	case 2:
		path = dir + "/missing";
		unlink(path.c_str());
		break;
	case 3:
		path = dir + "/empty";
		ref::spit(path, "");
		cleanup.push_back(path);
		break;
	case 4: path = "/dev/null"; break;
	case 5:
		path = dir + "/fifo";
		unlink(path.c_str());
		VF_CHECK(mkfifo(path.c_str(), 0644) == 0, "harness: mkfifo failed");
		cleanup.push_back(path);
		break;
	case 6:
		if (geteuid() == 0) { // root reads everything: the case cannot be built
			vf::stats().cls("paths.skipped_unreadable_file(running_as_root)");
			return;
		}
		path = dir + "/noperm";
		ref::spit(path, "[1,2]");
		chmod(path.c_str(), 0);
		cleanup.push_back(path);
		break;
	default:
		path = dir + "/dirlink";
		unlink(path.c_str());
		VF_CHECK(symlink(".", path.c_str()) == 0, "harness: symlink failed");
		cleanup.push_back(path);
	}
	std::thread writer;
	if (kind == 5)
		writer = std::thread([path]() { // opens the FIFO for writing as soon as a reader is there, writes nothing, closes
			int fd = -1;
			for (int i = 0; i < 10000 && fd < 0; i++) {
				fd = open(path.c_str(), O_WRONLY | O_NONBLOCK);
				if (fd < 0)
					usleep(1000);
			}
			if (fd >= 0)
				close(fd);
		});
	snprintf(g_hang_msg, sizeof g_hang_msg, "HANG-DIAG: %s on %s did not return within 20 s\nFAIL %s on %s did not return within 20 s (the reader must terminate on every input)\n",
	         reader ? "Xdl::read" : "Json::read", KIND[kind], reader ? "Xdl::read" : "Json::read", KIND[kind]);
	signal(SIGALRM, hang_handler);
	alarm(20); // >= 1000 x the expected duration (microseconds)
	Var v = reader ? Xdl::read(String(path.c_str())) : Json::read(String(path.c_str()));
	alarm(0);
	signal(SIGALRM, SIG_DFL);
	if (writer.joinable())
		writer.join();
	(void)v.ok(); // whatever the reader makes of such a path -- only its return is asserted
	for (auto& f : cleanup)
		unlink(f.c_str());
	// a following read of a regular file still works
	std::string reg = dir + "/regular", text = "{\"k\":[1,2.5,\"x\\u0007\"],\"n\":null}";
	VF_CHECK(ref::spit(reg, text), "harness: cannot write ", reg);
	Var r = reader ? Xdl::read(String(reg.c_str())) : Json::read(String(reg.c_str()));
	unlink(reg.c_str());
	rmdir(dir.c_str());
	Var want = decode_whole(text);
	std::string why;
	VF_CHECK(want.ok() && c06::same(want, r, why), "after reading ", KIND[kind], " a regular file no longer reads correctly: ", why, "; got ", c06::show(r));
	vf::stats().cls(std::string("paths.") + KIND[kind]);
}

void vf_run_case(const std::string& part, const vf::Case& c)
{
	if (part == "paths") {
		for (auto& o : c.ops)
			if (o.name == "path")
				run_path_case(o);
		return;
	}
	if (part == "reuse") {
		run_reuse_session(c);
		return;
	}
	std::string text;
	bool have = false, nest = false;
	long long nestn = 0;
	for (auto& o : c.ops) {
		if (o.name == "doc" && !have) {
			text = o.str(0);
			have = true;
		}
		else if (o.name == "nest" && !have) {
			nestn = o.i(0);
			text = nest_text(nestn, (int)(((o.i(1) % 3) + 3) % 3));
			have = nest = true;
		}
	}
	if (!have)
		return;
	for (auto& ch : text)
		if (ch == 0)
			ch = ' ';
	Counts n;
	if (nest && nestn > 5000) {
		// beyond the nesting the property names (512): totality only. (Known finding: ~Var recurses once per level.)
		Var v = Json::decode(String(text.c_str()));
		(void)v.ok();
		return;
	}
	// the three entry points agree (same parser): Json::decode, Xdl::decode, XdlParser::decode
	Var whole = decode_whole(text);
	{
		Var j = Json::decode(String(text.c_str()));
		Var x = Xdl::decode(String(text.c_str()));
		std::string why;
		VF_CHECK(c06::same(whole, j, why), "Json::decode differs from XdlParser::decode: ", why, "; text ", vf::show(text, 300));
		VF_CHECK(c06::same(whole, x, why), "Xdl::decode differs from XdlParser::decode: ", why, "; text ", vf::show(text, 300));
	}
	bool conform = part == "json" || part == "deep";
	ref::JValue jv;
	ref::JsonInfo info;
	bool valid = conform && ref::json_parse(text, jv, &info, 3000);
	if (valid && !info.nul_escape && !info.lone_surrogate) {
		// (a) accepted, same value as the independent parser
		VF_CHECK(whole.ok(), "valid RFC 8259 document rejected: ", vf::show(text, 400));
		std::string why;
		VF_CHECK(c06::same_as_ref(jv, whole, why), "decoded value differs from the independent parser's: ", why, "; text ", vf::show(text, 400));
		// (b) every proper prefix that stops before the final closing character is rejected
		if (jv.kind == ref::JValue::Arr || jv.kind == ref::JValue::Obj || jv.kind == ref::JValue::Str) {
			size_t close = text.size();
			while (close > 0 && (text[close - 1] == ' ' || text[close - 1] == '\t' || text[close - 1] == '\n' || text[close - 1] == '\r'))
				close--;
			close--; // index of the final closing character
			for (size_t L = 0; L <= close; L++) {
				if (text.size() > 600 && !sampled(L, close))
					continue;
				Var pv = decode_whole(text.substr(0, L));
				VF_CHECK(!pv.ok(), "proper prefix of ", L, " bytes (of ", text.size(), ") is accepted as ", c06::show(pv), ": ", vf::show(text.substr(0, L), 300));
				n.prefixes++;
			}
		}
	}
	check_cuts(text, whole, c, n, !nest);
	check_reuse_same_doc(text, whole, n);
	vf::stats().cls("checked.reuse_after_reset()", n.reuse);
	vf::stats().cls("checked.prefixes", n.prefixes);
	vf::stats().cls("checked.2-chunk_cuts", n.cuts2);
	vf::stats().cls("checked.k-chunk_cuts", n.cutsk);
}

// ------------------------------------------------------------------------------------------------ generators

namespace {

using namespace rc;

// full-range integers at every rapidcheck size (arbitrary<T> alone grows with the size parameter); still shrink towards 0
inline Gen<uint32_t> U32() { return gen::resize(100, gen::arbitrary<uint32_t>()); }
inline Gen<uint64_t> U64() { return gen::resize(100, gen::arbitrary<uint64_t>()); }
inline Gen<int> I32() { return gen::resize(100, gen::arbitrary<int>()); }

struct Doc {
	std::string text;
	ref::JValue val;
};

struct Cfg {
	int budget;
	int maxdepth;
	int wsp; // probability (out of 10) of whitespace in a slot
	int maxstr;
};

const std::vector<std::string> MB = {"\xc3\xa9", "\xc2\x80", "\xdf\xbf", "\xe2\x82\xac", "\xe0\xa0\x80", "\xef\xbf\xbf", "\xed\x9f\xbf", "\xee\x80\x80",
                                     "\xf0\x9f\x98\x80", "\xf0\x90\x80\x80", "\xf4\x8f\xbf\xbf", "\xef\xbb\xbf"};

void ws(std::string& t, const Cfg& c)
{
	if (c.wsp == 0 || *vf::irange<int>(0, 9) >= c.wsp)
		return;
	uint32_t r = *U32();
	int n = 1 + (int)(r & 3) % 3;
	for (int i = 0; i < n; i++) {
		t += " \t\n\r"[(r >> (2 + 2 * i)) & 3];
	}
}

std::string hex4(uint32_t cp, uint32_t casebits)
{
	static const char* lo = "0123456789abcdef";
	static const char* up = "0123456789ABCDEF";
	std::string s = "\\u";
	for (int i = 3; i >= 0; i--)
		s += ((casebits >> i) & 1 ? up : lo)[(cp >> (4 * i)) & 15];
	return s;
}

// appends a JSON string literal to t, its value to v
void jstring(std::string& t, std::string& v, int maxlen)
{
	auto kind = gen::weightedElement<int>({{8, 0}, {2, 1}, {2, 2}, {2, 3}, {2, 4}, {1, 5}, {1, 6}, {1, 7}});
	auto toks = *gen::resize(maxlen, gen::container<std::vector<std::pair<int, uint32_t>>>(gen::pair(kind, U32())));
	t += '"';
	for (auto& tk : toks) {
		uint32_t r = tk.second;
		switch (tk.first) {
		case 0: { // printable ASCII, escaped when it has to be
			char ch = (char)(0x20 + r % 0x5f);
			if (ch == '"' || ch == '\\')
				t += '\\';
			t += ch;
			v += ch;
			break;
		}
		case 1: { // two-character escapes
			static const char* e = "\"\\/bfnrt";
			static const char* d = "\"\\/\b\f\n\r\t";
			int i = (int)(r % 8);
			t += '\\';
			t += e[i];
			v += d[i];
			break;
		}
		case 2: { // \uXXXX of a control character or other ASCII
			uint32_t cp = 1 + (r >> 8) % 0x7f;
			t += hex4(cp, r);
			v += (char)cp;
			break;
		}
		case 3: { // \uXXXX of a BMP scalar (no surrogates, no NUL)
			uint32_t cp = (r >> 8) % 0xFFFF + 1;
			if ((r & 0xc0) == 0) { // 1 in 4: the edges of the UTF-8 length classes and of the surrogate block (after seeded C06-O)
				static const uint32_t edge[] = {0x7f, 0x80, 0x81, 0xff, 0x100, 0x7fe, 0x7ff, 0x800, 0x801, 0xfff, 0x1000, 0xd7ff, 0xe000, 0xfffd, 0xfffe, 0xffff};
				cp = edge[(r >> 8) % (sizeof edge / sizeof edge[0])];
			}
			if (cp >= 0xD800 && cp <= 0xDFFF)
				cp = (r & 0x100) ? 0xD7FF : 0xE000;
			t += hex4(cp, r);
			ref::utf8_append(v, cp);
			break;
		}
		case 4: { // surrogate pair escape
			uint32_t cp = 0x10000 + (r >> 4) % 0x100000;
			if ((r & 3) == 0)
				cp = (r & 4) ? 0x10000 : 0x10FFFF;
			uint32_t x = cp - 0x10000;
			t += hex4(0xD800 + (x >> 10), r) + hex4(0xDC00 + (x & 0x3ff), r >> 4);
			ref::utf8_append(v, cp);
			break;
		}
		case 5: { // raw multi-byte UTF-8
			const std::string& m = MB[r % MB.size()];
			t += m;
			v += m;
			break;
		}
		case 6: { // raw '/' and DEL, '*' (comment look-alikes inside strings)
			static const char* d = "//\x7f*";
			char ch = d[r % 4];
			t += ch;
			v += ch;
			break;
		}
		default: { // raw UTF-8 of an arbitrary scalar
			uint32_t cp = 0x80 + (r >> 3) % (0x110000 - 0x80);
			if (cp >= 0xD800 && cp <= 0xDFFF)
				cp = 0xFFFD;
			std::string m;
			ref::utf8_append(m, cp);
			t += m;
			v += m;
		}
		}
	}
	t += '"';
}

void jnumber(std::string& t, ref::JValue& v)
{
	std::string s;
	uint32_t r = *U32();
	if (r & 1)
		s += '-';
	int ik = *vf::irange<int>(0, 9);
	auto digits = [](int n, bool nonzero_first) {
		std::string d = *gen::container<std::string>((size_t)n, gen::elementOf(std::string("0123456789")));
		if (nonzero_first && !d.empty() && d[0] == '0')
			d[0] = '1';
		return d;
	};
	if (ik < 3)
		s += '0';
	else if (ik < 7)
		s += digits(*vf::irange<int>(1, 5), true);
	else if (ik < 9)
		s += digits(*gen::elementOf(std::vector<int>{8, 9, 10, 11, 17, 30}), true);
	else
		s += *gen::elementOf(std::vector<std::string>{"2147483647", "2147483648", "999999999", "1000000000", "4294967295", "9007199254740993", "123456789"});
	if ((r >> 1) % 5 < 2)
		s += "." + digits(*gen::elementOf(std::vector<int>{1, 1, 2, 3, 6, 17, 25}), false);
	if ((r >> 4) % 3 == 0) {
		s += (r >> 8) & 1 ? 'e' : 'E';
		int sg = (r >> 9) % 3;
		if (sg)
			s += sg == 1 ? '+' : '-';
		s += *gen::elementOf(std::vector<std::string>{"0", "1", "5", "05", "10", "22", "23", "300", "308", "309", "323", "324", "400", "0000"});
	}
	t += s;
	v = ref::JValue::number(strtod(s.c_str(), 0));
}

void jvalue(std::string& t, ref::JValue& v, Cfg& c, int depth)
{
	c.budget--;
	bool leaf = depth >= c.maxdepth || c.budget <= 0;
	int k = *gen::weightedElement<int>({{3, 0}, {3, 1}, {1, 2}, {1, 3}, {1, 4}, {leaf ? 0 : (depth == 0 ? 30 : 3), 5}, {leaf ? 0 : (depth == 0 ? 30 : 3), 6}});
	switch (k) {
	case 0: jnumber(t, v); break;
	case 1:
		v = ref::JValue::mk(ref::JValue::Str);
		jstring(t, v.str, c.maxstr);
		break;
	case 2:
		t += "true";
		v = ref::JValue::boolean(true);
		break;
	case 3:
		t += "false";
		v = ref::JValue::boolean(false);
		break;
	case 4:
		t += "null";
		v = ref::JValue::mk(ref::JValue::Null);
		break;
	case 5: {
		v = ref::JValue::mk(ref::JValue::Arr);
		int n = *vf::srange<int>(0, 8);
		t += '[';
		ws(t, c);
		for (int i = 0; i < n; i++) {
			if (i) {
				t += ',';
				ws(t, c);
			}
			v.arr.emplace_back();
			jvalue(t, v.arr.back(), c, depth + 1);
			ws(t, c);
		}
		t += ']';
		break;
	}
	default: {
		v = ref::JValue::mk(ref::JValue::Obj);
		int n = *vf::srange<int>(0, 8);
		t += '{';
		ws(t, c);
		for (int i = 0; i < n; i++) {
			if (i) {
				t += ',';
				ws(t, c);
			}
			std::string name, lit;
			if (i > 0 && *vf::irange<int>(0, 7) == 0) { // duplicate of an earlier name (written the same way)
				name = v.obj[(size_t)*vf::irange<int>(0, i - 1)].first;
				lit = "\"";
				for (unsigned char ch : name) {
					char b[8];
					if (ch < 0x20 || ch == '"' || ch == '\\') {
						snprintf(b, sizeof b, "\\u%04x", ch);
						lit += b;
					}
					else
						lit += (char)ch;
				}
				lit += '"';
			}
			else
				jstring(lit, name, *vf::irange<int>(0, 3) == 0 ? 0 : 6);
			t += lit;
			ws(t, c);
			t += ':';
			ws(t, c);
			v.obj.emplace_back(name, ref::JValue());
			jvalue(t, v.obj.back().second, c, depth + 1);
			ws(t, c);
		}
		t += '}';
	}
	}
}

Doc jdoc(int budget, int maxstr)
{
	Doc d;
	Cfg c;
	c.budget = budget;
	c.maxdepth = *vf::irange<int>(1, 8);
	c.wsp = *gen::elementOf(std::vector<int>{0, 0, 2, 5, 9});
	c.maxstr = maxstr;
	ws(d.text, c);
	jvalue(d.text, d.val, c, 0);
	ws(d.text, c);
	// the generator's value and the reference parser's must agree, else the harness itself is broken
	ref::JValue v2;
	ref::JsonInfo info;
	if (!ref::json_parse(d.text, v2, &info, 3000) || !ref::json_equal(d.val, v2) || info.nul_escape || info.lone_surrogate) {
		fprintf(stderr, "INFRA generator and reference parser disagree on %s (%s)\n", vf::show(d.text, 2000).c_str(), info.error.c_str());
		printf("INFRA generator/reference disagreement\n");
		exit(2);
	}
	return d;
}

// ---- XDL-flavoured text (no reference value: only chunk independence is claimed for it)

void xcomment(std::string& t)
{
	uint32_t r = *U32();
	static const std::vector<std::string> body = {"", " c ", "x", " a/b ", " * ", " \"q\" ", " [1,2] ", " {a=1} ", "/", " // ", "***", " \xc3\xa9 ", " \\ "};
	if (r & 1)
		t += "//" + body[(r >> 1) % body.size()] + ((r >> 8) & 1 ? "\n" : "\r\n");
	else
		t += "/*" + body[(r >> 1) % body.size()] + "*/";
}

void xws(std::string& t, int p)
{
	int k = *vf::irange<int>(0, 19);
	if (k >= p)
		return;
	if (k == 0)
		xcomment(t);
	else
		t += " \t\n "[k % 4];
}

void xvalue(std::string& t, Cfg& c, int depth)
{
	c.budget--;
	bool leaf = depth >= c.maxdepth || c.budget <= 0;
	int k = *gen::weightedElement<int>({{3, 0}, {3, 1}, {3, 2}, {leaf ? 0 : (depth == 0 ? 30 : 4), 3}, {leaf ? 0 : (depth == 0 ? 30 : 4), 4}});
	switch (k) {
	case 0: {
		ref::JValue v;
		jnumber(t, v);
		break;
	}
	case 1: {
		std::string v;
		jstring(t, v, c.maxstr);
		break;
	}
	case 2: t += *gen::elementOf(std::vector<std::string>{"Y", "N", "true", "false", "null"}); break;
	case 3: {
		int n = *vf::srange<int>(0, 7);
		t += '[';
		xws(t, c.wsp);
		for (int i = 0; i < n; i++) {
			if (i)
				t += *gen::elementOf(std::vector<std::string>{",", ", ", "\n", ",\n", "\n\t", " ,", "\r\n"});
			xvalue(t, c, depth + 1);
			xws(t, c.wsp);
		}
		t += ']';
		break;
	}
	default: {
		int n = *vf::srange<int>(0, 7);
		if (*vf::irange<int>(0, 3) == 0)
			t += *gen::elementOf(std::vector<std::string>{"Shape", "a", "T_1", "ns.Type", "Y", "null"}) + *gen::elementOf(std::vector<std::string>{"", " ", "\n"});
		t += '{';
		xws(t, c.wsp);
		for (int i = 0; i < n; i++) {
			if (i)
				t += *gen::elementOf(std::vector<std::string>{",", ", ", "\n", ",\n", "\n\t", " ,", "\r\n"});
			if (*vf::irange<int>(0, 3) == 0) {
				std::string v;
				jstring(t, v, 5);
			}
			else
				t += *gen::elementOf(std::vector<std::string>{"a", "b", "x1", "_k", "name", "Y", "null", "e5", "$type", "k.k", "9"});
			t += *gen::elementOf(std::vector<std::string>{"=", "=", ":", " = ", " : ", "= ", " ="});
			xvalue(t, c, depth + 1);
			xws(t, c.wsp);
		}
		t += '}';
	}
	}
}

std::string xdoc(int budget)
{
	Cfg c;
	c.budget = budget;
	c.maxdepth = *vf::irange<int>(1, 6);
	c.wsp = *gen::elementOf(std::vector<int>{0, 3, 8, 14});
	c.maxstr = 6;
	std::string t;
	xws(t, c.wsp);
	xvalue(t, c, 0);
	xws(t, c.wsp);
	return t;
}

std::string mutate(std::string t, const std::string& other)
{
	int times = *vf::irange<int>(1, 3);
	for (int i = 0; i < times; i++) {
		uint32_t r = *U32();
		size_t n = t.size();
		int k = *vf::irange<int>(0, 6);
		if (n == 0) {
			t += (char)(1 + r % 255);
			continue;
		}
		size_t a = r % n, b = a + 1 + (r >> 16) % 6;
		if (b > n)
			b = n;
		switch (k) {
		case 0: t = t.substr(0, r % (n + 1)); break;                       // truncate
		case 1: t.erase(a, b - a); break;                                  // delete
		case 2: t.insert(a, t.substr(a, b - a)); break;                    // duplicate
		case 3: t = t.substr(0, a) + other.substr((r >> 8) % (other.size() + 1)); break; // splice two documents
		case 4: t[a] = (char)(1 + (r >> 8) % 255); break;                  // byte flip
		case 5: t[a] = "\"\\/,:[]{}0-+.eEu*= \n"[(r >> 8) % 20]; break;     // structural character
		default: t.insert(a, 1, "\"\\/,:[]{}0-+.eEu*= \n"[(r >> 8) % 20]);
		}
	}
	return t;
}

std::vector<vf::Op> cut_ops(int count)
{
	std::vector<vf::Op> ops;
	for (int i = 0; i < count; i++) {
		vf::Op o("cut");
		int k = *vf::irange<int>(1, 7);
		for (int j = 0; j < k; j++)
			o.a.push_back(*vf::irange<int>(0, 100000));
		ops.push_back(o);
	}
	return ops;
}

vf::Case doc_case(const std::string& text, int ncuts)
{
	vf::Case c;
	vf::Op o("doc");
	o.s = {text};
	c.ops.push_back(o);
	for (auto& x : cut_ops(ncuts))
		c.ops.push_back(x);
	return c;
}

} // namespace

void vf_search(const vf::Args& a)
{
	using namespace rc;

	// (1) valid RFC 8259 documents: acceptance + value, all prefixes, all 2-cuts, 20 random k-cuts
	[&]() {
		auto g = gen::exec([]() {
			Doc d = jdoc(*gen::elementOf(std::vector<int>{6, 12, 25, 60}), 8);
			return doc_case(d.text, 20);
		});
		int samples = 0;
		vf::check_cases("json", a.n(1500, 4000), 60, g, [&](const vf::Case& c) {
			const std::string& t = c.ops[0].str(0);
			ref::JValue v;
			ref::JsonInfo info;
			ref::json_parse(t, v, &info, 3000);
			auto& st = vf::stats();
			if (info.tokens >= 2)
				st.nt(vf::fnv(t));
			st.cls(v.kind == ref::JValue::Arr ? "json.top_array" : v.kind == ref::JValue::Obj ? "json.top_object" : v.kind == ref::JValue::Str ? "json.top_string" : "json.top_other_scalar");
			if (info.duplicate_names)
				st.cls("json.duplicate_names");
			std::function<bool(const ref::JValue&)> slash_name = [&](const ref::JValue& x) {
				for (auto& m : x.obj)
					if (m.first.find('/') != std::string::npos || slash_name(m.second))
						return true;
				for (auto& e : x.arr)
					if (slash_name(e))
						return true;
				return false;
			};
			if (slash_name(v))
				st.cls("json.slash_in_member_name");
			if (info.depth >= 4)
				st.cls("json.depth>=4");
			if (t.find("\\u") != std::string::npos)
				st.cls("json.has_unicode_escape");
			if (t.find("\\ud8") != std::string::npos || t.find("\\uD8") != std::string::npos || t.find("\\uDB") != std::string::npos || t.find("\\udb") != std::string::npos)
				st.cls("json.has_surrogate_pair");
			if (t.find('/') != std::string::npos)
				st.cls("json.has_slash");
			if (t.find_first_of("eE") != std::string::npos)
				st.cls("json.has_e");
			if (t.size() >= 100)
				st.cls("json.len>=100");
			if (t.size() >= 300)
				st.cls("json.len>=300");
			if (t.size() >= 12 && t.size() <= 60 && samples++ < 3)
				st.sample("json: " + t);
		});
	}();
	// (1b) larger documents (up to ~20 KB): acceptance/value, sampled prefixes and cuts
	[&]() {
		auto g = gen::exec([]() {
			Doc d = jdoc(*gen::elementOf(std::vector<int>{300, 800, 2000}), 60);
			return doc_case(d.text, 6);
		});
		vf::check_cases("json", a.n(40, 200), 100, g, [&](const vf::Case& c) {
			vf::stats().nt(vf::fnv(c.ops[0].str(0)));
			vf::stats().cls("json.large_document");
			if (c.ops[0].str(0).size() > 600)
				vf::stats().cls("json.len>600(sampled prefixes/cuts)");
		});
	}();
	// (2) nesting up to 512
	[&]() {
		auto g = gen::exec([]() {
			vf::Case c;
			c.ops.push_back(vf::Op("nest", {*gen::weightedOneOf<int>({{3, vf::irange<int>(1, 512)}, {1, gen::elementOf(std::vector<int>{510, 511, 512, 256, 100})}}), *vf::irange<int>(0, 2)}));
			for (auto& x : cut_ops(8))
				c.ops.push_back(x);
			return c;
		});
		vf::check_cases("deep", a.n(30, 200), 100, g, [&](const vf::Case& c) {
			vf::stats().nt(vf::fnv(vf::serialize(c)));
			vf::stats().cls(c.ops[0].i(0) >= 256 ? "deep.nesting_256..512" : "deep.nesting<256");
		});
	}();
	// (3) XDL-flavoured texts: whole vs chunks only
	[&]() {
		auto g = gen::exec([]() { return doc_case(xdoc(*gen::elementOf(std::vector<int>{5, 10, 25})), 12); });
		int samples = 0;
		vf::check_cases("xdl", a.n(1200, 4000), 60, g, [&](const vf::Case& c) {
			const std::string& t = c.ops[0].str(0);
			Var v = Xdl::decode(String(t.c_str()));
			auto& st = vf::stats();
			st.cls(v.ok() ? "xdl.accepted_by_asl" : "xdl.rejected_by_asl");
			if (v.ok() && t.size() >= 4)
				st.nt(vf::fnv(t));
			if (t.find("//") != std::string::npos || t.find("/*") != std::string::npos)
				st.cls("xdl.has_comment");
			if (v.ok() && t.size() >= 12 && t.size() <= 70 && samples++ < 3)
				st.sample("xdl: " + t);
		});
	}();
	// (4) mutated documents: totality + whole vs chunks
	[&]() {
		auto g = gen::exec([]() {
			bool x = *vf::irange<int>(0, 2) == 0;
			std::string base = x ? xdoc(12) : jdoc(12, 6).text;
			std::string other = *vf::irange<int>(0, 1) ? xdoc(6) : jdoc(6, 4).text;
			return doc_case(mutate(base, other), 8);
		});
		vf::check_cases("mut", a.n(2000, 8000), 60, g, [&](const vf::Case& c) {
			const std::string& t = c.ops[0].str(0);
			Var v = Xdl::decode(String(t.c_str()));
			vf::stats().cls(v.ok() ? "mut.accepted_by_asl" : "mut.rejected_by_asl");
			if (t.size() >= 4)
				vf::stats().nt(vf::fnv(t));
		});
	}();
	// (7) Json::read / Xdl::read on paths that cannot be read: all kinds x both readers, several rounds (enumerated)
	[&]() {
		if (a.worker != 0) // identical for every worker; one worker keeps a failing run short (each confirmation waits for the watchdog)
			return;
		uint64_t n = 0;
		int rounds = (int)a.n(4, 12);
		for (int r = 0; r < rounds; r++)
			for (int kind = 0; kind < 8; kind++)
				for (int reader = 0; reader < 2; reader++) {
					vf::Case c;
					c.ops.push_back(vf::Op("path", {kind, reader}));
					if (!vf::runner().run("paths", c))
						return;
					n++;
				}
		vf::stats().nt_counted(16);
		vf::stats().part("paths.all_kinds_x_both_readers", n, true);
	}();
	// (6) parser objects that are REUSED: 2..6 documents on one XdlParser with reset() in between, whole or chunked
	[&]() {
		auto g = gen::exec([]() {
			vf::Case c;
			int n = *vf::irange<int>(2, 6);
			for (int i = 0; i < n; i++) {
				int k = *vf::irange<int>(0, 9);
				std::string t = k < 5 ? jdoc(*gen::elementOf(std::vector<int>{3, 6, 12}), 6).text : k < 9 ? xdoc(*gen::elementOf(std::vector<int>{3, 6, 12})) : mutate(jdoc(6, 4).text, xdoc(4));
				vf::Op o("doc", {*vf::irange<int>(0, 1)}, {t});
				c.ops.push_back(o);
				if (*vf::irange<int>(0, 2) != 0)
					for (auto& x : cut_ops(1))
						c.ops.push_back(x);
			}
			return c;
		});
		int samples = 0;
		vf::check_cases("reuse", a.n(1500, 8000), 60, g, [&](const vf::Case& c) {
			int accepted_run = 0, best = 0;
			for (auto& o : c.ops)
				if (o.name == "doc") {
					accepted_run = Xdl::decode(String(o.str(0).c_str())).ok() ? accepted_run + 1 : 0;
					best = std::max(best, accepted_run);
				}
			auto& st = vf::stats();
			if (best >= 2) // at least one document really decoded by a reused parser after reset()
				st.nt(vf::fnv(vf::serialize(c)));
			st.cls(best >= 4 ? "reuse.sessions_with_4+_consecutive_accepted" : best >= 2 ? "reuse.sessions_with_2-3_consecutive_accepted" : "reuse.sessions_without_real_reuse");
			if (best >= 3 && samples++ < 2)
				st.sample("reuse: " + vf::serialize(c));
		});
	}();
	// (5) random strings over a structural alphabet
	[&]() {
		auto g = gen::exec([]() {
			auto tok = gen::weightedOneOf<int>({{12, gen::elementOf(std::vector<int>{'[', ']', '{', '}', '"', '"', ',', ':', '=', '\\', '/', '*', 'u', 'e', 'E', '0', '1', '9', '.', '-', '+', 't', 'n', 'Y', 'a', ' ', '\n', 'd', 'D'})},
			                                    {1, vf::irange<int>(1, 255)}});
			std::string t;
			for (int x : *gen::container<std::vector<int>>(tok))
				t += (char)x;
			return doc_case(t, 6);
		});
		vf::check_cases("raw", a.n(3000, 12000), 40, g, [&](const vf::Case& c) {
			const std::string& t = c.ops[0].str(0);
			if (t.size() >= 4)
				vf::stats().nt(vf::fnv(t));
			vf::stats().cls("raw.texts");
		});
	}();
}
