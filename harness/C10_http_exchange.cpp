// C10 -- HTTP client <-> server: exact methods, paths, queries, headers, status codes and bodies in both directions.
//
// One in-process HttpServer subclass (concurrent mode, 127.0.0.1:0 and [::1]:0, ports read back) lives for the whole
// process.  A mutex-protected spec table is shared between the generating side and the handler: the request path
// carries the id, the handler compares what it received with spec.request and produces spec.response; the client side
// compares what it got with spec.response.  Clients: the library client (Http::request / get / post / put / patch /
// delet / download / upload) and a raw-socket client built on harness/common/ref_http10.h (arbitrary fragmentation,
// Content-Length or chunked, kept-alive connections).  The chunked *response* direction uses ref::MiniServer answering
// the library client, which also checks the request bytes the library client emits with an independent reader.
//
// Case = list of `ex` ops (one exchange each).  Ops of the same lane run sequentially on one thread (and may share a
// kept-alive raw connection), different lanes run concurrently.
#include "common/vfrc.h"
#include "common/ref_codec.h"
#include "common/ref_http10.h"
#include <asl/Http.h>
#include <asl/HttpServer.h>
#include <asl/File.h>
#include <asl/Var.h>
#include <thread>
#include <mutex>
#include <condition_variable>
#include <memory>
#include <atomic>
#include <algorithm>
#include <dirent.h>
#include <utime.h>
#include <sys/stat.h>
#include <cmath>

using asl::String;
using asl::ByteArray;
using asl::Var;
using asl::Dic;
using asl::Http;
using asl::HttpRequest;
using asl::HttpResponse;
using asl::HttpServer;
using ref::HeaderList;

const char* vf_harness_name() { return "C10_http_exchange"; }

// ------------------------------------------------------------------------------------------------ small helpers

static std::string S(const String& s) { return std::string(*s, (size_t)s.length()); }
static std::string S(const ByteArray& b) { return std::string((const char*)b.data(), (size_t)b.length()); }
static String AS(const std::string& s) { return String(s.data(), (int)s.size()); }
static ByteArray BA(const std::string& s)
{
	ByteArray a((int)s.size());
	if (!s.empty())
		memcpy(a.data(), s.data(), s.size());
	return a;
}

enum { A_LANE, A_CLIENT, A_METHOD, A_CODE, A_FLAGS, A_RLEN, A_RSEED, A_RKIND, A_PLEN, A_PSEED, A_PKIND, A_RMODE, A_FRAG, A_FSEED,
	   A_NQ, A_NRH, A_NPH, A_RANGE, A_RB, A_RE, A_V6, A_IMS, A_CUT, A_TWICE, A_COUNT };
// A_CUT k+1: the raw client sends only the first k bytes (k modulo the request length) and half-closes the connection
// A_TWICE d+1: a body is set twice on the same message: first a decoy through setter d (0 ByteArray, 1 String, 2 const char*,
//              3 Var, 4 File, 5 serveFile()), then the real one -- the last one set must be the one that travels
enum { S_PATH, S_METHOD, S_FIRST };
enum { CL_REQUEST = 0, CL_STATIC = 1, CL_RAW = 2, CL_MINI = 3 };
enum { RM_BYTES = 0, RM_STRING = 1, RM_STREAM = 2, RM_JSON = 3, RM_FILE = 4, RM_NONE = 5, RM_CHUNKED = 6, RM_SERVE = 7 };
// RM_SERVE: the handler calls HttpServer::serveFile() on a file under the web root (becomes RM_FILE with Spec::serve set)
enum {
	F_KEEP = 1,        // raw: leave the connection open for the next raw op of the lane
	F_NOFOLLOW = 2,    // library client: setFollowRedirects(false) (3xx codes are then visible)
	F_STRBODY = 4,     // library client: body through put(String) (NUL-free content)
	F_CHUNKED = 8,     // raw: request body chunked; mini server: response body chunked
	F_UPPERHEX = 16,   // chunk sizes in upper-case hex
	F_HTTP10 = 32,     // raw: HTTP/1.0 request
	F_SMALLRCV = 64,   // raw: small receive buffer (back pressure on the server's sends)
	F_NOBODYCALL = 128, // library client: with an empty body do not call put() at all
	F_JSONREQ = 256,   // request body is a JSON document (library: put(Var))
	F_FILEREQ = 512,   // library client: request body is a File
	F_UPLOAD = 1024,   // library client: Http::upload (with F_MULTIPART: multipart/form-data)
	F_MULTIPART = 2048,
	F_DOWNLOAD = 4096, // library client: Http::download into a file
	F_SETHDR = 8192,   // library client: headers through setHeader() instead of the constructor's Dic
	F_LATECODE = 16384, // handler: setCode / headers after the body was put
	F_EXPECT = 32768   // raw: "Expect: 100-continue", the body is sent after the interim response (or a short wait)
};

static const char* METHODS[] = {"GET", "POST", "PUT", "PATCH", "DELETE"};

// body content: a pure function of (length, seed, kind) so that a case stays small whatever the body size
static std::string gen_body(size_t len, uint64_t seed, int kind)
{
	std::string r(len, '\0');
	ref::SplitMix g(seed * 0x9e3779b97f4a7c15ULL + (uint64_t)kind);
	kind = ((kind % 5) + 5) % 5;
	if (kind == 0) { // arbitrary bytes
		size_t i = 0;
		while (i < len) {
			uint64_t v = g.next();
			for (int k = 0; k < 8 && i < len; k++, v >>= 8)
				r[i++] = (char)(v & 255);
		}
	}
	else if (kind == 1) { // dense in CR / LF / NUL and other bytes a framing layer could trip over
		static const char pool[] = {'\r', '\n', '\0', ' ', ':', '0', 'a', (char)0xff, '\r', '\n', ';', '%'};
		size_t i = 0;
		while (i < len) {
			uint64_t v = g.next();
			for (int k = 0; k < 12 && i < len; k++, v >>= 4)
				r[i++] = pool[(v & 15) % sizeof pool];
		}
	}
	else if (kind == 2) { // looks like HTTP framing
		static const std::string pat = "\r\n\r\nHTTP/1.1 200 OK\r\nContent-Length: 5\r\n\r\n0\r\n\r\n1a\r\nGET /c10/000001/ HTTP/1.1\r\nTransfer-Encoding: chunked\r\n\r\n";
		size_t off = (size_t)g.below(pat.size());
		for (size_t i = 0; i < len; i++)
			r[i] = pat[(i + off) % pat.size()];
	}
	else if (kind == 3) { // NUL-free text (usable through the String overloads)
		size_t i = 0;
		while (i < len) {
			uint64_t v = g.next();
			for (int k = 0; k < 8 && i < len; k++, v >>= 8) {
				unsigned c = (unsigned)(v & 255);
				r[i++] = (char)(c == 0 ? '\n' : c < 16 ? '\r' : c);
			}
		}
	}
	else { // one repeated byte
		char c = (char)g.below(256);
		for (size_t i = 0; i < len; i++)
			r[i] = c;
	}
	return r;
}

static bool is_tchar(unsigned char c)
{
	return (c >= 'a' && c <= 'z') || (c >= 'A' && c <= 'Z') || (c >= '0' && c <= '9') || (c != 0 && strchr("!#$%&'*+-.^_`|~", c));
}

static bool reserved_header(const std::string& lower_name)
{
	static const char* R[] = {"host", "content-length", "transfer-encoding", "connection", "expect", "upgrade", "range", "content-range",
							  "content-type", "origin", "if-modified-since", "allow", "date", "cache-control", "last-modified", "location",
							  "x-c10-token", 0};
	for (int i = 0; R[i]; i++)
		if (lower_name == R[i])
			return true;
	return lower_name.compare(0, 15, "access-control-") == 0;
}

// header list as the statement allows it: token names (distinct ignoring case, none that the library or HTTP itself
// gives a meaning), values of printable text without leading/trailing blanks
static HeaderList clean_headers(const HeaderList& in)
{
	HeaderList out;
	std::set<std::string> seen;
	for (auto& h : in) {
		std::string n, v;
		for (unsigned char c : h.first)
			if (is_tchar(c))
				n += (char)c;
		if (n.empty())
			n = "X";
		if (n.size() > 200)
			n.resize(200);
		if (reserved_header(ref::http_lower(n)))
			n = "X-" + n;
		for (unsigned char c : h.second)
			v += (c >= 32 && c != 127) ? (char)c : '?';
		if (v.size() > 8000)
			v.resize(8000);
		size_t a = v.find_first_not_of(' '), b = v.find_last_not_of(' ');
		v = a == std::string::npos ? "" : v.substr(a, b - a + 1);
		if (!seen.insert(ref::http_lower(n)).second)
			continue;
		out.push_back(std::make_pair(n, v));
	}
	return out;
}

static HeaderList clean_query(const HeaderList& in)
{
	HeaderList out;
	std::set<std::string> seen;
	for (auto& h : in) {
		std::string k, v;
		for (char c : h.first)
			if (c)
				k += c;
		for (char c : h.second)
			if (c)
				v += c;
		if (k.empty())
			k = "k";
		if (!seen.insert(k).second)
			continue;
		out.push_back(std::make_pair(k, v));
	}
	return out;
}

static std::string clean_path(const std::string& in)
{
	std::string p;
	for (char c : in)
		if (c)
			p += c;
	// the server removes ".." from decoded paths on purpose (C09); such paths are outside this property
	for (size_t i = 1; i < p.size(); i++)
		if (p[i] == '.' && p[i - 1] == '.')
			p[i] = '_';
	return p;
}

// a name in a different letter case (lookups must be case-insensitive)
static std::string recase(const std::string& n, uint64_t bits)
{
	std::string r = n;
	for (size_t i = 0; i < r.size(); i++, bits = bits * 6364136223846793005ULL + 1442695040888963407ULL) {
		char& c = r[i];
		if ((bits >> 40) & 1) {
			if (c >= 'a' && c <= 'z')
				c = (char)(c - 32);
			else if (c >= 'A' && c <= 'Z')
				c = (char)(c + 32);
		}
	}
	return r;
}

// ------------------------------------------------------------------------------------------------ JSON values

struct JV {
	int t = 0; // 0 null 1 bool 2 int 3 fraction (k/8) 4 string 5 array 6 object
	long long i = 0;
	double d = 0;
	std::string s;
	std::vector<JV> a;
	std::vector<std::pair<std::string, JV>> o;
};

static std::string gen_jstring(ref::SplitMix& g)
{
	// no control characters and (in keys) no '/': open findings of the JSON codec (C05/C06), not of HTTP
	static const char* frag[] = {"a", "Z", "0", " ", "\"", "\\", "\xc3\xa9", "\xe2\x82\xac", "\xf0\x9d\x84\x9e", "/", ":", "{", "}", "[", "]", ",", "http", "\\n", "'", "%41"};
	std::string s;
	int n = (int)g.below(9);
	for (int i = 0; i < n; i++)
		s += frag[g.below(sizeof frag / sizeof *frag)];
	return s;
}

// real numbers: besides short binary fractions, values that need all 17 significant digits to survive a text round trip
static double gen_double(ref::SplitMix& g)
{
	for (;;) {
		double x = 0;
		switch ((int)g.below(9)) {
		case 0: x = ((long long)g.below(1 << 21) - (1 << 20)) / 8.0; break;
		case 1: x = (double)(1 + g.below(1000000)) / 3.0; break;
		case 2: x = (double)g.below(1000) / 10.0 + 0.2; break;                            // 0.1 + 0.2 and friends
		case 3: x = 1600000000.0 + (double)g.below(400000000) + (double)g.below(1000000) * 1e-6; break; // microsecond timestamps
		case 4: {
			uint64_t b = g.next();
			memcpy(&x, &b, 8);
			break;
		}
		case 5: x = 3.141592653589793 * std::pow(10.0, (double)((int)g.below(41) - 20)); break;
		case 6: x = (1.0 + (double)g.below(1000000007) / 1000000007.0) * (g.below(2) ? 1e300 : 1e-300); break;
		case 7: x = 1.0 / (double)(1 + g.below(100000)); break;
		default: x = -(double)g.below(1000000007) / 977.0; break;
		}
		if (std::isfinite(x) && (x == 0 || (std::fabs(x) > 1e-305 && std::fabs(x) < 1e305)))
			return x == 0 ? 0.0 : x;
	}
}

static JV gen_jv(ref::SplitMix& g, int depth, int& budget)
{
	JV v;
	budget--;
	int k = (int)g.below(depth <= 0 || budget <= 0 ? 5 : 8);
	if (k >= 5)
		k = k == 7 ? 6 : k;
	v.t = k;
	switch (k) {
	case 1: v.i = (long long)g.below(2); break;
	case 2: v.i = (long long)(g.next() % 4294967295ULL) - 2147483647LL; break;
	case 3: v.d = gen_double(g); break;
	case 4: v.s = gen_jstring(g); break;
	case 5: {
		int n = (int)g.below(6);
		for (int i = 0; i < n && budget > 0; i++)
			v.a.push_back(gen_jv(g, depth - 1, budget));
		break;
	}
	case 6: {
		int n = (int)g.below(6);
		for (int i = 0; i < n && budget > 0; i++) {
			std::string key(1, (char)('a' + g.below(26)));
			int kl = (int)g.below(6);
			for (int j = 0; j < kl; j++)
				key += "abcxyz019_"[g.below(10)];
			bool dup = false;
			for (auto& e : v.o)
				if (e.first == key)
					dup = true;
			if (!dup)
				v.o.push_back(std::make_pair(key, gen_jv(g, depth - 1, budget)));
		}
		break;
	}
	default: break;
	}
	return v;
}

static JV gen_json_doc(uint64_t seed, int size)
{
	ref::SplitMix g(seed ^ 0x6a09e667f3bcc908ULL);
	int budget = 2 + size % 200;
	JV v;
	// a document is an object, an array or (RFC 8259) any single value: the falsy ones -- false, 0, "", null -- are still
	// valid JSON and must come back as themselves
	int top = (int)g.below(22);
	if (top < 10) {
		switch (top) {
		case 0: v.t = 1; v.i = 0; break;                       // false
		case 1: v.t = 1; v.i = 1; break;                       // true
		case 2: v.t = 2; v.i = 0; break;                       // 0
		case 3: v.t = 2; v.i = -1 - (long long)g.below(2147483647); break;
		case 4: v.t = 2; v.i = g.below(2) ? 2147483647LL : (long long)g.below(2147483647); break;
		case 5: v.t = 3; v.d = gen_double(g); break;
		case 6: v.t = 3; v.i = 0; v.d = 0.0; break;             // 0.0
		case 7: v.t = 4; break;                                // ""
		case 8: v.t = 4; v.s = gen_jstring(g); if (v.s.empty()) v.s = "0"; break;
		default: v.t = 0; break;                               // null
		}
		return v;
	}
	v.t = g.below(2) ? 6 : 5;
	int n = (int)g.below(7); // also [] and {}
	for (int i = 0; i < n && budget > 0; i++) {
		if (v.t == 5)
			v.a.push_back(gen_jv(g, 3, budget));
		else {
			std::string key = "k" + std::to_string(i);
			v.o.push_back(std::make_pair(key, gen_jv(g, 3, budget)));
		}
	}
	return v;
}

static Var to_var(const JV& j)
{
	switch (j.t) {
	case 0: return Var(Var::NUL);
	case 1: return Var(j.i != 0);
	case 2: return Var((int)j.i);
	case 3: return Var(j.d);
	case 4: return Var(AS(j.s));
	case 5: {
		Var v(Var::ARRAY);
		for (auto& e : j.a)
			v << to_var(e);
		return v;
	}
	default: {
		Var v(Var::OBJ);
		for (auto& e : j.o)
			v[AS(e.first)] = to_var(e.second);
		return v;
	}
	}
}

// independent serialiser (for JSON request bodies sent by the raw client)
static void jv_text(const JV& j, std::string& out, ref::SplitMix& ws)
{
	auto sp = [&]() {
		if (ws.below(4) == 0)
			out += ws.below(2) ? " " : "\n";
	};
	char b[64];
	switch (j.t) {
	case 0: out += "null"; break;
	case 1: out += j.i ? "true" : "false"; break;
	case 2: out += std::to_string(j.i); break;
	case 3:
		snprintf(b, sizeof b, "%.17g", j.d);
		out += b;
		break;
	case 4:
		out += '"';
		for (unsigned char c : j.s) {
			if (c == '"' || c == '\\') {
				out += '\\';
				out += (char)c;
			}
			else
				out += (char)c;
		}
		out += '"';
		break;
	case 5:
		out += '[';
		for (size_t i = 0; i < j.a.size(); i++) {
			if (i)
				out += ',';
			sp();
			jv_text(j.a[i], out, ws);
		}
		sp();
		out += ']';
		break;
	default:
		out += '{';
		for (size_t i = 0; i < j.o.size(); i++) {
			if (i)
				out += ',';
			sp();
			out += '"' + j.o[i].first + "\":";
			sp();
			jv_text(j.o[i].second, out, ws);
		}
		sp();
		out += '}';
	}
}

static bool var_eq(const Var& v, const JV& j, std::string& why, const std::string& at = "$")
{
	auto bad = [&](const std::string& m) {
		if (why.empty())
			why = at + ": " + m;
		return false;
	};
	Var::Type t = v.type();
	switch (j.t) {
	case 0: return t == Var::NUL ? true : bad("expected null, type " + std::to_string((int)t));
	case 1: return (t == Var::BOOL && (bool)v == (j.i != 0)) ? true : bad("expected bool " + std::to_string(j.i));
	case 2:
	case 3: {
		if (t != Var::INT && t != Var::NUMBER && t != Var::FLOAT)
			return bad("expected a number, type " + std::to_string((int)t));
		double want = j.t == 2 ? (double)j.i : j.d;
		if ((double)v == want)
			return true;
		char nb[96];
		snprintf(nb, sizeof nb, "number %.17g != %.17g", (double)v, want);
		return bad(nb);
	}
	case 4: return (t == Var::STRING && S(v.toString()) == j.s) ? true : bad("expected string " + vf::show(j.s) + " got " + vf::show(S(v.toString())));
	case 5: {
		if (t != Var::ARRAY || v.length() != (int)j.a.size())
			return bad("expected array of " + std::to_string(j.a.size()));
		for (size_t i = 0; i < j.a.size(); i++)
			if (!var_eq(v[(int)i], j.a[i], why, at + "[" + std::to_string(i) + "]"))
				return false;
		return true;
	}
	default: {
		if (t != Var::OBJ || v.length() != (int)j.o.size())
			return bad("expected object with " + std::to_string(j.o.size()) + " members");
		for (auto& e : j.o) {
			if (!v.has(AS(e.first)))
				return bad("member " + e.first + " missing");
			if (!var_eq(v[AS(e.first)], e.second, why, at + "." + e.first))
				return false;
		}
		return true;
	}
	}
}

// ------------------------------------------------------------------------------------------------ temp files

static std::string& tmpdir()
{
	static std::string* d = 0;
	if (!d) {
		d = new std::string("build/tmp/" + std::to_string((long)getpid()));
		mkdir("build", 0755);
		mkdir("build/tmp", 0755);
		mkdir(d->c_str(), 0755);
	}
	return *d;
}
static void cleanup_tmp()
{
	std::string d = tmpdir();
	if (DIR* dir = opendir(d.c_str())) {
		while (dirent* e = readdir(dir))
			if (e->d_name[0] != '.')
				unlink((d + "/" + e->d_name).c_str());
		closedir(dir);
	}
	std::string w = d + "/c10"; // web root part: c10/<id>/<file>
	if (DIR* dir = opendir(w.c_str())) {
		while (dirent* e = readdir(dir))
			if (e->d_name[0] != '.') {
				std::string sub = w + "/" + e->d_name;
				if (DIR* d2 = opendir(sub.c_str())) {
					while (dirent* e2 = readdir(d2))
						if (e2->d_name[0] != '.')
							unlink((sub + "/" + e2->d_name).c_str());
					closedir(d2);
				}
				rmdir(sub.c_str());
			}
		closedir(dir);
	}
	rmdir(w.c_str());
	rmdir(d.c_str());
}
static bool write_file(const std::string& path, const std::string& data)
{
	FILE* f = fopen(path.c_str(), "wb");
	if (!f)
		return false;
	size_t n = data.empty() ? 0 : fwrite(data.data(), 1, data.size(), f);
	fclose(f);
	return n == data.size();
}
static bool read_file(const std::string& path, std::string& data)
{
	data.clear();
	FILE* f = fopen(path.c_str(), "rb");
	if (!f)
		return false;
	char buf[65536];
	size_t n;
	while ((n = fread(buf, 1, sizeof buf, f)) > 0)
		data.append(buf, n);
	fclose(f);
	return true;
}

// ------------------------------------------------------------------------------------------------ specs

struct Spec {
	// identity / routing
	int id = 0, idx = 0, lane = 0, client = 0, flags = 0, rmode = 0, frag = 0, range = 0;
	uint64_t fseed = 0;
	bool v6 = false;
	// request as it must be observed
	std::string method, path, target; // path: decoded, as the handler must see it; target: what goes on the wire / into the URL
	HeaderList query, reqh;
	std::string reqbody;
	bool reqjson = false;
	JV rj;
	std::string reqfile, upload_name; // File bodies
	// response as it is produced
	int code = 200;
	HeaderList resph;
	std::string respbody; // for RM_FILE: the whole file
	JV pj;
	std::string respfile, dlfile;
	long rb = 0, re = 0;
	// what the client must see (derived)
	int want_code = 200;
	std::string want_body, want_content_range, want_mime, file_ext;
	bool serve = false; // file served by HttpServer::serveFile() from the web root
	int ims = 0;        // If-Modified-Since variant
	long cut = 0;       // >0: truncated request (cut-1 modulo the wire length bytes are sent)
	int twice = 0;      // >0: decoy body setter twice-1 before the real one
	std::string decoyfile, cutclass;
	long mtime = 0;
	std::string ims_value, servedir;
	// results
	std::mutex m;
	int handled = 0;
	std::vector<std::string> errors; // recorded by the handler side
	bool mini_closed = false;
	size_t mini_extra = 0;
	std::condition_variable cv;
};
typedef std::shared_ptr<Spec> SpecP;

struct Table {
	std::mutex m;
	std::map<int, SpecP> specs;
	std::vector<std::string> orphans; // requests that matched no spec
	SpecP find(int id)
	{
		std::lock_guard<std::mutex> l(m);
		auto it = specs.find(id);
		return it == specs.end() ? SpecP() : it->second;
	}
	void put(const SpecP& s)
	{
		std::lock_guard<std::mutex> l(m);
		specs[s->id] = s;
	}
	void orphan(const std::string& what)
	{
		std::lock_guard<std::mutex> l(m);
		if (orphans.size() < 20)
			orphans.push_back(what);
	}
};
static Table& table()
{
	static Table* t = new Table;
	return *t;
}

static int id_of_path(const std::string& p)
{
	if (p.size() < 11 || p.compare(0, 5, "/c10/") != 0)
		return -1;
	int id = 0;
	for (int i = 5; i < 11; i++) {
		if (p[i] < '0' || p[i] > '9')
			return -1;
		id = id * 10 + (p[i] - '0');
	}
	return id;
}

static const char* reason_of(int code)
{
	return code == 200 ? "OK" : code == 404 ? "Not Found" : code >= 500 ? "Internal Thing" : code >= 400 ? "Bad Thing" : code >= 300 ? "Moved Somewhere" : "Fine";
}

// multipart/form-data as Http::upload documents it: one file item carrying the file's bytes
static std::string check_multipart(const std::string& ctype, const std::string& body, const std::string& content, const std::string& fname)
{
	const std::string pre = "multipart/form-data; boundary=";
	if (ctype.compare(0, pre.size(), pre) != 0)
		return "Content-Type is not multipart/form-data with a boundary: " + vf::show(ctype);
	std::string b = ctype.substr(pre.size());
	if (b.empty())
		return "empty boundary";
	std::string open = "--" + b + "\r\n", close = "\r\n--" + b + "--\r\n";
	if (body.compare(0, open.size(), open) != 0)
		return "body does not start with the boundary line";
	size_t he = body.find("\r\n\r\n", open.size());
	if (he == std::string::npos)
		return "part headers not terminated";
	std::string ph = body.substr(open.size(), he - open.size());
	if (ph.find("filename=\"" + fname + "\"") == std::string::npos)
		return "part headers lack filename=\"" + fname + "\": " + vf::show(ph, 200);
	size_t start = he + 4;
	if (body.size() < start + close.size() || body.compare(body.size() - close.size(), close.size(), close) != 0)
		return "body does not end with the closing boundary (body " + std::to_string(body.size()) + " bytes)";
	std::string got = body.substr(start, body.size() - close.size() - start);
	if (got != content)
		return "file item content differs: got " + std::to_string(got.size()) + " bytes, sent " + std::to_string(content.size());
	return "";
}

static std::string diff_bytes(const std::string& got, const std::string& want)
{
	size_t i = 0;
	while (i < got.size() && i < want.size() && got[i] == want[i])
		i++;
	return "got " + std::to_string(got.size()) + " bytes, expected " + std::to_string(want.size()) + ", first difference at offset " + std::to_string(i) +
		   " (got " + vf::show(got.substr(i, 12)) + " expected " + vf::show(want.substr(i, 12)) + ")";
}

// ------------------------------------------------------------------------------------------------ the library server

struct Srv : public HttpServer {
	int port = 0;
	bool up(const char* ip)
	{
		if (!bind(ip, 0))
			return false;
		setRoot(AS(tmpdir()));
		port = _sockets[0].localAddress().port();
		start(true);
		return port > 0;
	}
	int clients() { return (int)_numClients; }

	void serve(HttpRequest& q, HttpResponse& r)
	{
		std::string path = S(q.path());
		int id = id_of_path(path);
		SpecP sp = id >= 0 ? table().find(id) : SpecP();
		if (!sp) {
			table().orphan("handler got " + vf::show(S(q.method())) + " " + vf::show(path, 200) + " which matches no outstanding request");
			r.setCode(500);
			r.put("unknown");
			return;
		}
		Spec& s = *sp;
		std::vector<std::string> e;
		if (S(q.method()) != s.method)
			e.push_back("handler: method " + vf::show(S(q.method())) + " != sent " + vf::show(s.method));
		if (path != s.path)
			e.push_back("handler: decoded path " + vf::show(path, 300) + " != sent " + vf::show(s.path, 300));
		for (auto& kv : s.query) {
			std::string got = S(q.query(AS(kv.first)));
			if (got != kv.second)
				e.push_back("handler: query value of " + vf::show(kv.first) + " is " + vf::show(got, 200) + " != sent " + vf::show(kv.second, 200));
		}
		if (q.query().length() != (int)s.query.size())
			e.push_back("handler: " + std::to_string(q.query().length()) + " query parameters, sent " + std::to_string(s.query.size()));
		uint64_t bits = s.fseed * 31 + 7;
		for (auto& h : s.reqh) {
			bits = bits * 6364136223846793005ULL + 1442695040888963407ULL;
			std::string got = S(q.header(AS(recase(h.first, bits))));
			if (got != h.second)
				e.push_back("handler: header " + vf::show(h.first) + " is " + vf::show(got, 200) + " != sent " + vf::show(h.second, 200));
		}
		std::string body = S(q.body());
		if (s.flags & F_MULTIPART) {
			std::string m = check_multipart(S(q.header("Content-Type")), body, s.reqbody, s.upload_name);
			if (!m.empty())
				e.push_back("handler: upload: " + m);
		}
		else if (s.reqjson && s.client != CL_RAW) {
			// the bytes are the library encoder's business (C05); what must arrive is the document
			std::string why;
			if (!var_eq(q.json(), s.rj, why))
				e.push_back("handler: json() differs from the document sent at " + why + "; body " + vf::show(body, 200));
			if (S(q.header("content-type")) != "application/json")
				e.push_back("handler: Content-Type of a Var body is " + vf::show(S(q.header("content-type"))));
		}
		else {
			if (body != s.reqbody)
				e.push_back("handler: body " + diff_bytes(body, s.reqbody));
			if (s.reqjson) {
				std::string why;
				if (!var_eq(q.json(), s.rj, why))
					e.push_back("handler: json() of a raw JSON body differs at " + why);
			}
		}
		if (q.hasHeader("Content-Length") && S(q.header("Content-Length")) != std::to_string(body.size()))
			e.push_back("handler: Content-Length header " + vf::show(S(q.header("Content-Length"))) + " but the body received has " + std::to_string(body.size()) + " bytes");
		if (s.ims && S(q.header("if-modified-since")) != s.ims_value)
			e.push_back("handler: If-Modified-Since " + vf::show(S(q.header("if-modified-since"))) + " != sent " + vf::show(s.ims_value));
		if (s.range) {
			std::string want = "bytes=" + std::to_string(s.rb) + "-" + (s.range == 1 ? std::to_string(s.re) : "");
			if (S(q.header("Range")) != want)
				e.push_back("handler: Range header " + vf::show(S(q.header("Range"))) + " != sent " + vf::show(want));
		}
		{
			std::lock_guard<std::mutex> l(s.m);
			s.handled++;
			for (auto& x : e)
				if (s.errors.size() < 8)
					s.errors.push_back(x);
		}
		// ---- produce the response
		auto head = [&]() {
			r.setCode(s.code);
			uint64_t b2 = s.fseed * 17 + 3;
			for (auto& h : s.resph) {
				b2 = b2 * 6364136223846793005ULL + 1442695040888963407ULL;
				r.setHeader(AS(recase(h.first, b2)), AS(h.second));
			}
			r.setHeader("X-C10-Token", String(s.id));
		};
		bool late = (s.flags & F_LATECODE) && s.rmode != RM_STREAM && s.rmode != RM_CHUNKED && !s.serve; // serveFile() sets the status itself
		bool decoy = s.twice && (s.rmode == RM_BYTES || s.rmode == RM_STRING || s.rmode == RM_JSON || s.rmode == RM_FILE);
		if (decoy) {
			// a body that is replaced afterwards: whatever was set first, the response is the one set last
			switch (s.twice - 1) {
			case 0: r.put(BA(gen_body(s.respbody.size() / 2 + 3, s.fseed + 9, 0))); break;
			case 1: r.put(String("first body, to be replaced\r\n")); break;
			case 2: r.put("first body (const char*), to be replaced"); break;
			case 3: r.put(to_var(gen_json_doc(s.fseed + 11, 30))); break;
			case 4: r.put(asl::File(AS(s.decoyfile))); break;
			default: serveFile(q, r); break; // usually "404 Not found" (no such file below the root); status and headers follow
			}
		}
		if (!late)
			head();
		switch (s.rmode) {
		case RM_BYTES: r.put(BA(s.respbody)); break;
		case RM_STRING:
			if (s.fseed & 2048)
				r.put(s.respbody.c_str()); // const char* overload (the content is NUL-free)
			else
				r.put(AS(s.respbody));
			break;
		case RM_JSON: r.put(to_var(s.pj)); break;
		case RM_FILE:
			if (s.serve)
				serveFile(q, r); // static file below the web root
			else
				r.put(asl::File(AS(s.respfile)));
			break;
		case RM_STREAM: {
			r.setHeader("Content-Length", String((int)s.respbody.size()));
			ref::SplitMix g(s.fseed ^ 0x51ed27);
			size_t at = 0;
			while (at < s.respbody.size()) {
				size_t n = 1 + (size_t)g.below(g.below(3) == 0 ? 300000 : 3000);
				if (n > s.respbody.size() - at)
					n = s.respbody.size() - at;
				r.write(s.respbody.data() + at, (int)n);
				at += n;
			}
			break;
		}
		case RM_CHUNKED: {
			// streamed without a length: the library frames every write() as chunks; it sends no last-chunk, the body ends
			// when the server closes the connection (the request carries "Connection: close")
			r.setHeader("Transfer-Encoding", "chunked");
			ref::SplitMix g(s.fseed ^ 0x7c3a11);
			int pattern = (int)((s.fseed >> 20) % 3);
			size_t at = 0, total = s.respbody.size();
			while (at < total) {
				size_t n = pattern == 0 ? total : pattern == 1 ? (at == 0 ? total / 2 + 1 : total - at) : 1 + (size_t)g.below(g.below(3) == 0 ? 400000 : 3000);
				if (n > total - at)
					n = total - at;
				r.write(s.respbody.data() + at, (int)n);
				at += n;
			}
			break;
		}
		default: break;
		}
		if (late)
			head();
	}
};

static Srv* g_srv[2] = {0, 0};
static ref::MiniServer* g_mini = 0;
static ref::MiniServer* g_mini6 = 0;
static std::string g_v6_unavailable;

static void mini_request(ref::Conn& c, const ref::Message& m, const std::string& err);
static void mini_close(const std::string& target, size_t extra);

static void ensure_servers()
{
	static std::once_flag once;
	std::call_once(once, [] {
		tmpdir();
		atexit(cleanup_tmp);
		g_srv[0] = new Srv; // never destroyed: the servers live as long as the process
		if (!g_srv[0]->up("127.0.0.1")) {
			printf("INFRA cannot bind 127.0.0.1:0: %s\n", *g_srv[0]->socketError());
			exit(2);
		}
		g_srv[1] = new Srv;
		if (!g_srv[1]->up("::1")) {
			static Srv* unused = g_srv[1]; // stays reachable
			(void)unused;
			g_v6_unavailable = "bind ::1: " + S(g_srv[1]->socketError());
			g_srv[1] = 0;
		}
		g_mini = new ref::MiniServer;
		g_mini->on_request = mini_request;
		g_mini->on_close = mini_close;
		std::string err;
		if (!g_mini->start(false, 0, &err)) {
			printf("INFRA reference server: %s\n", err.c_str());
			exit(2);
		}
		g_mini6 = new ref::MiniServer;
		g_mini6->on_request = mini_request;
		g_mini6->on_close = mini_close;
		if (!g_mini6->start(true, 0, &err)) {
			static ref::MiniServer* unused6 = g_mini6;
			(void)unused6;
			g_mini6 = 0;
		}
	});
}

// ------------------------------------------------------------------------------------------------ fragmentation

// cut offsets for sending `wire` (head of head_len bytes, chunk-size lines at chunk_lines) in pieces
static std::vector<size_t> make_cuts(int mode, uint64_t seed, size_t total, size_t head_len, const std::vector<size_t>& chunk_lines)
{
	std::vector<size_t> cuts;
	ref::SplitMix g(seed ^ 0xc0ffee);
	mode = ((mode % 7) + 7) % 7;
	switch (mode) {
	case 0: break; // one piece
	case 1: cuts.push_back(head_len); break; // head | body
	case 2: // every byte of the head on its own
		for (size_t i = 1; i <= head_len && i < total; i++)
			cuts.push_back(i);
		break;
	case 3: { // a few random cuts anywhere
		int k = 1 + (int)g.below(16);
		for (int i = 0; i < k && total > 1; i++)
			cuts.push_back(1 + (size_t)g.below(total - 1));
		break;
	}
	case 4: // inside the blank line that ends the head, and just after the body's first byte
		for (size_t d = 1; d <= 4 && d <= head_len; d++)
			if (g.below(2))
				cuts.push_back(head_len - d);
		cuts.push_back(head_len);
		if (head_len + 1 < total)
			cuts.push_back(head_len + 1);
		break;
	case 5: // around the chunk-size lines (or random cuts in the body when not chunked)
		for (size_t off : chunk_lines) {
			if (cuts.size() > 200)
				break;
			cuts.push_back(off);
			if (g.below(2))
				cuts.push_back(off + 1);
			if (g.below(2) && off >= 1)
				cuts.push_back(off - 1);
		}
		if (chunk_lines.empty())
			for (int i = 0; i < 8 && total > head_len + 1; i++)
				cuts.push_back(head_len + 1 + (size_t)g.below(total - head_len - 1));
		break;
	default: // byte by byte when small, else many random cuts
		if (total <= 700)
			for (size_t i = 1; i < total; i++)
				cuts.push_back(i);
		else
			for (int i = 0; i < 64; i++)
				cuts.push_back(1 + (size_t)g.below(total - 1));
	}
	std::sort(cuts.begin(), cuts.end());
	cuts.erase(std::unique(cuts.begin(), cuts.end()), cuts.end());
	while (!cuts.empty() && cuts.back() >= total)
		cuts.pop_back();
	return cuts;
}

static std::vector<size_t> make_chunks(uint64_t seed, size_t bodylen)
{
	ref::SplitMix g(seed ^ 0xabcdef12);
	std::vector<size_t> c;
	int style = (int)g.below(5);
	int n = 1 + (int)g.below(12);
	for (int i = 0; i < n; i++) {
		size_t v;
		switch (style) {
		case 0: v = 1 + (size_t)g.below(16); break;
		case 1: v = 1 + (size_t)g.below(2000); break;
		case 2: v = 15990 + (size_t)g.below(20); break;          // around the library's 16000-byte read block
		case 3: v = 1 + (size_t)g.below(bodylen + 1); break;
		default: v = g.below(2) ? 1 + (size_t)g.below(40000) : 1; break;
		}
		c.push_back(v);
	}
	if (bodylen / 64 > 0) // never more than ~2000 chunks for one body
		for (auto& v : c)
			if (v < bodylen / 2000)
				v = bodylen / 2000 + 1;
	return c;
}

// ------------------------------------------------------------------------------------------------ reference server side (library client -> harness server)

static void mini_request(ref::Conn& c, const ref::Message& m, const std::string& err)
{
	std::string target = m.target();
	size_t qm = target.find('?');
	int id = id_of_path(target.substr(0, qm));
	SpecP sp = id >= 0 ? table().find(id) : SpecP();
	if (!sp) {
		table().orphan("reference server got " + vf::show(m.start, 200) + " which matches no outstanding request" + (err.empty() ? "" : " (" + err + ")"));
		c.close();
		return;
	}
	Spec& s = *sp;
	std::vector<std::string> e;
	if (!err.empty())
		e.push_back("reference server: request not well-formed: " + err);
	else {
		if (m.start != s.method + " " + s.target + " HTTP/1.1")
			e.push_back("reference server: request line " + vf::show(m.start, 300) + " != " + vf::show(s.method + " " + s.target + " HTTP/1.1", 300));
		const std::string* host = m.find("Host");
		std::string wanthost = s.v6 ? "[::1]:" + std::to_string(g_mini6->port) : "127.0.0.1:" + std::to_string(g_mini->port);
		// (for an IPv6 literal the client writes "Host: ::1:port" without brackets; the Host line is not one of the headers
		// the caller sent, so only its presence is required there)
		if (!host || (!s.v6 && *host != wanthost))
			e.push_back("reference server: Host header " + (host ? vf::show(*host) : std::string("missing")) + " != " + wanthost);
		for (auto& h : s.reqh) {
			const std::string* v = m.find(h.first);
			if (h.second.empty() ? (v && !v->empty()) : (!v || *v != h.second))
				e.push_back("reference server: header " + vf::show(h.first) + " is " + (v ? vf::show(*v, 200) : std::string("missing")) + " != sent " + vf::show(h.second, 200));
			if (m.count(h.first) > 1)
				e.push_back("reference server: header " + vf::show(h.first) + " sent more than once");
		}
		if (m.chunked)
			e.push_back("reference server: request is chunked although the body length was known");
		if (!s.reqbody.empty() && !m.has_length)
			e.push_back("reference server: request with a body has no Content-Length");
		if (s.flags & F_MULTIPART) {
			const std::string* ct = m.find("Content-Type");
			std::string why = check_multipart(ct ? *ct : std::string(), m.body, s.reqbody, s.upload_name);
			if (!why.empty())
				e.push_back("reference server: upload: " + why);
		}
		else if (m.body != s.reqbody)
			e.push_back("reference server: request body " + diff_bytes(m.body, s.reqbody));
	}
	{
		std::lock_guard<std::mutex> l(s.m);
		s.handled++;
		for (auto& x : e)
			if (s.errors.size() < 8)
				s.errors.push_back(x);
	}
	if (!err.empty()) {
		c.close();
		return;
	}
	HeaderList hs;
	for (auto& h : s.resph)
		hs.push_back(h);
	hs.push_back(std::make_pair(std::string("X-C10-Token"), std::to_string(s.id)));
	bool chunked = (s.flags & F_CHUNKED) != 0;
	size_t head_len = 0;
	std::vector<size_t> lines;
	std::string wire = ref::http_build("HTTP/1.1 " + std::to_string(s.code) + " " + reason_of(s.code), hs, s.respbody, chunked,
									   make_chunks(s.fseed, s.respbody.size()), (s.flags & F_UPPERHEX) != 0, true, &head_len, &lines);
	std::vector<size_t> cuts = make_cuts(s.frag, s.fseed, wire.size(), head_len, lines);
	c.send_frags(wire, cuts, (int)(s.fseed % 3), s.fseed); // a failed send shows up at the client
}

static void mini_close(const std::string& target, size_t extra)
{
	size_t qm = target.find('?');
	int id = id_of_path(target.substr(0, qm));
	SpecP sp = id >= 0 ? table().find(id) : SpecP();
	if (!sp)
		return;
	std::lock_guard<std::mutex> l(sp->m);
	sp->mini_closed = true;
	sp->mini_extra += extra;
	sp->cv.notify_all();
}

// ------------------------------------------------------------------------------------------------ building a spec from an op

static SpecP make_spec(const vf::Op& o, int idx, int attempt)
{
	SpecP sp(new Spec);
	Spec& s = *sp;
	auto I = [&](int k) { return o.i((size_t)k); };
	auto U = [&](int k, long long m) { long long v = I(k); v = v < 0 ? -(v + 1) : v; return m > 0 ? v % m : v; };
	s.idx = idx;
	s.id = (idx + 1) % 100000 + 100000 * (attempt % 9);
	s.lane = (int)U(A_LANE, 64);
	s.client = (int)U(A_CLIENT, 4);
	s.flags = (int)U(A_FLAGS, 65536);
	s.rmode = (int)U(A_RMODE, 8);
	if (s.rmode == RM_SERVE) {
		s.serve = s.client != CL_MINI;
		s.rmode = RM_FILE;
	}
	s.frag = (int)U(A_FRAG, 7);
	s.fseed = (uint64_t)I(A_FSEED);
	s.v6 = U(A_V6, 2) == 1 && (s.client == CL_MINI ? g_mini6 != 0 : g_srv[1] != 0);
	s.code = 200 + (int)U(A_CODE, 400);
	s.cut = s.client == CL_RAW ? (long)U(A_CUT, 1 << 20) : 0;
	s.twice = (int)U(A_TWICE, 7);
	int flags = s.flags;
	// method
	int mi = s.serve ? 0 : (int)U(A_METHOD, 6); // serveFile() answers GET only
	if (mi < 5)
		s.method = METHODS[mi];
	else {
		for (unsigned char c : o.str(S_METHOD))
			if (c >= 'A' && c <= 'Z')
				s.method += (char)c;
		if (s.method.empty() || s.method == "OPTIONS" || s.method == "HEAD" || s.method.size() > 20)
			s.method = "FOO";
	}
	// strings
	size_t at = S_FIRST;
	auto pairs = [&](int count) {
		HeaderList l;
		for (int i = 0; i < count && at + 1 < o.s.size() + 1; i++, at += 2)
			l.push_back(std::make_pair(o.str(at), o.str(at + 1)));
		return l;
	};
	s.query = clean_query(pairs((int)U(A_NQ, 13)));
	s.reqh = clean_headers(pairs((int)U(A_NRH, 13)));
	s.resph = clean_headers(pairs((int)U(A_NPH, 13)));
	// path and target
	char idb[16];
	snprintf(idb, sizeof idb, "%06d", s.id);
	if (s.rmode == RM_FILE) {
		// file extension: one of the server's built-in mime table, ".bin" (not in the table), or one that this process has
		// never served before (every file response looks the extension up in a table shared by all handler threads)
		static const char* const EXT[][2] = {{"css", "text/css"}, {"gif", "image/gif"}, {"htm", "text/html"}, {"html", "text/html"},
			{"jpeg", "image/jpeg"}, {"jpg", "image/jpeg"}, {"js", "application/javascript"}, {"json", "application/json"},
			{"png", "image/png"}, {"txt", "text/plain"}, {"mp4", "video/mp4"}, {"ogv", "video/ogg"}, {"webm", "video/webm"}, {"xml", "text/xml"}};
		static std::atomic<unsigned> fresh{0};
		unsigned ek = (unsigned)((s.fseed >> 12) % 32);
		if (ek < 14) {
			s.file_ext = EXT[ek][0];
			s.want_mime = EXT[ek][1];
		}
		else {
			static const char* const shape[] = {"x", "zz", "a", "m", "jsx", "htmlx", "cs", "pn"}; // sort before / between / after the table's keys
			s.file_ext = ek < 16 ? std::string("bin") : shape[ek % 8] + std::to_string(fresh++);
			s.want_mime = "text/plain"; // the server's default for extensions without an entry
		}
	}
	std::string tail = s.serve ? "doc " + std::to_string(s.fseed % 97) + "." + s.file_ext : clean_path(o.str(S_PATH));
	s.path = std::string("/c10/") + idb + "/" + tail;
	for (size_t i = 11; i + 1 < s.path.size(); i++) // the join must not create ".." either
		if (s.path[i] == '.' && s.path[i + 1] == '.')
			s.path[i + 1] = '_';
	uint64_t vary = s.fseed | 1;
	s.target = std::string("/c10/") + idb + "/" + ref::http_pct_encode(s.path.substr(12), "/!$&'()*+,;=:@", s.client == CL_RAW || (s.fseed & 4) ? &vary : 0);
	if (!s.query.empty() && s.client != CL_RAW && (s.fseed & 2)) {
		// the documented way to build a query string
		Dic<> d;
		for (auto& kv : s.query)
			d[AS(kv.first)] = AS(kv.second);
		s.target += "?" + S(asl::Url::params(d));
	}
	else if (!s.query.empty()) {
		s.target += '?';
		for (size_t i = 0; i < s.query.size(); i++) {
			if (i)
				s.target += '&';
			std::string k = ref::http_pct_encode(s.query[i].first, "!*'()", &vary), v = ref::http_pct_encode(s.query[i].second, "!*'()", &vary);
			if (s.client == CL_RAW && (s.fseed & 8)) { // '+' is the form encoding of a blank
				for (size_t p; (p = k.find("%20")) != std::string::npos;)
					k.replace(p, 3, "+");
				for (size_t p; (p = v.find("%20")) != std::string::npos;)
					v.replace(p, 3, "+");
			}
			s.target += k + "=" + v;
		}
	}
	// request body
	size_t rlen = (size_t)U(A_RLEN, (32u << 20) + 1), plen = (size_t)U(A_PLEN, (32u << 20) + 1);
	bool lib = s.client != CL_RAW;
	if (s.client == CL_MINI) {
		flags &= ~F_JSONREQ;
		s.rmode = RM_BYTES;
		s.range = 0;
	}
	if (s.serve) {
		rlen = 0;
		flags &= ~(F_JSONREQ | F_FILEREQ | F_UPLOAD | F_MULTIPART | F_STRBODY);
	}
	if (s.client == CL_STATIC && (s.method == "GET" || s.method == "DELETE") && !(flags & F_DOWNLOAD)) {
		rlen = 0; // Http::get / Http::delet take no body
		flags &= ~(F_JSONREQ | F_FILEREQ | F_UPLOAD | F_MULTIPART);
	}
	if (s.client == CL_STATIC && mi >= 5)
		s.client = CL_REQUEST; // no static helper for other methods
	if (!lib)
		flags &= ~(F_FILEREQ | F_UPLOAD | F_MULTIPART | F_DOWNLOAD | F_STRBODY);
	if (s.rmode == RM_CHUNKED) // a streamed response without a length ends with the connection ("Connection: close")
		flags &= ~(F_KEEP | F_HTTP10 | F_UPLOAD | F_MULTIPART);
	if (lib || (flags & F_HTTP10))
		flags &= ~F_EXPECT;
	if (flags & F_UPLOAD) {
		flags |= F_FILEREQ;
		flags &= ~(F_JSONREQ | F_DOWNLOAD);
		s.method = "POST";
	}
	else
		flags &= ~F_MULTIPART;
	if (flags & F_DOWNLOAD) {
		flags &= ~(F_JSONREQ | F_FILEREQ | F_NOFOLLOW);
		s.method = "GET";
		rlen = 0;
	}
	if (flags & F_FILEREQ)
		flags &= ~(F_JSONREQ | F_STRBODY);
	int rkind = (int)U(A_RKIND, 5), pkind = (int)U(A_PKIND, 5);
	if (flags & F_JSONREQ) {
		s.reqjson = true;
		s.rj = gen_json_doc((uint64_t)I(A_RSEED), (int)(rlen % 1000));
		if (!lib) {
			ref::SplitMix ws((uint64_t)I(A_RSEED) + 5);
			jv_text(s.rj, s.reqbody, ws);
		}
	}
	else {
		if (flags & F_STRBODY)
			rkind = 3;
		s.reqbody = gen_body(rlen, (uint64_t)I(A_RSEED), rkind);
	}
	if (flags & F_FILEREQ) {
		// half of the file names carry multi-byte UTF-8 (2-, 3- and 4-byte scalars): the part header's byte length then differs from its
		// number of characters (after seeded C10-O)
		s.upload_name = "up_" + std::string(idb) + (((uint64_t)I(A_RSEED) >> 7) & 1 ? "_a\xc3\xb1o_\xe2\x82\xac\xe6\x97\xa5_\xf0\x9f\x98\x80.bin" : ".bin");
		s.reqfile = tmpdir() + "/" + s.upload_name;
	}
	// response
	if (!lib && s.rmode == RM_JSON)
		s.rmode = RM_BYTES;
	if (s.rmode == RM_STRING)
		pkind = 3;
	s.range = s.rmode == RM_FILE ? (int)U(A_RANGE, 3) : 0;
	if (s.rmode == RM_JSON) {
		s.pj = gen_json_doc((uint64_t)I(A_PSEED), (int)(plen % 1000));
	}
	else if (s.rmode != RM_NONE)
		s.respbody = gen_body(plen, (uint64_t)I(A_PSEED), pkind);
	// redirects are followed by the client on purpose: such codes only when that is switched off
	bool nofollow = lib && s.client == CL_REQUEST && (flags & F_NOFOLLOW) && !(flags & (F_UPLOAD | F_DOWNLOAD));
	if (!nofollow)
		flags &= ~F_NOFOLLOW;
	if (lib && !nofollow && (s.code == 301 || s.code == 302 || s.code == 307 || s.code == 308))
		s.code += 10;
	s.want_code = s.code;
	s.want_body = s.respbody;
	if (s.rmode == RM_FILE) {
		s.respfile = tmpdir() + "/f_" + idb + "." + s.file_ext;
		if (s.serve) {
			s.servedir = tmpdir() + "/c10/" + idb;
			s.respfile = s.servedir + "/" + tail;
			s.mtime = 1400000000L + (long)(U(A_PSEED, 200000000));
			s.want_code = s.code = 200;
		}
		if (s.respbody.empty())
			s.range = 0; // no satisfiable range of an empty file
		if (s.range) {
			long size = (long)s.respbody.size();
			s.rb = (long)U(A_RB, size);
			s.re = (long)U(A_RE, size);
			if (s.rb > s.re)
				std::swap(s.rb, s.re);
			long e = s.range == 1 ? s.re : size - 1;
			s.want_code = 206;
			s.want_body = s.respbody.substr((size_t)s.rb, (size_t)(e - s.rb + 1));
			s.want_content_range = "bytes " + std::to_string(s.rb) + "-" + std::to_string(e) + "/" + std::to_string(size);
		}
		else if (s.code != 200 && (s.code == 405 || s.code == 404 || s.code == 416 || s.code == 206))
			s.want_code = s.code = 200;
		if (s.range)
			s.code = 200;
		s.ims = s.serve ? (int)U(A_IMS, 9) : 0;
		if (s.ims) {
			// serveFile(): "304 unless the file changed after the date", with 1 s of slack: 304 iff mtime <= date + 1.
			// Observed contract of the unchanged library for a value it cannot parse as a date (the obsolete RFC 850 and
			// asctime forms, other text): the header is ignored.
			long off = (long)(s.fseed % 10000000);
			long when = s.mtime;
			bool not_modified = false;
			switch (s.ims) {
			case 1: when = s.mtime - 3 - off; break;
			case 2: when = s.mtime - 2; break;
			case 3: when = s.mtime - 1; not_modified = true; break;
			case 4: when = s.mtime; not_modified = true; break;
			case 5: when = s.mtime + 1 + off; not_modified = true; break;
			default: when = (s.fseed & 1) ? s.mtime + 5000 + off : s.mtime - 5000 - off; break;
			}
			time_t tt = (time_t)when;
			struct tm g;
			gmtime_r(&tt, &g);
			char b[80];
			if (s.ims <= 5)
				strftime(b, sizeof b, "%a, %d %b %Y %H:%M:%S GMT", &g); // IMF-fixdate
			else if (s.ims == 6)
				strftime(b, sizeof b, "%A, %d-%b-%y %H:%M:%S GMT", &g); // RFC 850
			else if (s.ims == 7)
				strftime(b, sizeof b, "%a %b %e %H:%M:%S %Y", &g); // asctime()
			else {
				static const char* junk[] = {"yesterday", "0", "not a date", "Sunday", "-1", "GMT", "now; then", "12:00:00"};
				snprintf(b, sizeof b, "%s", junk[s.fseed % 8]);
			}
			s.ims_value = b;
			if (not_modified) {
				s.want_code = 304;
				s.want_body.clear();
				s.want_content_range.clear();
			}
		}
	}
	if ((flags & (F_DOWNLOAD | F_UPLOAD)))
		; // only ok() is visible: any code
	if (flags & F_DOWNLOAD)
		s.dlfile = tmpdir() + "/dl_" + idb + ".bin";
	if (s.cut) // a truncated request is sent in one go on its own connection
		flags &= ~(F_KEEP | F_EXPECT | F_SMALLRCV);
	if (s.client == CL_MINI || s.rmode == RM_STREAM || s.rmode == RM_CHUNKED || s.rmode == RM_NONE)
		s.twice = (s.client == CL_REQUEST && s.twice) ? s.twice : 0; // no response-side decoy where the real body is not a put()
	if (s.serve && s.want_code == 304)
		s.twice = 0; // serveFile() answering 304 sets no body, so an earlier body would rightly stay
	if (s.twice)
		s.decoyfile = tmpdir() + "/decoy_" + idb + ".txt";
	s.flags = flags;
	return sp;
}

// ------------------------------------------------------------------------------------------------ clients

static std::mutex g_stat_m;

struct LaneState {
	ref::Conn conn;
	bool conn_v6 = false;
	int conn_uses = 0;
};

struct Outcome {
	std::string err;    // "" = the exchange held
	double seconds = 0; // wall time, only used to discount failures of exchanges that stalled for seconds (machine load)
	bool ka_retry = false;
};

static std::string base_url(const Spec& s)
{
	if (s.client == CL_MINI)
		return s.v6 ? "http://[::1]:" + std::to_string(g_mini6->port) : "http://127.0.0.1:" + std::to_string(g_mini->port);
	return s.v6 ? "http://[::1]:" + std::to_string(g_srv[1]->port) : "http://127.0.0.1:" + std::to_string(g_srv[0]->port);
}

// what every client checks once it has (code, header lookup, body)
static void check_response(Spec& s, int code, const std::function<std::string(const std::string&)>& header, const std::string& body,
						   std::vector<std::string>& e, bool body_visible = true)
{
	if (code != s.want_code)
		e.push_back("client: status " + std::to_string(code) + " != produced " + std::to_string(s.want_code));
	uint64_t bits = s.fseed * 131 + 1;
	for (auto& h : s.resph) {
		bits = bits * 6364136223846793005ULL + 1442695040888963407ULL;
		std::string got = header(recase(h.first, bits));
		if (got != h.second)
			e.push_back("client: response header " + vf::show(h.first) + " is " + vf::show(got, 200) + " != produced " + vf::show(h.second, 200));
	}
	std::string tok = header("x-c10-token");
	if (tok != std::to_string(s.id))
		e.push_back("client: response carries token " + vf::show(tok) + ", own request is " + std::to_string(s.id));
	if (!body_visible)
		return;
	if (s.rmode == RM_JSON) {
		if (header("Content-Type") != "application/json")
			e.push_back("client: Content-Type of a Var response is " + vf::show(header("Content-Type")));
	}
	else {
		if (body != s.want_body)
			e.push_back("client: response body " + diff_bytes(body, s.want_body));
		std::string cl = header("Content-Length");
		if (s.client != CL_MINI && s.rmode != RM_CHUNKED && cl != std::to_string(s.want_body.size()))
			e.push_back("client: Content-Length header " + vf::show(cl) + " but the body produced has " + std::to_string(s.want_body.size()) + " bytes");
	}
	if (s.rmode == RM_FILE && s.want_code != 304 && header("Content-Type") != s.want_mime)
		e.push_back("client: Content-Type of the file response (extension ." + s.file_ext + ") is " + vf::show(header("Content-Type")) + ", the server's table gives " + vf::show(s.want_mime));
	if (s.range) {
		if (header("Content-Range") != s.want_content_range)
			e.push_back("client: Content-Range " + vf::show(header("Content-Range")) + " != " + vf::show(s.want_content_range));
	}
}

static void lib_exchange(Spec& s, std::vector<std::string>& e)
{
	String url = AS(base_url(s) + s.target);
	Dic<> hd;
	for (auto& h : s.reqh)
		hd[AS(h.first)] = AS(h.second);
	if (s.range)
		hd["Range"] = AS("bytes=" + std::to_string(s.rb) + "-" + (s.range == 1 ? std::to_string(s.re) : ""));
	if (s.rmode == RM_CHUNKED)
		hd["Connection"] = "close";
	if (s.ims)
		hd["If-Modified-Since"] = AS(s.ims_value);
	int f = s.flags;
	if (f & F_DOWNLOAD) {
		bool ok = Http::download(url, AS(s.dlfile), Http::Progress(), hd);
		std::string got;
		bool rd = read_file(s.dlfile, got);
		if (ok != (s.want_code / 100 == 2))
			e.push_back("client: download() returned " + std::to_string(ok) + " for status " + std::to_string(s.want_code));
		if (s.rmode != RM_JSON && (!rd || got != s.want_body))
			e.push_back("client: downloaded file " + (rd ? diff_bytes(got, s.want_body) : std::string("missing")));
		return;
	}
	if (f & F_UPLOAD) {
		if (!(f & F_MULTIPART))
			hd["Content-Type"] = "application/octet-stream";
		bool ok = Http::upload(url, AS(s.reqfile), hd);
		if (ok != (s.want_code / 100 == 2))
			e.push_back("client: upload() returned " + std::to_string(ok) + " for status " + std::to_string(s.want_code));
		return;
	}
	HttpResponse res;
	bool bodyless = s.reqbody.empty() && !s.reqjson && !(f & F_FILEREQ) && (f & F_NOBODYCALL);
	if (s.client == CL_STATIC) {
		if (s.method == "GET")
			res = Http::get(url, hd);
		else if (s.method == "DELETE")
			res = Http::delet(url, hd);
		else {
#define C10_SEND(fn)                                                                  \
	(f & F_FILEREQ)  ? Http::fn(url, asl::File(AS(s.reqfile)), hd)                     \
	: s.reqjson      ? Http::fn(url, to_var(s.rj), hd)                                 \
	: (f & F_STRBODY) ? Http::fn(url, AS(s.reqbody), hd)                               \
					 : Http::fn(url, BA(s.reqbody), hd)
			if (s.method == "POST")
				res = C10_SEND(post);
			else if (s.method == "PUT")
				res = C10_SEND(put);
			else
				res = C10_SEND(patch);
#undef C10_SEND
		}
	}
	else {
		std::unique_ptr<HttpRequest> reqp((f & F_SETHDR) ? new HttpRequest(AS(s.method), url) : new HttpRequest(AS(s.method), url, hd));
		HttpRequest& req = *reqp;
		if (f & F_SETHDR) {
			uint64_t bits = s.fseed * 7 + 5;
			for (auto& h : s.reqh) {
				bits = bits * 6364136223846793005ULL + 1442695040888963407ULL;
				req.setHeader(AS(recase(h.first, bits)), AS(h.second));
			}
			if (s.range)
				req.setHeader("range", hd["Range"]);
			if (s.rmode == RM_CHUNKED)
				req.setHeader("connection", "close");
			if (s.ims)
				req.setHeader("if-modified-since", AS(s.ims_value));
		}
		if (s.twice && !bodyless) {
			switch ((s.twice - 1) % 5) {
			case 0: req.put(BA(gen_body(s.reqbody.size() / 2 + 3, s.fseed + 9, 0))); break;
			case 1: req.put(String("first request body, to be replaced\r\n")); break;
			case 2: req.put("first request body (const char*), to be replaced"); break;
			case 3: req.put(to_var(gen_json_doc(s.fseed + 13, 30))); break;
			default: req.put(asl::File(AS(s.decoyfile))); break;
			}
		}
		if (f & F_FILEREQ)
			req.put(asl::File(AS(s.reqfile)));
		else if (s.reqjson)
			req.put(to_var(s.rj));
		else if (bodyless)
			;
		else if (f & F_STRBODY)
			req.put(AS(s.reqbody));
		else
			req.put(BA(s.reqbody));
		if (f & F_NOFOLLOW)
			req.setFollowRedirects(false);
		res = Http::request(req);
	}
	if (res.code() == 0)
		e.push_back("client: no response, socket error " + vf::show(S(res.socketError())));
	check_response(s, res.code(), [&](const std::string& n) { return S(res.header(AS(n))); }, S(res.body()), e);
	if (s.rmode == RM_JSON) {
		std::string why;
		if (!var_eq(res.json(), s.pj, why))
			e.push_back("client: json() differs from the document produced at " + why + "; body " + vf::show(S(res.body()), 200));
	}
}

// one request/response over a raw connection; `nothing` = the connection ended before any byte of the response
static std::string raw_once(Spec& s, LaneState& L, bool reuse, bool& nothing, double& gap, std::vector<std::string>& e)
{
	nothing = false;
	int f = s.flags;
	bool http10 = (f & F_HTTP10) != 0;
	bool chunked = (f & F_CHUNKED) && !http10;
	bool keep = (f & F_KEEP) != 0;
	Srv* srv = g_srv[s.v6 ? 1 : 0];
	if (!reuse) {
		std::string err;
		if (!L.conn.connect_to(s.v6, srv->port, (f & F_SMALLRCV) ? 2048 : 0, 150, &err))
			return "raw client: " + err;
		L.conn_v6 = s.v6;
		L.conn_uses = 0;
	}
	HeaderList hs;
	hs.push_back(std::make_pair(std::string("Host"), (s.v6 ? "[::1]:" : "127.0.0.1:") + std::to_string(srv->port)));
	for (auto& h : s.reqh)
		hs.push_back(h);
	if (s.range)
		hs.push_back(std::make_pair(std::string((s.fseed & 16) ? "range" : "Range"), "bytes=" + std::to_string(s.rb) + "-" + (s.range == 1 ? std::to_string(s.re) : "")));
	if (s.reqjson)
		hs.push_back(std::make_pair(std::string("Content-Type"), std::string("application/json")));
	if (s.ims)
		hs.push_back(std::make_pair(std::string((s.fseed & 512) ? "if-modified-since" : "If-Modified-Since"), s.ims_value));
	if (keep ? (http10 || (s.fseed & 32)) : !http10)
		hs.push_back(std::make_pair(std::string((s.fseed & 64) ? "connection" : "Connection"), std::string(keep ? "keep-alive" : "close")));
	size_t head_len = 0;
	std::vector<size_t> lines;
	bool expect = (f & F_EXPECT) != 0;
	if (expect)
		hs.push_back(std::make_pair(std::string((s.fseed & 256) ? "expect" : "Expect"), std::string("100-continue")));
	bool add_len = !s.reqbody.empty() || (s.fseed & 128) || expect;
	std::vector<size_t> chunk_sizes = make_chunks(s.fseed + 1, s.reqbody.size());
	if (s.cut) { // small chunks, so that a short body has several of them
		ref::SplitMix g(s.fseed ^ 0x1234567);
		chunk_sizes.clear();
		for (int i = 0; i < 6; i++)
			chunk_sizes.push_back(1 + (size_t)g.below(s.reqbody.size() / 3 + 2));
	}
	std::string wire = ref::http_build(s.method + " " + s.target + (http10 ? " HTTP/1.0" : " HTTP/1.1"), hs, s.reqbody, chunked,
									   chunk_sizes, (f & F_UPPERHEX) != 0, add_len, &head_len, &lines);
	if (s.cut) {
		// only the first k bytes are sent, then the sending side is closed; the response side is read until the server ends
		size_t k = (size_t)(s.cut - 1) % wire.size();
		s.cut = (long)k + 1;
		s.cutclass = k < head_len ? "inside the head" : "inside the body";
		if (k == head_len)
			s.cutclass = "right after the head";
		if (chunked && k > head_len) {
			for (size_t i = 0; i < lines.size(); i++) {
				size_t ls = lines[i], le = wire.find('\n', ls) + 1; // chunk-size line [ls, le)
				bool last = i + 1 == lines.size();
				size_t next = last ? wire.size() : lines[i + 1];
				if (k > ls && k < le)
					s.cutclass = last ? "inside the last-chunk line" : "inside a chunk-size line";
				else if (k == ls)
					s.cutclass = "between two chunks";
				else if (!last && k >= le && k + 2 <= next)
					s.cutclass = k + 2 == next ? "right after a chunk's data" : k == le ? "right after a chunk-size line" : "inside a chunk's data";
				else if (!last && k + 1 == next)
					s.cutclass = "between CR and LF after a chunk's data";
				else if (last && k >= le)
					s.cutclass = "inside the final CRLF";
			}
		}
		std::vector<size_t> cc = make_cuts(s.frag, s.fseed, k, head_len < k ? head_len : k, std::vector<size_t>());
		bool ok = k == 0 || L.conn.send_frags(wire.substr(0, k), cc, 0, s.fseed);
		gap = L.conn.max_gap;
		::shutdown(L.conn.fd, SHUT_WR);
		(void)ok;
		L.conn.drain_to_eof(); // the server closes once it is done with the connection (after the handler, if it ran)
		L.conn.close();
		return "";
	}
	std::vector<size_t> cuts = make_cuts(s.frag, s.fseed, wire.size(), head_len, lines);
	bool sent;
	if (!expect)
		sent = L.conn.send_frags(wire, cuts, (int)((s.fseed >> 8) % 3), s.fseed);
	else {
		// head first; then wait (bounded: RFC 9110 lets a client go on after a short time) for the interim response
		std::vector<size_t> hc, bc;
		for (size_t c : cuts)
			(c < head_len ? hc : bc).push_back(c < head_len ? c : c - head_len);
		sent = L.conn.send_frags(wire.substr(0, head_len), hc, (int)((s.fseed >> 8) % 3), s.fseed);
		gap = L.conn.max_gap;
		bool interim = false;
		if (sent && L.conn.wait_readable(3000)) {
			ref::Message im;
			std::string ierr = L.conn.read_message(im, true, &nothing, true);
			if (!ierr.empty())
				return "raw client: after 'Expect: 100-continue': " + ierr;
			if (im.status() != 100) {
				L.conn.close();
				return "raw client: the server answered " + vf::show(im.start, 100) + " to the head of a request with 'Expect: 100-continue' before the body was sent: a status the handler never produced (100 Continue or nothing expected)";
			}
			interim = true;
		}
		{
			std::lock_guard<std::mutex> l(g_stat_m);
			vf::stats().cls(interim ? "raw.expect.got_100_continue" : "raw.expect.no_interim_within_3s_body_sent_anyway");
		}
		if (sent && wire.size() > head_len)
			sent = L.conn.send_frags(wire.substr(head_len), bc, (int)((s.fseed >> 8) % 3), s.fseed + 1);
	}
	if (L.conn.max_gap > gap)
		gap = L.conn.max_gap;
	L.conn_uses++;
	if ((f & F_SMALLRCV) && sent)
		usleep(2000);
	ref::Message m;
	std::string err = L.conn.read_message(m, true, &nothing, false, s.rmode == RM_CHUNKED);
	while (err.empty() && m.status() >= 100 && m.status() < 200) // a late interim response
		err = L.conn.read_message(m, true, &nothing, false, s.rmode == RM_CHUNKED);
	if (!sent && nothing)
		return "raw client: send failed and no response";
	if (!err.empty())
		return "raw client: response not well-formed: " + err;
	check_response(s, m.status(), [&](const std::string& n) {
		const std::string* v = m.find(n);
		return v ? *v : std::string();
	}, m.body, e);
	if (m.status() < 0)
		e.push_back("raw client: malformed status line " + vf::show(m.start, 100));
	if (s.rmode == RM_CHUNKED ? !m.chunked : !m.has_length)
		e.push_back(s.rmode == RM_CHUNKED ? "raw client: streamed response is not chunked" : "raw client: response without Content-Length");
	if (!keep) {
		// "Connection: close" / HTTP/1.0: the server ends the connection after this response; nothing may follow it
		size_t extra = L.conn.drain_to_eof();
		if (extra)
			e.push_back("raw client: " + std::to_string(extra) + " bytes follow the response (beyond its Content-Length)");
		L.conn.close();
	}
	else if (L.conn.pending())
		e.push_back("raw client: " + std::to_string(L.conn.pending()) + " bytes follow the response on the kept-alive connection");
	return "";
}

static void raw_exchange(Spec& s, LaneState& L, std::vector<std::string>& e, Outcome& out)
{
	bool reuse = L.conn.fd >= 0 && L.conn_v6 == s.v6 && !L.conn.eof;
	if (!reuse)
		L.conn.close();
	bool nothing = false;
	double gap = 0;
	std::string err = raw_once(s, L, reuse, nothing, gap, e);
	if (!err.empty() && reuse && nothing) {
		// the server may end an idle kept-alive connection at any time (it does after 10 s): not an error, send again
		bool handled;
		{
			std::lock_guard<std::mutex> l(s.m);
			handled = s.handled > 0;
		}
		if (!handled) {
			out.ka_retry = true;
			e.clear();
			L.conn.close();
			err = raw_once(s, L, false, nothing, gap, e);
		}
	}
	if (!err.empty()) {
		e.push_back(err);
		L.conn.close();
	}
}

static Outcome do_exchange(const vf::Op& o, int idx, int attempt, LaneState& L, SpecP& keep)
{
	Outcome out;
	SpecP sp = make_spec(o, idx, attempt);
	keep = sp;
	Spec& s = *sp;
	std::vector<std::string> e;
	if (!s.reqfile.empty() && !write_file(s.reqfile, s.reqbody))
		e.push_back("harness: cannot write " + s.reqfile);
	if (!s.decoyfile.empty() && !write_file(s.decoyfile, "decoy file: this body was replaced by a later put()\n"))
		e.push_back("harness: cannot write " + s.decoyfile);
	if (s.serve) {
		mkdir((tmpdir() + "/c10").c_str(), 0755);
		mkdir(s.servedir.c_str(), 0755);
	}
	if (!s.respfile.empty() && !write_file(s.respfile, s.respbody))
		e.push_back("harness: cannot write " + s.respfile);
	if (s.serve) {
		struct utimbuf ut;
		ut.actime = ut.modtime = (time_t)s.mtime;
		if (utime(s.respfile.c_str(), &ut) != 0)
			e.push_back("harness: cannot set the modification time of " + s.respfile);
	}
	table().put(sp);
	double t0 = ref::mono_s();
	if (e.empty()) {
		if (s.client == CL_RAW)
			raw_exchange(s, L, e, out);
		else
			lib_exchange(s, e);
	}
	if (s.client == CL_MINI && e.empty()) {
		// the library client has closed its socket; the reference server reports what else arrived on the connection
		std::unique_lock<std::mutex> l(s.m);
		if (!s.cv.wait_for(l, std::chrono::seconds(120), [&] { return s.mini_closed; }))
			e.push_back("reference server: connection of the library client still open 120 s after the response was read");
		else if (s.mini_extra)
			e.push_back("reference server: " + std::to_string(s.mini_extra) + " bytes follow the request body (beyond its Content-Length)");
	}
	out.seconds = ref::mono_s() - t0;
	{
		std::lock_guard<std::mutex> l(s.m);
		// a truncated request reaches the handler complete or not at all
		if ((s.cut ? s.handled > 1 : s.handled != 1) && e.empty())
			e.push_back("handler ran " + std::to_string(s.handled) + " times for one request");
		if (s.cut && !s.errors.empty())
			e.push_back("a request cut after " + std::to_string(s.cut - 1) + " bytes (" + s.cutclass + ") reached the handler although it was incomplete");
		for (auto& x : s.errors)
			e.insert(e.begin(), x);
	}
	for (const std::string* fn : {&s.reqfile, &s.respfile, &s.dlfile, &s.decoyfile})
		if (!fn->empty())
			unlink(fn->c_str());
	if (s.serve)
		rmdir(s.servedir.c_str());
	if (!e.empty()) {
		std::string d = "exchange #" + std::to_string(idx) + " (" + (s.client == CL_RAW ? "raw client" : s.client == CL_MINI ? "library client -> reference server" : "library client") +
						", " + s.method + ", request body " + std::to_string(s.reqbody.size()) + ", response body " + std::to_string(s.want_body.size()) + "): ";
		for (size_t i = 0; i < e.size() && i < 4; i++)
			d += (i ? " | " : "") + e[i];
		out.err = d;
	}
	return out;
}

// ------------------------------------------------------------------------------------------------ running a case


static void record_stats(const Spec& s, int lanes, const Outcome& out)
{
	std::lock_guard<std::mutex> l(g_stat_m);
	vf::Stats& st = vf::stats();
	auto bucket = [](size_t n) -> std::string {
		return n == 0 ? "0" : n <= 2048 ? "1..2048" : n < 15992 ? "2049..15991" : n <= 16008 ? "16000+-8" : n < 31992 ? "16009..31991" : n <= 32008 ? "32000+-8"
			 : n < 127992 ? "32009..127991" : n <= 128008 ? "128000+-8" : n < 255992 ? "128009..255991" : n <= 256008 ? "256000+-8" : n <= (300u << 10) ? "..300KiB" : ">300KiB";
	};
	st.cls("exchanges");
	st.cls(std::string("client.") + (s.client == CL_RAW ? "raw" : s.client == CL_MINI ? "lib_to_refserver" : s.client == CL_STATIC ? "lib_static" : "lib_request"));
	st.cls("reqlen." + bucket(s.reqbody.size()));
	st.cls("resplen." + bucket(s.want_body.size()));
	st.cls("method." + (s.method.size() > 6 || s.method == "FOO" ? std::string("custom") : s.method));
	st.cls(std::string("lanes.") + (lanes == 1 ? "1" : lanes <= 4 ? "2-4" : lanes <= 16 ? "5-16" : lanes <= 63 ? "17-63" : "64"));
	st.cls("status." + std::to_string(s.want_code / 100) + "xx");
	if (s.v6)
		st.cls(s.client == CL_MINI ? "refserver.ipv6" : "server.ipv6");
	if (s.client == CL_RAW) {
		st.cls(std::string("raw.framing.") + ((s.flags & F_CHUNKED) && !(s.flags & F_HTTP10) ? "chunked" : "length"));
		st.cls("raw.frag." + std::to_string(s.frag));
		if (s.flags & F_KEEP)
			st.cls("raw.keepalive");
		if (s.flags & F_HTTP10)
			st.cls("raw.http10");
		if (s.flags & F_SMALLRCV)
			st.cls("raw.small_rcvbuf");
	}
	if (s.client == CL_MINI)
		st.cls(std::string("refserver.response.") + ((s.flags & F_CHUNKED) ? "chunked" : "length"));
	if (out.ka_retry)
		st.cls("raw.keepalive_closed_by_server_resent");
	std::function<bool(const JV&)> hard = [&](const JV& j) -> bool { // a real number that %.15g does not reproduce
		if (j.t == 3) {
			char b[64];
			snprintf(b, sizeof b, "%.15g", j.d);
			return strtod(b, 0) != j.d;
		}
		for (auto& x : j.a)
			if (hard(x))
				return true;
		for (auto& x : j.o)
			if (hard(x.second))
				return true;
		return false;
	};
	if (s.reqjson && hard(s.rj))
		st.cls("json.request.with_17_digit_double");
	if (s.rmode == RM_JSON && hard(s.pj))
		st.cls("json.response.with_17_digit_double");
	auto jtop = [](const JV& j) -> std::string {
		if (j.t >= 5)
			return j.a.empty() && j.o.empty() ? "empty_container" : "container";
		bool falsy = j.t == 0 || (j.t == 1 && !j.i) || (j.t == 2 && !j.i) || (j.t == 3 && j.d == 0) || (j.t == 4 && j.s.empty());
		return falsy ? "scalar_falsy" : "scalar_truthy";
	};
	if (s.reqjson) {
		st.cls("json.request");
		st.cls("json.request.top." + jtop(s.rj));
	}
	if (s.rmode == RM_JSON) {
		st.cls("json.response");
		st.cls("json.response.top." + jtop(s.pj));
	}
	if (s.rmode == RM_FILE)
		st.cls(s.file_ext == "bin" ? "file.ext.bin" : s.want_mime != "text/plain" || s.file_ext == "txt" ? "file.ext.builtin" : "file.ext.never_seen_before");
	if (s.rmode == RM_FILE)
		st.cls(s.range == 1 ? (s.rb == s.re ? "file.range_single_byte" : "file.range_b-e") : s.range == 2 ? "file.range_b-" : "file.whole");
	if (s.serve) {
		static const char* K[] = {"none", "imf_before_mtime", "imf_mtime-2s", "imf_mtime-1s(304)", "imf_equal(304)", "imf_after(304)", "rfc850(ignored)", "asctime(ignored)", "garbage(ignored)"};
		st.cls("file.serveFile");
		st.cls(std::string("file.serveFile.if_modified_since.") + K[s.ims]);
		if (s.ims && s.range)
			st.cls("file.serveFile.if_modified_since_with_range");
	}
	if (s.cut) {
		st.cls("raw.truncated_request");
		st.cls(std::string("raw.truncated.") + ((s.flags & F_CHUNKED) && !(s.flags & F_HTTP10) ? "chunked: " : "length: ") + s.cutclass);
		st.cls(s.handled ? "raw.truncated.handler_ran(with the complete body)" : "raw.truncated.handler_not_called");
	}
	if (s.twice) {
		static const char* D[] = {"ByteArray", "String", "const char*", "Var", "File", "serveFile"};
		bool resp = s.client != CL_MINI && (s.rmode == RM_BYTES || s.rmode == RM_STRING || s.rmode == RM_JSON || s.rmode == RM_FILE);
		if (resp)
			st.cls(std::string("twice.response.") + D[s.twice - 1] + "_then_" + (s.rmode == RM_BYTES ? "ByteArray" : s.rmode == RM_STRING ? "String" : s.rmode == RM_JSON ? "Var" : s.serve ? "serveFile" : "File"));
		if (s.client == CL_REQUEST && !(s.flags & (F_UPLOAD | F_DOWNLOAD)) && !(s.reqbody.empty() && !s.reqjson && !(s.flags & F_FILEREQ) && (s.flags & F_NOBODYCALL)))
			st.cls(std::string("twice.request.") + D[(s.twice - 1) % 5] + "_then_" + ((s.flags & F_FILEREQ) ? "File" : s.reqjson ? "Var" : (s.flags & F_STRBODY) ? "String" : "ByteArray"));
	}
	if (s.rmode == RM_STREAM)
		st.cls("response.streamed_write");
	if (s.rmode == RM_CHUNKED) {
		int pattern = (int)((s.fseed >> 20) % 3);
		size_t big = pattern == 0 ? s.respbody.size() : pattern == 1 ? s.respbody.size() / 2 + 1 : 0;
		st.cls("response.chunked_stream");
		st.cls(big > 128000 ? "response.chunked_stream.one_write_over_128000" : pattern == 2 ? "response.chunked_stream.random_pieces" : "response.chunked_stream.writes_up_to_128000");
	}
	if (s.client == CL_RAW && (s.flags & F_EXPECT))
		st.cls(std::string("raw.expect.") + ((s.flags & F_CHUNKED) ? "chunked" : s.reqbody.empty() ? "content_length_0" : "content_length"));
	if (s.rmode == RM_STRING)
		st.cls("response.put_string");
	if (s.flags & F_FILEREQ)
		st.cls((s.flags & F_MULTIPART) ? "request.upload_multipart" : (s.flags & F_UPLOAD) ? "request.upload_raw" : "request.put_file");
	if (s.flags & F_DOWNLOAD)
		st.cls("client.download");
	if (s.flags & F_NOFOLLOW)
		st.cls("client.nofollow");
	if (!s.query.empty())
		st.cls("with_query");
	if (s.reqh.size() + s.resph.size() > 0)
		st.cls("with_custom_headers");
	// non-trivial: a body in at least one direction, or a range, or >= 2 clients at once;
	// distinct by (client, lengths, framing, fragmentation shape, range, concurrency class)
	if (!s.reqbody.empty() || !s.want_body.empty() || s.range || lanes >= 2 || s.reqjson || s.rmode == RM_JSON) {
		uint64_t h = vf::fnv(&s.client, sizeof s.client);
		size_t a = s.reqbody.size(), b = s.want_body.size();
		int shape[] = {s.flags & (F_CHUNKED | F_HTTP10 | F_KEEP | F_FILEREQ | F_UPLOAD | F_MULTIPART | F_DOWNLOAD | F_JSONREQ), s.frag, s.rmode, s.range,
					   (int)s.rb, (int)s.re, lanes >= 2 ? (lanes > 16 ? 3 : 2) : 1, (int)s.query.size(), (int)s.reqh.size(), (int)s.resph.size(), s.v6};
		h = vf::fnv(&a, sizeof a, h);
		h = vf::fnv(&b, sizeof b, h);
		h = vf::fnv(shape, sizeof shape, h);
		h = vf::fnv(s.method, h);
		st.nt(h);
	}
}

[[noreturn]] static void hang_exit(const std::string& part, const std::string& text, const std::string& msg)
{
	// worker threads are stuck inside the library: no orderly unwinding is possible
	cleanup_tmp();
	if (vf::runner().args.mode == "search") {
		vf::stats().dump(false);
		vf::runner().save_failure(part, text, msg);
		printf("FAILED (hang) %s\n", msg.c_str());
	}
	else
		printf("FAIL %s\n", msg.c_str());
	fflush(stdout);
	_exit(1);
}

static const int HANG_BOUND_S = 120; // an exchange takes ~1 ms, the largest (MiB bodies under ASan, loaded machine) well under 1 s

struct LaneRun {
	std::vector<int> ops;
	std::string err;
	int erridx = -1;
};

void vf_run_case(const std::string& part, const vf::Case& c)
{
	ensure_servers();
	std::vector<int> exs;
	for (size_t i = 0; i < c.ops.size(); i++)
		if (c.ops[i].name == "ex")
			exs.push_back((int)i);
	if (exs.empty())
		return;
	std::map<int, LaneRun> lanes;
	for (int i : exs) {
		long long v = c.ops[(size_t)i].i(A_LANE);
		lanes[(int)((v < 0 ? -(v + 1) : v) % 64)].ops.push_back(i);
	}
	int nl = (int)lanes.size();
	struct Shared {
		std::mutex m;
		std::condition_variable cv;
		int ready = 0, done = 0;
		bool go = false;
		std::string current[64];
	};
	std::shared_ptr<Shared> sh(new Shared);
	std::shared_ptr<std::map<int, LaneRun>> lp(new std::map<int, LaneRun>(lanes));
	std::shared_ptr<vf::Case> cc(new vf::Case(c));
	std::vector<std::thread> th;
	for (auto& kv : *lp) {
		int lane = kv.first;
		th.emplace_back([sh, lp, cc, lane, nl] {
			LaneRun& R = (*lp)[lane];
			LaneState L;
			{
				std::unique_lock<std::mutex> l(sh->m);
				sh->ready++;
				sh->cv.notify_all();
				sh->cv.wait(l, [&] { return sh->go; });
			}
			for (int i : R.ops) {
				{
					std::lock_guard<std::mutex> l(sh->m);
					sh->current[lane] = "op " + std::to_string(i);
				}
				SpecP sp;
				Outcome out = do_exchange(cc->ops[(size_t)i], i, 0, L, sp);
				if (!out.err.empty() && out.seconds > 5.0) {
					// An exchange that should take a millisecond stalled for seconds: on this shared machine that may be
					// a library wait (10 s / 60 s) expiring under load.  Repeat it once; a defect fails again.
					L.conn.close();
					SpecP sp2;
					Outcome again = do_exchange(cc->ops[(size_t)i], i, 1, L, sp2);
					std::lock_guard<std::mutex> l(g_stat_m);
					vf::stats().cls(again.err.empty() ? "slow_failure_not_repeated(discounted)" : "slow_failure_repeated");
					if (again.err.empty())
						out = again, sp = sp2;
					else
						out.err += " [took " + std::to_string(out.seconds) + " s; repeated: " + again.err + "]";
				}
				if (sp)
					record_stats(*sp, nl, out);
				if (!out.err.empty() && R.err.empty()) {
					R.err = out.err;
					R.erridx = i;
					break;
				}
			}
			if (L.conn.fd >= 0 && !L.conn.eof && L.conn.peek_extra() > 0 && R.err.empty())
				R.err = "raw client: unsolicited bytes on the kept-alive connection after the last response of lane " + std::to_string(lane);
			L.conn.close();
			std::lock_guard<std::mutex> l(sh->m);
			sh->current[lane].clear();
			sh->done++;
			sh->cv.notify_all();
		});
	}
	bool hung = false;
	std::string stuck;
	{
		std::unique_lock<std::mutex> l(sh->m);
		sh->cv.wait(l, [&] { return sh->ready == nl; });
		sh->go = true;
		sh->cv.notify_all();
		if (!sh->cv.wait_for(l, std::chrono::seconds(HANG_BOUND_S), [&] { return sh->done == nl; })) {
			hung = true;
			for (int k = 0; k < 64; k++)
				if (!sh->current[k].empty())
					stuck += " lane " + std::to_string(k) + " at " + sh->current[k];
		}
	}
	if (hung) {
		for (auto& t : th)
			t.detach();
		hang_exit(part, vf::serialize(c), "hang: exchanges not finished after " + std::to_string(HANG_BOUND_S) + " s (expected: milliseconds):" + stuck);
	}
	for (auto& t : th)
		t.join();
	// all clients are done and have closed their sockets: let the connection handlers finish (hygiene, not an oracle)
	for (int k = 0; k < 2; k++)
		if (g_srv[k]) {
			double t0 = ref::mono_s();
			while (g_srv[k]->clients() > 0 && ref::mono_s() - t0 < 30)
				usleep(200);
			if (g_srv[k]->clients() > 0)
				vf::stats().cls("handlers_still_running_after_case");
		}
	std::vector<std::string> orphans;
	{
		std::lock_guard<std::mutex> l(table().m);
		table().specs.clear();
		orphans.swap(table().orphans);
	}
	if (vf::stats().samples.size() < 5 && !exs.empty()) {
		vf::Case one;
		one.ops.push_back(c.ops[(size_t)exs[0]]);
		std::string t = vf::serialize(one);
		vf::stats().sample(part + ": " + std::to_string(exs.size()) + " exchange(s) on " + std::to_string(nl) + " lane(s), first: " + t.substr(0, 300));
	}
	if (exs.size() > 1)
		vf::stats().eval(exs.size() - 1); // evaluations count exchanges
	int first = -1;
	std::string msg;
	for (auto& kv : *lp)
		if (!kv.second.err.empty() && (first < 0 || (kv.second.erridx >= 0 && kv.second.erridx < first))) {
			first = kv.second.erridx < 0 ? 1 << 30 : kv.second.erridx;
			msg = kv.second.err;
		}
	VF_CHECK(msg.empty(), msg);
	VF_CHECK(orphans.empty(), orphans.empty() ? "" : orphans[0]);
}

// ------------------------------------------------------------------------------------------------ generators

static vf::Op ex_op()
{
	vf::Op o("ex");
	o.a.assign(A_COUNT, 0);
	o.s.push_back("");
	o.s.push_back("");
	return o;
}

static std::string genBytesFrom(const std::string& hot, int lo, int hi, int maxlen)
{
	int n = *vf::srange<int>(0, maxlen);
	std::string s;
	for (int i = 0; i < n; i++) {
		int k = *vf::irange<int>(0, 9);
		if (k < 4 && !hot.empty())
			s += hot[(size_t)*vf::irange<int>(0, (int)hot.size() - 1)];
		else if (k < 8)
			s += (char)*vf::irange<int>('a', 'z');
		else
			s += (char)*vf::irange<int>(lo, hi);
	}
	return s;
}

static std::string genHeaderName()
{
	static const std::string t = "!#$%&'*+-.^_`|~0123456789ABCDEFGHIJKLMNOPQRSTUVWXYZabcdefghijklmnopqrstuvwxyz";
	int n = *vf::irange<int>(1, 14);
	std::string s;
	for (int i = 0; i < n; i++) {
		int k = *vf::irange<int>(0, 9);
		s += k < 2 ? '-' : k < 8 ? (char)*vf::irange<int>('a', 'z') : t[(size_t)*vf::irange<int>(0, (int)t.size() - 1)];
	}
	return s;
}

static std::string genHeaderValue()
{
	int k = *vf::irange<int>(0, 99);
	int n = k < 5 ? 0 : k < 75 ? *vf::irange<int>(1, 40) : k < 96 ? *vf::irange<int>(41, 300) : *vf::irange<int>(301, 6000);
	static const char* utf[] = {"\xc3\xa9", "\xe2\x82\xac", "\xf0\x9f\x98\x80"};
	static const char hot[] = ": ;,=\"\\%\t()<>@/[]?{}";
	std::string s;
	for (int i = 0; i < n; i++) {
		int c = *vf::irange<int>(0, 99);
		if (c < 3 && i > 0 && i + 1 < n)
			s += utf[c];
		else if (c < 18)
			s += hot[(size_t)*vf::irange<int>(0, (int)sizeof hot - 2)];
		else
			s += (char)*vf::irange<int>(0x21, 0x7e);
	}
	return s;
}

static int genLen(int maxRandom)
{
	int k = *vf::irange<int>(0, 99);
	if (k < 30)
		return *vf::irange<int>(0, 64);
	if (k < 55)
		return *vf::irange<int>(0, 2048);
	if (k < 80) {
		static const int B[] = {16000, 32000, 128000, 256000, 65536, 16382, 48000, 144000};
		int b = B[*vf::irange<int>(0, 7)] + *vf::irange<int>(-8, 8);
		return b <= maxRandom ? b : *vf::irange<int>(0, maxRandom);
	}
	return *vf::irange<int>(0, maxRandom);
}

enum { P_GENERAL, P_CONC, P_MINI, P_FILES, P_JSON, P_FILECONC };

static rc::Gen<vf::Op> genEx(int profile, int maxlen, int lanes)
{
	return rc::gen::exec([=]() {
		vf::Op o = ex_op();
		auto pct = [](int p) { return *vf::irange<int>(0, 99) < p; };
		o.a[A_LANE] = *vf::irange<int>(0, lanes - 1);
		int c = *vf::irange<int>(0, 99);
		int client = profile == P_MINI ? CL_MINI : profile == P_CONC ? (c < 30 ? CL_REQUEST : c < 45 ? CL_STATIC : c < 88 ? CL_RAW : CL_MINI) : (c < 35 ? CL_REQUEST : c < 55 ? CL_STATIC : CL_RAW);
		o.a[A_CLIENT] = client;
		int m = *vf::irange<int>(0, 99);
		o.a[A_METHOD] = m < 25 ? 0 : m < 50 ? 1 : m < 65 ? 2 : m < 75 ? 3 : m < 88 ? 4 : 5;
		if (o.a[A_METHOD] == 5) {
			static const char* custom[] = {"FOO", "PROPFIND", "REPORT", "X", "MKCOL", "QUERYQUERYQUERY"};
			o.s[S_METHOD] = custom[*vf::irange<int>(0, 5)];
		}
		int cd = *vf::irange<int>(0, 99);
		o.a[A_CODE] = cd < 50 ? 0 : cd < 70 ? *rc::gen::element(1, 4, 6, 101, 102, 107, 108, 200, 204, 205, 216, 300, 303, 399) : *vf::irange<int>(0, 399);
		int flags = 0;
		if (pct(45)) flags |= F_KEEP;
		if (pct(50)) flags |= F_NOFOLLOW;
		if (pct(15)) flags |= F_STRBODY;
		if (pct(profile == P_MINI ? 70 : 45)) flags |= F_CHUNKED;
		if (pct(40)) flags |= F_UPPERHEX;
		if (pct(8)) flags |= F_HTTP10;
		if (pct(6)) flags |= F_SMALLRCV;
		if (pct(50)) flags |= F_NOBODYCALL;
		if (pct(profile == P_JSON ? 70 : 6)) flags |= F_JSONREQ;
		if (pct(profile == P_FILES ? 25 : 5)) flags |= F_FILEREQ;
		if (pct(profile == P_FILES ? 20 : 3)) flags |= F_UPLOAD;
		if (pct(50)) flags |= F_MULTIPART;
		if (pct(profile == P_FILES ? 25 : 3)) flags |= F_DOWNLOAD;
		if (pct(40)) flags |= F_SETHDR;
		if (pct(30)) flags |= F_LATECODE;
		if (pct(12)) flags |= F_EXPECT;
		o.a[A_FLAGS] = flags;
		o.a[A_RLEN] = pct(25) ? 0 : genLen(maxlen);
		o.a[A_RSEED] = *vf::irange<int>(0, 1 << 30);
		o.a[A_RKIND] = *vf::irange<int>(0, 4);
		o.a[A_PLEN] = pct(12) ? 0 : genLen(maxlen);
		o.a[A_PSEED] = *vf::irange<int>(0, 1 << 30);
		o.a[A_PKIND] = *vf::irange<int>(0, 4);
		int r = *vf::irange<int>(0, 99);
		o.a[A_RMODE] = profile == P_FILECONC ? (r < 70 ? RM_FILE : RM_SERVE) : profile == P_FILES ? (r < 50 ? RM_FILE : r < 88 ? RM_SERVE : RM_BYTES) : profile == P_JSON ? (r < 70 ? RM_JSON : RM_BYTES)
					   : (r < 36 ? RM_BYTES : r < 45 ? RM_STRING : r < 58 ? RM_STREAM : r < 67 ? RM_CHUNKED : r < 75 ? RM_JSON : r < 86 ? RM_FILE : r < 92 ? RM_SERVE : RM_NONE);
		o.a[A_FRAG] = *vf::irange<int>(0, 6);
		o.a[A_FSEED] = *vf::irange<int>(0, 1 << 30);
		int rg = *vf::irange<int>(0, 99);
		o.a[A_RANGE] = rg < 25 ? 0 : rg < 88 ? 1 : 2;
		// range ends: anywhere, or near the file's ends / the 16000-byte block edges (values are taken modulo the size)
		auto pos = [&]() -> int {
			int k = *vf::irange<int>(0, 9);
			if (k < 3)
				return *vf::irange<int>(0, 3);
			if (k < 5)
				return -1 - *vf::irange<int>(0, 3); // counted from the end by the modulo rule
			if (k < 7)
				return 16000 * *vf::irange<int>(1, 8) + *vf::irange<int>(-2, 2);
			return *vf::irange<int>(0, 1 << 20);
		};
		o.a[A_RB] = pos();
		o.a[A_RE] = pct(15) ? o.a[A_RB] : pos();
		o.a[A_V6] = pct(20) ? 1 : 0;
		o.a[A_IMS] = pct(35) ? 0 : *vf::irange<int>(1, 8);
		o.a[A_CUT] = (profile == P_GENERAL && pct(6)) ? *vf::irange<int>(1, 4000) : 0;
		o.a[A_TWICE] = pct(profile == P_FILECONC ? 10 : 25) ? *vf::irange<int>(1, 6) : 0;
		o.s[S_PATH] = pct(30) ? std::string() : genBytesFrom("/.%? #+&=;:@\\\"<>\x7f\xc3\xa9", 1, 255, 40);
		int nq = pct(50) ? 0 : *vf::srange<int>(1, 6);
		int nrh = pct(35) ? 0 : *vf::srange<int>(1, 12);
		int nph = pct(35) ? 0 : *vf::srange<int>(1, 12);
		o.a[A_NQ] = nq;
		o.a[A_NRH] = nrh;
		o.a[A_NPH] = nph;
		for (int i = 0; i < nq; i++) {
			std::string k = genBytesFrom("&=+%? #/", 1, 255, 8);
			o.s.push_back(k.empty() ? "q" + std::to_string(i) : k);
			o.s.push_back(genBytesFrom("&=+%? #/\r\n", 1, 255, 30));
		}
		for (int i = 0; i < nrh + nph; i++) {
			o.s.push_back(genHeaderName());
			o.s.push_back(genHeaderValue());
		}
		if (profile == P_FILECONC) { // many small static-file GETs at once
			o.a[A_CLIENT] = c < 45 ? CL_STATIC : c < 60 ? CL_REQUEST : CL_RAW;
			o.a[A_METHOD] = 0;
			o.a[A_FLAGS] = flags & (F_KEEP | F_SETHDR | F_LATECODE | F_NOFOLLOW) & ~((c % 7) ? 0 : F_KEEP);
			o.a[A_RLEN] = 0;
			o.a[A_PLEN] = *vf::irange<int>(0, 9) == 0 ? *vf::irange<int>(0, 20000) : *vf::irange<int>(0, 300);
			o.a[A_RANGE] = rg < 75 ? 0 : 1;
			o.a[A_CODE] = 0;
		}
		return o;
	});
}

static rc::Gen<vf::Case> genCase(int profile, int maxlen, int maxlanes, int minops)
{
	(void)minops;
	if (profile == P_CONC || profile == P_FILECONC) {
		// K clients at once: K lanes (2..64, biased to the extremes), every lane gets at least one exchange
		auto lanesGen = rc::gen::mapcat(vf::irange<int>(0, 9), [=](int k) -> rc::Gen<int> {
			if (k < 5)
				return rc::gen::element(2, 3, 8, 16, 32, 63, 64, 64);
			return vf::irange<int>(2, maxlanes);
		});
		return rc::gen::mapcat(rc::gen::pair(lanesGen, vf::irange<int>(0, 24)), [=](std::pair<int, int> p) {
			int lanes = profile == P_FILECONC ? 8 + p.first % 25 : p.first;
			if (profile == P_FILECONC)
				p.second += lanes; // two or more file requests per lane
			return rc::gen::map(rc::gen::container<std::vector<vf::Op>>((size_t)(lanes + p.second), genEx(profile, maxlen, lanes)), [=](std::vector<vf::Op> ops) {
				vf::Case c;
				for (size_t i = 0; i < ops.size(); i++) {
					if ((int)i < lanes)
						ops[i].a[A_LANE] = (long long)i;
					c.ops.push_back(ops[i]);
				}
				return c;
			});
		});
	}
	return rc::gen::mapcat(vf::irange<int>(1, maxlanes), [=](int lanes) {
		return rc::gen::map(rc::gen::container<std::vector<vf::Op>>(genEx(profile, maxlen, lanes)), [=](std::vector<vf::Op> ops) {
			vf::Case c;
			for (auto& o : ops)
				c.ops.push_back(o);
			return c;
		});
	});
}

// ------------------------------------------------------------------------------------------------ search

static bool run_ops(const std::string& part, const std::vector<vf::Op>& ops)
{
	vf::Case c;
	c.ops = ops;
	return vf::runner().run(part, c);
}

void vf_search(const vf::Args& a)
{
	ensure_servers();
	if (!g_srv[1])
		vf::stats().cls("ipv6_loopback_unavailable");
	const bool quick = a.quick();
	const int W = a.workers > 0 ? a.workers : 1;
	ref::SplitMix rng(a.seed * 1000 + (uint64_t)a.worker + 77);
	double tmark = ref::mono_s();
	auto mark = [&](int line) { // per-part wall time in the worker log (diagnostics only)
		double now = ref::mono_s();
		printf("[time] worker %d: part ending at line %d took %.1f s\n", a.worker, line, now - tmark);
		tmark = now;
	};

	// an exchange whose request and response bodies have the given lengths, everything else varied from the PRNG
	auto sized = [&](int k, size_t rlen, size_t plen) {
		vf::Op o = ex_op();
		o.a[A_LANE] = k % 4;
		int client = k % 3 == 0 ? CL_RAW : k % 3 == 1 ? CL_REQUEST : (k % 6 == 2 ? CL_STATIC : CL_MINI);
		o.a[A_CLIENT] = client;
		o.a[A_METHOD] = 1 + (k / 3) % 3; // POST PUT PATCH
		o.a[A_FLAGS] = (long long)(rng.below(rng.below(6) ? 32768 : 65536) & ~(F_JSONREQ | F_FILEREQ | F_UPLOAD | F_MULTIPART | F_DOWNLOAD | F_HTTP10 | F_SMALLRCV | F_STRBODY));
		o.a[A_RLEN] = (long long)rlen;
		o.a[A_RSEED] = (long long)rng.below(1 << 30);
		o.a[A_RKIND] = (long long)rng.below(3);
		o.a[A_PLEN] = (long long)plen;
		o.a[A_PSEED] = (long long)rng.below(1 << 30);
		o.a[A_PKIND] = (long long)rng.below(3);
		int rm = (int)rng.below(10);
		o.a[A_RMODE] = rm < 5 ? RM_BYTES : rm < 7 ? RM_STREAM : rm < 8 ? RM_CHUNKED : RM_FILE;
		o.a[A_FRAG] = (long long)rng.below(7);
		o.a[A_FSEED] = (long long)rng.below(1 << 30);
		o.a[A_V6] = rng.below(8) == 0;
		return o;
	};

	// (1) every body length 0..2048 in both directions: library client, raw client, library client -> reference server
	[&]() {
		uint64_t n = 0;
		std::vector<vf::Op> batch;
		int reps = quick ? 1 : 3;
		for (int rep = 0; rep < reps; rep++)
			for (int L = 0; L <= 2048; L++) {
				if ((L / 8) % W != a.worker)
					continue;
				for (int cl = 0; cl < 3; cl++) {
					int k = L * 3 + cl + rep; // cl selects the client kind through k % 3
					batch.push_back(sized(k, (size_t)L, (size_t)((L * 7 + 3 + rep) % 2049)));
				}
				if (batch.size() >= 24 || L == 2048) {
					n += batch.size();
					if (!run_ops("sizes", batch))
						return;
					batch.clear();
				}
			}
		if (!batch.empty()) {
			n += batch.size();
			if (!run_ops("sizes", batch))
				return;
		}
		vf::stats().part("sizes.every_length_0..2048_both_directions_x3_clients", n, false);
	}();
	mark(__LINE__);

	// (2) +-8 around the block sizes, sampled lengths up to 300 KiB (thorough: every length 0..300 KiB, MiB sizes)
	[&]() {
		std::vector<size_t> lens;
		for (size_t b : {16000u, 32000u, 128000u, 256000u, 16382u, 65536u, 144000u})
			for (int d = -8; d <= 8; d++)
				lens.push_back(b + d);
		long nrand = a.n(40, 400);
		for (long i = 0; i < nrand; i++)
			lens.push_back((size_t)rng.below((300u << 10) + 1));
		uint64_t n = 0;
		std::vector<vf::Op> batch;
		for (size_t i = 0; i < lens.size(); i++) {
			if ((int)(i % (size_t)W) != a.worker && i < 7 * 17)
				continue;
			for (int cl = 0; cl < 3; cl++)
				batch.push_back(sized((int)(i * 3 + cl), lens[i], lens[(i * 5 + 1) % lens.size()]));
			if (batch.size() >= 6) {
				n += batch.size();
				if (!run_ops("bigsizes", batch))
					return;
				batch.clear();
			}
		}
		std::vector<size_t> huge;
		if (quick)
			huge = {1u << 20};
		else
			huge = {1u << 20, (1u << 20) + 1, 2u << 20, (4u << 20) - 1, 8u << 20};
		for (size_t i = 0; i < huge.size(); i++) {
			if ((int)(i % (size_t)W) != a.worker % (int)(huge.size() < (size_t)W ? huge.size() : (size_t)W) || a.worker >= (int)huge.size())
				continue;
			for (int cl = 0; cl < 3; cl++) {
				std::vector<vf::Op> one = {sized((int)(i * 3 + cl), huge[i], huge[(i + 1) % huge.size()])};
				n++;
				if (!run_ops("bigsizes", one))
					return;
			}
		}
		// streamed chunked responses whose write() calls are larger than the library's 128000-byte send block
		{
			std::vector<size_t> cs = {127999, 128000, 128001, 256000, 256001, 300000, (512u << 10) + 1};
			if (!quick)
				cs.push_back((1u << 20) + 3);
			int k = 0;
			for (size_t len : cs)
				for (int pattern = 0; pattern < 2; pattern++)
					for (int cl = 0; cl < 3; cl++, k++) {
						if (k % W != a.worker)
							continue;
						vf::Op o = sized(cl == 0 ? 0 : cl == 1 ? 1 : 2, (size_t)rng.below(2000), len);
						o.a[A_RMODE] = RM_CHUNKED;
						o.a[A_FSEED] = ((long long)pattern << 20) | (long long)rng.below(1 << 20);
						std::vector<vf::Op> one = {o};
						n++;
						if (!run_ops("bigsizes", one))
							return;
					}
		}
		// Expect: 100-continue from the raw client: with a length, chunked, and with Content-Length: 0
		{
			int k = 0;
			for (size_t len : {(size_t)0, (size_t)1, (size_t)5000, (size_t)70000, (size_t)200000})
				for (int framing = 0; framing < 2; framing++)
					for (int keep = 0; keep < 2; keep++, k++) {
						if (k % W != a.worker)
							continue;
						vf::Op o = sized(0, len, (size_t)rng.below(3000));
						o.a[A_FLAGS] = (o.a[A_FLAGS] & ~(F_CHUNKED | F_KEEP)) | F_EXPECT | (framing ? F_CHUNKED : 0) | (keep ? F_KEEP : 0);
						vf::Op o2 = sized(3, (size_t)rng.below(300), (size_t)rng.below(300)); // next request on the same lane / connection
						o2.a[A_LANE] = o.a[A_LANE];
						std::vector<vf::Op> two = {o, o2};
						n += 2;
						if (!run_ops("bigsizes", two))
							return;
					}
		}
		vf::stats().part("bigsizes", n, false);
	}();
	mark(__LINE__);
	if (!quick)
		[&]() {
			// every length 0..300 KiB, split over the workers, request and response lengths paired by a bijection
			const size_t M = (300u << 10) + 1;
			uint64_t n = 0;
			std::vector<vf::Op> batch;
			long step = a.scale >= 1 ? 1 : (long)(1 / a.scale);
			for (size_t L = (size_t)a.worker; L < M; L += (size_t)W * (size_t)step) {
				vf::Op o = sized((int)(L / (size_t)W), L, (L * 7 + 12345) % M);
				if (o.a[A_CLIENT] == CL_RAW)
					o.a[A_FRAG] = (long long)rng.below(6); // byte-by-byte sending is kept for the smaller bodies
				batch.push_back(o);
				if (batch.size() >= 8) {
					n += batch.size();
					if (!run_ops("alllengths", batch))
						return;
					batch.clear();
				}
			}
			vf::stats().part("alllengths.every_length_0..300KiB", n, false);
		}();

	// (3) every range [b,e] of a small file: library get, Http::download, raw client on one kept-alive connection
	[&]() {
		uint64_t n = 0;
		std::vector<int> fsizes = quick ? std::vector<int>{18} : std::vector<int>{1, 2, 3, 18, 33};
		for (int size : fsizes) {
			std::vector<vf::Op> batch;
			int k = 0;
			for (int b = 0; b < size; b++)
				for (int e = b; e < size; e++, k++) {
					if (k % W != a.worker)
						continue;
					for (int cl = 0; cl < 3; cl++) {
						vf::Op o = ex_op();
						o.a[A_LANE] = cl;
						o.a[A_CLIENT] = cl == 0 ? CL_STATIC : cl == 1 ? CL_REQUEST : CL_RAW;
						o.a[A_METHOD] = 0;
						o.a[A_FLAGS] = cl == 1 ? F_DOWNLOAD : cl == 2 ? F_KEEP : 0;
						o.a[A_PLEN] = size;
						o.a[A_PSEED] = 4242 + size;
						o.a[A_PKIND] = 3;
						o.a[A_RMODE] = RM_FILE;
						o.a[A_RANGE] = 1;
						o.a[A_RB] = b;
						o.a[A_RE] = e;
						o.a[A_FSEED] = (long long)rng.below(1 << 30);
						o.a[A_FRAG] = (long long)rng.below(7);
						batch.push_back(o);
					}
					if (batch.size() >= 30) {
						n += batch.size();
						if (!run_ops("ranges", batch))
							return;
						batch.clear();
					}
				}
			if (!batch.empty()) {
				n += batch.size();
				if (!run_ops("ranges", batch))
					return;
			}
		}
		vf::stats().part("ranges.every_b_e_of_small_files_x3_clients", n, true);
	}();
	mark(__LINE__);

	// (3b) conditional requests for files served by serveFile(): every If-Modified-Since variant x 4 clients x with/without Range
	[&]() {
		uint64_t n = 0;
		std::vector<vf::Op> batch;
		int k = 0;
		for (int rep = 0; rep < (quick ? 2 : 8); rep++)
			for (int ims = 0; ims <= 8; ims++)
				for (int cl = 0; cl < 4; cl++)
					for (int range = 0; range < 2; range++, k++) {
						if (k % W != a.worker)
							continue;
						vf::Op o = ex_op();
						o.a[A_LANE] = cl;
						o.a[A_CLIENT] = cl == 0 ? CL_STATIC : cl == 3 ? CL_RAW : CL_REQUEST;
						o.a[A_FLAGS] = cl == 1 ? F_DOWNLOAD : cl == 3 ? F_KEEP : (long long)(rng.below(2) * F_SETHDR);
						o.a[A_PLEN] = 1 + (long long)rng.below(rep % 2 ? 40000 : 60);
						o.a[A_PSEED] = (long long)rng.below(1 << 30);
						o.a[A_PKIND] = (long long)rng.below(4);
						o.a[A_RMODE] = RM_SERVE;
						o.a[A_RANGE] = range;
						o.a[A_RB] = (long long)rng.below(1 << 20);
						o.a[A_RE] = (long long)rng.below(1 << 20);
						o.a[A_IMS] = ims;
						o.a[A_FSEED] = (long long)rng.below(1 << 30);
						o.a[A_FRAG] = (long long)rng.below(7);
						batch.push_back(o);
						if (batch.size() >= 24) {
							n += batch.size();
							if (!run_ops("conditional", batch))
								return;
							batch.clear();
						}
					}
		if (!batch.empty()) {
			n += batch.size();
			if (!run_ops("conditional", batch))
				return;
		}
		vf::stats().part("conditional.if_modified_since_x_clients_x_range", n, false);
	}();
	mark(__LINE__);

	// (3c) truncated requests: chunked (2-5 chunks) and Content-Length requests cut after EVERY byte, then half-closed
	[&]() {
		uint64_t n = 0;
		std::vector<vf::Op> batch;
		int k = 0;
		struct Shape { int chunked; int len; };
		std::vector<Shape> shapes = {{1, 12}, {1, 29}, {0, 17}, {0, 0}};
		if (!quick) {
			shapes.push_back({1, 5});
			shapes.push_back({1, 60});
			shapes.push_back({0, 300});
		}
		for (size_t si = 0; si < shapes.size(); si++) {
			long long rseed = (long long)rng.below(1 << 30), fseed = (long long)rng.below(1 << 30);
			if (W > 1) { // all workers sweep the same request
				ref::SplitMix same(a.seed * 77 + si);
				rseed = (long long)same.below(1 << 30);
				fseed = (long long)same.below(1 << 30);
			}
			int span = 230 + shapes[si].len * 2 + (shapes[si].len > 100 ? 200 : 0);
			for (int pos = 0; pos < span; pos++, k++) {
				if (k % W != a.worker)
					continue;
				vf::Op o = ex_op();
				o.a[A_LANE] = k % 4;
				o.a[A_CLIENT] = CL_RAW;
				o.a[A_METHOD] = 1 + (int)si % 3;
				o.a[A_FLAGS] = (shapes[si].chunked ? F_CHUNKED : 0) | (si % 2 ? F_UPPERHEX : 0);
				o.a[A_RLEN] = shapes[si].len;
				o.a[A_RSEED] = rseed;
				o.a[A_RKIND] = (long long)si % 3;
				o.a[A_PLEN] = 5;
				o.a[A_FSEED] = fseed;
				o.a[A_FRAG] = pos % 7 == 3 ? 6 : 0;
				o.a[A_CUT] = pos + 1;
				batch.push_back(o);
				if (batch.size() >= 32) {
					n += batch.size();
					if (!run_ops("truncated", batch))
						return;
					batch.clear();
				}
			}
		}
		if (!batch.empty()) {
			n += batch.size();
			if (!run_ops("truncated", batch))
				return;
		}
		vf::stats().part("truncated.request_cut_after_every_byte", n, false);
	}();
	mark(__LINE__);

	// (3d) a body set twice on the same message: every (first setter, last setter) pair, response and request side
	[&]() {
		uint64_t n = 0;
		std::vector<vf::Op> batch;
		int k = 0;
		static const int REAL[] = {RM_BYTES, RM_STRING, RM_JSON, RM_FILE, RM_SERVE};
		for (int rep = 0; rep < (quick ? 1 : 6); rep++)
			for (int decoy = 1; decoy <= 6; decoy++)
				for (int real = 0; real < 5; real++)
					for (int cl = 0; cl < 2; cl++, k++) {
						if (k % W != a.worker)
							continue;
						vf::Op o = sized(cl == 0 ? 1 : 0, (size_t)(1 + rng.below(400)), (size_t)(1 + rng.below(3000)));
						o.a[A_LANE] = k % 3;
						o.a[A_METHOD] = real == 4 ? 0 : 1 + k % 3;
						int reqkind = (k / 2) % 4; // request body through ByteArray / String / Var / File
						o.a[A_FLAGS] = (o.a[A_FLAGS] & ~(F_EXPECT | F_NOBODYCALL | F_STRBODY)) | (cl == 0 ? (reqkind == 1 ? F_STRBODY : reqkind == 2 ? F_JSONREQ : reqkind == 3 ? F_FILEREQ : 0) : 0);
						o.a[A_RMODE] = REAL[real];
						o.a[A_RANGE] = 0;
						o.a[A_TWICE] = decoy;
						batch.push_back(o);
						if (batch.size() >= 20) {
							n += batch.size();
							if (!run_ops("twice", batch))
								return;
							batch.clear();
						}
					}
		if (!batch.empty()) {
			n += batch.size();
			if (!run_ops("twice", batch))
				return;
		}
		vf::stats().part("twice.every_pair_of_body_setters", n, false);
	}();
	mark(__LINE__);

	// (4) generated exchanges
	[&]() { vf::check_cases("exchange", a.n(260, 2000), 6, genCase(P_GENERAL, 300 << 10, 3, 1)); }();
	mark(__LINE__);
	[&]() { vf::check_cases("files", a.n(120, 1000), 6, genCase(P_FILES, 300000, 3, 1)); }();
	mark(__LINE__);
	[&]() { vf::check_cases("json", a.n(60, 600), 5, genCase(P_JSON, 3000, 2, 1)); }();
	mark(__LINE__);
	[&]() { vf::check_cases("refserver", a.n(120, 1200), 5, genCase(P_MINI, 300 << 10, 3, 1)); }();
	mark(__LINE__);
	// (5) 2..64 clients in flight at once
	[&]() { vf::check_cases("concurrent", a.n(36, 250), 10, genCase(P_CONC, 70000, 64, 2)); }();
	mark(__LINE__);
	// (6) 8..32 clients requesting small static files at once, about half of them with an extension never served before
	[&]() { vf::check_cases("concurrent_files", a.n(45, 150), 10, genCase(P_FILECONC, 20000, 32, 2)); }();
	mark(__LINE__);
}
