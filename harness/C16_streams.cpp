// C16 -- endian-aware binary streams: StreamBuffer / File / Socket operator<< write exactly the reference serializer's
// bytes (explicit shifts), StreamBufferReader / File / Socket operator>> read the same types back bit-identically,
// byte-order switches in mid-stream affect only later values.
//
// case = list of ops
//   init k            (only as first op) byte order given to the constructors / set before the first value (k mod 3:
//                     0 BIG, 1 LITTLE, 2 NATIVE); without it LITTLE
//   order k           setEndian(k mod 3) on the writer, and at the same point on the reader
//   v t x             one scalar of type t mod 12 whose bit pattern is x truncated to sizeof(T) (bool: x&1)
//   a t x1 .. xn      Array<T> of n <= 100 elements with these bit patterns
//   s k | bytes       k mod 3: 0 const char* (NULs dropped), 1 String (any bytes, built with String(ptr, n)), 2 ByteArray
//   ls | bytes        a length-prefixed String: written as  << int(length) << String , read back with File >> String and
//                     Socket >> String (an int32 length in the stream's byte order followed by that many bytes; NULs dropped)
//   reconnect d       (part "reconn" only) the Socket is close()d here and connect()ed again - the same client object over
//                     several TCP loopback sessions, byte order set once before the first connect and by "order" items only;
//                     d&1: the session that starts here is written by the client (0) or read by it (1)
//   listen l m        (part "accept" only) the stream is an ACCEPTED asl Socket: an asl Socket binds 127.0.0.1:0, gets setEndian(l)
//                     for l = 0..2 (l = 3: nothing), listens and accepts a connection made by the harness; m&1 = 0: the accepted
//                     Socket is used as it comes (its own default order, NATIVE, whatever the listener has: the case then starts in
//                     NATIVE order), m&1 = 1: it gets its own setEndian(init order); direction as given by init's second argument
//   fcopy k           (File sink) the byte order is set on a File object that is then COPIED, and the copy does the I/O: k mod 4 = 1
//                     copy-constructed, 2 passed to and returned from a function by value, 3 stored in an Array<File> and the element used
//                     (0: no copy). A copy keeps the configured order.
//   big t n seed      an Array<T> of n <= 2^20 elements derived from the seed (part "bigwrite": written with one << to a TCP socket
//                     with small buffers and a send timeout against a slow reader, so that the one write() needs many short send()s)
//   sk                the READER skips the next value / array / string instead of reading it (StreamBufferReader::skip, File::seek from
//                     the current position, Socket::skip) and goes on with the following items, which must come out right
//   ra k              write AGAIN the same Array object that the (k mod n)-th of the n earlier "a" ops created (in the order
//                     now in force); the source objects live for the whole case and are shared by the three sinks, and after
//                     every << the source (Array / String / ByteArray / C string) must still equal the model
//   frag pause j1 i1 j2 i2 ..   additionally read everything back from a Socket whose peer delivers the reference bytes in
//                     pieces: a cut at byte i (mod size) of item j (mod items) for every pair; after each piece the feeder
//                     waits until the reader has drained the socket (so the reader is inside a multi-recv read when the cut
//                     is inside a value) plus `pause` microseconds, then sends the next piece
#include "common/vfrc.h"
#include "common/ref_io.h"
#include <asl/StreamBuffer.h>
#include <asl/File.h>
#include <asl/Socket.h>
#include <sys/socket.h>
#include <errno.h>
#include <sys/ioctl.h>
#include <poll.h>
#include <netinet/in.h>
#include <arpa/inet.h>
#include <thread>
#include <atomic>
#include <memory>
#include <algorithm>

using namespace asl;

const char* vf_harness_name() { return "C16_streams"; }

// ---------------------------------------------------------------------------------------------
// reference serializer (no asl code): the value is its unsigned bit pattern, bytes come from shifts

static bool host_little()
{
	const uint16_t one = 1;
	unsigned char b[2];
	memcpy(b, &one, 2);
	return b[0] == 1;
}

// order: 0 BIG, 1 LITTLE, 2 NATIVE
static void ref_put(std::string& out, uint64_t u, int size, int order)
{
	bool little = order == 1 || (order == 2 && host_little());
	for (int i = 0; i < size; i++) {
		int k = little ? i : size - 1 - i;
		out += (char)((u >> (8 * k)) & 0xff);
	}
}

static const char* ORDER_NAME[3] = {"BIG", "LITTLE", "NATIVE"};
static const char* TYPE_NAME[12] = {"bool", "char", "signed char", "byte", "short", "unsigned short", "int", "unsigned", "Long", "ULong", "float", "double"};
static const int TYPE_SIZE[12] = {1, 1, 1, 1, 2, 2, 4, 4, 8, 8, 4, 8};

static uint64_t canon(int t, uint64_t x)
{
	if (t == 0)
		return x & 1;
	int sz = TYPE_SIZE[t];
	return sz == 8 ? x : (x & ((1ULL << (8 * sz)) - 1));
}

template <class T>
struct Tag {
	typedef T type;
};

template <class F>
static void with_type(int t, F&& f)
{
	switch (t) {
	case 0: f(Tag<bool>()); break;
	case 1: f(Tag<char>()); break;
	case 2: f(Tag<signed char>()); break;
	case 3: f(Tag<byte>()); break;
	case 4: f(Tag<short>()); break;
	case 5: f(Tag<unsigned short>()); break;
	case 6: f(Tag<int>()); break;
	case 7: f(Tag<unsigned>()); break;
	case 8: f(Tag<Long>()); break;
	case 9: f(Tag<ULong>()); break;
	case 10: f(Tag<float>()); break;
	default: f(Tag<double>()); break;
	}
}

template <int N>
struct UIntOf;
template <>
struct UIntOf<1> {
	typedef uint8_t type;
};
template <>
struct UIntOf<2> {
	typedef uint16_t type;
};
template <>
struct UIntOf<4> {
	typedef uint32_t type;
};
template <>
struct UIntOf<8> {
	typedef uint64_t type;
};

template <class T>
static T from_bits(uint64_t u)
{
	typename UIntOf<sizeof(T)>::type v = (typename UIntOf<sizeof(T)>::type)u;
	T x;
	memcpy(&x, &v, sizeof(T));
	return x;
}
template <>
bool from_bits<bool>(uint64_t u)
{
	return (u & 1) != 0;
}
template <class T>
static uint64_t to_bits(const T& x)
{
	typename UIntOf<sizeof(T)>::type v;
	memcpy(&v, &x, sizeof(T));
	return (uint64_t)v;
}
template <>
uint64_t to_bits<bool>(const bool& x)
{
	return x ? 1 : 0;
}

// ---------------------------------------------------------------------------------------------
// the decoded case

struct Item {
	int kind;    // 0 order, 1 scalar, 2 array, 3 string
	int t;       // type / order / string kind
	std::vector<uint64_t> x;
	std::string s;
	int opno;
	std::string bytes; // reference bytes of this item (in the order in force)
	int order;         // order in force
	int src = -1;      // arrays: index of the source object (several items may write the same object)
	bool again = false;
	bool skip = false;  // the reader skips this item's bytes
};

struct Plan {
	int init = 1;
	std::vector<Item> items;
	std::string all;
	std::vector<int> srcItem;   // source object -> index of the item that defines it
	bool frag = false;
	int pause_us = 0;
	std::vector<size_t> cuts;   // sorted distinct offsets in (0, all.size())
	std::vector<size_t> sessStart; // part "reconn": item index at which a new connection starts (first session starts at 0)
	std::vector<int> sessDir;      // direction of each session: 0 the client writes, 1 the client reads
	int fcopy = 0;                 // File sink: 0 the configured object does the I/O, 1..3 a copy of it does
	int lorder = -1, accmode = 0;  // part "accept": order given to the listening Socket (3 none), accepted Socket 0 untouched / 1 own setEndian
};

static std::string drop_nul(const std::string& s)
{
	std::string r;
	for (char c : s)
		if (c)
			r += c;
	return r;
}

static Plan decode(const vf::Case& c)
{
	Plan p;
	int order = 1;
	for (const vf::Op& o : c.ops)
		if (o.name == "listen" && p.lorder < 0) {
			p.lorder = (int)(((o.i(0) % 4) + 4) % 4);
			p.accmode = (int)(o.i(1) & 1);
		}
	const bool untouched = p.lorder >= 0 && p.accmode == 0; // an accepted Socket nobody configured: the library's default order
	if (untouched)
		p.init = order = 2;
	p.sessStart.push_back(0);
	p.sessDir.push_back(0);
	bool skipnext = false;
	for (size_t i = 0; i < c.ops.size(); i++) {
		const vf::Op& o = c.ops[i];
		Item it;
		it.opno = (int)i;
		if (o.name == "sk") {
			skipnext = true;
			continue;
		}
		if (o.name == "init") {
			if (i == 0) {
				if (!untouched)
					p.init = order = (int)(((o.i(0) % 3) + 3) % 3);
				p.sessDir[0] = (int)(o.i(1) & 1);
			}
			continue;
		}
		else if (o.name == "reconnect") {
			if (p.sessStart.size() < 4) {
				p.sessStart.push_back(p.items.size());
				p.sessDir.push_back((int)(o.i(0) & 1));
			}
			continue;
		}
		else if (o.name == "fcopy") {
			p.fcopy = (int)(((o.i(0) % 4) + 4) % 4);
			continue;
		}
		else if (o.name == "big") {
			it.kind = 2;
			it.t = (int)(((o.i(0) % 12) + 12) % 12);
			long long n = o.i(1) < 0 ? 0 : o.i(1) > (1 << 20) ? (1 << 20) : o.i(1);
			ref::Mix g((uint64_t)o.i(2));
			it.x.reserve((size_t)n);
			it.bytes.reserve((size_t)n * TYPE_SIZE[it.t]);
			for (long long k = 0; k < n; k++) {
				it.x.push_back(canon(it.t, g.next()));
				ref_put(it.bytes, it.x.back(), TYPE_SIZE[it.t], order);
			}
		}
		else if (o.name == "ls") {
			it.kind = 5;
			it.t = 1;
			it.s = drop_nul(o.str(0));
			ref_put(it.bytes, (uint64_t)(uint32_t)it.s.size(), 4, order);
			it.bytes += it.s;
		}
		else if (o.name == "order") {
			it.kind = 0;
			it.t = order = (int)(((o.i(0) % 3) + 3) % 3);
		}
		else if (o.name == "v") {
			it.kind = 1;
			it.t = (int)(((o.i(0) % 12) + 12) % 12);
			it.x.push_back(canon(it.t, (uint64_t)o.i(1)));
			ref_put(it.bytes, it.x[0], TYPE_SIZE[it.t], order);
		}
		else if (o.name == "a") {
			it.kind = 2;
			it.t = (int)(((o.i(0) % 12) + 12) % 12);
			for (size_t k = 1; k < o.a.size() && k <= 100; k++) {
				it.x.push_back(canon(it.t, (uint64_t)o.a[k]));
				ref_put(it.bytes, it.x.back(), TYPE_SIZE[it.t], order);
			}
		}
		else if (o.name == "ra") {
			if (p.srcItem.empty())
				continue;
			const Item& first = p.items[p.srcItem[(size_t)(((o.i(0) % (long long)p.srcItem.size()) + (long long)p.srcItem.size()) % (long long)p.srcItem.size())]];
			it.kind = 2;
			it.t = first.t;
			it.x = first.x;
			it.src = first.src;
			it.again = true;
			for (uint64_t u : it.x)
				ref_put(it.bytes, u, TYPE_SIZE[it.t], order);
		}
		else if (o.name == "s") {
			it.kind = 3;
			it.t = (int)(((o.i(0) % 3) + 3) % 3);
			it.s = it.t == 0 ? drop_nul(o.str(0)) : o.str(0); // a String (like a ByteArray) may hold any byte, a C string ends at its NUL
			it.bytes = it.s;
		}
		else
			continue;
		it.order = order;
		if (it.kind != 0) {
			it.skip = skipnext;
			skipnext = false;
		}
		if (it.kind == 2 && !it.again) {
			it.src = (int)p.srcItem.size();
			p.srcItem.push_back((int)p.items.size());
		}
		p.all += it.bytes;
		p.items.push_back(it);
		if (p.items.size() >= 64)
			break;
	}
	// fragmentation of the delivery to the Socket reader
	for (const vf::Op& o : c.ops) {
		if (o.name != "frag" || p.frag || p.items.empty())
			continue;
		p.frag = true;
		p.pause_us = (int)(o.i(0) < 0 ? 0 : o.i(0) > 2000 ? 2000 : o.i(0));
		std::vector<size_t> start;
		size_t off = 0;
		for (const Item& it : p.items) {
			start.push_back(off);
			off += it.bytes.size();
		}
		for (size_t k = 1; k + 1 < o.a.size() && p.cuts.size() < 12; k += 2) {
			size_t j = (size_t)((o.a[k] < 0 ? -o.a[k] : o.a[k]) % (long long)p.items.size());
			size_t n = p.items[j].bytes.size();
			size_t cut = start[j] + (n ? (size_t)((o.a[k + 1] < 0 ? -o.a[k + 1] : o.a[k + 1]) % (long long)n) : 0);
			if (cut > 0 && cut < p.all.size())
				p.cuts.push_back(cut);
		}
		std::sort(p.cuts.begin(), p.cuts.end());
		p.cuts.erase(std::unique(p.cuts.begin(), p.cuts.end()), p.cuts.end());
	}
	return p;
}

static std::string hx(uint64_t v)
{
	char b[32];
	snprintf(b, sizeof b, "0x%llx", (unsigned long long)v);
	return b;
}

static std::string describe(const Item& it)
{
	std::string d = "op#" + std::to_string(it.opno) + " ";
	if (it.kind == 1)
		d += std::string(TYPE_NAME[it.t]) + " scalar";
	else if (it.kind == 2)
		d += std::string("Array<") + TYPE_NAME[it.t] + "> of " + std::to_string(it.x.size()) + (it.again ? " (the same object written again)" : "");
	else if (it.kind == 3)
		d += it.t == 0 ? "const char*" : it.t == 1 ? "String" : "ByteArray";
	else if (it.kind == 5)
		d += "int32 length + String of " + std::to_string(it.s.size());
	return d + " in " + ORDER_NAME[it.order] + " order";
}

// ---------------------------------------------------------------------------------------------
// writing through the stream operators of any of the three sinks

// the source Array objects of a case: created once, alive until the case ends, shared by all sinks and by "ra" items
struct Sources {
	std::vector<std::shared_ptr<void>> arr;
	template <class T>
	Array<T>& get(int i)
	{
		return *(Array<T>*)arr[(size_t)i].get();
	}
	explicit Sources(const Plan& p)
	{
		for (int idx : p.srcItem) {
			const Item& it = p.items[(size_t)idx];
			with_type(it.t, [&](auto tag) {
				typedef typename decltype(tag)::type T;
				Array<T>* a = new Array<T>;
				for (uint64_t u : it.x)
					*a << from_bits<T>(u);
				arr.push_back(std::shared_ptr<void>(a, [](void* q) { delete (Array<T>*)q; }));
			});
		}
	}
};

template <class S>
static void write_item(S& s, const Item& it, Sources& src, const char* sink)
{
	if (it.kind == 0)
		s.setEndian((Endian)it.t);
	else if (it.kind == 1)
		with_type(it.t, [&](auto tag) {
			typedef typename decltype(tag)::type T;
			T x = from_bits<T>(it.x[0]);
			s << x;
			VF_CHECK(to_bits<T>(x) == it.x[0], sink, ": operator<< changed its argument: ", describe(it));
		});
	else if (it.kind == 2)
		with_type(it.t, [&](auto tag) {
			typedef typename decltype(tag)::type T;
			const Array<T>& a = src.get<T>(it.src);
			s << a;
			// writing does not change what was written
			VF_CHECK((size_t)a.length() == it.x.size(), sink, ": operator<< changed the length of its argument: ", describe(it), " now has ", a.length(), " elements");
			for (size_t k = 0; k < it.x.size(); k++)
				VF_CHECK(to_bits<T>(a[(int)k]) == it.x[k], sink, ": operator<< changed its argument: ", describe(it), ": element ", k, " of the caller's array is now ", hx(to_bits<T>(a[(int)k])),
				         ", was ", hx(it.x[k]));
		});
	else if (it.kind == 5) {
		String str(it.s.c_str());
		s << (int)it.s.size() << str;
	}
	else if (it.t == 0) {
		// exact-size heap copy: reading past the terminator is an ASan error
		char* p = (char*)malloc(it.s.size() + 1);
		memcpy(p, it.s.c_str(), it.s.size() + 1);
		const char* cp = p;
		s << cp;
		bool same = memcmp(p, it.s.c_str(), it.s.size() + 1) == 0;
		free(p);
		VF_CHECK(same, sink, ": operator<< changed its argument: ", describe(it));
	}
	else if (it.t == 1) {
		String str(it.s.data(), (int)it.s.size());
		s << str;
		VF_CHECK((size_t)str.length() == it.s.size() && memcmp(*str, it.s.c_str(), it.s.size() + 1) == 0, sink, ": operator<< changed its argument: ", describe(it));
	}
	else {
		ByteArray b((int)it.s.size());
		if (!it.s.empty())
			memcpy(b.data(), it.s.data(), it.s.size());
		s << b;
		VF_CHECK((size_t)b.length() == it.s.size() && (it.s.empty() || memcmp(b.data(), it.s.data(), it.s.size()) == 0), sink, ": operator<< changed its argument: ", describe(it));
	}
}

// reading: adapters give the three readers one face
struct BufIn {
	StreamBufferReader r;
	BufIn(const byte* p, int n, Endian e) : r(p, n, e) {}
	void setEndian(Endian e) { r.setEndian(e); }
	template <class T>
	T get()
	{
		T x;
		r >> x;
		return x;
	}
	template <class T>
	T get2()
	{
		return r.read<T>();
	}
	std::string bytes(int n)
	{
		ByteArray a = r.read(n);
		return std::string((const char*)a.data(), (size_t)a.length());
	}
	// (StreamBufferReader has no string extraction: length, then the bytes)
	std::string lstring(size_t)
	{
		int n = get<int>();
		return n >= 0 && n <= r.length() ? bytes(n) : std::string("<bad length ") + std::to_string(n) + ">";
	}
	void skipn(int n) { r.skip(n); }
	void feed(const std::string&) {}
};

static File file_by_value(File g) { return g; }

struct FileIn {
	File f;
	FileIn(const std::string& path) : f(String(path.c_str()), File::READ) {}
	FileIn(const File& configured, int) : f(configured) { f.open(File::READ); } // a copy of a configured, not yet opened File
	void setEndian(Endian e) { f.setEndian(e); }
	template <class T>
	T get()
	{
		T x;
		f >> x;
		return x;
	}
	template <class T>
	T get2()
	{
		return f.read<T>();
	}
	std::string bytes(int n)
	{
		std::string s((size_t)n, '\0');
		int m = n ? f.read(&s[0], n) : 0;
		s.resize((size_t)(m < 0 ? 0 : m));
		return s;
	}
	std::string lstring(size_t)
	{
		String x = "previous content";
		f >> x;
		return std::string(*x, (size_t)x.length());
	}
	void skipn(int n) { f.seek(n, File::HERE); }
	void feed(const std::string&) {}
};

struct SockIn {
	Socket s;
	int peer;
	bool prefed = false; // a feeder thread delivers the bytes (fragmented mode)
	SockIn(int fd, int peerfd) : s(fd), peer(peerfd) {}
	SockIn(const Socket& sock, int peerfd) : s(sock), peer(peerfd) {} // a second handle on the caller's Socket
	void setEndian(Endian e) { s.setEndian(e); }
	template <class T>
	T get()
	{
		T x;
		s >> x;
		return x;
	}
	template <class T>
	T get2()
	{
		return s.read<T>();
	}
	std::string bytes(int n)
	{
		if (n == 0)
			return "";
		ByteArray a = s.read(n);
		return std::string((const char*)a.data(), (size_t)a.length());
	}
	std::string lstring(size_t expected)
	{
		if (expected == 0) {
			// Socket >> String of length 0 ends in a zero-byte read(), which the unchanged library records as a receive
			// error; the empty string is therefore read as its length only
			int n = get<int>();
			return n == 0 ? std::string() : std::string("<length ") + std::to_string(n) + ">";
		}
		String x = "previous content";
		s >> x;
		return std::string(*x, (size_t)x.length());
	}
	void skipn(int n) { s.skip(n); }
	// the peer sends the reference bytes of the next item just before it is read
	void feed(const std::string& b)
	{
		size_t off = 0;
		while (!prefed && off < b.size()) {
			ssize_t n = ::send(peer, b.data() + off, b.size() - off, MSG_NOSIGNAL);
			VF_CHECK(n > 0, "harness: send to the socketpair peer failed, errno ", errno);
			off += (size_t)n;
		}
	}
};

template <class R>
static void read_back(R& r, const Plan& p, const char* sink, size_t from = 0, size_t to = (size_t)-1)
{
	int count = 0;
	for (size_t idx = from; idx < p.items.size() && idx < to; idx++) {
		const Item& it = p.items[idx];
		r.feed(it.bytes);
		if (it.kind == 0)
			r.setEndian((Endian)it.t);
		else if (it.skip) {
			if (!it.bytes.empty()) // (Socket::skip(0) is a zero-byte read, which the unchanged library records as a receive error)
				r.skipn((int)it.bytes.size());
		}
		else if (it.kind == 1 || it.kind == 2)
			with_type(it.t, [&](auto tag) {
				typedef typename decltype(tag)::type T;
				for (size_t k = 0; k < it.x.size(); k++) {
					T x = (count++ & 1) ? r.template get2<T>() : r.template get<T>();
					uint64_t got = to_bits<T>(x);
					VF_CHECK(got == it.x[k], sink, " reader: ", describe(it), " element ", k, ": read back bits ", hx(got), " want ", hx(it.x[k]), " from bytes ",
					         vf::hexs(it.bytes.substr(k * TYPE_SIZE[it.t], TYPE_SIZE[it.t])));
				}
			});
		else if (it.kind == 5) {
			std::string got = r.lstring(it.s.size());
			VF_CHECK(got == it.s, sink, " reader: ", describe(it), ": operator>>(String&) returned ", vf::show(got), " (", got.size(), " bytes) want ", vf::show(it.s), " from bytes ", vf::hexs(it.bytes.substr(0, 24)));
		}
		else {
			std::string got = r.bytes((int)it.bytes.size());
			VF_CHECK(got == it.bytes, sink, " reader: ", describe(it), ": read back ", vf::show(got), " want ", vf::show(it.bytes));
		}
	}
}

static void compare_bytes(const Plan& p, const std::string& got, const char* sink)
{
	if (got == p.all)
		return;
	// name the first item whose byte range differs
	size_t off = 0;
	for (const Item& it : p.items) {
		size_t n = it.bytes.size();
		std::string g = off <= got.size() ? got.substr(off, n) : std::string();
		if (g != it.bytes) {
			std::string rest = off <= got.size() ? got.substr(off) : std::string();
			VF_FAIL(sink, ": ", describe(it), " wrote ", (it.kind == 2 && rest.size() < n) || &it == &p.items.back() ? rest.size() : g.size(), " bytes ",
			        vf::hexs(rest.substr(0, 64)), (rest.size() > 64 ? "..." : ""), " want ", n, " bytes ", vf::hexs(it.bytes.substr(0, 64)), (n > 64 ? "..." : ""),
			        " (stream offset ", off, ", total ", got.size(), " want ", p.all.size(), ")");
		}
		off += n;
	}
	VF_FAIL(sink, ": wrote ", got.size(), " bytes, want ", p.all.size(), " (extra bytes after the last value)");
}

static void drain(int fd, std::string& out)
{
	char buf[8192];
	for (;;) {
		ssize_t n = recv(fd, buf, sizeof buf, MSG_DONTWAIT);
		if (n > 0)
			out.append(buf, (size_t)n);
		else if (n < 0 && errno == EINTR)
			continue;
		else
			break;
	}
}

// The peer delivers the reference bytes in the generated pieces; after each piece it waits until the reader has taken
// everything delivered so far (then the reader sits in a read that needs a further recv when the cut is inside a value)
// and a generated pause longer, and sends the next piece, which usually holds more than the rest of that value.
// Timing only decides which path of the reader is taken; the oracle is values read == reference.
static void read_back_fragmented(const Plan& p)
{
	int sv[2];
	VF_CHECK(socketpair(AF_UNIX, SOCK_STREAM, 0, sv) == 0, "harness: socketpair failed, errno ", errno);
	std::atomic<bool> stop(false);
	const int rfd = sv[0], wfd = sv[1];
	std::thread feeder([&p, &stop, rfd, wfd]() {
		std::vector<size_t> ends = p.cuts;
		ends.push_back(p.all.size());
		size_t off = 0;
		for (size_t e : ends) {
			while (off < e && !stop) {
				ssize_t n = ::send(wfd, p.all.data() + off, e - off, MSG_NOSIGNAL);
				if (n <= 0) {
					if (n < 0 && errno == EINTR)
						continue;
					stop = true;
					break;
				}
				off += (size_t)n;
			}
			if (e == p.all.size() || stop)
				break;
			for (int spin = 0; spin < 40000 && !stop; spin++) {
				int q = 0;
				if (ioctl(rfd, FIONREAD, &q) != 0 || q == 0)
					break;
				usleep(50);
			}
			if (p.pause_us)
				usleep((useconds_t)p.pause_us);
		}
		shutdown(wfd, SHUT_WR); // a reader that wants more than was sent gets end-of-stream instead of blocking for ever
	});
	try {
		SockIn in(sv[0], -1);
		in.prefed = true;
		in.setEndian((Endian)p.init);
		read_back(in, p, "Socket (delivery in pieces)");
		VF_CHECK(in.s.error() == 0, "Socket reader (delivery in pieces): error state ", in.s.error(), " after reading everything back");
		VF_CHECK(in.s.available() == 0, "Socket reader (delivery in pieces): ", in.s.available(), " bytes left after reading everything back");
	}
	catch (...) {
		stop = true; // the reader's socket is closed by now: the feeder's send / ioctl fail and it ends
		feeder.join();
		close(wfd);
		throw;
	}
	feeder.join();
	close(wfd);
}

// ---- the same client Socket over several TCP loopback connections (part "reconn")

static int listener(int* port)
{
	static int fd = -1, prt = 0;
	if (fd < 0) {
		fd = socket(AF_INET, SOCK_STREAM, 0);
		sockaddr_in a;
		memset(&a, 0, sizeof a);
		a.sin_family = AF_INET;
		a.sin_addr.s_addr = htonl(INADDR_LOOPBACK);
		a.sin_port = 0; // any free port, read back below
		socklen_t n = sizeof a;
		VF_CHECK(fd >= 0 && bind(fd, (sockaddr*)&a, sizeof a) == 0 && listen(fd, 16) == 0 && getsockname(fd, (sockaddr*)&a, &n) == 0, "harness: cannot set up the loopback listener, errno ", errno);
		prt = ntohs(a.sin_port);
	}
	*port = prt;
	return fd;
}

// exactly n bytes from the peer descriptor (5 s per wait: ~10^5 times the expected delay); fewer only at end of stream / timeout
static std::string recv_n(int fd, size_t n, bool until_eof = false)
{
	std::string out;
	char buf[4096];
	while (until_eof || out.size() < n) {
		pollfd pf = {fd, POLLIN, 0};
		if (poll(&pf, 1, 5000) <= 0)
			break;
		ssize_t k = recv(fd, buf, until_eof ? sizeof buf : std::min(sizeof buf, n - out.size()), 0);
		if (k < 0 && errno == EINTR)
			continue;
		if (k <= 0)
			break;
		out.append(buf, (size_t)k);
	}
	return out;
}

static void run_reconnect(const Plan& p, Sources& src)
{
	int port = 0, lfd = listener(&port);
	Socket client;
	client.setEndian((Endian)p.init); // set once, before the first connect; afterwards only the "order" items change it
	int peer = -1;
	try {
		for (size_t si = 0; si < p.sessStart.size(); si++) {
			size_t from = p.sessStart[si], to = si + 1 < p.sessStart.size() ? p.sessStart[si + 1] : p.items.size();
			std::string sess = "session " + std::to_string(si + 1) + " of the same Socket object";
			VF_CHECK(client.connect(InetAddress("127.0.0.1", port)), "harness: ", sess, ": connect to the loopback listener failed");
			pollfd pf = {lfd, POLLIN, 0};
			VF_CHECK(poll(&pf, 1, 5000) > 0 && (peer = accept(lfd, 0, 0)) >= 0, "harness: ", sess, ": accept failed, errno ", errno);
			std::string want;
			for (size_t i = from; i < to; i++)
				want += p.items[i].bytes;
			if (p.sessDir[si] == 0) {
				for (size_t i = from; i < to; i++) {
					const Item& it = p.items[i];
					write_item(client, it, src, "Socket");
					std::string got = recv_n(peer, it.bytes.size());
					VF_CHECK(got == it.bytes, "Socket, ", sess, " (byte order set before the first connect / by earlier items only): ", describe(it), " sent ", got.size(), " bytes ", vf::hexs(got.substr(0, 64)),
					         " want ", it.bytes.size(), " bytes ", vf::hexs(it.bytes.substr(0, 64)));
				}
				VF_CHECK(client.error() == 0, "Socket, ", sess, ": error state ", client.error(), " after writing");
			}
			else {
				size_t off = 0;
				while (off < want.size()) {
					ssize_t n = ::send(peer, want.data() + off, want.size() - off, MSG_NOSIGNAL);
					VF_CHECK(n > 0, "harness: send to the client failed, errno ", errno);
					off += (size_t)n;
				}
				SockIn in(client, -1);
				in.prefed = true;
				std::string name = "Socket, " + sess + " (byte order set before the first connect / by earlier items only),";
				read_back(in, p, name.c_str(), from, to);
				VF_CHECK(client.error() == 0, "Socket, ", sess, ": error state ", client.error(), " after reading");
			}
			client.close();
			std::string extra = recv_n(peer, 0, true);
			VF_CHECK(extra.empty(), "Socket, ", sess, ": ", extra.size(), " unexpected extra bytes ", vf::hexs(extra.substr(0, 32)));
			close(peer);
			peer = -1;
		}
	}
	catch (...) {
		if (peer >= 0)
			close(peer);
		throw;
	}
}

// ---- an accepted asl Socket (part "accept"): its byte order is its own, not the listener's

static void run_accept(const Plan& p, Sources& src)
{
	Socket lst;
	if (p.lorder >= 0 && p.lorder < 3)
		lst.setEndian((Endian)p.lorder);
	VF_CHECK(lst.bind("127.0.0.1", 0), "harness: the asl listener cannot bind 127.0.0.1:0");
	lst.listen(4);
	int port = lst.localAddress().port();
	VF_CHECK(port > 0, "harness: cannot read the listener's port back");
	int peer = socket(AF_INET, SOCK_STREAM, 0);
	try {
		sockaddr_in a;
		memset(&a, 0, sizeof a);
		a.sin_family = AF_INET;
		a.sin_addr.s_addr = htonl(INADDR_LOOPBACK);
		a.sin_port = htons((uint16_t)port);
		VF_CHECK(peer >= 0 && connect(peer, (sockaddr*)&a, sizeof a) == 0, "harness: connect to the asl listener failed, errno ", errno);
		pollfd pf = {lst.handle(), POLLIN, 0};
		VF_CHECK(poll(&pf, 1, 5000) > 0, "harness: no connection arrived at the asl listener");
		Socket acc = lst.accept();
		VF_CHECK(acc.handle() >= 0, "harness: accept() returned an invalid Socket");
		if (p.accmode == 1)
			acc.setEndian((Endian)p.init);
		std::string who = std::string("accepted Socket (listener ") + (p.lorder >= 0 && p.lorder < 3 ? std::string("set to ") + ORDER_NAME[p.lorder] : std::string("left alone")) +
		                  (p.accmode ? ", accepted Socket set to " + std::string(ORDER_NAME[p.init]) + ")" : ", accepted Socket left at its default order)");
		if (p.sessDir[0] == 0) {
			for (const Item& it : p.items) {
				write_item(acc, it, src, "Socket");
				std::string got = recv_n(peer, it.bytes.size());
				VF_CHECK(got == it.bytes, who, ": ", describe(it), " sent ", got.size(), " bytes ", vf::hexs(got.substr(0, 64)), " want ", it.bytes.size(), " bytes ", vf::hexs(it.bytes.substr(0, 64)));
			}
			VF_CHECK(acc.error() == 0, who, ": error state ", acc.error(), " after writing");
		}
		else {
			size_t off = 0;
			while (off < p.all.size()) {
				ssize_t n = ::send(peer, p.all.data() + off, p.all.size() - off, MSG_NOSIGNAL);
				VF_CHECK(n > 0, "harness: send to the accepted socket failed, errno ", errno);
				off += (size_t)n;
			}
			SockIn in(acc, -1);
			in.prefed = true;
			read_back(in, p, who.c_str());
			VF_CHECK(acc.error() == 0, who, ": error state ", acc.error(), " after reading");
		}
		acc.close();
		std::string extra = recv_n(peer, 0, true);
		VF_CHECK(extra.empty(), who, ": ", extra.size(), " unexpected extra bytes ", vf::hexs(extra.substr(0, 32)));
	}
	catch (...) {
		if (peer >= 0)
			close(peer);
		throw;
	}
	close(peer);
}

// ---- one big operator<< on a TCP socket that can only send it in many short pieces (part "bigwrite")
//
// Small socket buffers, a send timeout of 20 ms set through Socket::setOption and a reader that takes ~4 KB per millisecond:
// every send() inside the one Socket::write() returns after 20 ms with a part of the data. If a send() makes no progress at
// all within its 20 ms (a stalled reader on a loaded machine) the library stops with its error flag set - that is its defined
// behaviour, and such a run is counted as inconclusive instead of judged.
static void run_bigwrite(const Plan& p, Sources& src)
{
	int lfd = socket(AF_INET, SOCK_STREAM, 0), peer = -1;
	std::thread reader;
	std::string got;
	try {
		sockaddr_in a;
		memset(&a, 0, sizeof a);
		a.sin_family = AF_INET;
		a.sin_addr.s_addr = htonl(INADDR_LOOPBACK);
		socklen_t n = sizeof a;
		int small = 16384;
		VF_CHECK(lfd >= 0 && setsockopt(lfd, SOL_SOCKET, SO_RCVBUF, &small, sizeof small) == 0 && bind(lfd, (sockaddr*)&a, sizeof a) == 0 && listen(lfd, 4) == 0 && getsockname(lfd, (sockaddr*)&a, &n) == 0,
		         "harness: cannot set up the loopback listener, errno ", errno);
		Socket client;
		client.setEndian((Endian)p.init);
		VF_CHECK(client.setOption(SOL_SOCKET, SO_SNDBUF, small), "harness: setOption(SO_SNDBUF) failed");
		timeval tv = {0, 20000};
		VF_CHECK(client.setOption(SOL_SOCKET, SO_SNDTIMEO, tv), "harness: setOption(SO_SNDTIMEO) failed");
		VF_CHECK(client.connect(InetAddress("127.0.0.1", ntohs(a.sin_port))), "harness: connect to the loopback listener failed");
		pollfd pf = {lfd, POLLIN, 0};
		VF_CHECK(poll(&pf, 1, 5000) > 0 && (peer = accept(lfd, 0, 0)) >= 0, "harness: accept failed, errno ", errno);
		const int rfd = peer;
		reader = std::thread([rfd, &got]() {
			char buf[4096];
			for (;;) {
				pollfd q = {rfd, POLLIN, 0};
				if (poll(&q, 1, 10000) <= 0)
					break;
				ssize_t k = recv(rfd, buf, sizeof buf, 0);
				if (k < 0 && errno == EINTR)
					continue;
				if (k <= 0)
					break;
				got.append(buf, (size_t)k);
				if (got.size() % 4096 == 0)
					usleep(900);
			}
		});
		bool failed = false;
		size_t sent_items = 0;
		for (const Item& it : p.items) {
			write_item(client, it, src, "Socket");
			if (client.error() != 0) {
				failed = true; // a send() timed out without any progress: the write was abandoned by the library (defined, not judged)
				break;
			}
			sent_items++;
		}
		client.close();
		reader.join();
		close(peer);
		peer = -1;
		close(lfd);
		lfd = -1;
		if (failed) {
			vf::stats().cls("bigwrite.inconclusive(send made no progress within its timeout)");
			return;
		}
		vf::stats().cls("bigwrite.judged");
		compare_bytes(p, got, "Socket (one big << sent in many short pieces)");
	}
	catch (...) {
		if (peer >= 0)
			shutdown(peer, SHUT_RDWR);
		if (reader.joinable())
			reader.join();
		if (peer >= 0)
			close(peer);
		if (lfd >= 0)
			close(lfd);
		throw;
	}
}

// two independent File objects written from two threads at once (after seeded C16-P: a swap buffer shared by all File objects): each
// file must hold exactly the bytes of its own arrays in its own order
static void run_duel(const Plan& p, int caseno)
{
	std::string pa = ref::tmpdir() + "/c16duel_a.bin", pb = ref::tmpdir() + "/c16duel_b.bin";
	Array<short> s1, s2;
	Array<int> i1, i2;
	Array<Long> l1, l2;
	Array<double> d1, d2;
	int n1 = 3 + caseno % 5, n2 = 100;
	for (int k = 0; k < n1; k++) {
		s1 << (short)(k * 257 + caseno);
		i1 << (int)(k * 0x01020304 + caseno);
		l1 << (Long)((Long)k * 0x0102030405060708LL + caseno);
		d1 << (k * 1.5 + caseno);
	}
	for (int k = 0; k < n2; k++) {
		s2 << (short)(-k * 3 - 1);
		i2 << (int)(~k * 0x10203);
		l2 << (Long)(-(Long)k * 0x1112131415161718LL - 7);
		d2 << (-k * 0.25);
	}
	int o1 = p.init, o2 = (caseno & 8) ? 1 : 0;
	const int R = 200;
	std::atomic<int> started{0};
	std::thread other([&]() {
		File f(String(pb.c_str()), File::WRITE);
		f.setEndian((Endian)o2);
		started = 1;
		for (int r = 0; r < R; r++)
			f << s2 << i2 << l2 << d2;
	});
	while (!started)
		std::this_thread::yield();
	{
		File f(String(pa.c_str()), File::WRITE);
		f.setEndian((Endian)o1);
		for (int r = 0; r < R; r++)
			f << s1 << i1 << l1 << d1;
	}
	other.join();
	std::string ea, eb, one;
	for (int k = 0; k < n1; k++) ref_put(one, to_bits<short>(s1[k]), 2, o1);
	for (int k = 0; k < n1; k++) ref_put(one, to_bits<int>(i1[k]), 4, o1);
	for (int k = 0; k < n1; k++) ref_put(one, to_bits<Long>(l1[k]), 8, o1);
	for (int k = 0; k < n1; k++) ref_put(one, to_bits<double>(d1[k]), 8, o1);
	for (int r = 0; r < R; r++) ea += one;
	one.clear();
	for (int k = 0; k < n2; k++) ref_put(one, to_bits<short>(s2[k]), 2, o2);
	for (int k = 0; k < n2; k++) ref_put(one, to_bits<int>(i2[k]), 4, o2);
	for (int k = 0; k < n2; k++) ref_put(one, to_bits<Long>(l2[k]), 8, o2);
	for (int k = 0; k < n2; k++) ref_put(one, to_bits<double>(d2[k]), 8, o2);
	for (int r = 0; r < R; r++) eb += one;
	std::string ga, gb;
	bool ra = ref::slurp(pa, ga), rb = ref::slurp(pb, gb);
	unlink(pa.c_str());
	unlink(pb.c_str());
	VF_CHECK(ra && rb, "harness: cannot read the two files of the concurrent-writers part");
	size_t da = 0, db = 0;
	while (da < ga.size() && da < ea.size() && ga[da] == ea[da]) da++;
	while (db < gb.size() && db < eb.size() && gb[db] == eb[db]) db++;
	VF_CHECK(ga == ea, "File (", ORDER_NAME[o1], ") written while another thread writes arrays to another File: ", ga.size(), " bytes, want ", ea.size(), ", first difference at offset ", da);
	VF_CHECK(gb == eb, "File (", ORDER_NAME[o2], ") written by a second thread while the first writes arrays to another File: ", gb.size(), " bytes, want ", eb.size(), ", first difference at offset ", db);
	vf::stats().cls("file.two_threads_two_files");
}

static int g_caseno = 0;

void vf_run_case(const std::string& part, const vf::Case& c)
{
	Plan p = decode(c);
	Sources src(p);
	if (part == "reconn") {
		run_reconnect(p, src);
		return;
	}
	if (part == "bigwrite") {
		run_bigwrite(p, src);
		return;
	}
	if (part == "accept") {
		if (p.lorder < 0)
			p.lorder = 3;
		run_accept(p, src);
		return;
	}
	bool doBuf = part != "file" && part != "socket" && part != "frag", doFile = part != "buffer" && part != "socket" && part != "frag", doSock = part != "buffer" && part != "file";

	// ---- StreamBuffer / StreamBufferReader
	if (doBuf) {
		StreamBuffer b((Endian)p.init);
		size_t off = 0;
		for (const Item& it : p.items) {
			write_item(b, it, src, "StreamBuffer");
			size_t n = it.bytes.size();
			VF_CHECK((size_t)b.length() == off + n && (n == 0 || memcmp(b.data() + off, it.bytes.data(), n) == 0), "StreamBuffer: ", describe(it), " appended ", (long)b.length() - (long)off,
			         " bytes ", vf::hexs(std::string((const char*)b.data() + off, (size_t)(b.length() > (int)off ? std::min<size_t>(b.length() - off, 64) : 0))), " want ", n, " bytes ",
			         vf::hexs(it.bytes.substr(0, 64)));
			off += n;
		}
		ByteArray& content = *b;
		compare_bytes(p, std::string((const char*)content.data(), (size_t)content.length()), "StreamBuffer");
		// reader over an exact-size heap copy of the reference bytes
		byte* blk = (byte*)malloc(p.all.size() ? p.all.size() : 1);
		memcpy(blk, p.all.data(), p.all.size());
		try {
			BufIn in(blk, (int)p.all.size(), (Endian)p.init);
			read_back(in, p, "StreamBufferReader");
			VF_CHECK(in.r.length() == 0 && !in.r, "StreamBufferReader: ", in.r.length(), " bytes left after reading everything back");
		}
		catch (...) {
			free(blk);
			throw;
		}
		free(blk);
		// and from a ByteArray
		if (!p.all.empty()) {
			ByteArray ba((int)p.all.size());
			memcpy(ba.data(), p.all.data(), p.all.size());
			BufIn in2(ba.data(), ba.length(), (Endian)p.init);
			StreamBufferReader r2(ba, (Endian)p.init);
			in2.r = r2;
			read_back(in2, p, "StreamBufferReader(ByteArray)");
		}
	}

	// ---- File
	if (doFile) {
		std::string path = ref::tmpdir() + "/c16w_" + std::to_string(g_caseno % 4) + ".bin";
		std::string path2 = ref::tmpdir() + "/c16r_" + std::to_string(g_caseno % 4) + ".bin";
		g_caseno++;
		if (g_caseno % 16 == 1)
			run_duel(p, g_caseno);
		if (p.fcopy == 0) {
			File f(String(path.c_str()), File::WRITE);
			VF_CHECK(!!f, "harness: cannot create ", path);
			f.setEndian((Endian)p.init);
			for (const Item& it : p.items)
				write_item(f, it, src, "File");
			// closed by the destructor
		}
		else {
			// the order is configured on one object, a copy of it does the writing
			File proto(String(path.c_str()));
			proto.setEndian((Endian)p.init);
			Array<File> arr;
			File direct(proto), viafn = file_by_value(proto);
			arr << proto;
			File& f = p.fcopy == 1 ? direct : p.fcopy == 2 ? viafn : arr[0];
			VF_CHECK(f.open(File::WRITE), "harness: cannot create ", path);
			for (const Item& it : p.items)
				write_item(f, it, src, p.fcopy == 1 ? "File (copy-constructed from the configured object)" : p.fcopy == 2 ? "File (passed and returned by value)" : "File (element of an Array<File>)");
			f.close();
		}
		std::string got;
		VF_CHECK(ref::slurp(path, got), "harness: cannot read ", path);
		unlink(path.c_str());
		compare_bytes(p, got, "File");
		VF_CHECK(ref::spit(path2, p.all), "harness: cannot write ", path2);
		try {
			File proto(String(path2.c_str()));
			proto.setEndian((Endian)p.init);
			Array<File> arr;
			arr << proto;
			std::unique_ptr<FileIn> inp(p.fcopy == 0 ? new FileIn(path2) : p.fcopy == 1 ? new FileIn(proto, 0) : p.fcopy == 2 ? new FileIn(file_by_value(proto), 0) : new FileIn(arr[0], 0));
			FileIn& in = *inp;
			VF_CHECK(!!in.f, "harness: cannot open ", path2);
			if (p.fcopy == 0)
				in.setEndian((Endian)p.init);
			read_back(in, p, p.fcopy == 0 ? "File" : p.fcopy == 1 ? "File (copy-constructed from the configured object)" : p.fcopy == 2 ? "File (passed and returned by value)" : "File (element of an Array<File>)");
			char extra;
			VF_CHECK(in.f.read(&extra, 1) == 0, "File reader: bytes left after reading everything back");
		}
		catch (...) {
			unlink(path2.c_str());
			throw;
		}
		unlink(path2.c_str());
	}

	// ---- Socket over a socketpair
	if (doSock) {
		int sv[2];
		VF_CHECK(socketpair(AF_UNIX, SOCK_STREAM, 0, sv) == 0, "harness: socketpair failed, errno ", errno);
		try {
			std::string got;
			{
				Socket s(sv[0]);
				s.setEndian((Endian)p.init);
				size_t off = 0;
				for (const Item& it : p.items) {
					write_item(s, it, src, "Socket");
					drain(sv[1], got);
					size_t n = it.bytes.size();
					VF_CHECK(got.size() == off + n && got.compare(off, n, it.bytes) == 0, "Socket: ", describe(it), " sent ", (long)got.size() - (long)off, " bytes ",
					         vf::hexs(got.size() > off ? got.substr(off, 64) : std::string()), " want ", n, " bytes ", vf::hexs(it.bytes.substr(0, 64)));
					off += n;
				}
				VF_CHECK(s.error() == 0, "Socket: error state ", s.error(), " after writing");
				s.close();
				sv[0] = -1;
			}
			compare_bytes(p, got, "Socket");
			close(sv[1]);
			sv[1] = -1;
			VF_CHECK(socketpair(AF_UNIX, SOCK_STREAM, 0, sv) == 0, "harness: socketpair failed, errno ", errno);
			{
				SockIn in(sv[0], sv[1]);
				sv[0] = -1; // owned by the asl Socket now
				in.setEndian((Endian)p.init);
				read_back(in, p, "Socket");
				VF_CHECK(in.s.error() == 0, "Socket reader: error state ", in.s.error(), " after reading everything back");
				VF_CHECK(in.s.available() == 0, "Socket reader: ", in.s.available(), " bytes left after reading everything back");
			}
		}
		catch (...) {
			if (sv[0] >= 0)
				close(sv[0]);
			if (sv[1] >= 0)
				close(sv[1]);
			throw;
		}
		if (sv[1] >= 0)
			close(sv[1]);
		if (p.frag && !p.cuts.empty())
			read_back_fragmented(p);
	}
}

// ---------------------------------------------------------------------------------------------
// generators

using namespace rc;

static Gen<long long> pattern(int t)
{
	return gen::exec([t]() -> long long {
		int w = *vf::irange<int>(0, 9);
		uint64_t hi = (uint64_t)*vf::irange<long long>(0, 0xffffffffLL), lo = (uint64_t)*vf::irange<long long>(0, 0xffffffffLL);
		uint64_t r = (hi << 32) | lo;
		if (w < 4)
			return (long long)r;
		if (w < 6)
			return (long long)*gen::elementOf(std::vector<uint64_t>{0, 1, 0xff, 0x7f, 0x80, 0x7fff, 0x8000, 0xffff, 0x00ff, 0xff00, 0x7fffffffULL, 0x80000000ULL, 0xffffffffULL, 0x000000ffULL,
			                                                       0xff000000ULL, 0x7fffffffffffffffULL, 0x8000000000000000ULL, 0xffffffffffffffffULL, 0x00000000ffffffffULL,
			                                                       0xffffffff00000000ULL, 0x0102030405060708ULL, 0x00000000000000ffULL, 0xff00000000000000ULL, 0x0100, 0x01000000ULL});
		if (w < 9 && (t == 10 || t == 11)) {
			// NaN payloads (quiet and signalling), infinities, denormals, -0
			int k = *vf::irange<int>(0, 5);
			if (t == 10) {
				uint32_t sign = (uint32_t)(r >> 63) << 31, man = (uint32_t)(r & 0x7fffff);
				if (k < 3)
					return (long long)(uint64_t)(sign | 0x7f800000u | (man ? man : 1));
				if (k == 3)
					return (long long)(uint64_t)(sign | 0x7f800000u);
				if (k == 4)
					return (long long)(uint64_t)(sign | (man ? man : 1));
				return (long long)(uint64_t)sign;
			}
			uint64_t sign = r & 0x8000000000000000ULL, man = r & 0xfffffffffffffULL;
			if (k < 3)
				return (long long)(sign | 0x7ff0000000000000ULL | (man ? man : 1));
			if (k == 3)
				return (long long)(sign | 0x7ff0000000000000ULL);
			if (k == 4)
				return (long long)(sign | (man ? man : 1));
			return (long long)sign;
		}
		// small magnitudes and their negatives: sign extension and leading zero bytes
		long long small = *vf::irange<long long>(-300, 300);
		return small;
	});
}

static Gen<vf::Op> opgen()
{
	return gen::exec([]() {
		vf::Op o;
		int w = *vf::irange<int>(0, 99);
		if (w < 14) {
			o.name = "order";
			o.a = {*vf::irange<int>(0, 2)};
		}
		else if (w < 21) {
			o.name = "ra";
			o.a = {*vf::irange<int>(0, 63)};
		}
		else if (w < 27 && w >= 25) {
			// a block of 1023..5000 bytes for the reader to skip or read (a String / ByteArray goes out in one write() in every byte order;
			// an element-wise written array of that many elements would fill the socketpair before the harness drains it)
			o.name = "s";
			int k = *vf::irange<int>(1, 2);
			int n = *gen::elementOf(std::vector<int>{1023, 1024, 1025, 1500, 2048, 4095, 4096, 4097, 5000});
			ref::Mix g((uint64_t)*vf::irange<long long>(0, 1000000000LL));
			std::string str((size_t)n, '\0');
			for (auto& ch : str)
				ch = (char)g.below(256);
			o.a = {k};
			o.s = {str};
		}
		else if (w < 30 && w >= 27) {
			o.name = "sk";
		}
		else if (w < 25) {
			o.name = "ls";
			int n = *gen::oneOf(vf::irange<int>(0, 20), gen::elementOf(std::vector<int>{0, 1, 5, 127, 128, 129, 255, 256, 300}));
			std::string str;
			for (int i = 0; i < n; i++)
				str += (char)*vf::irange<int>(1, 255);
			o.s = {str};
		}
		else if (w < 60) {
			o.name = "v";
			int t = *vf::irange<int>(0, 11);
			o.a = {t, *pattern(t)};
		}
		else if (w < 88) {
			o.name = "a";
			int t = *gen::elementOf(std::vector<int>{0, 1, 2, 3, 4, 5, 6, 7, 8, 9, 10, 11, 4, 5, 6, 7, 8, 9, 10, 11});
			int n = *gen::oneOf(gen::elementOf(std::vector<int>{0, 1, 2, 3, 4, 5, 7, 8, 9, 15, 16, 17, 99, 100}), vf::irange<int>(0, 100), vf::irange<int>(0, 12));
			o.a.push_back(t);
			for (int i = 0; i < n; i++)
				o.a.push_back(*pattern(t));
		}
		else {
			o.name = "s";
			int k = *vf::irange<int>(0, 2);
			int n = *gen::oneOf(vf::irange<int>(0, 20), vf::irange<int>(0, 300));
			std::string s;
			for (int i = 0; i < n; i++)
				s += (char)*vf::irange<int>(k == 0 ? 1 : 0, 255); // C strings are NUL-free; String and ByteArray hold any byte
			o.a = {k};
			o.s = {s};
		}
		return o;
	});
}

// cuts: (item, byte inside the item) pairs; mostly inside a value, sometimes on a boundary
static Gen<vf::Op> fraggen()
{
	return gen::exec([]() {
		vf::Op o("frag");
		o.a.push_back(*gen::elementOf(std::vector<int>{0, 0, 50, 200, 500}));
		int n = *gen::elementOf(std::vector<int>{1, 1, 2, 2, 3, 5});
		for (int i = 0; i < n; i++) {
			o.a.push_back(*vf::irange<int>(0, 63));
			int w = *vf::irange<int>(0, 9);
			o.a.push_back(w < 5 ? *vf::irange<int>(1, 7) : w < 7 ? 0 : *vf::irange<int>(0, 800));
		}
		return o;
	});
}

static Gen<vf::Case> casegen()
{
	return gen::exec([]() {
		vf::Case c;
		int init = *vf::irange<int>(0, 3);
		if (init < 3)
			c.ops.push_back(vf::Op("init", {init}));
		for (auto& o : *gen::container<std::vector<vf::Op>>(opgen()))
			c.ops.push_back(o);
		if (*vf::irange<int>(0, 7) == 0)
			c.ops.push_back(*fraggen());
		if (*vf::irange<int>(0, 3) == 0)
			c.ops.push_back(vf::Op("fcopy", {*vf::irange<int>(1, 3)}));
		return c;
	});
}

// one big array (1..4 MB) in a non-swapping order (a single write() of the whole block), followed by an order switch and a few values
static Gen<vf::Case> bigwritegen()
{
	return gen::exec([]() {
		vf::Case c;
		c.ops.push_back(vf::Op("init", {*gen::elementOf(std::vector<int>{1, 2})}));
		if (*vf::irange<int>(0, 2) == 0)
			c.ops.push_back(vf::Op("v", {6, *pattern(6)}));
		int t = *gen::elementOf(std::vector<int>{7, 7, 6, 11, 8, 3, 5});
		long long bytes = *gen::elementOf(std::vector<long long>{1 << 20, 3 << 19, 1 << 21, (1 << 20) + 12345 * 8});
		c.ops.push_back(vf::Op("big", {t, bytes / TYPE_SIZE[t], *vf::irange<long long>(0, 1000000000LL)}));
		c.ops.push_back(vf::Op("order", {0}));
		int n = *vf::irange<int>(1, 4);
		for (int i = 0; i < n; i++) {
			int t2 = *vf::irange<int>(3, 11);
			c.ops.push_back(vf::Op("v", {t2, *pattern(t2)}));
		}
		return c;
	});
}

// an accepted asl Socket: listener configured (mostly with the swapping order) or not, accepted Socket mostly left alone
static Gen<vf::Case> acceptgen()
{
	return gen::exec([]() {
		vf::Case c;
		c.ops.push_back(vf::Op("init", {*vf::irange<int>(0, 2), *vf::irange<int>(0, 1)}));
		c.ops.push_back(vf::Op("listen", {*gen::elementOf(std::vector<int>{0, 0, 0, 1, 2, 3}), *gen::elementOf(std::vector<int>{0, 0, 0, 1})}));
		int n = *vf::irange<int>(1, 6);
		for (int i = 0; i < n; i++) {
			int w = *vf::irange<int>(0, 19);
			int t = *gen::elementOf(std::vector<int>{4, 5, 6, 7, 8, 9, 10, 11, 6, 8, 11, 3, 0});
			if (w < 12)
				c.ops.push_back(vf::Op("v", {t, *pattern(t)}));
			else if (w < 17) {
				vf::Op o("a", {t});
				int len = *vf::irange<int>(0, 8);
				for (int k = 0; k < len; k++)
					o.a.push_back(*pattern(t));
				c.ops.push_back(o);
			}
			else if (w < 18)
				c.ops.push_back(vf::Op("order", {*vf::irange<int>(0, 2)}));
			else {
				vf::Op o("ls");
				o.s = {std::string((size_t)*vf::irange<int>(1, 12), (char)('a' + i))};
				c.ops.push_back(o);
			}
		}
		return c;
	});
}

// the same client Socket over 2..3 connections: byte order given once (mostly BIG, the swapping one), few order items
static Gen<vf::Case> reconngen()
{
	return gen::exec([]() {
		vf::Case c;
		c.ops.push_back(vf::Op("init", {*gen::elementOf(std::vector<int>{0, 0, 0, 1, 2}), *vf::irange<int>(0, 1)}));
		int sessions = *vf::irange<int>(2, 3);
		for (int s = 0; s < sessions; s++) {
			if (s > 0)
				c.ops.push_back(vf::Op("reconnect", {*vf::irange<int>(0, 1)}));
			int n = *vf::irange<int>(1, 5);
			for (int i = 0; i < n; i++) {
				int w = *vf::irange<int>(0, 19);
				int t = *gen::elementOf(std::vector<int>{4, 5, 6, 7, 8, 9, 10, 11, 6, 8, 11, 3, 0});
				if (w < 11)
					c.ops.push_back(vf::Op("v", {t, *pattern(t)}));
				else if (w < 16) {
					vf::Op o("a", {t});
					int len = *vf::irange<int>(0, 8);
					for (int k = 0; k < len; k++)
						o.a.push_back(*pattern(t));
					c.ops.push_back(o);
				}
				else if (w < 17)
					c.ops.push_back(vf::Op("order", {*vf::irange<int>(0, 2)}));
				else if (w < 18)
					c.ops.push_back(vf::Op("ra", {*vf::irange<int>(0, 7)}));
				else {
					vf::Op o("ls");
					o.s = {std::string((size_t)*vf::irange<int>(1, 12), (char)('a' + i))};
					c.ops.push_back(o);
				}
			}
		}
		return c;
	});
}

// short sequences of multi-byte values and small arrays for the Socket reader with delivery in pieces
static Gen<vf::Case> fragcasegen()
{
	return gen::exec([]() {
		vf::Case c;
		c.ops.push_back(vf::Op("init", {*vf::irange<int>(0, 2)}));
		int n = *vf::irange<int>(2, 9);
		for (int i = 0; i < n; i++) {
			int w = *vf::irange<int>(0, 9);
			int t = *gen::elementOf(std::vector<int>{4, 5, 6, 7, 8, 9, 10, 11, 6, 8, 11, 3});
			if (w < 6)
				c.ops.push_back(vf::Op("v", {t, *pattern(t)}));
			else if (w < 9) {
				vf::Op o("a", {t});
				int len = *vf::irange<int>(1, 12);
				for (int k = 0; k < len; k++)
					o.a.push_back(*pattern(t));
				c.ops.push_back(o);
			}
			else
				c.ops.push_back(vf::Op("order", {*vf::irange<int>(0, 2)}));
		}
		vf::Op f = *fraggen();
		for (size_t k = 1; k + 1 < f.a.size(); k += 2)
			f.a[k] %= n;
		c.ops.push_back(f);
		return c;
	});
}

static void classify(const vf::Case& c)
{
	Plan p = decode(c);
	auto& st = vf::stats();
	bool multi = false, sw = false, native = p.init == 2, rewritten = false;
	int order = p.init;
	bool nan = false;
	for (const Item& it : p.items) {
		if (it.kind == 0) {
			if (it.t != order)
				sw = true;
			order = it.t;
			if (it.t == 2)
				native = true;
			continue;
		}
		if (it.kind == 2) {
			st.cls(std::string("array.") + (TYPE_SIZE[it.t] > 1 ? "multibyte." : "onebyte.") + ORDER_NAME[it.order]);
			if (TYPE_SIZE[it.t] > 1 && !it.x.empty())
				multi = true;
			if (it.x.empty())
				st.cls("array.empty");
			if (it.x.size() == 100)
				st.cls("array.len100");
			if (it.again) {
				st.cls("array.same_object_written_again");
				const Item& first = p.items[(size_t)p.srcItem[(size_t)it.src]];
				bool swapped1 = first.order == 0, swapped2 = it.order == 0; // on this (little-endian) host BIG is the swapping order
				if (TYPE_SIZE[it.t] > 1 && !it.x.empty()) {
					rewritten = true;
					if (swapped1 != swapped2)
						st.cls("array.written_again_in_the_other_byte_order");
				}
			}
		}
		if (it.kind == 1)
			st.cls(std::string("scalar.") + TYPE_NAME[it.t]);
		if (it.skip && it.kind != 0) {
			st.cls("reader.skip");
			if (it.bytes.size() > 1024)
				st.cls("reader.skip>1024_bytes");
			if (it.bytes.size() >= 1023 && it.bytes.size() <= 1025)
				st.cls("reader.skip_1023..1025_bytes");
			if (it.bytes.size() >= 4095 && it.bytes.size() <= 4097)
				st.cls("reader.skip_4095..4097_bytes");
		}
		if (it.kind == 5)
			st.cls(std::string("string.length_prefixed.") + ORDER_NAME[it.order]);
		if (it.kind == 3)
			st.cls(it.t == 0 ? "string.cstr" : it.t == 1 ? "string.String" : "string.ByteArray");
		if (it.kind == 1 || it.kind == 2)
			for (uint64_t u : it.x)
				if ((it.t == 10 && (u & 0x7f800000u) == 0x7f800000u && (u & 0x7fffff)) || (it.t == 11 && (u & 0x7ff0000000000000ULL) == 0x7ff0000000000000ULL && (u & 0xfffffffffffffULL)))
					nan = true;
	}
	if (multi)
		st.cls("case.multibyte_array");
	if (sw)
		st.cls("case.order_switch");
	if (native)
		st.cls("case.native_order");
	if (nan)
		st.cls("case.nan_payload");
	if (p.items.size() >= 40)
		st.cls("case.ops>=40");
	bool copied = false;
	if (p.fcopy) {
		static const char* fn[] = {"", "copy_constructed", "passed_and_returned_by_value", "Array<File>_element"};
		st.cls(std::string("file.io_through_a_copy.") + fn[p.fcopy]);
		// the copy matters when multi-byte data is written in the swapping order that was configured on the original
		for (const Item& it : p.items) {
			if (it.kind == 0)
				break;
			if (it.order == 0 && ((it.kind == 1 || it.kind == 2) ? TYPE_SIZE[it.t] > 1 && !it.x.empty() : it.kind == 5))
				copied = true;
		}
		if (copied)
			st.cls("file.io_through_a_copy.BIG_order_inherited_by_the_copy");
	}
	for (const Item& it : p.items)
		if (it.kind == 2 && it.x.size() > 100000)
			st.cls(std::string("bigwrite.array_of_") + TYPE_NAME[it.t]);
	bool reconn = false;
	if (p.lorder >= 0) {
		// (only the part "accept" acts on it)
		static const char* ln[] = {"BIG", "LITTLE", "NATIVE", "none"};
		st.cls(std::string("accept.listener_") + ln[p.lorder] + (p.accmode ? ".accepted_own_setEndian" : ".accepted_untouched"));
		bool data = false;
		for (const Item& it : p.items) {
			if (it.kind == 0)
				break; // from here on the accepted Socket has an order of its own
			if ((it.kind == 1 || it.kind == 2) ? TYPE_SIZE[it.t] > 1 && !it.x.empty() : it.kind == 5)
				data = true;
		}
		if (p.lorder == 0 && p.accmode == 0 && data) {
			reconn = true;
			st.cls(p.sessDir[0] ? "accept.listener_BIG.untouched_accepted_reads_multibyte_data" : "accept.listener_BIG.untouched_accepted_writes_multibyte_data");
		}
	}
	if (p.sessStart.size() > 1) {
		// (only the part "reconn" acts on it) does a later session carry multi-byte data in the swapping order without an order item of its own?
		for (size_t si = 1; si < p.sessStart.size(); si++) {
			size_t from = p.sessStart[si], to = si + 1 < p.sessStart.size() ? p.sessStart[si + 1] : p.items.size();
			bool own = false;
			for (size_t i = from; i < to; i++) {
				const Item& it = p.items[i];
				if (it.kind == 0)
					own = true;
				else if (!own && it.order == 0 && ((it.kind == 1 || it.kind == 2) ? TYPE_SIZE[it.t] > 1 && !it.x.empty() : it.kind == 5)) {
					reconn = true;
					st.cls(p.sessDir[si] ? "reconn.later_session_reads_BIG_data_with_inherited_order" : "reconn.later_session_writes_BIG_data_with_inherited_order");
					break;
				}
			}
		}
		st.cls("reconn.sessions=" + std::to_string(p.sessStart.size()));
	}
	if (rewritten)
		st.cls("case.multibyte_array_written_again");
	bool fragnt = false;
	if (p.frag && !p.cuts.empty()) {
		st.cls("case.socket_delivery_in_pieces");
		// where do the cuts fall?
		std::vector<size_t> start, end;
		size_t off = 0;
		for (const Item& it : p.items) {
			start.push_back(off);
			off += it.bytes.size();
			end.push_back(off);
		}
		for (size_t k = 0; k < p.cuts.size(); k++) {
			size_t cut = p.cuts[k], next = k + 1 < p.cuts.size() ? p.cuts[k + 1] : p.all.size();
			bool inside = false;
			for (size_t j = 0; j < p.items.size(); j++) {
				const Item& it = p.items[j];
				if (cut <= start[j] || cut >= end[j])
					continue;
				// inside item j: inside one read() of the reader? (scalars and array elements are read one by one, strings and bytes in one read)
				size_t unit = (it.kind == 1 || it.kind == 2) ? (size_t)TYPE_SIZE[it.t] : it.bytes.size();
				size_t rel = (cut - start[j]) % unit;
				if (rel != 0) {
					inside = true;
					size_t unit_end = cut - rel + unit;
					st.cls("frag.cut_inside_a_value");
					if (it.kind == 2)
						st.cls("frag.cut_inside_an_array_element");
					if (next > unit_end) {
						st.cls("frag.cut_inside_a_value,next_piece_holds_more_than_the_rest");
						fragnt = true;
						if (next >= unit_end + 8)
							st.cls("frag.cut_inside_a_value,several_following_values_queued");
					}
				}
			}
			if (!inside)
				st.cls("frag.cut_on_a_value_boundary");
		}
	}
	if (multi || sw || native || fragnt || rewritten || reconn || copied) {
		st.nt(vf::fnv(vf::serialize(c)));
		if (p.items.size() >= 3 && p.items.size() <= 6 && p.all.size() < 60)
			st.sample(vf::serialize(c) + "-> " + vf::hexs(p.all), 4);
	}
}

void vf_search(const vf::Args& a)
{
	// (1) every type x every order x array lengths 0..100 step, scalars at the width boundaries: a small deterministic grid
	[&]() {
		uint64_t n = 0;
		std::vector<uint64_t> pats = {0x0102030405060708ULL, 0xf1f2f3f4f5f6f7f8ULL, 0x7ff8000000000001ULL, 0x7ff4000000000001ULL, 0x7fa00001ULL, 0xffc12345ULL, 0, 0xffffffffffffffffULL,
		                              0x8000000000000000ULL, 0x80000000ULL, 0x8000ULL, 0x80ULL};
		for (int order = 0; order < 3; order++)
			for (int t = 0; t < 12; t++) {
				vf::Case c;
				c.add(vf::Op("init", {order}));
				for (uint64_t pt : pats)
					c.add(vf::Op("v", {t, (long long)pt}));
				for (int len : {0, 1, 2, 3, 100}) {
					vf::Op o("a", {t});
					for (int i = 0; i < len; i++)
						o.a.push_back((long long)(pats[i % pats.size()] + 0x0101010101010101ULL * (uint64_t)i));
					c.add(o);
					c.add(vf::Op("order", {(order + 1 + len) % 3}));
					c.add(o);
					c.add(vf::Op("order", {order}));
				}
				// the same array objects once more, in the next order and back in the first one
				c.add(vf::Op("order", {(order + 1) % 3}));
				for (int k = 0; k < 5; k++)
					c.add(vf::Op("ra", {2 * k}));
				c.add(vf::Op("order", {order}));
				c.add(vf::Op("ra", {3}));
				c.add(vf::Op("ra", {8}));
				if ((int)(n % (uint64_t)a.workers) == a.worker || true) {
					if (!vf::runner().run("seq", c))
						return;
					vf::stats().nt(vf::fnv(vf::serialize(c)));
				}
				n++;
			}
		vf::stats().part("seq.grid(type x order x array length)", n, false);
	}();
	// (2) generated sequences (all three sinks per case)
	[&]() { vf::check_cases("seq", a.n(2500, 30000), 64, casegen(), classify); }();
	// (3) Socket reader with the delivery cut into pieces (socket sink only)
	[&]() { vf::check_cases("frag", a.n(400, 6000), 40, fragcasegen(), classify); }();
	// (4) the same client Socket over several TCP loopback connections
	[&]() { vf::check_cases("reconn", a.n(80, 600), 40, reconngen(), classify); }();
	// (5) an accepted asl Socket next to a configured listening Socket
	[&]() { vf::check_cases("accept", a.n(80, 600), 40, acceptgen(), classify); }();
	// (6) one big << that needs many short send()s
	[&]() { vf::check_cases("bigwrite", a.n(3, 12), 40, bigwritegen(), classify); }();
}
