// C18 -- IniFile and TabularDataFile persist exactly what was set or written.
//
// part "ini": the case is an INI text (line ops) followed by an edit history
//   fmt k             bit0 CRLF line ends, bit1 no newline after the last line, bits 2-3 common indent of key lines (none, 2 blanks, TAB, 4 blanks)
//   sec | name        [name]                (names are mapped onto identifiers; a repeated section name is skipped)
//   kv style | k v    k=v / k = v / k= v / k =v  (a key already present in its section is skipped; values are stripped of
//                     leading/trailing blanks, line breaks inside become '_')
//   kvd / secd        like kv / sec, but the line may repeat a key the section already has / an earlier section header (a reader takes the
//                     last line of a key; after a set() on it every fresh reader must return the set value)
//   com k | text      #text or ;text (bit0), indented (bit1)
//   blank
//   set form | s k v  set("s/k", v); form 1 and s empty: set("k", v), executed only when "the current section" can only mean
//                     the keys before the first section (such keys exist, or the file has no section at all)
//   write             explicit write() now
//   reopen            destroy the IniFile (it writes itself) and construct a new one on the path
//   After every write/reopen and after the final destruction: two fresh IniFile objects in a row return every set and
//   every untouched value; in the raw file the original comment lines, section headers and entries appear in their
//   original order with the current values.
// part "csv":
//   cols how cfg | n1 n2 ..   column names (identifiers, made unique), how 0 columns(Array), 1 columns("a,b"), 2 constructor;
//                         cfg (only with >= 2 columns, else the reader cannot recognise it from the header): 0 default ',' and '.',
//                         1 setSeparator(';') + setDecimal(',') (what the reader assumes for a ';' header), 2 setSeparator(TAB)
//   mode k                following rows: 0 cell by cell with <<, 1 as one array Var
//   ci x | cd bits | cs | text       int / double (bits mapped into {0} U [2^-962, 2^963)) / string cell
#include "common/vfrc.h"
#include "common/ref_io.h"
#include <asl/IniFile.h>
#include <asl/TabularDataFile.h>
#include <algorithm>
#include <cmath>

using namespace asl;

const char* vf_harness_name() { return "C18_inicsv"; }

static std::string S(const String& s) { return std::string(*s, (size_t)s.length()); }
static String AS(const std::string& s) { return String(s.c_str()); }

// ---------------------------------------------------------------------------------------------
// INI: text construction and model

static std::string ident(const std::string& s, size_t cap = 700)
{
	static const char* a = "abcdefghijklmnopqrstuvwxyzABCDEFGHIJKLMNOPQRSTUVWXYZ0123456789_";
	std::string r;
	for (unsigned char c : s) {
		bool ok = (c >= 'a' && c <= 'z') || (c >= 'A' && c <= 'Z') || (c >= '0' && c <= '9') || c == '_';
		r += ok ? (char)c : a[c % 63];
	}
	if (r.empty())
		r = "k";
	if (r[0] >= '0' && r[0] <= '9')
		r[0] = (char)('a' + (r[0] - '0'));
	if (r.size() > cap)
		r.resize(cap);
	return r;
}

static bool blank(char c) { return c == ' ' || c == '\t' || c == '\r' || c == '\n'; }

static std::string oneline(const std::string& s)
{
	std::string r;
	for (char c : s)
		r += (c == '\n' || c == '\r' || c == '\0') ? '_' : c;
	return r;
}

static std::string value_of(const std::string& s)
{
	std::string r = oneline(s);
	size_t b = 0, e = r.size();
	while (b < e && blank(r[b]))
		b++;
	while (e > b && blank(r[e - 1]))
		e--;
	return r.substr(b, e - b);
}

struct IniItem {
	int type; // 0 comment, 1 section, 2 key
	std::string text, sec, key, value;
};

// independent reader of INI text (for the order check and for knowing what is in the file)
static std::vector<IniItem> ref_parse(const std::string& text)
{
	std::vector<IniItem> items;
	std::string sec;
	size_t p = 0;
	while (p <= text.size()) {
		size_t q = text.find('\n', p);
		std::string line = text.substr(p, q == std::string::npos ? std::string::npos : q - p);
		p = q == std::string::npos ? text.size() + 1 : q + 1;
		if (!line.empty() && line.back() == '\r')
			line.pop_back();
		size_t i0 = 0;
		while (i0 < line.size() && blank(line[i0]))
			i0++;
		if (i0 == line.size())
			continue;
		IniItem it;
		if (line[0] == '[' && line.find(']') != std::string::npos) {
			it.type = 1;
			it.sec = sec = line.substr(1, line.find(']') - 1);
		}
		else if (line[i0] == '#' || line[i0] == ';') {
			it.type = 0;
			it.text = line;
		}
		else {
			size_t eq = line.find('=');
			if (eq == std::string::npos)
				continue;
			it.type = 2;
			it.sec = sec;
			it.key = value_of(line.substr(0, eq));
			it.value = value_of(line.substr(eq + 1));
		}
		items.push_back(it);
	}
	return items;
}

struct IniModel {
	std::map<std::pair<std::string, std::string>, std::string> val; // (section, key) -> value; section "" = before the first section
	std::set<std::pair<std::string, std::string>> infile;           // entries with a line in the file as last (re)opened
	std::set<std::string> filesecs;
	std::vector<IniItem> orig;                                      // comments, headers, entries of the file as last (re)opened
	bool anylines = false;
};

static std::string show_item(const IniItem& it)
{
	return it.type == 0 ? "comment " + vf::show(it.text) : it.type == 1 ? "section [" + it.sec + "]" : "entry " + it.sec + "/" + it.key + "=" + vf::show(it.value);
}

static void ini_check_values(const std::string& path, const IniModel& m, const std::string& ctx, const char* which)
{
	IniFile f(AS(path));
	const IniFile& cf = f;
	VF_CHECK(f.ok(), ctx, ": ", which, " fresh IniFile is not ok()");
	Dic<> all = cf.values();
	int required = 0;
	for (auto& e : m.val) {
		const std::string &sec = e.first.first, &key = e.first.second, &want = e.second;
		bool must = !want.empty() || m.infile.count(e.first);
		std::string name = sec.empty() ? key : sec + "/" + key;
		if (sec.empty() && !must)
			continue; // a new empty value before the first section: "the current section" of the fresh object is not determined by the model
		std::string got = S(cf[AS(name)]);
		VF_CHECK(got == want, ctx, ": ", which, " fresh IniFile[\"", name, "\"] = ", vf::show(got), " want ", vf::show(want));
		if (must) {
			required++;
			VF_CHECK(cf.has(AS(name)), ctx, ": ", which, " fresh IniFile has(\"", name, "\") is false, value should be ", vf::show(want));
			std::string got2 = S(cf(AS(name), "<default>"));
			VF_CHECK(got2 == want, ctx, ": ", which, " fresh IniFile(\"", name, "\", default) = ", vf::show(got2), " want ", vf::show(want));
			if (!sec.empty()) {
				String full = AS(name);
				VF_CHECK(all.has(full) && S(all[full]) == want, ctx, ": ", which, " fresh values()[\"", name, "\"] ", all.has(full) ? "= " + vf::show(S(all[full])) : std::string("is missing"), " want ",
				         vf::show(want));
				Dic<> sv = cf.values(AS(sec));
				VF_CHECK(sv.has(AS(key)) && S(sv[AS(key)]) == want, ctx, ": ", which, " fresh values(\"", sec, "\")[\"", key, "\"] wrong or missing, want ", vf::show(want));
			}
		}
	}
	VF_CHECK(all.length() >= required && all.length() <= (int)m.val.size(), ctx, ": ", which, " fresh values() has ", all.length(), " entries, the model has ", required, " that must be there of ", m.val.size());
	// f is destroyed here: an IniFile on which nothing was set must leave every value in place (checked by the next fresh object)
}

static void ini_check_order(const std::string& raw, const IniModel& m, const std::string& ctx)
{
	std::vector<IniItem> out = ref_parse(raw);
	// a key may have several lines (duplicates in the original text): a reader takes the last one, only that one's value is judged
	std::map<std::pair<std::string, std::string>, size_t> lastline;
	for (size_t i = 0; i < out.size(); i++)
		if (out[i].type == 2)
			lastline[{out[i].sec, out[i].key}] = i;
	size_t k = 0, outidx = (size_t)-1;
	for (const IniItem& it : out) {
		outidx++;
		bool isnew = (it.type == 1 && !m.filesecs.count(it.sec)) || (it.type == 2 && !m.infile.count({it.sec, it.key}));
		if (isnew)
			continue;
		VF_CHECK(k < m.orig.size(), ctx, ": the written file has an extra original-looking line: ", show_item(it), "\nfile:\n", vf::show(raw, 600));
		const IniItem& w = m.orig[k];
		bool same = it.type == w.type && (it.type == 0 ? it.text == w.text : it.type == 1 ? it.sec == w.sec : (it.sec == w.sec && it.key == w.key));
		VF_CHECK(same, ctx, ": original lines out of order or changed: found ", show_item(it), " where ", show_item(w), " was expected\nfile:\n", vf::show(raw, 600));
		if (it.type == 2 && lastline[{it.sec, it.key}] == outidx) {
			auto f = m.val.find({it.sec, it.key});
			VF_CHECK(f != m.val.end() && f->second == it.value, ctx, ": the file has ", show_item(it), ", the value should be ", vf::show(f == m.val.end() ? std::string("?") : f->second));
		}
		k++;
	}
	VF_CHECK(k == m.orig.size(), ctx, ": original line lost from the written file: ", k < m.orig.size() ? show_item(m.orig[k]) : std::string(), "\nfile:\n", vf::show(raw, 600));
}

static void ini_check(const std::string& path, const IniModel& m, const std::string& ctx)
{
	std::string raw;
	VF_CHECK(ref::slurp(path, raw), ctx, ": the file disappeared");
	ini_check_values(path, m, ctx, "first");
	ini_check_values(path, m, ctx, "second");
	ini_check_order(raw, m, ctx);
}

// (re)opening: what is in the file now decides which entries count as "existing" from here on
static void ini_sync(const std::string& path, IniModel& m)
{
	std::string raw;
	ref::slurp(path, raw);
	m.orig = ref_parse(raw);
	m.infile.clear();
	m.filesecs.clear();
	m.anylines = !raw.empty();
	for (auto& it : m.orig) {
		if (it.type == 1)
			m.filesecs.insert(it.sec);
		if (it.type == 2)
			m.infile.insert({it.sec, it.key});
	}
	// new empty values that were (legitimately) not written are forgotten
	for (auto i = m.val.begin(); i != m.val.end();)
		if (!m.infile.count(i->first) && i->second.empty())
			i = m.val.erase(i);
		else
			++i;
}

struct IniText {
	std::string text;
	int fmt = 0;
	int nsec = 0, ncom = 0, nkeys = 0;
};

static IniText ini_text(const vf::Case& c)
{
	IniText t;
	for (const vf::Op& o : c.ops)
		if (o.name == "fmt")
			t.fmt = (int)(o.i(0) & 15);
	static const char* indents[] = {"", "  ", "\t", "    "};
	std::string indent = indents[(t.fmt >> 2) & 3], eol = (t.fmt & 1) ? "\r\n" : "\n";
	std::vector<std::string> lines;
	std::set<std::string> secs;
	std::set<std::pair<std::string, std::string>> keys;
	std::string sec;
	for (const vf::Op& o : c.ops) {
		if (lines.size() >= 80)
			break;
		if (o.name == "sec" || o.name == "secd") {
			std::string n = ident(o.str(0));
			if (secs.count(n) && o.name == "sec") // "secd": the header may repeat an earlier one
				continue;
			secs.insert(n);
			sec = n;
			lines.push_back("[" + n + "]");
			t.nsec++;
		}
		else if (o.name == "kv" || o.name == "kvd") {
			std::string k = ident(o.str(0)), v = value_of(o.str(1));
			if (keys.count({sec, k}) && o.name == "kv") // "kvd": a further line for a key the section already has (the last line counts)
				continue;
			keys.insert({sec, k});
			int st = (int)(o.i(0) & 3);
			lines.push_back(indent + k + (st == 1 || st == 3 ? " " : "") + "=" + (st == 1 || st == 2 ? " " : "") + v);
			t.nkeys++;
		}
		else if (o.name == "com") {
			lines.push_back(std::string((o.i(0) & 2) ? indent : "") + ((o.i(0) & 1) ? ";" : "#") + oneline(o.str(0)));
			t.ncom++;
		}
		else if (o.name == "blank")
			lines.push_back("");
	}
	for (size_t i = 0; i < lines.size(); i++) {
		t.text += lines[i];
		if (i + 1 < lines.size() || !(t.fmt & 2))
			t.text += eol;
	}
	return t;
}

static void run_ini(const vf::Case& c)
{
	std::string path = ref::tmpdir() + "/c18.ini";
	IniText t = ini_text(c);
	VF_CHECK(ref::spit(path, t.text), "harness: cannot write ", path);
	IniModel m;
	for (auto& it : ref_parse(t.text))
		if (it.type == 2)
			m.val[{it.sec, it.key}] = it.value;
	ini_sync(path, m);
	struct Cleanup {
		std::string p;
		~Cleanup() { unlink(p.c_str()); }
	} cleanup{path};

	// the untouched file first: reading (and destroying the reader) loses nothing
	ini_check(path, m, "the generated file, nothing set");

	IniFile* ini = new IniFile(AS(path));
	int opno = -1, nsets = 0;
	try {
		VF_CHECK(ini->ok(), "IniFile on the generated file is not ok()");
		for (const vf::Op& o : c.ops) {
			opno++;
			std::string ctx = "after op#" + std::to_string(opno) + " " + o.name;
			if (o.name == "set" && nsets < 20) {
				std::string sec = o.str(0).empty() ? std::string() : ident(o.str(0)), key = ident(o.str(1)), v = value_of(o.str(2));
				bool slashless = sec.empty();
				if (slashless) {
					// "current section" = the keys before the first section only if such keys are in the file, or the file has no section
					bool pre = false;
					for (auto& e : m.infile)
						if (e.first.empty())
							pre = true;
					if (!(pre || (m.filesecs.empty() && m.anylines))) {
						vf::stats().cls("ini.slashless_set_skipped(ambiguous)");
						continue;
					}
					ini->set(AS(key), AS(v));
					vf::stats().cls("ini.slashless_set_executed");
				}
				else
					ini->set(AS(sec + "/" + key), AS(v));
				m.val[{sec, key}] = v;
				nsets++;
				// the object itself answers with the new value
				const IniFile& ci = *ini;
				std::string name = slashless ? key : sec + "/" + key;
				VF_CHECK(S(ci[AS(name)]) == v && ci.has(AS(name)), ctx, ": the IniFile does not return the value just set for ", name);
			}
			else if (o.name == "write") {
				ini->write();
				ini_check(path, m, ctx + " (explicit write(), object still alive)");
			}
			else if (o.name == "reopen") {
				delete ini;
				ini = 0;
				ini_check(path, m, ctx + " (written on destruction)");
				ini_sync(path, m);
				ini = new IniFile(AS(path));
				VF_CHECK(ini->ok(), ctx, ": reopened IniFile is not ok()");
			}
		}
		delete ini;
		ini = 0;
	}
	catch (...) {
		delete ini;
		throw;
	}
	ini_check(path, m, "after the final destruction");
}

// ---------------------------------------------------------------------------------------------
// CSV

struct Cell {
	int type; // 0 int, 1 double, 2 string
	long long i = 0;
	double d = 0;
	std::string s;
};

static double dbl_of(long long bits_)
{
	uint64_t bits = (uint64_t)bits_;
	if ((bits & 0x7fffffffffffffffULL) == 0 || (bits & 0xff) == 0x5a)
		return (bits >> 63) ? -0.0 : 0.0;
	uint64_t e = (bits >> 52) & 0x7ff;
	e = 61 + e % 1925; // 2^-962 .. 2^963: inside [1e-290, 1e290]
	bits = (bits & 0x800fffffffffffffULL) | (e << 52);
	double x;
	memcpy(&x, &bits, 8);
	return x;
}

static std::string csv_string(const std::string& s)
{
	// alphabet of the property: letters, digits after the first position, blank , ; " ' ; never numeric looking (first char)
	static const char* first = "abcdefghijklmnopqrstuvwxyzABCDEFGHIJKLMNOPQRSTUVWXYZ ,;\"'_%";
	static const char* rest = "abcdefghijklmnopqrstuvwxyzABCDEFGHIJKLMNOPQRSTUVWXYZ ,;\"'_0123456789.-+%";
	std::string r;
	for (unsigned char c : s) {
		const char* a = r.empty() ? first : rest;
		r += strchr(a, c) && c ? (char)c : a[c % strlen(a)];
	}
	// a '%' is plain text for a CSV cell; sequences that would be a "%n" conversion if the text were ever used as a printf format
	// are avoided all the same (such a mistake should show as wrong text, not as a wild store)
	for (size_t i = 0; i < r.size(); i++)
		if (r[i] == '%') {
			size_t j = i + 1;
			while (j < r.size() && strchr(" +-#0123456789.*hlLqjzt'", r[j]))
				j++;
			if (j < r.size() && r[j] == 'n')
				r[j] = 'N';
		}
	if (r.size() > 700)
		r.resize(700);
	return r;
}

struct Table {
	std::vector<std::string> cols;
	int how = 0;
	int cfg = 0;
	std::vector<std::vector<Cell>> rows;
	std::vector<int> rowmode;
};

static Table csv_table(const vf::Case& c)
{
	Table t;
	for (const vf::Op& o : c.ops)
		if (o.name == "cols" && t.cols.empty()) {
			t.how = (int)(((o.i(0) % 3) + 3) % 3);
			std::set<std::string> seen;
			for (size_t i = 0; i < o.s.size() && i < 8; i++) {
				std::string n = ident(o.s[i], 60);
				if (n[0] == '_' )
					n[0] = 'u';
				while (seen.count(n))
					n += std::to_string(i);
				seen.insert(n);
				t.cols.push_back(n);
			}
		}
	if (t.cols.empty())
		t.cols.push_back("c0");
	for (const vf::Op& o : c.ops)
		if (o.name == "cols") {
			// 0..2 as described above; 3 separator '|', 4 separator ' ', 5 separator ';' for a ONE-column table: these cannot be recognised
			// from the header, writer and reader both get the same setSeparator()
			t.cfg = (int)(((o.i(1) % 6) + 6) % 6);
			if (t.cfg == 5 && t.cols.size() >= 2)
				t.cfg = 1;
			if ((t.cfg == 1 || t.cfg == 2) && t.cols.size() < 2)
				t.cfg = 0;
			break;
		}
	if (t.cfg && t.how == 2)
		t.how = 0; // the constructor with column names writes the header before anything can be configured
	int mode = 0;
	std::vector<Cell> row;
	for (const vf::Op& o : c.ops) {
		Cell cell;
		if (o.name == "mode") {
			mode = (int)(o.i(0) & 1);
			continue;
		}
		else if (o.name == "ci") {
			cell.type = 0;
			cell.i = (int)o.i(0);
		}
		else if (o.name == "cd") {
			cell.type = 1;
			cell.d = dbl_of(o.i(0));
		}
		else if (o.name == "cs") {
			cell.type = 2;
			cell.s = csv_string(o.str(0));
			if (t.cfg == 1 && !cell.s.empty() && cell.s[0] == ',')
				cell.s[0] = 'c'; // with ',' as decimal mark a leading comma looks numeric to the reader
		}
		else
			continue;
		if (t.rows.size() >= 30)
			break;
		if (row.empty())
			t.rowmode.push_back(mode);
		row.push_back(cell);
		if (row.size() == t.cols.size()) {
			t.rows.push_back(row);
			row.clear();
		}
	}
	if (!row.empty() && t.rows.size() < 30) {
		Cell e;
		e.type = 2;
		while (row.size() < t.cols.size())
			row.push_back(e);
		t.rows.push_back(row);
	}
	t.rowmode.resize(t.rows.size(), 0);
	return t;
}

static std::string show_cell(const Cell& c)
{
	char b[64];
	if (c.type == 0)
		return "int " + std::to_string(c.i);
	if (c.type == 1) {
		snprintf(b, sizeof b, "double %.17g", c.d);
		return b;
	}
	return "string " + vf::show(c.s);
}

static void check_cell(const Var& v, const Cell& w, size_t r, size_t col, const char* via, const std::string& raw)
{
	std::string where = vf::str(via, ": row ", r, " column ", col, " written as ", show_cell(w));
	if (w.type == 2) {
		VF_CHECK(v.is(Var::STRING), where, " came back as a non-string: ", vf::show(S(v.toString())), "\nfile:\n", vf::show(raw, 500));
		VF_CHECK(S(v.toString()) == w.s, where, " came back as ", vf::show(S(v.toString())), "\nfile:\n", vf::show(raw, 500));
		return;
	}
	VF_CHECK(v.is(Var::NUMBER), where, " came back as a non-number: ", vf::show(S(v.toString())), "\nfile:\n", vf::show(raw, 500));
	double got = (double)v;
	if (w.type == 0)
		VF_CHECK(got == (double)w.i, where, " came back as ", got);
	else {
		// 15 significant digits: printing rounds by at most 5e-15 relative, the reader may add a few ulp
		double tol = 6e-15 * std::fabs(w.d);
		char b[64];
		snprintf(b, sizeof b, "%.17g", got);
		VF_CHECK(std::fabs(got - w.d) <= tol, where, " came back as ", b, " (relative error ", std::fabs(got - w.d) / std::fabs(w.d), ")");
	}
}

static void run_csv(const vf::Case& c)
{
	std::string path = ref::tmpdir() + "/c18.csv";
	Table t = csv_table(c);
	struct Cleanup {
		std::string p;
		~Cleanup() { unlink(p.c_str()); }
	} cleanup{path};
	unlink(path.c_str());
	{
		Array<String> names;
		std::string joined;
		for (auto& n : t.cols) {
			names << AS(n);
			joined += (joined.empty() ? "" : ",") + n;
		}
		TabularDataFile* f;
		if (t.how == 2)
			f = new TabularDataFile(AS(path), names);
		else {
			f = new TabularDataFile(AS(path));
			if (t.cfg == 1) {
				f->setSeparator(';');
				f->setDecimal(',');
			}
			else if (t.cfg == 2)
				f->setSeparator('\t');
			else if (t.cfg >= 3)
				f->setSeparator(t.cfg == 3 ? '|' : t.cfg == 4 ? ' ' : ';');
			if (t.how == 0)
				f->columns(names);
			else
				f->columns(AS(joined));
		}
		try {
			VF_CHECK(f->ok(), "harness: TabularDataFile cannot create ", path);
			for (size_t r = 0; r < t.rows.size(); r++) {
				if (t.rowmode[r] == 0)
					for (const Cell& cell : t.rows[r]) {
						if (cell.type == 0)
							*f << (int)cell.i;
						else if (cell.type == 1)
							*f << cell.d;
						else if (cell.s.size() % 2)
							*f << AS(cell.s);
						else
							*f << cell.s.c_str();
					}
				else {
					Array<Var> a;
					for (const Cell& cell : t.rows[r])
						a << (cell.type == 0 ? Var((int)cell.i) : cell.type == 1 ? Var(cell.d) : Var(AS(cell.s)));
					*f << Var(a);
				}
			}
		}
		catch (...) {
			delete f;
			throw;
		}
		delete f;
	}
	std::string raw;
	VF_CHECK(ref::slurp(path, raw), "the CSV file was not created");
	{
		TabularDataFile f(AS(path));
		if (t.cfg >= 3)
			f.setSeparator(t.cfg == 3 ? '|' : t.cfg == 4 ? ' ' : ';');
		Array<Array<Var>> d = f.data();
		const Array<String>& cols = f.columns();
		VF_CHECK((size_t)cols.length() == t.cols.size(), "data(): ", cols.length(), " column names read back, ", t.cols.size(), " written\nfile:\n", vf::show(raw, 500));
		for (size_t i = 0; i < t.cols.size(); i++)
			VF_CHECK(S(cols[(int)i]) == t.cols[i], "column name ", i, " read back as ", vf::show(S(cols[(int)i])), " written ", vf::show(t.cols[i]));
		VF_CHECK((size_t)d.length() == t.rows.size(), "data() returned ", d.length(), " rows, ", t.rows.size(), " were written\nfile:\n", vf::show(raw, 500));
		for (size_t r = 0; r < t.rows.size(); r++) {
			VF_CHECK((size_t)d[(int)r].length() == t.cols.size(), "data(): row ", r, " has ", d[(int)r].length(), " cells, ", t.cols.size(), " were written\nfile:\n", vf::show(raw, 500));
			for (size_t k = 0; k < t.cols.size(); k++)
				check_cell(d[(int)r][(int)k], t.rows[r][k], r, k, "data()", raw);
		}
	}
	{
		TabularDataFile f(AS(path));
		if (t.cfg >= 3)
			f.setSeparator(t.cfg == 3 ? '|' : t.cfg == 4 ? ' ' : ';');
		size_t r = 0;
		while (f.nextRow()) {
			VF_CHECK(r < t.rows.size(), "nextRow() delivers more than the ", t.rows.size(), " rows written\nfile:\n", vf::show(raw, 500));
			VF_CHECK((size_t)f.row().length() == t.cols.size(), "nextRow(): row ", r, " has ", f.row().length(), " cells, ", t.cols.size(), " were written\nfile:\n", vf::show(raw, 500));
			for (size_t k = 0; k < t.cols.size(); k++) {
				check_cell(f[(int)k], t.rows[r][k], r, k, "nextRow()/operator[](int)", raw);
				check_cell(f[AS(t.cols[k])], t.rows[r][k], r, k, "nextRow()/operator[](name)", raw);
			}
			r++;
		}
		VF_CHECK(r == t.rows.size(), "nextRow() delivered ", r, " rows, ", t.rows.size(), " were written\nfile:\n", vf::show(raw, 500));
	}
}

void vf_run_case(const std::string& part, const vf::Case& c)
{
	if (part == "csv")
		run_csv(c);
	else
		run_ini(c);
}

// ---------------------------------------------------------------------------------------------
// generators

using namespace rc;

static Gen<std::string> identgen()
{
	return gen::exec([]() {
		int w = *vf::irange<int>(0, 9);
		if (w < 5)
			return *gen::elementOf(std::vector<std::string>{"a", "b", "key", "Key", "name", "x1", "size", "_p", "long_identifier_name_0123456789", "k", "ab", "abc", "Z", "main", "net", "color", "n"});
		static const char* a0 = "abcdefghijklmnopqrstuvwxyzABCDEFGHIJKLMNOPQRSTUVWXYZ_";
		static const char* a = "abcdefghijklmnopqrstuvwxyzABCDEFGHIJKLMNOPQRSTUVWXYZ0123456789_";
		int n = *vf::irange<int>(1, w < 9 ? 6 : 40);
		std::string s;
		s += a0[*vf::irange<int>(0, 52)];
		for (int i = 1; i < n; i++)
			s += a[*vf::irange<int>(0, 62)];
		return s;
	});
}

static Gen<std::string> valuegen()
{
	return gen::exec([]() {
		int w = *vf::irange<int>(0, 19);
		if (w == 0)
			return std::string();
		if (w < 5)
			return *gen::elementOf(std::vector<std::string>{"1", "white", "3.5", "a b", "x=y", "#no comment", ";semi", "[v]", "a=b=c", "=", "==", "\"quoted\"", "c:\\dir\\f.txt", "a/b", "true", "-1", "[", "]", "a\tb", "a  b", "100% done", "5% full", "%s", "%d%%", "%5.2f x", "%"});
		static const char* a = "abcXYZ019 =#;[]/\\\"'.,:-_\t!$%&()*+<>?@^`{|}~";
		int n = *vf::irange<int>(1, w < 17 ? 12 : w < 19 ? 80 : 400);
		std::string s;
		for (int i = 0; i < n; i++) {
			int k = *vf::irange<int>(0, 60);
			s += k < (int)strlen(a) ? a[k] : (char)*vf::irange<int>(0x80, 0xff);
		}
		return value_of(s);
	});
}

// lengths around the 255/256-byte buffer of the formatting helper (String::f builds the "[name]" header of a new section), and long
static Gen<int> longlen()
{
	return gen::exec([]() {
		int w = *vf::irange<int>(0, 9);
		if (w < 6)
			return *vf::irange<int>(248, 262);
		if (w < 8)
			return *gen::elementOf(std::vector<int>{251, 252, 253, 254, 255, 256, 257, 509, 510, 511, 512, 513});
		return *vf::irange<int>(1, 600);
	});
}

static Gen<std::string> longident()
{
	return gen::exec([]() {
		static const char* a0 = "abcdefghijklmnopqrstuvwxyzABCDEFGHIJKLMNOPQRSTUVWXYZ_";
		static const char* a = "abcdefghijklmnopqrstuvwxyzABCDEFGHIJKLMNOPQRSTUVWXYZ0123456789_";
		int n = *longlen();
		std::string s(1, a0[*vf::irange<int>(0, 52)]);
		int k = *vf::irange<int>(0, 62);
		for (int i = 1; i < n; i++)
			s += a[(k + i * 7) % 63];
		return s;
	});
}

static Gen<std::string> valuegen();

// small files; sets that create sections / keys / values whose lengths lie around the formatting buffer
static Gen<vf::Case> inilonggen()
{
	return gen::exec([]() {
		vf::Case c;
		c.add(vf::Op("fmt", {*vf::irange<int>(0, 3) | (*gen::elementOf(std::vector<int>{0, 0, 1, 2}) << 2)}));
		auto name = [](int longpct) { return *vf::irange<int>(0, 99) < longpct ? *longident() : *gen::elementOf(std::vector<std::string>{"a", "b", "key", "main", "net", "k"}); };
		auto value = []() {
			int w = *vf::irange<int>(0, 9);
			if (w < 4)
				return std::string((size_t)*longlen(), (char)('a' + *vf::irange<int>(0, 25)));
			return *valuegen();
		};
		std::vector<std::string> secs;
		int nlines = *vf::irange<int>(0, 5);
		for (int i = 0; i < nlines; i++) {
			int w = *vf::irange<int>(0, 9);
			if (w < 3 || (i == 0 && w < 8)) {
				vf::Op o("sec");
				o.s = {name(40)};
				secs.push_back(o.s[0]);
				c.add(o);
			}
			else if (w < 8) {
				vf::Op o("kv", {*vf::irange<int>(0, 3)});
				o.s = {name(40), value()};
				c.add(o);
			}
			else {
				vf::Op o("com", {*vf::irange<int>(0, 3)});
				o.s = {oneline(*valuegen())};
				c.add(o);
			}
		}
		int nsets = *vf::irange<int>(1, 5);
		for (int i = 0; i < nsets; i++) {
			vf::Op o("set", {0});
			std::string s = (!secs.empty() && *vf::irange<int>(0, 3) == 0) ? *gen::elementOf(secs) : name(85);
			o.s = {s, name(35), value()};
			secs.push_back(s);
			c.add(o);
			int w = *vf::irange<int>(0, 9);
			if (w == 0)
				c.add(vf::Op("write"));
			else if (w == 1)
				c.add(vf::Op("reopen"));
		}
		return c;
	});
}

// files in which a key has 2..3 lines (different old values) and / or a section header appears twice, and that key is set()
static Gen<vf::Case> inidupgen()
{
	return gen::exec([]() {
		vf::Case c;
		c.add(vf::Op("fmt", {*vf::irange<int>(0, 3) | (*gen::elementOf(std::vector<int>{0, 0, 1, 2}) << 2)}));
		auto S1 = [](const char* n, std::initializer_list<std::string> strs, long long a0 = 0) {
			vf::Op o(n, {a0});
			o.s = strs;
			return o;
		};
		std::string sec = *gen::elementOf(std::vector<std::string>{"a", "main", "net"}), key = *gen::elementOf(std::vector<std::string>{"k", "color", "size"});
		bool pre = *vf::irange<int>(0, 5) == 0; // the duplicated key lives before the first section
		if (!pre)
			c.add(S1("sec", {sec}));
		c.add(S1("kv", {key, *valuegen()}, *vf::irange<int>(0, 3)));
		if (*vf::irange<int>(0, 2))
			c.add(S1("com", {"note"}, *vf::irange<int>(0, 3)));
		if (*vf::irange<int>(0, 3))
			c.add(S1("kv", {"other", *valuegen()}));
		bool dupkey = *vf::irange<int>(0, 9) < 7;
		if (dupkey)
			c.add(S1("kvd", {key, *valuegen()}, *vf::irange<int>(0, 3)));
		if (*vf::irange<int>(0, 1)) {
			c.add(S1("sec", {"zz"}));
			c.add(S1("kv", {"x", *valuegen()}));
		}
		if (!pre && (!dupkey || *vf::irange<int>(0, 1))) {
			c.add(S1("secd", {sec}));
			c.add(S1("kvd", {key, *valuegen()}, *vf::irange<int>(0, 3)));
			if (*vf::irange<int>(0, 1))
				c.add(S1("kv", {"late", *valuegen()}));
		}
		int n = *vf::irange<int>(1, 3);
		for (int i = 0; i < n; i++) {
			vf::Op o("set", {0});
			int w = *vf::irange<int>(0, 9);
			std::string s = pre ? std::string() : sec;
			if (i == 0 || w < 4)
				o.s = {s, key, *valuegen()};
			else if (w < 7)
				o.s = {s, *gen::elementOf(std::vector<std::string>{"newkey", "other", "late"}), *valuegen()};
			else
				o.s = {"fresh", "k", *valuegen()};
			if (pre && !(i == 0 || w < 4) && w < 7)
				o.s[0] = "zz";
			c.add(o);
			int u = *vf::irange<int>(0, 9);
			if (u == 0)
				c.add(vf::Op("write"));
			else if (u == 1)
				c.add(vf::Op("reopen"));
		}
		return c;
	});
}

static Gen<vf::Case> inigen()
{
	return gen::exec([]() {
		vf::Case c;
		int fmt = *vf::irange<int>(0, 3) | (*gen::elementOf(std::vector<int>{0, 0, 1, 2, 3}) << 2);
		c.add(vf::Op("fmt", {fmt}));
		std::vector<std::string> secs, allkeys;
		std::vector<std::pair<std::string, std::string>> keys;
		std::string sec;
		int nlines = *gen::oneOf(vf::irange<int>(0, 6), vf::irange<int>(0, 25), vf::irange<int>(4, 14));
		bool pre = *vf::irange<int>(0, 3) == 0;
		for (int i = 0; i < nlines; i++) {
			int w = *vf::irange<int>(0, 99);
			if ((w < 22 || (i == 0 && !pre)) && w < 90) {
				std::string n = *identgen();
				vf::Op o("sec");
				o.s = {n};
				c.add(o);
				sec = n;
				secs.push_back(n);
			}
			else if (w < 70) {
				vf::Op o("kv", {*gen::elementOf(std::vector<int>{0, 0, 1, 1, 2, 3})});
				std::string k = *identgen();
				o.s = {k, *valuegen()};
				c.add(o);
				keys.push_back({sec, k});
			}
			else if (w < 86) {
				vf::Op o("com", {*vf::irange<int>(0, 3)});
				o.s = {oneline(*valuegen())};
				c.add(o);
			}
			else
				c.add(vf::Op("blank"));
		}
		int nops = *gen::oneOf(vf::irange<int>(0, 4), vf::irange<int>(0, 24));
		int nsets = 0;
		for (int i = 0; i < nops; i++) {
			int w = *vf::irange<int>(0, 99);
			if (w < 80 && nsets < 20) {
				vf::Op o("set", {0});
				int k = *vf::irange<int>(0, 9);
				std::string s, key;
				if (k < 4 && !keys.empty()) {
					// existing entry
					auto e = *gen::elementOf(keys);
					s = e.first;
					key = e.second;
				}
				else if (k < 7 && !secs.empty()) {
					// new key in an existing section (sometimes before the first section)
					s = *vf::irange<int>(0, 7) == 0 ? std::string() : *gen::elementOf(secs);
					key = *identgen();
					keys.push_back({s, key});
				}
				else {
					s = *vf::irange<int>(0, 9) == 0 ? std::string() : *identgen();
					key = *identgen();
					if (!s.empty())
						secs.push_back(s);
					keys.push_back({s, key});
				}
				o.s = {s, key, *valuegen()};
				c.add(o);
				nsets++;
			}
			else if (w < 90)
				c.add(vf::Op("write"));
			else
				c.add(vf::Op("reopen"));
		}
		if (*vf::irange<int>(0, 2) == 0)
			c.add(vf::Op("write"));
		return c;
	});
}

static void classify_ini(const vf::Case& c)
{
	auto& st = vf::stats();
	IniText t = ini_text(c);
	std::set<std::pair<std::string, std::string>> have;
	std::set<std::string> secs;
	for (auto& it : ref_parse(t.text)) {
		if (it.type == 2)
			have.insert({it.sec, it.key});
		if (it.type == 1)
			secs.insert(it.sec);
	}
	int onexisting = 0, onnew = 0, newsec = 0, nset = 0;
	bool explicitw = false, reopen = false, longshape = false;
	for (const vf::Op& o : c.ops) {
		if (o.name == "set") {
			std::string s = o.str(0).empty() ? std::string() : ident(o.str(0)), k = ident(o.str(1));
			nset++;
			if (have.count({s, k}))
				onexisting++;
			else {
				onnew++;
				if (!s.empty() && !secs.count(s)) {
					newsec++;
					if (s.size() >= 250 && s.size() <= 260)
						st.cls("ini.new_section_name_250..260_chars");
					if (s.size() == 253)
						st.cls("ini.new_section_name_253_chars([name]=255)");
					if (s.size() > 260)
						st.cls("ini.new_section_name>260_chars");
					longshape = true;
				}
				if (k.size() >= 245 && k.size() <= 262)
					st.cls("ini.new_key_245..262_chars");
				have.insert({s, k});
				secs.insert(s);
			}
			size_t vl = value_of(o.str(2)).size();
			if (vl >= 245 && vl <= 262)
				st.cls("ini.set_value_245..262_chars");
			if (k.size() + vl + 1 >= 250 && k.size() + vl + 1 <= 260)
				st.cls("ini.set_line_key=value_250..260_chars");
		}
		else if (o.name == "write")
			explicitw = true;
		else if (o.name == "reopen")
			reopen = true;
	}
	st.cls((t.fmt & 2) ? (t.text.empty() || t.text.back() == '\n' ? "ini.no_final_newline_requested_but_last_line_blank_or_empty" : "ini.no_final_newline") : "ini.final_newline");
	st.cls((t.fmt & 1) ? "ini.CRLF" : "ini.LF");
	if ((t.fmt >> 2) & 3)
		st.cls("ini.indented_keys");
	if (explicitw)
		st.cls("ini.explicit_write");
	if (reopen)
		st.cls("ini.reopen");
	if (newsec)
		st.cls("ini.set_in_new_section");
	if (onexisting)
		st.cls("ini.set_existing_key");
	if (onnew)
		st.cls("ini.set_new_key");
	if (nset == 0)
		st.cls("ini.no_set");
	if (nset >= 10)
		st.cls("ini.sets>=10");
	if (t.text.empty())
		st.cls("ini.empty_file");
	bool longnew = false;
	if (longshape)
		for (const vf::Op& o : c.ops)
			if (o.name == "set" && !o.str(0).empty() && ident(o.str(0)).size() >= 248)
				longnew = true;
	if ((t.nsec >= 2 && t.ncom >= 1 && onexisting >= 1 && onnew >= 1) || longnew) {
		st.nt(vf::fnv(vf::serialize(c)));
		if (t.text.size() < 120 && nset <= 3)
			st.sample("ini: " + vf::show(t.text, 200) + " then " + std::to_string(nset) + " sets", 3);
	}
}

static Gen<vf::Case> csvgen()
{
	auto strgen = gen::exec([]() {
		int w = *vf::irange<int>(0, 19);
		if (w < 2)
			return std::string();
		if (w < 6)
			return *gen::elementOf(std::vector<std::string>{"a", "neg", "pos", "a,b", "a;b", "\"", "\"\"", "a\"", "\"a", "a\"b", "a b", " a", "a ", " ", ",", ";", "'", "a'b", "'a'", "\",\"", "a\",\"b", ",\"", "\",", "x\"\"y", "e5", "E", "a1.5", "n-1",
			                                                 "a,\"b\",c", " ,", "\" \"", "';'", "a\"\"", "\"\"a", "5% full", "100% done", "%", "%%", "%s", "%d", "% d", "%5", "a%", "%,", "50%;", "\"%d\"", "%5.2f", "x%sy%dz", "100%",
			                                                 "%c%c", "%ld", "%%d", "%-3s|"});
		static const char* a = "abcdeXYZ ,;\"' ,;\"'019.-_%%sd";
		int n = *vf::irange<int>(1, w < 17 ? 8 : 60);
		if (w == 19 && *vf::irange<int>(0, 2) == 0)
			n = *gen::oneOf(vf::irange<int>(248, 262), vf::irange<int>(1, 600)); // around the 255/256-byte formatting buffers, and long
		std::string s;
		for (int i = 0; i < n; i++)
			s += a[*vf::irange<int>(0, (int)strlen(a) - 1)];
		return csv_string(s);
	});
	auto cellgen = gen::exec([strgen]() {
		int w = *vf::irange<int>(0, 99);
		if (w < 20) {
			long long x = *gen::oneOf(vf::irange<long long>(-100, 100), vf::irange<long long>(-2147483647LL - 1, 2147483647LL), gen::elementOf(std::vector<long long>{0, -1, 2147483647LL, -2147483647LL - 1, 1000000000, 999999999}));
			return vf::Op("ci", {x});
		}
		if (w < 50) {
			int k = *vf::irange<int>(0, 9);
			double x;
			if (k < 3) {
				uint64_t hi = (uint64_t)*vf::irange<long long>(0, 0xffffffffLL), lo = (uint64_t)*vf::irange<long long>(0, 0xffffffffLL);
				return vf::Op("cd", {(long long)((hi << 32) | lo)});
			}
			else if (k < 5)
				x = *gen::elementOf(std::vector<double>{0.0, -0.0, 1.0, -1.0, 0.1, 0.5, 1.5, 100.0, 1e15, 1e16, 123456789012345.0, 1234567890123456.0, 0.001, 1e-5, 1e-4, 9.99999999999999e22, 1e290 * 0.5, 3e-290, 1e100, 1e-100,
				                                            3.141592653589793, 2.718281828459045, 1e21, 1e22, 4294967296.0, 0.3, 2.0 / 3.0, 1e-7, 123456.789});
			else if (k < 8)
				x = (double)*vf::irange<long long>(-1000000, 1000000) / *gen::elementOf(std::vector<double>{1, 10, 100, 1000, 8, 3, 7, 1e6});
			else
				x = (double)*vf::irange<long long>(-1000000000000LL, 1000000000000LL) * *gen::elementOf(std::vector<double>{1e-12, 1e-3, 1, 1e3, 1e10, 1e-30, 1e30, 1e200, 1e-200});
			long long bits;
			memcpy(&bits, &x, 8);
			if (dbl_of(bits) != x && !(x == 0))
				bits = 0; // outside the mapped domain: would not survive the case encoding
			return vf::Op("cd", {bits});
		}
		vf::Op o("cs");
		o.s = {*strgen};
		return o;
	});
	return gen::exec([cellgen]() {
		vf::Case c;
		int ncols = *gen::elementOf(std::vector<int>{1, 1, 2, 2, 3, 3, 4, 5, 6, 7, 8, 8});
		vf::Op cols("cols", {*vf::irange<int>(0, 2), *gen::elementOf(std::vector<int>{0, 0, 0, 1, 1, 2, 3, 4, 5, 5})});
		for (int i = 0; i < ncols; i++)
			cols.s.push_back(*identgen());
		c.add(cols);
		int nrows = *gen::oneOf(vf::irange<int>(0, 3), vf::irange<int>(0, 12), vf::irange<int>(0, 30));
		for (int r = 0; r < nrows; r++) {
			if (*vf::irange<int>(0, 3) == 0)
				c.add(vf::Op("mode", {*vf::irange<int>(0, 1)}));
			for (int k = 0; k < ncols; k++)
				c.add(*cellgen);
		}
		return c;
	});
}

static void classify_csv(const vf::Case& c)
{
	auto& st = vf::stats();
	Table t = csv_table(c);
	bool quote = false, sep = false, semi = false, num = false, empty = false, spaces = false, arr = false, frac = false;
	st.cls(t.cfg == 0 ? "csv.config.comma_and_dot(default)" : t.cfg == 1 ? "csv.config.semicolon_and_decimal_comma" : t.cfg == 2 ? "csv.config.tab_separator" : t.cfg == 3 ? "csv.config.bar_separator_set_on_reader" :
	       t.cfg == 4 ? "csv.config.blank_separator_set_on_reader" : "csv.config.one_column_semicolon_set_on_reader");
	for (size_t r = 0; r < t.rows.size(); r++) {
		if (t.rowmode[r])
			arr = true;
		for (auto& cell : t.rows[r]) {
			if (cell.type != 2) {
				num = true;
				if (cell.type == 1 && cell.d != std::floor(cell.d))
					frac = true;
				continue;
			}
			if (cell.s.empty())
				empty = true;
			if (cell.s.find('"') != std::string::npos)
				quote = true;
			if (cell.s.find(',') != std::string::npos)
				sep = true;
			if (cell.s.find(';') != std::string::npos)
				semi = true;
			if (!cell.s.empty() && (cell.s[0] == ' ' || cell.s.back() == ' '))
				spaces = true;
		}
	}
	if (quote)
		st.cls("csv.cell_with_quote");
	if (sep)
		st.cls("csv.cell_with_comma");
	if (semi)
		st.cls("csv.cell_with_semicolon");
	if (empty)
		st.cls("csv.empty_string_cell");
	if (spaces)
		st.cls("csv.leading_or_trailing_blank");
	if (arr)
		st.cls("csv.row_as_array_var");
	bool pct = false;
	for (auto& row : t.rows)
		for (auto& cell : row)
			if (cell.type == 2 && cell.s.find('%') != std::string::npos)
				pct = true;
	if (pct)
		st.cls("csv.cell_with_percent_sign");
	if (t.cfg == 1 && sep)
		st.cls("csv.config.semicolon_and_decimal_comma.string_cell_with_comma");
	if (t.cfg == 1 && frac)
		st.cls("csv.config.semicolon_and_decimal_comma.fractional_number");
	if (t.cfg == 1 && semi)
		st.cls("csv.config.semicolon_and_decimal_comma.string_cell_with_semicolon");
	if (t.rows.empty())
		st.cls("csv.no_rows");
	if (t.cols.size() == 1)
		st.cls("csv.one_column");
	if (t.rows.size() >= 20)
		st.cls("csv.rows>=20");
	if (num && (quote || sep)) {
		st.nt(vf::fnv(vf::serialize(c)));
		if (t.rows.size() == 2 && t.cols.size() <= 3)
			st.sample("csv: " + vf::serialize(c), 3);
	}
}

void vf_search(const vf::Args& a)
{
	[&]() { vf::check_cases("ini", a.n(2000, 10000), 100, inigen(), classify_ini); }();
	[&]() {
		vf::check_cases("inidup", a.n(250, 2500), 100, inidupgen(), [](const vf::Case& c) {
			bool dk = false, ds = false;
			for (auto& o : c.ops) {
				if (o.name == "kvd")
					dk = true;
				if (o.name == "secd")
					ds = true;
			}
			vf::stats().cls(dk && ds ? "ini.dup.key_lines_and_section_header_repeated" : ds ? "ini.dup.section_header_repeated" : "ini.dup.key_lines_repeated");
			vf::stats().nt(vf::fnv(vf::serialize(c)));
		});
	}();
	[&]() { vf::check_cases("inilong", a.n(300, 3000), 100, inilonggen(), classify_ini); }();
	[&]() { vf::check_cases("csv", a.n(2000, 10000), 100, csvgen(), classify_csv); }();
}
