// C12 (graph part) -- the handle protocol itself, on object graphs, one thread.
// The lifetime clauses of C12 ("stays alive while any handle exists, destroyed exactly once when the last handle is
// dropped") are stated for every handle operation; the scheduler and stress parts exercise them with flat objects and
// plain same-type copies/assignments. This part generates sequences of ALL handle operations the five kinds offer
// (copy, same-type assign, self-assign, converting assign Shared<Base> = Shared<Item>, assign from a raw pointer, assign
// of an empty/null handle, as<>(), clone()/dup(), drop) on small object DAGs in which objects own handles to other
// objects, including assignments whose right-hand side is a handle OWNED by the object the left-hand side is about to
// release (`cur = cur->next`, `kids = kids[0].kids`).
// Oracle: a reference model (variables -> objects -> child links; an object is alive iff reachable from a variable);
// after every operation the set of live payload ids equals the model's reachable set, no payload was destroyed twice,
// ("destroyed exactly once" = the live-instance count of an id goes 1 -> 0 and the destructor's canary test never sees a
// dead instance), every variable reads the payload the model says; ASan for use after free / double free; nothing alive at the end.
#include "common/vfrc.h"
#include <asl/Array.h>
#include <asl/Map.h>
#include <asl/HashMap.h>
#include <asl/Pointer.h>
#include <asl/Shared.h>
#include <map>
#include <type_traits>
#include <set>

using namespace asl;

const char* vf_harness_name() { return "C12_graph"; }

static std::map<int, int> g_alive;     // oid -> live instances

struct Elem {
	int canary;
	int oid;
	int* heap;
	explicit Elem(int o = -1) : canary(0x5a5a5a5a), oid(o), heap(new int(o)) { g_alive[oid]++; }
	Elem(const Elem& e) : canary(0x5a5a5a5a), oid(e.oid), heap(new int(e.oid)) { g_alive[oid]++; }
	Elem& operator=(const Elem& e)
	{
		g_alive[oid]--;
		oid = e.oid;
		*heap = e.oid;
		g_alive[oid]++;
		return *this;
	}
	~Elem()
	{
		VF_CHECK(canary == 0x5a5a5a5a, "payload ", oid, " destroyed twice (canary gone)");
		canary = 0;
		delete heap;
		g_alive[oid]--;
	}
	bool ok() const { return canary == 0x5a5a5a5a && *heap == oid; }
};

// ---- the five kinds: H = handle type; an object carries one payload and one child handle (possibly empty) ----------

struct Base {
	Elem e;
	explicit Base(int o) : e(o) {}
	virtual ~Base() {}
};
struct Item : public Base {
	Shared<Item> next;
	Item(int o, const Shared<Item>& n) : Base(o), next(n) {}
	Item* clone() const { return new Item(e.oid, next); }
};
struct KShared {
	typedef Shared<Base> H;
	static const char* name() { return "Shared"; }
	static H null() { return H(); }
	static bool isnull(const H& h) { return !h; }
	static int oid(const H& h) { return h->e.ok() ? h->e.oid : -99; }
	static H make(int o, const H& child) { return H(new Item(o, child ? child.as<Item>() : Shared<Item>())); }
	static void assign(H& d, const H& s) { d = s; }
	static void walk(H& d, const H& s)
	{
		const Shared<Item>& n = ((Item*)s.get())->next; // owned by *s
		if (n)
			d = n; // converting assignment Shared<Base> = Shared<Item>
		else
			d = H(); // (converting an EMPTY Shared<Item> dereferences a null core in cast_(): outside this property, not generated)
	}
	static void reset(H& d, int how)
	{
		if (how % 2)
			d = H();
		else {
			H e;
			d = e;
		}
	}
	static void extra(H& d, const H& s, int how, int o)
	{
		if (how % 4 == 0) {
			Shared<Item> it = s.as<Item>(); // converting assignment from an unrelated temporary handle of the derived type
			d = it;
		}
		else if (how % 4 == 1)
			d = (Base*)new Item(o, s ? s.as<Item>() : Shared<Item>()); // operator=(T*)
		else if (how % 4 == 2)
			d = Shared<Base>(Shared<Item>(new Item(o, s ? s.as<Item>() : Shared<Item>()))); // converting constructor
		else {
			// a handle that wraps a null raw pointer (a factory that returned 0) has a counted core like any other: assign it,
			// copy it, then drop the source -- the core must live as long as any of them (ASan sees it otherwise)
			H nul((Base*)0);
			H nul2(nul);
			d = nul;
			nul = nul2;
		}
	}
	static bool extra_null(int how) { return how % 4 == 3; }
	static bool extra_makes_new(int how) { return how % 4 == 1 || how % 4 == 2; }
};

ASL_SMART_CLASS(Node, SmartObject)
{
	ASL_SMART_INNER_DEF(Node)
	Elem e;
	SmartObject next;
	Node_() : e(-1), next((SmartObject_*)0) {}
	Node_(int o, const SmartObject& n) : e(o), next(n) {}
};
class Node : public SmartObject
{
public:
	ASL_SMART_DEF(Node, SmartObject)
	Node(int o, const SmartObject& n) : ASL_SMART_INIT(o, n) {}
};
struct KSmart {
	typedef SmartObject H;
	static const char* name() { return "SmartObject"; }
	static H null() { return H((SmartObject_*)0); }
	static bool isnull(const H& h) { return h.isnull(); }
	static int oid(const H& h)
	{
		const Node_* n = (const Node_*)h.ptr();
		return n->e.ok() ? n->e.oid : -99;
	}
	static H make(int o, const H& child) { return Node(o, child); }
	static void assign(H& d, const H& s) { d = s; }
	static void walk(H& d, const H& s) { d = ((Node_*)s.ptr())->next; } // rhs owned by *s
	static void reset(H& d, int how)
	{
		if (how % 2)
			d = H((SmartObject_*)0);
		else
			d = Node((SmartObject_*)0);
	}
	static void extra(H& d, const H& s, int how, int o)
	{
		if (how % 3 == 0)
			d = s.as<Node>(); // as<>() then (derived -> base) assignment
		else if (how % 3 == 1) {
			Node n = s.isnull() ? Node((SmartObject_*)0) : s.as<Node>();
			Node m(o, n);
			d = m;
		}
		else
			d = H(s.ptr()); // handle made from the raw pointer
	}
	static bool extra_makes_new(int how) { return how % 3 == 1; }
	static bool extra_null(int) { return false; }
};

struct ATree {
	Elem e;
	Array<ATree> kids;
	ATree() : e(-1) {}
	ATree(int o, const Array<ATree>& k) : e(o), kids(k) {}
};
struct KArray {
	typedef Array<ATree> H;
	static const char* name() { return "Array"; }
	static H null() { return H(); }
	static bool isnull(const H& h) { return h.length() == 0; }
	static int oid(const H& h) { return h.length() == 1 && h[0].e.ok() ? h[0].e.oid : -99; }
	static H make(int o, const H& child)
	{
		H a;
		a << ATree(o, child);
		return a;
	}
	static void assign(H& d, const H& s) { d = s; }
	static void walk(H& d, const H& s) { d = s[0].kids; }
	static void reset(H& d, int how)
	{
		if (how % 2)
			d = H();
		else {
			H e;
			d = e;
		}
	}
	static void extra(H& d, const H& s, int, int) { d = H(s); }
	static bool extra_makes_new(int) { return false; }
	static bool extra_null(int) { return false; }
};

struct MTree {
	Elem e;
	Map<int, MTree> kids;
	MTree() : e(-1) {}
	MTree(int o, const Map<int, MTree>& k) : e(o), kids(k) {}
};
struct KMap {
	typedef Map<int, MTree> H;
	static const char* name() { return "Map"; }
	static H null() { return H(); }
	static bool isnull(const H& h) { return h.length() == 0; }
	static int oid(const H& h)
	{
		const MTree* t = h.find(7);
		return h.length() == 1 && t && t->e.ok() ? t->e.oid : -99;
	}
	static H make(int o, const H& child)
	{
		H a;
		a[7] = MTree(o, child);
		return a;
	}
	static void assign(H& d, const H& s) { d = s; }
	static void walk(H& d, const H& s) { d = s.find(7)->kids; }
	static void reset(H& d, int how)
	{
		if (how % 2)
			d = H();
		else {
			H e;
			d = e;
		}
	}
	static void extra(H& d, const H& s, int, int) { d = H(s); }
	static bool extra_makes_new(int) { return false; }
	static bool extra_null(int) { return false; }
};

struct HTree {
	Elem e;
	HashMap<int, HTree> kids;
	HTree() : e(-1), kids(1) {}
	HTree(int o, const HashMap<int, HTree>& k) : e(o), kids(k) {}
};
struct KHash {
	typedef HashMap<int, HTree> H;
	static const char* name() { return "HashMap"; }
	static H null() { return H(1); }
	static bool isnull(const H& h) { return h.length() == 0; }
	static int oid(const H& h)
	{
		const HTree* t = h.find(7);
		return h.length() == 1 && t && t->e.ok() ? t->e.oid : -99;
	}
	static H make(int o, const H& child)
	{
		H a(1);
		a[7] = HTree(o, child);
		return a;
	}
	static void assign(H& d, const H& s) { d = s; }
	static void walk(H& d, const H& s) { d = s.find(7)->kids; }
	static void reset(H& d, int how)
	{
		if (how % 2)
			d = H(1);
		else {
			H e(1);
			d = e;
		}
	}
	static void extra(H& d, const H& s, int, int) { d = H(s); }
	static bool extra_makes_new(int) { return false; }
	static bool extra_null(int) { return false; }
};

// (KShared only; the other kinds never reach it)
template <class H>
static void shared_null_then_assign(H&, H&, int) {}
template <>
void shared_null_then_assign<Shared<Base>>(Shared<Base>& d, Shared<Base>& e, int id)
{
	Shared<Base> nul((Base*)0);
	e = nul;
	nul = (Base*)new Item(id, Shared<Item>());
	d = nul;
}

// ---- model -----------------------------------------------------------------------------------------------------

static const int NVAR = 4;

struct Model {
	std::map<int, int> child; // object id (== payload oid) -> child object id or -1
	int var[NVAR];
	std::set<int> ever;
	Model()
	{
		for (int i = 0; i < NVAR; i++)
			var[i] = -1;
	}
	std::set<int> reachable() const
	{
		std::set<int> r;
		for (int i = 0; i < NVAR; i++)
			for (int o = var[i]; o >= 0 && !r.count(o); o = child.at(o))
				r.insert(o);
		return r;
	}
};

enum { G_NEW = 0, G_ASSIGN, G_WALK, G_RESET, G_COPYDROP, G_EXTRA, G_NOPS };

template <class K>
static void run_graph(const vf::Case& c)
{
	typedef typename K::H H;
	{
		// warm-up: static default elements etc. are created before the baseline
		H w = K::make(0, K::null());
		H w2 = K::make(0, w);
		(void)K::oid(w2);
	}
	g_alive.clear();
	Model m;
	int next_oid = 1;
	int nself = 0, nalias = 0, nnull = 0, nconv = 0;
	{
		H v[NVAR] = {K::null(), K::null(), K::null(), K::null()};
		int step = 0;
		for (auto& o : c.ops) {
			if (o.name != "g")
				continue;
			step++;
			int code = (int)(((o.i(1) % G_NOPS) + G_NOPS) % G_NOPS), a = (int)(((o.i(2) % NVAR) + NVAR) % NVAR), b = (int)(((o.i(3) % NVAR) + NVAR) % NVAR);
			int how = (int)(o.i(4) & 0xffff);
			std::string what;
			switch (code) {
			case G_NEW: {
				int id = next_oid++;
				what = vf::str("v", a, " = new object ", id, " owning a copy of handle v", b);
				v[a] = K::make(id, v[b]);
				m.child[id] = m.var[b];
				m.ever.insert(id);
				m.var[a] = id;
				break;
			}
			case G_ASSIGN:
				what = vf::str("v", a, " = v", b, a == b ? " (self-assignment)" : "");
				K::assign(v[a], v[b]);
				m.var[a] = m.var[b];
				nself += a == b && m.var[a] >= 0;
				break;
			case G_WALK:
				if (m.var[b] < 0)
					continue;
				what = vf::str("v", a, " = <child handle owned by the object of v", b, ">", a == b ? " (the right-hand side is owned by the object being released)" : "");
				{
					bool sole = true; // is v[a] the only thing keeping v[b]'s object alive?
					for (int i = 0; i < NVAR; i++)
						if (i != a && m.var[i] == m.var[b])
							sole = false;
					nalias += m.var[a] == m.var[b] && sole;
				}
				K::walk(v[a], v[b]);
				m.var[a] = m.child[m.var[b]];
				nconv++;
				break;
			case G_RESET:
				what = vf::str("v", a, " = <empty handle> (form ", how % 2, ")");
				nnull += m.var[a] >= 0;
				K::reset(v[a], how);
				m.var[a] = -1;
				break;
			case G_COPYDROP: {
				what = vf::str("{ H tmp(v", a, "); H tmp2 = tmp; }");
				H tmp(v[a]);
				H tmp2 = tmp;
				(void)tmp2;
				break;
			}
			case G_EXTRA:
				if (std::is_same<K, KShared>::value && how % 5 == 4 && a != b) {
					// an EMPTY core (handle made from a null raw pointer) shared by two handles; one of them is then given an object through
					// the raw-pointer assignment: the other must stay empty and must not keep the object alive
					int id = next_oid++;
					what = vf::str("v", b, " = <copy of a handle wrapping a null pointer>; that handle = new object ", id, " (operator=(T*)); v", a, " = that handle");
					nnull += (m.var[a] >= 0) + (m.var[b] >= 0);
					shared_null_then_assign(v[a], v[b], id);
					m.child[id] = -1;
					m.ever.insert(id);
					m.var[a] = id;
					m.var[b] = -1;
				}
				else if (K::extra_null(how)) {
					what = vf::str("v", a, " = <handle wrapping a null raw pointer>, copied and assigned around");
					nnull += m.var[a] >= 0;
					K::extra(v[a], v[b], how, 0);
					m.var[a] = -1;
				}
				else if (K::extra_makes_new(how)) {
					int id = next_oid++;
					what = vf::str("v", a, " = <form ", how % 4, " of a new object ", id, " owning a copy of v", b, ">");
					K::extra(v[a], v[b], how, id);
					m.child[id] = m.var[b];
					m.ever.insert(id);
					m.var[a] = id;
				}
				else {
					if (m.var[b] < 0)
						continue;
					what = vf::str("v", a, " = <form ", how % 4, " of another handle to the object of v", b, ">");
					K::extra(v[a], v[b], how, 0);
					m.var[a] = m.var[b];
				}
				break;
			}
			// compare with the model
			std::set<int> want = m.reachable();
			for (int id : m.ever) {
				int alive = g_alive[id];
				if (want.count(id))
					VF_CHECK(alive == 1, K::name(), " step ", step, " (", what, "): object ", id, " is still referenced by a handle but has ", alive, " live payload instances");
				else
					VF_CHECK(alive == 0, K::name(), " step ", step, " (", what, "): object ", id, " has no handle left but has ", alive, " live payload instances (want 0)");
			}
			for (int i = 0; i < NVAR; i++) {
				if (m.var[i] < 0)
					VF_CHECK(K::isnull(v[i]), K::name(), " step ", step, " (", what, "): v", i, " should be an empty handle");
				else {
					VF_CHECK(!K::isnull(v[i]), K::name(), " step ", step, " (", what, "): v", i, " is empty, should refer to object ", m.var[i]);
					int got = K::oid(v[i]);
					VF_CHECK(got == m.var[i], K::name(), " step ", step, " (", what, "): v", i, " reads payload ", got, ", should refer to object ", m.var[i]);
				}
			}
		}
	}
	for (int id : m.ever)
		VF_CHECK(g_alive[id] == 0, K::name(), ": after every handle went out of scope object ", id, " has ", g_alive[id], " live payload instances");
	vf::stats().cls(vf::str("graph.", K::name()));
	if (nself)
		vf::stats().cls("graph.self_assignment_of_live_handle", nself);
	if (nalias)
		vf::stats().cls("graph.rhs_owned_by_released_object", nalias);
	if (nnull)
		vf::stats().cls("graph.empty_handle_assigned_over_live", nnull);
	if (nconv)
		vf::stats().cls("graph.assign_from_member_handle", nconv);
	if (nself || nalias || nnull)
		vf::stats().nt(vf::fnv(vf::serialize(c)));
}

void vf_run_case(const std::string&, const vf::Case& c)
{
	int kind = 0;
	for (auto& o : c.ops)
		if (o.name == "g") {
			kind = (int)(((o.i(0) % 5) + 5) % 5);
			break;
		}
	switch (kind) {
	case 0:
		run_graph<KArray>(c);
		break;
	case 1:
		run_graph<KMap>(c);
		break;
	case 2:
		run_graph<KHash>(c);
		break;
	case 3:
		run_graph<KShared>(c);
		break;
	case 4:
		run_graph<KSmart>(c);
		break;
	}
}

void vf_search(const vf::Args& a)
{
	using namespace rc;
	// fixed short histories first: for each kind the minimal self-assignment, list walk, and reset sequences
	for (int kind = 0; kind < 5; kind++) {
		const int fixed[][5][4] = {
		    {{G_NEW, 0, 1, 0}, {G_ASSIGN, 0, 0, 0}, {G_ASSIGN, 0, 0, 0}, {G_COPYDROP, 0, 0, 0}, {G_RESET, 0, 0, 1}},
		    {{G_NEW, 0, 1, 0}, {G_NEW, 0, 0, 0}, {G_NEW, 0, 0, 0}, {G_WALK, 0, 0, 0}, {G_WALK, 0, 0, 0}},
		    {{G_NEW, 0, 1, 0}, {G_ASSIGN, 1, 0, 0}, {G_RESET, 0, 0, 0}, {G_RESET, 1, 1, 1}, {G_COPYDROP, 0, 0, 0}},
		    {{G_NEW, 0, 1, 0}, {G_NEW, 1, 0, 0}, {G_RESET, 0, 0, 0}, {G_EXTRA, 2, 1, 0}, {G_WALK, 2, 2, 0}},
		};
		for (auto& f : fixed) {
			vf::Case c;
			for (auto& s : f)
				c.add(vf::Op("g", {kind, s[0], s[1], s[2], s[3]}));
			vf::runner().run("fixed", c);
		}
	}
	auto opg = gen::tuple(gen::weightedElement<int>({{4, G_NEW}, {3, G_ASSIGN}, {4, G_WALK}, {2, G_RESET}, {1, G_COPYDROP}, {2, G_EXTRA}}), vf::irange<int>(0, NVAR - 1),
	                      gen::weightedElement<int>({{3, 0}, {2, 1}, {1, 2}, {1, 3}}), vf::irange<int>(0, 7));
	auto g = gen::mapcat(vf::irange<int>(0, 4), [=](int kind) {
		return gen::map(gen::resize(40, gen::container<std::vector<std::tuple<int, int, int, int>>>(opg)), [=](const std::vector<std::tuple<int, int, int, int>>& v) {
			vf::Case c;
			for (auto& t : v) {
				int code = std::get<0>(t), x = std::get<1>(t), y = std::get<2>(t), how = std::get<3>(t);
				// bias towards operating on one variable (self-assignment, walking a list through its only handle)
				c.add(vf::Op("g", {kind, code, how >= 3 ? y : x, y, how}));
			}
			return c;
		});
	});
	vf::check_cases("graph", a.n(4000, 60000), 100, g);
}
