// C11 -- WebSocket messages arrive intact and in order for every size and direction.
//
// parts (each is a `part` name of the case files):
//   loop     library WebSocket client <-> library WebSocketServer (direct and through HttpServer::link) on 127.0.0.1:0
//   in       WebSocket over one end of a socketpair, inbound frames built by the independent codec (ref_ws.h)
//   out      WebSocket over one end of a socketpair, bytes produced by send() decoded by the independent codec
//   hs       raw TCP client: opening handshake (Sec-WebSocket-Accept against ref_codec.h) + one echoed message
//   hostile  malformed / absurd-length / truncated frame streams, every cut offset
#include "common/vfrc.h"
#include "common/ref_codec.h"
#include "common/ref_ws.h"
#include <asl/WebSocket.h>
#include <asl/HttpServer.h>
#include <sys/socket.h>
#include <sys/ioctl.h>
#include <signal.h>
#include <pthread.h>
#include <atomic>
#include <sys/time.h>
#include <netinet/in.h>
#include <netinet/tcp.h>
#include <arpa/inet.h>
#include <poll.h>
#include <sched.h>
#include <thread>
#include <mutex>
#include <condition_variable>
#include <memory>
#include <functional>
#include <chrono>
#include <algorithm>

using namespace asl;

const char* vf_harness_name() { return "C11_websocket"; }

// Hang bound: every blocking step is expected to take micro- to milliseconds; a step that makes no progress for this
// long is reported (and then confirmed by the driver in fresh processes, confirm='flaky').
static const int HANG_S = 60;
// Search only: once a TCP case has run into the hang bound, later TCP cases of this process are skipped (counted as
// discarded) -- otherwise rapidcheck's shrinking would spend the bound on every candidate.  The failing case itself is
// kept and confirmed by the driver in fresh processes; the socketpair parts cannot block (EOF always follows).
static bool g_hung = false, g_searching = false;

// ---------------------------------------------------------------------------------------------------------------
// helpers

// payload of a message: a pure function of (type, len, seed); type 0 = text (NUL-free bytes), 1 = binary (any bytes)
static std::string gen_payload(int type, long long len, uint64_t seed)
{
	if (len < 0)
		len = 0;
	std::string r((size_t)len, 0);
	ref::SplitMix g(seed * 1000003ULL + (uint64_t)len * 31 + (uint64_t)type);
	size_t i = 0;
	while (i < r.size()) {
		uint64_t v = g.next();
		for (int k = 0; k < 8 && i < r.size(); k++, i++) {
			unsigned char c = (unsigned char)(v >> (8 * k));
			if (type == 0 && c == 0)
				c = (unsigned char)(1 + i % 255);
			r[i] = (char)c;
		}
	}
	if (type != 0 && !r.empty()) { // 0x00 is an ordinary payload byte: first, last, middle (3 of 4 seeds; the rest is random)
		switch (seed & 3) {
		case 0: r[0] = 0; break;
		case 1: r[r.size() - 1] = 0; break;
		case 2: r[r.size() / 2] = 0; break;
		}
	}
	return r;
}

static std::string S(const WebSocketMsg& m)
{
	ByteArray b = m;
	return std::string((const char*)b.data(), (size_t)(b.length() > 0 ? b.length() : 0));
}

// Every view of a receive() result must show the same message: length(), ByteArray(m), String(m), bool(m) / !m and the
// C-string view operator* -- the payload followed by a terminating NUL.  (The unchanged library terminates EVERY result:
// text, binary, the empty "no message" result and a close reason; reading p[length()] is therefore in bounds, and ASan
// reports it when a result comes back with an exactly full array and no terminator.)
static bool msg_check(const WebSocketMsg& m, std::string& why)
{
	int n = m.length();
	if (n < 0) {
		why = vf::str("receive() returned a message of length ", n);
		return false;
	}
	ByteArray b = m;
	if (b.length() != n) {
		why = vf::str("ByteArray(msg) has ", b.length(), " bytes, msg.length() is ", n);
		return false;
	}
	if (bool(m) != (n != 0) || (!m) != (n == 0)) {
		why = vf::str("bool(msg) / !msg disagree with length() ", n);
		return false;
	}
	const char* p = *m;
	if (!p) {
		why = "operator* returned a null pointer";
		return false;
	}
	if (n > 0 && memcmp(p, b.data(), (size_t)n) != 0) {
		why = vf::str("the C-string view (operator*) differs from ByteArray(msg) within the ", n, " payload bytes");
		return false;
	}
	if (p[n] != 0) {
		why = vf::str("the C-string view (operator*) of a ", n, "-byte message is not terminated: byte ", n, " is 0x", vf::hexs(std::string(1, p[n])));
		return false;
	}
	bool nulfree = n == 0 || memchr(p, 0, (size_t)n) == 0;
	if (nulfree) {
		size_t sl = strlen(p);
		if (sl != (size_t)n) {
			why = vf::str("strlen(*msg) is ", sl, " for a NUL-free message of ", n, " bytes");
			return false;
		}
	}
	// String(msg) (`String msg = ws.receive();`, the documented form) is built from the byte array: full length, embedded
	// 0x00 bytes kept (0x00 is valid in text and binary payloads)
	String str = m;
	if (str.length() != n || (n > 0 && memcmp(*str, b.data(), (size_t)n) != 0)) {
		why = vf::str("String(msg) has length ", str.length(), " / other bytes than the ", n, "-byte message", nulfree ? "" : " (payload contains 0x00 bytes)");
		return false;
	}
	return true;
}

static std::string diff(const std::string& got, const std::string& want)
{
	if (got.size() != want.size())
		return vf::str("length ", got.size(), " instead of ", want.size());
	for (size_t i = 0; i < got.size(); i++)
		if (got[i] != want[i])
			return vf::str("same length ", got.size(), ", first difference at byte ", i, ": got 0x", vf::hexs(got.substr(i, 1)), " want 0x", vf::hexs(want.substr(i, 1)));
	return "equal";
}

struct Peek : WebSocket {
	static Socket& sock(WebSocket& w) { return w.*(&Peek::_socket); }
	static Random& rng(WebSocket& w) { return w.*(&Peek::_random); }
};
// The WebSocket draws its mask keys from an auto-seeded generator; the harness seeds it from the case so that a failure
// that depends on the key (e.g. a key with a zero byte) replays.
static void seed_masks(WebSocket& ws, uint64_t s) { Peek::rng(ws).seed((ULong)s); }

static void set_timeouts(int fd)
{
	timeval tv;
	tv.tv_sec = HANG_S;
	tv.tv_usec = 0;
	setsockopt(fd, SOL_SOCKET, SO_RCVTIMEO, &tv, sizeof tv);
	setsockopt(fd, SOL_SOCKET, SO_SNDTIMEO, &tv, sizeof tv);
	// the library writes header and payload separately and never sets TCP_NODELAY: without this every message costs a
	// 40 ms Nagle / delayed-ACK round (speed only; fails harmlessly on the AF_UNIX pairs)
	int one = 1;
	setsockopt(fd, IPPROTO_TCP, TCP_NODELAY, &one, sizeof one);
	setsockopt(fd, IPPROTO_TCP, TCP_QUICKACK, &one, sizeof one);
}

// ---- interval timer for the "signals reach the sending thread" cases -------------------------------------------
// A blocking send() that is interrupted by a signal after it has transferred something returns a SHORT count (even
// with SA_RESTART); the library's write loop has to continue with the rest.  To provoke that, a case may arm an
// ITIMER_REAL (no-op SIGALRM handler, SA_RESTART) while the main thread sends to a peer that starts reading late.
// Only the main (sending) thread takes the signal: every other thread of the process -- the harness's helpers and,
// through the inherited mask, the library's accept and connection threads (whose select() loops treat EINTR as an
// error) -- has SIGALRM blocked.  The timer is armed only inside a TimerScope and disarmed on every exit path.
static void block_alarm_in_this_thread()
{
	sigset_t set;
	sigemptyset(&set);
	sigaddset(&set, SIGALRM);
	pthread_sigmask(SIG_BLOCK, &set, 0);
}
struct AlarmBlockedScope { // threads created inside inherit the blocked mask
	sigset_t old;
	AlarmBlockedScope()
	{
		sigset_t set;
		sigemptyset(&set);
		sigaddset(&set, SIGALRM);
		pthread_sigmask(SIG_BLOCK, &set, &old);
	}
	~AlarmBlockedScope() { pthread_sigmask(SIG_SETMASK, &old, 0); }
};
static volatile sig_atomic_t g_ticks = 0;
static void on_alarm(int) { g_ticks = g_ticks + 1; }
struct TimerScope {
	bool armed = false;
	int fd;
	// fd: the sending socket; its SO_SNDTIMEO is lifted meanwhile (a socket with a send timeout fails with EINTR instead
	// of being restarted, see signal(7) -- that would be the harness's doing, not the library's)
	TimerScope(long usec, int fd_) : fd(fd_)
	{
		if (usec <= 0)
			return;
		struct sigaction sa;
		memset(&sa, 0, sizeof sa);
		sa.sa_handler = on_alarm;
		sa.sa_flags = SA_RESTART;
		sigemptyset(&sa.sa_mask);
		sigaction(SIGALRM, &sa, 0);
		timeval none = {0, 0};
		setsockopt(fd, SOL_SOCKET, SO_SNDTIMEO, &none, sizeof none);
		itimerval tv;
		tv.it_interval.tv_sec = tv.it_value.tv_sec = 0;
		tv.it_interval.tv_usec = tv.it_value.tv_usec = usec;
		setitimer(ITIMER_REAL, &tv, 0);
		armed = true;
	}
	~TimerScope()
	{
		if (!armed)
			return;
		itimerval off;
		memset(&off, 0, sizeof off);
		setitimer(ITIMER_REAL, &off, 0);
		timeval tv = {HANG_S, 0};
		setsockopt(fd, SOL_SOCKET, SO_SNDTIMEO, &tv, sizeof tv);
	}
};
static long clamp_timer(long long us) { return us <= 0 ? 0 : us < 500 ? 500 : us > 50000 ? 50000 : (long)us; }
static long clamp_delay(long long ms) { return ms <= 0 ? 0 : ms > 1000 ? 1000 : (long)ms; }

// State shared by the two ends of a loopback session, so that the end that is WAITING can see that the other end is
// stuck inside receive(): the peer entered receive() (epoch odd), has consumed every byte that was sent to it
// (FIONREAD on its socket is 0), the waiting end is its only source and is not sending -- so the peer wants more
// bytes than the message has (a misread frame length).  The state must persist for STUCK_S seconds (the gap between
// a receive()'s last read and its return is microseconds); the verdict is confirmed by the driver in fresh processes.
struct Watch {
	std::atomic<unsigned> epoch[2]; // [0] client, [1] server: odd while inside receive()
	std::atomic<int> fd[2];
	Watch()
	{
		epoch[0] = epoch[1] = 0;
		fd[0] = fd[1] = -1;
	}
};
static const int STUCK_S = 5;

// next non-empty receive() result (an empty result is the library's "no message" value)
// How an endpoint waits for its next message (all are documented ways of using the class):
//   0  if (closed()) stop; wait(long); receive()                         (the documentation's serve() loop)
//   1  while (!closed()) { if (!hasInput()) continue; receive(); }       (polling)
//   2  while (connected()) { if (!hasInput()) continue; receive(); }     (polling)
//   3  while (!closed()) { if (!wait(0.3 ms)) continue; receive(); }     (short waits that expire between messages)
//   4  while (true) { if (!waitData(0.3 ms)) { if (closed()) stop; continue; } receive(); }
static const int N_STYLES = 5;
static const char* STYLE_NAME[N_STYLES] = {"blocking_wait", "poll_closed_hasInput", "poll_connected_hasInput", "short_wait", "short_waitData"};
static int clamp_style(long long v) { return (int)(((v % N_STYLES) + N_STYLES) % N_STYLES); }

static bool next_msg(WebSocket& ws, std::string& out, int& empties, std::string& why, Watch* w = 0, int me = 0, int style = 0)
{
	for (int spins = 0; spins < 1000000; spins++) {
		if (style != 0) {
			double t0 = vf::now();
			unsigned long n = 0;
			for (;;) {
				bool in;
				if (style == 4) {
					in = ws.waitData(0.0003);
					if (!in && ws.closed()) {
						why = vf::str("connection reported closed while a message was expected (receiver style ", STYLE_NAME[style], ")");
						return false;
					}
				}
				else {
					if (style == 2 ? !ws.connected() : ws.closed()) {
						why = vf::str("connection reported closed while a message was expected (receiver style ", STYLE_NAME[style], ")");
						return false;
					}
					in = style == 3 ? ws.wait(0.0003) : ws.hasInput();
				}
				if (in)
					break;
				if ((++n & 63) == 0)
					sched_yield(); // a polling loop must not starve the peer thread on a loaded machine
				if ((n & 1023) == 0 && vf::now() - t0 > HANG_S) {
					why = vf::str("no input within ", HANG_S, " s while a message was expected");
					return false;
				}
			}
		}
		else if (ws.closed()) {
			why = "connection closed while a message was expected";
			return false;
		}
		if (style != 0) {}
		else if (!w) {
			if (!ws.wait(HANG_S)) {
				why = vf::str("no input within ", HANG_S, " s while a message was expected");
				return false;
			}
		}
		else {
			// wait in slices and watch the peer
			double t0 = vf::now(), stuck_since = -1;
			unsigned stuck_epoch = 0;
			for (;;) {
				if (ws.wait(0.2))
					break;
				double t = vf::now();
				if (t - t0 > HANG_S) {
					why = vf::str("no input within ", HANG_S, " s while a message was expected");
					return false;
				}
				unsigned e = w->epoch[1 - me];
				int pfd = w->fd[1 - me];
				int avail = -1;
				bool stuck = (e & 1) && pfd >= 0 && ioctl(pfd, FIONREAD, &avail) == 0 && avail == 0;
				if (!stuck || (stuck_since >= 0 && e != stuck_epoch))
					stuck_since = -1;
				if (stuck && stuck_since < 0) {
					stuck_since = t;
					stuck_epoch = e;
				}
				if (stuck && t - stuck_since > STUCK_S) {
					why = vf::str("the ", me ? "client" : "server", "'s receive() does not return: it has consumed every byte sent to it and waits for more (for ", STUCK_S,
					              " s) -- it expects a longer frame than was sent");
					return false;
				}
			}
		}
		if (w)
			w->epoch[me]++;
		WebSocketMsg m = ws.receive();
		if (w)
			w->epoch[me]++;
		if (!msg_check(m, why))
			return false;
		if (m.length() > 0) {
			out = S(m);
			return true;
		}
		empties++;
	}
	why = "1000000 empty results in a row";
	return false;
}

static void do_send(WebSocket& ws, int type, const std::string& p, int api)
{
	api = ((api % 3) + 3) % 3;
	if (api == 0)
		ws.send((const byte*)p.data(), (int)p.size(), type == 0 ? WebSocket::FRAME_TEXT : WebSocket::FRAME_BINARY);
	else if (type == 1) {
		ByteArray b((const byte*)p.data(), (int)p.size());
		ws.send(b);
	}
	else if (api == 1)
		ws.send(String(p.c_str()));
	else
		ws.send(p.c_str());
}

// ---------------------------------------------------------------------------------------------------------------
// Part A: library <-> library

// Persistent helper threads (creating a thread per case is far too expensive under ASan): one writes the peer's stream,
// one drains what the WebSocket writes back.
struct Helper {
	std::mutex mu;
	std::condition_variable cv;
	std::function<void()> job;
	bool busy = false;
	Helper()
	{
		std::thread([this] {
			block_alarm_in_this_thread();
			for (;;) {
				std::function<void()> j;
				{
					std::unique_lock<std::mutex> l(mu);
					cv.wait(l, [&] { return (bool)job; });
					j.swap(job);
				}
				j();
				{
					std::lock_guard<std::mutex> l(mu);
					busy = false;
				}
				cv.notify_all();
			}
		}).detach();
	}
	void start(std::function<void()> j)
	{
		std::lock_guard<std::mutex> l(mu);
		job = std::move(j);
		busy = true;
		cv.notify_all();
	}
	void wait()
	{
		std::unique_lock<std::mutex> l(mu);
		cv.wait(l, [&] { return !busy; });
	}
};
static Helper& writer()
{
	static Helper* h = new Helper;
	return *h;
}
static Helper& drainer()
{
	static Helper* h = new Helper;
	return *h;
}

struct Step {
	int dir; // 0 client->server, 1 server->client, 2 client->server and echoed back by the server
	int type;
	long long len;
	uint64_t seed;
	int api;
	long delay_ms = 0, timer_us = 0; // client->server only: the server starts reading late, a timer fires in the sending thread
	long pause_us = 0;               // the sender pauses before this message (lets short receiver timeouts expire)
	// dir 3 = full duplex: the client streams `count` messages (len, seed) while the server streams `count2` (len2, seed2),
	// each end with one sending and one receiving thread on the same WebSocket object
	long long len2 = 0;
	uint64_t seed2 = 0;
	int count = 0, count2 = 0;
};
static long long dx_len(long long len, int i) { return std::max(1LL, len + (i * 7) % 11 - 5); }

struct Script {
	std::vector<Step> steps;
	std::mutex mu;
	std::condition_variable cv;
	bool done = false;
	std::string err;
	int empties = 0;
	int sstyle = 0; // how the server end waits for messages
	Watch watch;
	void finish(const std::string& e)
	{
		std::lock_guard<std::mutex> l(mu);
		if (!done) {
			done = true;
			err = e;
		}
		cv.notify_all();
	}
};

static std::mutex g_mu;
static std::map<uint64_t, std::shared_ptr<Script>> g_scripts;
static uint64_t g_next_id = 1;

static void pause_us(long us)
{
	if (us > 0)
		usleep((useconds_t)us);
}

// Full duplex step, run by both ends (me: 0 client, 1 server): a helper thread sends this end's stream while the calling
// thread receives the peer's, on the same WebSocket object.  The client's stream ends with a marker; the server sends
// its marker only after it has received the client's, so nobody closes while anything is in flight.
static std::string duplex_step(WebSocket& ws, const Step& st, int me, int style, int& empties)
{
	long long mylen = me ? st.len2 : st.len, peerlen = me ? st.len : st.len2;
	uint64_t myseed = me ? st.seed2 : st.seed, peerseed = me ? st.seed : st.seed2;
	int mycount = me ? st.count2 : st.count, peercount = me ? st.count : st.count2;
	std::atomic<bool> recv_done(false);
	Helper& h = me ? drainer() : writer();
	h.wait();
	h.start([&ws, &st, &recv_done, mylen, myseed, mycount, me] {
		for (int i = 0; i < mycount; i++)
			do_send(ws, st.type, gen_payload(st.type, dx_len(mylen, i), myseed + (uint64_t)i), st.api + i);
		if (me) {
			double t0 = vf::now();
			while (!recv_done && vf::now() - t0 < HANG_S)
				usleep(200);
		}
		ws.send("D");
	});
	std::string err, got, why;
	const char* who = me ? "server" : "client";
	for (int i = 0; i < peercount && err.empty(); i++) {
		if (!next_msg(ws, got, empties, why, 0, me, style))
			err = vf::str(who, ", full duplex: message ", i, " of ", peercount, " from the peer: ", why);
		else {
			std::string want = gen_payload(st.type, dx_len(peerlen, i), peerseed + (uint64_t)i);
			if (got != want)
				err = vf::str(who, ", full duplex: message ", i, " of ", peercount, " from the peer differs: ", diff(got, want));
		}
	}
	if (err.empty()) {
		if (!next_msg(ws, got, empties, why, 0, me, style))
			err = vf::str(who, ", full duplex: end marker after ", peercount, " messages: ", why);
		else if (got != "D")
			err = vf::str(who, ", full duplex: an extra message (", got.size(), " bytes) arrived after the peer's ", peercount, " messages");
	}
	recv_done = true;
	h.wait();
	return err;
}

static std::string server_script(WebSocket& ws, Script& sc)
{
	std::string got, why;
	for (size_t i = 0; i < sc.steps.size(); i++) {
		const Step& st = sc.steps[i];
		if (st.dir == 3) {
			std::string e = duplex_step(ws, st, 1, sc.sstyle, sc.empties);
			if (!e.empty())
				return vf::str("step ", i, ": ", e);
			continue;
		}
		if (st.dir == 1) {
			pause_us(st.pause_us);
			do_send(ws, st.type, gen_payload(st.type, st.len, st.seed), st.api);
			continue;
		}
		if (st.delay_ms > 0)
			usleep((useconds_t)st.delay_ms * 1000); // the client fills the socket buffers and blocks in send() meanwhile
		if (!next_msg(ws, got, sc.empties, why, &sc.watch, 1, sc.sstyle))
			return vf::str("server, step ", i, " (len ", st.len, "): ", why);
		std::string want = gen_payload(st.type, st.len, st.seed);
		if (got != want)
			return vf::str("server, step ", i, ": message from the client differs: ", diff(got, want));
		if (st.dir == 2)
			do_send(ws, st.type, got, st.api + 1);
	}
	if (!next_msg(ws, got, sc.empties, why, &sc.watch, 1, sc.sstyle))
		return "server, end marker: " + why;
	if (got != "F")
		return vf::str("server: an extra message arrived after the last scripted one (", got.size(), " bytes) instead of the end marker");
	ws.send("F");
	return "";
}

struct Srv : public WebSocketServer {
	int port() { return _sockets[0].localAddress().port(); }
	void serve(WebSocket& ws)
	{
		set_timeouts(Peek::sock(ws).handle());
		std::string ctl, why;
		int emp = 0;
		if (!next_msg(ws, ctl, emp, why))
			return;
		if (ctl == "H") // echo service that is busy for a moment first (the half-closing client has sent everything by then)
			usleep(15000);
		if (ctl == "E" || ctl == "H") { // echo service for the raw (reference codec) client
			std::string m;
			while (next_msg(ws, m, emp, why))
				ws.send((const byte*)m.data(), (int)m.size(), WebSocket::FRAME_BINARY);
			return;
		}
		if (ctl.size() == 9 && ctl[0] == 'S') {
			uint64_t id = 0;
			memcpy(&id, ctl.data() + 1, 8);
			std::shared_ptr<Script> sc;
			{
				std::lock_guard<std::mutex> l(g_mu);
				auto it = g_scripts.find(id);
				if (it != g_scripts.end())
					sc = it->second;
			}
			if (!sc)
				return;
			sc->watch.fd[1] = Peek::sock(ws).handle();
			std::string e = server_script(ws, *sc);
			sc->watch.fd[1] = -1;
			sc->finish(e);
		}
	}
};

struct HttpSrv : public HttpServer {
	HttpSrv() : HttpServer(-1) {}
	int port() { return _sockets[0].localAddress().port(); }
};

struct Servers {
	Srv direct, linked;
	HttpSrv http;
	int port_direct = 0, port_http = 0;
};

static Servers& servers()
{
	static Servers* s = [] {
		Servers* s = new Servers; // never destroyed: the accept threads live until the process exits
		if (!s->direct.bind("127.0.0.1", 0) || !s->http.bind("127.0.0.1", 0)) {
			printf("INFRA cannot bind 127.0.0.1:0\n");
			exit(2);
		}
		s->http.link(s->linked);
		{
			AlarmBlockedScope nosig; // accept threads (and the connection threads they create) never take SIGALRM
			s->direct.start(true);
			s->http.start(true);
		}
		s->port_direct = s->direct.port();
		s->port_http = s->http.port();
		if (s->port_direct <= 0 || s->port_http <= 0) {
			printf("INFRA cannot read the bound port back\n");
			exit(2);
		}
		return s;
	}();
	return *s;
}

static long long clamp_len(long long v, long long maxv)
{
	if (v < 0)
		v = -v;
	if (v < 1)
		v = 1;
	return v > maxv ? maxv : v;
}

static const long long MAX_LEN = 8ll << 20;

// ops:  conn via cstyle sstyle   (via: 0 WebSocketServer directly, 1 through HttpServer::link; c/sstyle: how the client / the
//                           server end waits for its messages, see next_msg).  The first one opens the first
//                           session; every later one (after at least one message) close()s the client WebSocket and
//                           connect()s THE SAME OBJECT again for the following messages (object reuse).
//       m dir type len seed api [delay_ms timer_us]     (the last two for dir 0 only, see TimerScope)
struct Session {
	int via = 0;
	int cstyle = 0, sstyle_ = 0; // how the client / the server end waits for messages
	std::shared_ptr<Script> sc;
	uint64_t id = 0;
};

static std::atomic<unsigned long> g_refused_first{0};
// one session on the (possibly reused) client object; returns the client-side error, fills serr
static std::string loop_session(WebSocket& ws, Session& se, int round, int& empties, std::string& serr)
{
	Servers& sv = servers();
	auto& sc = se.sc;
	{
		std::lock_guard<std::mutex> l(g_mu);
		se.id = g_next_id++;
		g_scripts[se.id] = sc;
	}
	std::string cerr_;
	Watch* w = &sc->watch;
	if ((sc->steps[0].seed & 3) == 0) {
		// one session in four: the same object first makes a connect() that is refused (a port that is bound but not listening);
		// the connect() that follows must work as on a fresh object (after seeded C11-P)
		static int dead = [] {
			int fd = socket(AF_INET, SOCK_STREAM, 0);
			sockaddr_in a;
			memset(&a, 0, sizeof a);
			a.sin_family = AF_INET;
			a.sin_addr.s_addr = htonl(INADDR_LOOPBACK);
			socklen_t l = sizeof a;
			if (fd < 0 || bind(fd, (sockaddr*)&a, sizeof a) != 0 || getsockname(fd, (sockaddr*)&a, &l) != 0)
				return 0;
			return (int)ntohs(a.sin_port); // the descriptor stays open and never listens
		}();
		if (dead > 0) {
			ws.connect("127.0.0.1", dead);
			g_refused_first++;
		}
	}
	bool ok = ws.connect("127.0.0.1", se.via ? sv.port_http : sv.port_direct);
	if (!ok)
		cerr_ = round ? vf::str("client: connect()/handshake failed on the reused WebSocket object (round ", round, ")") : std::string("client: connect()/handshake failed");
	else {
		w->fd[0] = Peek::sock(ws).handle();
		set_timeouts(Peek::sock(ws).handle());
		seed_masks(ws, sc->steps[0].seed * 31 + sc->steps.size());
		std::string ctl = "S" + std::string((const char*)&se.id, 8);
		ws.send((const byte*)ctl.data(), 9, WebSocket::FRAME_BINARY);
		std::string got, why;
		for (size_t i = 0; i < sc->steps.size() && cerr_.empty(); i++) {
			const Step& st = sc->steps[i];
			if (st.dir == 3) {
				std::string e = duplex_step(ws, st, 0, se.cstyle, empties);
				if (!e.empty())
					cerr_ = vf::str("step ", i, ": ", e);
				continue;
			}
			std::string want = gen_payload(st.type, st.len, st.seed);
			if (st.dir != 1) {
				pause_us(st.pause_us);
				int cfd = Peek::sock(ws).handle();
				if (st.timer_us > 0) { // small fixed send buffer (no autotuning): the send really has to wait for the late reader
					int sb = 32768;
					setsockopt(cfd, SOL_SOCKET, SO_SNDBUF, &sb, sizeof sb);
				}
				TimerScope timer(st.timer_us, cfd);
				do_send(ws, st.type, want, st.api);
			}
			if (st.dir != 0) {
				if (!next_msg(ws, got, empties, why, w, 0, se.cstyle))
					cerr_ = vf::str("client, step ", i, " (len ", st.len, "): ", why);
				else if (got != want)
					cerr_ = vf::str("client, step ", i, ": message from the server differs: ", diff(got, want));
			}
		}
		if (cerr_.empty()) {
			ws.send("F");
			if (!next_msg(ws, got, empties, why, w, 0, se.cstyle))
				cerr_ = "client, end marker: " + why;
			else if (got != "F")
				cerr_ = vf::str("client: an extra message arrived after the last scripted one (", got.size(), " bytes) instead of the end marker");
		}
	}
	w->fd[0] = -1;
	ws.close();
	{
		std::unique_lock<std::mutex> l(sc->mu);
		bool fin = sc->cv.wait_for(l, std::chrono::seconds(cerr_.empty() ? HANG_S : 20), [&] { return sc->done; });
		if (fin)
			serr = sc->err;
		else if (cerr_.empty())
			serr = "server side did not finish its script within the hang bound";
	}
	{
		std::lock_guard<std::mutex> l(g_mu);
		g_scripts.erase(se.id);
	}
	empties += sc->empties;
	return cerr_;
}

static std::vector<Session> loop_sessions(const vf::Case& c)
{
	std::vector<Session> ss;
	int via = 0, cstyle = 0, sstyle = 0;
	bool fresh = true; // the next message starts a new session
	auto session = [&]() {
		if (fresh || ss.empty()) {
			Session se;
			se.via = via;
			se.cstyle = cstyle;
			se.sstyle_ = sstyle;
			se.sc = std::make_shared<Script>();
			se.sc->sstyle = sstyle;
			ss.push_back(se);
			fresh = false;
		}
	};
	for (auto& o : c.ops) {
		if (o.name == "conn") {
			via = (int)(o.i(0) & 1);
			cstyle = clamp_style(o.i(1));
			sstyle = clamp_style(o.i(2));
			fresh = true;
		}
		else if (o.name == "mm") { // burst: count messages dir type len(+-5) seed.. api, the sender pausing pause_us before each
			session();
			int count = (int)std::min<long long>(std::max<long long>(o.i(5), 1), 5000);
			for (int i = 0; i < count; i++) {
				Step st;
				st.dir = (int)(((o.i(0) % 3) + 3) % 3);
				st.type = (int)(o.i(1) & 1);
				st.len = dx_len(clamp_len(o.i(2), 70000), i);
				st.seed = (uint64_t)o.i(3) + (uint64_t)i;
				st.api = (int)((o.i(4) + i) & 0xff);
				st.pause_us = (long)std::min<long long>(std::max<long long>(o.i(6), 0), 20000);
				ss.back().sc->steps.push_back(st);
			}
		}
		else if (o.name == "dx") { // full duplex: type api len seed count len2 seed2 count2
			session();
			Step st;
			st.dir = 3;
			st.type = (int)(o.i(0) & 1);
			st.api = (int)(o.i(1) & 0xff);
			st.len = clamp_len(o.i(2), 70000);
			st.seed = (uint64_t)o.i(3);
			st.count = (int)std::min<long long>(std::max<long long>(o.i(4), 0), 20000);
			st.len2 = clamp_len(o.i(5), 70000);
			st.seed2 = (uint64_t)o.i(6);
			st.count2 = (int)std::min<long long>(std::max<long long>(o.i(7), 0), 20000);
			ss.back().sc->steps.push_back(st);
		}
		else if (o.name == "m") {
			session();
			Step st;
			st.dir = (int)(((o.i(0) % 3) + 3) % 3);
			st.type = (int)(o.i(1) & 1);
			st.len = clamp_len(o.i(2), MAX_LEN);
			st.seed = (uint64_t)o.i(3);
			st.api = (int)(o.i(4) & 0xff);
			if (st.dir == 0) {
				st.delay_ms = clamp_delay(o.i(5));
				st.timer_us = clamp_timer(o.i(6));
			}
			ss.back().sc->steps.push_back(st);
		}
	}
	return ss;
}

static void run_loop(const vf::Case& c)
{
	std::vector<Session> ss = loop_sessions(c);
	if (ss.empty())
		return;
	if (g_hung && g_searching) {
		vf::stats().discarded++;
		return;
	}
	double t_start = vf::now();
	int empties = 0;
	std::string cerr_, serr;
	size_t round = 0;
	{
		WebSocket ws; // ONE object for all sessions of the case
		for (; round < ss.size(); round++) {
			cerr_ = loop_session(ws, ss[round], (int)round, empties, serr);
			if (!cerr_.empty() || !serr.empty())
				break;
		}
	}
	vf::stats().cls("loop.empty_results", (uint64_t)empties);
	vf::stats().cls("loop.sessions_connecting_after_a_refused_connect", (uint64_t)g_refused_first.exchange(0));
	if (!(cerr_.empty() && serr.empty()) && vf::now() - t_start > STUCK_S - 1) // a hang-type failure: do not spend the bound on every shrink candidate
		g_hung = true;
	std::string where = ss.size() > 1 ? vf::str("session ", round + 1, " of ", ss.size(), " on the same WebSocket object", round ? " (after close() + connect())" : "", ": ") : std::string();
	VF_CHECK(cerr_.empty() && serr.empty(), where, cerr_, cerr_.empty() || serr.empty() ? "" : " / ", serr);
}

// ---------------------------------------------------------------------------------------------------------------
// Part B (inbound): frames built by the reference codec -> one end of a socketpair -> WebSocket::receive()

// Owns the harness's end of a socketpair (the WebSocket owns and closes the other one).  Destroyed after the
// WebSocket: by then the peer end is closed, so both helpers finish (EPIPE / EOF) and can be waited for.
struct PairGuard {
	int b = -1;
	bool writing = false, draining = false;
	~PairGuard()
	{
		if (writing) {
			shutdown(b, SHUT_WR);
			writer().wait();
		}
		if (draining)
			drainer().wait();
		if (b >= 0)
			close(b);
	}
};

static void make_pair(int fds[2])
{
	if (socketpair(AF_UNIX, SOCK_STREAM, 0, fds) != 0) {
		printf("INFRA socketpair failed\n");
		exit(2);
	}
	set_timeouts(fds[0]);
	set_timeouts(fds[1]);
}

static void key_bytes(long long k, int rot, uint8_t out[4])
{
	uint32_t v = (uint32_t)k;
	for (int i = 0; i < 4; i++)
		out[(i + 4 - (rot & 3)) & 3] = (uint8_t)(v >> (8 * (3 - i)));
}

struct InPlan {
	bool isclient = false;
	int chunk = 0;
	std::string stream;
	std::vector<std::string> expect, expect_all;
	std::vector<size_t> msg_end; // stream offset just behind the last frame of each message
	std::vector<std::string> pings;
	bool nontrivial = false;
	int nfrag_max = 1, ctl_inside = 0, ctl_between = 0, nonminimal = 0, empty_frag = 0, zero_key_byte = 0, masked = 0, unmasked = 0;
	long long cut = -1;
	std::vector<std::pair<size_t, long>> gaps; // (stream offset, ms): the peer pauses there
	std::string close_reason;                  // end kind 3: close frame with status code and this reason text
	int gap_between_fragments = 0, gap_between_messages = 0, gap_inside_frame = 0;
	int text_with_nul = 0, binary_with_nul = 0;
};

// ops:  role isclient chunk
//       ctl kind len seed masked key where      (kind 0 ping, 1 pong; attaches to the next msg: where mod (nfrag+1) =
//                                                0 before its first frame, j after its j-th frame)
//       msg type len seed masked key nfrag s1 s2 s3 nm
//       gap ms where inframe                    (the peer pauses ms milliseconds; attaches to the next msg like ctl: before its frame
//                                                (where mod (nfrag+1)); inframe != 0: inside that frame, inframe bytes after its start)
//       end kind                                (0 EOF, 1 close frame without payload, 2 close frame with code 1000,
//                                                3 close frame with code 1000 and a reason text)
//       cut n                                   (stream truncated to n mod (size+1) bytes)
static InPlan build_in(const vf::Case& c)
{
	InPlan p;
	int end_kind = 0;
	std::vector<vf::Op> pending, pending_gaps;
	auto ctl_frame = [&](const vf::Op& o) {
		ref::WsFrame f;
		f.opcode = (o.i(0) & 1) ? 10 : 9;
		long long len = o.i(1) < 0 ? 0 : o.i(1) > 125 ? 125 : o.i(1);
		f.payload = gen_payload(1, len, (uint64_t)o.i(2));
		f.masked = (o.i(3) & 1) != 0;
		key_bytes(o.i(4), 0, f.key);
		if (f.opcode == 9)
			p.pings.push_back(f.payload);
		p.stream += ref::ws_encode(f);
	};
	for (auto& o : c.ops) {
		if (o.name == "role") {
			p.isclient = (o.i(0) & 1) != 0;
			p.chunk = (int)(o.i(1) < 0 ? 0 : o.i(1) > 1000000 ? 1000000 : o.i(1));
		}
		else if (o.name == "ctl")
			pending.push_back(o);
		else if (o.name == "gap")
			pending_gaps.push_back(o);
		else if (o.name == "end")
			end_kind = (int)(((o.i(0) % 4) + 4) % 4);
		else if (o.name == "cut")
			p.cut = o.i(0) < 0 ? -o.i(0) : o.i(0);
		else if (o.name == "msg") {
			int type = (int)(o.i(0) & 1); // opcode: 0 text, 1 binary; type 2 = text whose payload contains 0x00 bytes, 3 = binary
			long long len = clamp_len(o.i(1), MAX_LEN);
			std::string pl = gen_payload((o.i(0) & 3) == 0 ? 0 : 1, len, (uint64_t)o.i(2));
			if (memchr(pl.data(), 0, pl.size()))
				(type ? p.binary_with_nul : p.text_with_nul)++;
			bool masked = (o.i(3) & 1) != 0;
			int nfrag = (int)(((o.i(5, 1) - 1) % 4 + 4) % 4) + 1;
			std::vector<long long> cuts;
			for (int j = 0; j < nfrag - 1; j++) {
				long long v = o.i(6 + j);
				if (v < 0)
					v = len + 1 + v;
				v = ((v % (len + 1)) + (len + 1)) % (len + 1);
				cuts.push_back(v);
			}
			std::sort(cuts.begin(), cuts.end());
			cuts.push_back(len);
			long long nm = o.i(9) < 0 ? -o.i(9) : o.i(9);
			// control frames placed by slot
			std::vector<std::vector<vf::Op>> slot(nfrag + 1);
			for (auto& cop : pending) {
				int w = (int)(((cop.i(5) % (nfrag + 1)) + (nfrag + 1)) % (nfrag + 1));
				slot[w].push_back(cop);
				if (w >= 1 && w <= nfrag - 1)
					p.ctl_inside++;
				else
					p.ctl_between++;
			}
			pending.clear();
			std::vector<std::vector<vf::Op>> gslot(nfrag + 1);
			for (auto& gop : pending_gaps)
				gslot[(size_t)(((gop.i(1) % (nfrag + 1)) + (nfrag + 1)) % (nfrag + 1))].push_back(gop);
			pending_gaps.clear();
			auto gap_ms = [](const vf::Op& g) { return (long)std::min<long long>(std::max<long long>(g.i(0), 0), 9000); };
			long long from = 0;
			for (int j = 0; j < nfrag; j++) {
				for (auto& cop : slot[j])
					ctl_frame(cop);
				std::vector<vf::Op> inside;
				for (auto& gop : gslot[j]) {
					if (gop.i(2) != 0)
						inside.push_back(gop);
					else {
						p.gaps.push_back({p.stream.size(), gap_ms(gop)});
						(j == 0 ? p.gap_between_messages : p.gap_between_fragments)++;
					}
				}
				size_t frame_start = p.stream.size();
				ref::WsFrame f;
				f.opcode = j == 0 ? type + 1 : 0;
				f.fin = j == nfrag - 1;
				f.masked = masked;
				key_bytes(o.i(4), j, f.key);
				f.payload = pl.substr((size_t)from, (size_t)(cuts[j] - from));
				if (f.payload.empty())
					p.empty_frag++;
				from = cuts[j];
				int form = (int)(nm % 3);
				nm /= 3;
				if (form > ref::ws_min_form(f.payload.size()))
					p.nonminimal++;
				p.stream += ref::ws_encode(f, form);
				if (masked && (f.key[0] == 0 || f.key[1] == 0 || f.key[2] == 0 || f.key[3] == 0))
					p.zero_key_byte++;
				for (auto& gop : inside) { // strictly inside the frame: 1 .. size-1 bytes after its start
					size_t fl = p.stream.size() - frame_start;
					if (fl < 2)
						continue;
					long long k = gop.i(2) < 0 ? -gop.i(2) : gop.i(2);
					p.gaps.push_back({frame_start + 1 + (size_t)(k % (long long)(fl - 1)), gap_ms(gop)});
					p.gap_inside_frame++;
				}
			}
			p.msg_end.push_back(p.stream.size());
			for (auto& gop : gslot[nfrag]) {
				p.gaps.push_back({p.stream.size(), gap_ms(gop)});
				p.gap_between_messages++;
			}
			for (auto& cop : slot[nfrag])
				ctl_frame(cop);
			p.expect.push_back(pl);
			p.nfrag_max = std::max(p.nfrag_max, nfrag);
			(masked ? p.masked : p.unmasked)++;
			if (nfrag > 1 || (len >= 85 && len <= 166) || (len >= 65495 && len <= 65576))
				p.nontrivial = true;
		}
	}
	for (auto& cop : pending) {
		ctl_frame(cop);
		p.ctl_between++;
	}
	if (p.ctl_inside || p.ctl_between)
		p.nontrivial = true;
	if (end_kind) {
		ref::WsFrame f;
		f.opcode = 8;
		f.masked = !p.isclient;
		f.key[0] = 1, f.key[1] = 2, f.key[2] = 3, f.key[3] = 4;
		if (end_kind >= 2)
			f.payload = std::string("\x03\xe8", 2);
		if (end_kind == 3) {
			p.close_reason = "going away: " + std::to_string(p.expect.size()) + " messages were sent";
			f.payload += p.close_reason;
		}
		p.stream += ref::ws_encode(f);
	}
	std::sort(p.gaps.begin(), p.gaps.end());
	p.expect_all = p.expect;
	if (p.cut >= 0) {
		p.close_reason.clear();
		size_t n = (size_t)(p.cut % (long long)(p.stream.size() + 1));
		p.stream.resize(n);
		size_t k = 0;
		while (k < p.msg_end.size() && p.msg_end[k] <= n)
			k++;
		p.expect.resize(k);
	}
	return p;
}

// Feeds `stream` to a WebSocket in the given role and collects the non-empty receive() results until closed().
// Returns what the WebSocket wrote back (pongs).
typedef std::vector<std::pair<size_t, long>> Gaps;
static std::string feed(bool isclient, const std::string& stream, int chunk, std::vector<std::string>& got, int& empties, int* close_code = 0, const Gaps& gaps = Gaps())
{
	std::string back; // outlives the guard below (the drain helper writes into it until the guard has waited for it)
	int fds[2];
	make_pair(fds);
	PairGuard g;
	g.b = fds[1];
	auto write_all = [&stream, &gaps, chunk, fd = fds[1]] {
		size_t off = 0, n = stream.size(), gi = 0;
		while (off < n) {
			while (gi < gaps.size() && gaps[gi].first <= off) { // the peer pauses here
				if (gaps[gi].second > 0)
					usleep((useconds_t)gaps[gi].second * 1000);
				gi++;
			}
			// at most ~300 pieces: the first 256 of `chunk` bytes, the rest in 64 larger ones
			size_t k = chunk <= 0 ? n - off : off < 256 * (size_t)chunk ? std::min<size_t>((size_t)chunk, n - off) : std::min<size_t>(std::max<size_t>((size_t)chunk, n / 64), n - off);
			if (gi < gaps.size() && gaps[gi].first < off + k)
				k = gaps[gi].first - off;
			ssize_t w = send(fd, stream.data() + off, k, MSG_NOSIGNAL);
			if (w <= 0)
				break;
			off += (size_t)w;
			if (chunk > 0)
				sched_yield();
		}
		shutdown(fd, SHUT_WR);
	};
	if (chunk > 0 || stream.size() > 32768 || !gaps.empty()) {
		g.writing = true;
		writer().start(write_all);
	}
	else
		write_all();
	// what the WebSocket writes back (pongs) is drained concurrently: a peer that never reads would block its sender
	g.draining = true;
	drainer().start([&back, fd = fds[1]] {
		char buf[65536];
		for (;;) {
			ssize_t r = recv(fd, buf, sizeof buf, 0);
			if (r <= 0)
				break;
			back.append(buf, (size_t)r);
		}
	});
	{
		WebSocket ws(Socket(fds[0]), isclient);
		seed_masks(ws, vf::fnv(stream));
		size_t iter = 0, bound = stream.size() / 2 + 8;
		while (!ws.closed()) {
			WebSocketMsg m = ws.receive();
			VF_CHECK(m.length() >= 0, "receive() returned a message of length ", m.length());
			{
				std::string w;
				VF_CHECK(msg_check(m, w), w, " (result ", iter, ", role ", isclient ? "client" : "server", ")");
			}
			if (m.length() > 0) {
				got.push_back(S(m));
				unsigned sum = 0; // every byte of the result is live storage
				for (char ch : got.back())
					sum += (unsigned char)ch;
				(void)sum;
			}
			else
				empties++;
			VF_CHECK(++iter <= bound, "receive() loop does not end: ", iter, " results from a stream of ", stream.size(), " bytes");
		}
		if (close_code)
			*close_code = ws.code();
	}
	if (g.writing)
		writer().wait();
	drainer().wait();
	g.writing = g.draining = false;
	return back;
}

static void run_in(const vf::Case& c)
{
	InPlan p = build_in(c);
	std::vector<std::string> got;
	int empties = 0;
	std::string back = feed(p.isclient, p.stream, p.chunk, got, empties, 0, p.gaps);
	vf::stats().cls("in.empty_results", (uint64_t)empties);
	if (!p.close_reason.empty() && got.size() == p.expect.size() + 1 && got.back() == p.close_reason) {
		// the library hands the reason text of a close frame out through receive() (by design); it went through
		// the same accessor checks as every message
		got.pop_back();
		vf::stats().cls("in.close_reason_returned_by_receive");
	}
	// what the WebSocket wrote meanwhile must be pongs (informational: the property does not state the pong contents)
	{
		size_t pos = 0, k = 0;
		ref::WsFrame f;
		bool ok = true;
		std::vector<std::string> np;
		for (auto& s : p.pings)
			if (!s.empty())
				np.push_back(s);
		while (pos < back.size() && ref::ws_decode(back, pos, f) == ref::WS_OK) {
			if (f.opcode != 10 || k >= np.size() || f.payload != np[k])
				ok = false;
			k++;
		}
		if (!back.empty())
			vf::stats().cls(ok && pos == back.size() ? "in.pongs_match_pings" : "in.pongs_differ");
	}
	size_t n = p.expect.size();
	for (size_t i = 0; i < n && i < got.size(); i++)
		VF_CHECK(got[i] == p.expect[i], "message ", i, " of ", n, " (role ", p.isclient ? "client" : "server", "): ", diff(got[i], p.expect[i]),
		         got.size() != n ? vf::str("; ", got.size(), " messages delivered instead of ", n) : std::string());
	VF_CHECK(got.size() >= n, "only ", got.size(), " of ", n, " messages delivered");
	if (p.cut < 0)
		VF_CHECK(got.size() == n, got.size(), " messages delivered, ", n, " sent (extra one has ", got[n].size(), " bytes)");
	else if (got.size() > n) {
		// the stream ended inside a message: what is delivered of it must be bytes the peer sent
		vf::stats().cls("in.partial_delivery_after_cut");
		VF_CHECK(got.size() == n + 1, got.size() - n, " extra messages delivered after the last complete one");
		std::string full = n < p.expect_all.size() ? p.expect_all[n] : std::string();
		VF_CHECK(got[n].size() <= full.size() && full.compare(0, got[n].size(), got[n]) == 0, "stream cut inside message ", n, ": ", got[n].size(),
		         " bytes delivered that are not a prefix of the ", full.size(), "-byte message being sent (bytes the peer never sent: uninitialised memory)");
	}
}

// ---------------------------------------------------------------------------------------------------------------
// Part B (outbound): bytes produced by send() decoded by the reference codec
// ops:  role isclient maskseed
//       s type len seed api         (type 0 text, 1 binary, 2 ping, 3 pong)
//       slow delay_ms timer_us      (the reader starts delay_ms late; an interval timer of timer_us fires in the sending
//                                    thread while it sends: the kernel completes the blocking send() calls in pieces)
static void run_out(const vf::Case& c)
{
	bool isclient = false;
	uint64_t maskseed = 1;
	long delay_ms = 0, timer_us = 0;
	struct Snd {
		int type;
		std::string pl;
		int api;
	};
	std::vector<Snd> sends;
	for (auto& o : c.ops) {
		if (o.name == "role") {
			isclient = (o.i(0) & 1) != 0;
			maskseed = (uint64_t)o.i(1, 1);
		}
		else if (o.name == "slow") {
			delay_ms = clamp_delay(o.i(0));
			timer_us = clamp_timer(o.i(1));
		}
		else if (o.name == "s") {
			Snd s;
			s.type = (int)(o.i(0) & 3);
			long long len = clamp_len(o.i(1), s.type >= 2 ? 125 : MAX_LEN);
			s.pl = gen_payload(s.type == 0 ? 0 : 1, len, (uint64_t)o.i(2));
			s.api = (int)(o.i(3) & 0xff);
			sends.push_back(s);
		}
	}
	std::string wire; // outlives the guard below
	int fds[2];
	make_pair(fds);
	PairGuard g;
	g.b = fds[1];
	g.draining = true;
	drainer().start([&wire, delay_ms, fd = fds[1]] {
		char buf[65536];
		if (delay_ms > 0)
			usleep((useconds_t)delay_ms * 1000); // the sender fills the socket buffer and blocks meanwhile
		for (;;) {
			ssize_t r = recv(fd, buf, sizeof buf, 0);
			if (r <= 0)
				break;
			wire.append(buf, (size_t)r);
		}
	});
	{
		WebSocket ws(Socket(fds[0]), isclient);
		seed_masks(ws, maskseed);
		{
			TimerScope timer(timer_us, fds[0]);
			for (auto& s : sends) {
				if (s.type < 2)
					do_send(ws, s.type, s.pl, s.api);
				else
					ws.send((const byte*)s.pl.data(), (int)s.pl.size(), s.type == 2 ? WebSocket::FRAME_PING : WebSocket::FRAME_PONG);
			}
		}
		ws.close();
	}
	drainer().wait();
	g.draining = false;
	size_t pos = 0;
	for (size_t i = 0; i < sends.size(); i++) {
		ref::WsFrame f;
		size_t at = pos;
		VF_CHECK(ref::ws_decode(wire, pos, f) == ref::WS_OK, "send #", i, " (", sends[i].pl.size(), " bytes): no complete frame at offset ", at, " of ", wire.size(), " bytes written");
		static const int opc[4] = {1, 2, 9, 10};
		VF_CHECK(f.fin && f.rsv == 0, "send #", i, ": FIN ", f.fin, " RSV ", f.rsv);
		VF_CHECK(f.opcode == opc[sends[i].type], "send #", i, ": opcode ", f.opcode, " want ", opc[sends[i].type]);
		VF_CHECK(f.declared == sends[i].pl.size(), "send #", i, ": declared length ", f.declared, " for a payload of ", sends[i].pl.size());
		VF_CHECK(f.minimal, "send #", i, ": length ", f.declared, " encoded in form ", f.form, " (not the minimal one)");
		VF_CHECK(f.masked == isclient, "send #", i, ": mask bit ", f.masked, " in role ", isclient ? "client" : "server");
		VF_CHECK(f.payload == sends[i].pl, "send #", i, ": payload after unmasking: ", diff(f.payload, sends[i].pl));
		if (f.masked && (f.key[0] == 0 || f.key[1] == 0 || f.key[2] == 0 || f.key[3] == 0))
			vf::stats().cls("out.key_with_zero_byte");
	}
	VF_CHECK(pos == wire.size(), wire.size() - pos, " extra bytes written after the last frame");
}

// ---------------------------------------------------------------------------------------------------------------
// handshake through a raw TCP client
// ops:  hs via namecase | key16
//       m len seed masked key        (echoed by the server after the handshake)
struct Fd {
	int fd = -1;
	~Fd()
	{
		if (fd >= 0)
			close(fd);
	}
};

static bool raw_write(int fd, const std::string& s)
{
	size_t off = 0;
	while (off < s.size()) {
		ssize_t w = send(fd, s.data() + off, s.size() - off, MSG_NOSIGNAL);
		if (w <= 0)
			return false;
		off += (size_t)w;
	}
	return true;
}

// reads more bytes into buf; false on EOF/error/hang bound
static bool raw_more(int fd, std::string& buf)
{
	pollfd p;
	p.fd = fd;
	p.events = POLLIN;
	if (poll(&p, 1, HANG_S * 1000) <= 0)
		return false;
	char b[65536];
	ssize_t r = recv(fd, b, sizeof b, 0);
	if (r <= 0)
		return false;
	buf.append(b, (size_t)r);
	return true;
}

static std::string lower(std::string s)
{
	for (auto& ch : s)
		ch = (char)tolower((unsigned char)ch);
	return s;
}

static void run_hs_(const vf::Case& c);
static void run_hs(const vf::Case& c)
{
	if (g_hung && g_searching) {
		vf::stats().discarded++;
		return;
	}
	double t_start = vf::now();
	try {
		run_hs_(c);
	}
	catch (const vf::Failure&) {
		if (vf::now() - t_start > HANG_S / 2)
			g_hung = true;
		throw;
	}
}
// Connection header values of an RFC 6455 opening handshake ("MUST include the upgrade token", matched case-insensitively,
// in a comma-separated list with optional white space).  `asserted`: RFC-valid AND accepted by the unchanged server
// (probed); the others are RFC-valid too but the library is pickier than the RFC about them (exact "Upgrade" token,
// exactly ", " between tokens, exact "websocket"): they are sent and their outcome is only counted.
struct HsVariant {
	const char* value;
	bool asserted;
};
static const HsVariant HS_CONNECTION[] = {
    {"Upgrade", true},
    {"keep-alive, Upgrade", true},
    {"Upgrade, keep-alive", true},
    {"Keep-Alive, Upgrade", true},
    {"TE, keep-alive, Upgrade", true},
    {"keep-alive, Upgrade, TE", true},
    {"keep-alive,Upgrade", false},
    {"upgrade", false},
    {"keep-alive, upgrade", false},
    {"UPGRADE", false},
    {"keep-alive,  Upgrade", false},
    {"Upgrade ,keep-alive", false},
};
static const int N_HS_CONNECTION = sizeof HS_CONNECTION / sizeof HS_CONNECTION[0];
static const HsVariant HS_UPGRADE[] = {{"websocket", true}, {"WebSocket", false}, {"WEBSOCKET", false}};
static const int N_HS_UPGRADE = 3;
static const char* HS_EXTRA[] = {"Origin: http://127.0.0.1", "Sec-WebSocket-Protocol: chat", "User-Agent: Mozilla/5.0 (X11; Linux x86_64; rv:109.0) Gecko/20100101 Firefox/115.0",
                                 "Pragma: no-cache", "Cache-Control: no-cache", "Accept-Language: en-US,en;q=0.5", "Sec-WebSocket-Extensions: permessage-deflate"};
static const int N_HS_EXTRA = 7;

static std::string name_case(const std::string& n, int mode)
{
	std::string r = n;
	for (size_t i = 0; i < r.size(); i++) {
		unsigned char ch = (unsigned char)r[i];
		if (mode == 1 || (mode == 3 && i % 2 == 0))
			r[i] = (char)tolower(ch);
		else if (mode == 2 || mode == 3)
			r[i] = (char)toupper(ch);
	}
	return r;
}

// ops:  hs via namecase connvar upvar extras order | key16
//       m len seed masked key        (echoed by the server after the handshake)
//       hc 1                         (half close: all m are sent at once, then shutdown(SHUT_WR), then the echoes are read)
static void run_hs_(const vf::Case& c)
{
	Servers& sv = servers();
	int via = 0, namecase = 0, connvar = 0, upvar = 0;
	long long extras = 0, order = 0;
	std::string key;
	struct M {
		long long len;
		uint64_t seed;
		bool masked;
		long long key;
	};
	std::vector<M> msgs;
	bool halfclose = false;
	for (auto& o : c.ops) {
		if (o.name == "hs") {
			via = (int)(o.i(0) & 1);
			namecase = (int)(((o.i(1) % 4) + 4) % 4);
			connvar = (int)(((o.i(2) % N_HS_CONNECTION) + N_HS_CONNECTION) % N_HS_CONNECTION);
			upvar = (int)(((o.i(3) % N_HS_UPGRADE) + N_HS_UPGRADE) % N_HS_UPGRADE);
			extras = o.i(4) < 0 ? -o.i(4) : o.i(4);
			order = o.i(5) < 0 ? -o.i(5) : o.i(5);
			key = o.str(0);
		}
		else if (o.name == "m")
			msgs.push_back(M{clamp_len(o.i(0), 200000), (uint64_t)o.i(1), true, o.i(3)});
		else if (o.name == "hc")
			halfclose = (o.i(0) & 1) != 0;
	}
	if (halfclose) { // everything is written before anything is read: keep it below the socket buffers
		if (msgs.size() > 40)
			msgs.resize(40);
		for (auto& m : msgs)
			m.len = std::min<long long>(m.len, 2000);
	}
	key.resize(16, 'k');
	std::string key64 = ref::base64(key);
	Fd s;
	s.fd = socket(AF_INET, SOCK_STREAM, 0);
	sockaddr_in a;
	memset(&a, 0, sizeof a);
	a.sin_family = AF_INET;
	a.sin_port = htons((uint16_t)(via ? sv.port_http : sv.port_direct));
	a.sin_addr.s_addr = htonl(INADDR_LOOPBACK);
	VF_CHECK(s.fd >= 0 && connect(s.fd, (sockaddr*)&a, sizeof a) == 0, "raw client cannot connect");
	set_timeouts(s.fd);
	bool asserted = HS_CONNECTION[connvar].asserted && HS_UPGRADE[upvar].asserted;
	if (getenv("VF_HS_ASSERT_ALL")) // development aid: list what the server under test accepts
		asserted = true;
	std::vector<std::string> lines;
	lines.push_back(name_case("Host", namecase) + ": 127.0.0.1:" + std::to_string(ntohs(a.sin_port)));
	lines.push_back(name_case("Upgrade", namecase) + ": " + HS_UPGRADE[upvar].value);
	lines.push_back(name_case("Connection", namecase) + ": " + HS_CONNECTION[connvar].value);
	lines.push_back(name_case("Sec-WebSocket-Key", namecase) + ": " + key64);
	lines.push_back(name_case("Sec-WebSocket-Version", namecase) + ": 13");
	for (int i = 0; i < N_HS_EXTRA; i++)
		if (extras & (1 << i))
			lines.push_back(HS_EXTRA[i]);
	if (order) { // header fields may come in any order
		ref::SplitMix r((uint64_t)order);
		for (size_t i = lines.size(); i > 1; i--)
			std::swap(lines[i - 1], lines[r.below(i)]);
	}
	std::string req = "GET /chat HTTP/1.1\r\n";
	for (auto& l : lines)
		req += l + "\r\n";
	req += "\r\n";
	VF_CHECK(raw_write(s.fd, req), "raw client cannot send the request");
	std::string buf;
	size_t he;
	while ((he = buf.find("\r\n\r\n")) == std::string::npos)
		VF_CHECK(raw_more(s.fd, buf), "no complete handshake response (got ", vf::show(buf), ")");
	std::string head = buf.substr(0, he + 2);
	buf.erase(0, he + 4);
	if (!asserted && head.compare(0, 12, "HTTP/1.1 101") != 0) {
		// RFC-valid spelling the unchanged library does not accept either: an observation, not a failure
		vf::stats().cls(vf::str("hs.observed_refused[Connection: ", HS_CONNECTION[connvar].value, " / Upgrade: ", HS_UPGRADE[upvar].value, "]"));
		return;
	}
	if (!asserted)
		vf::stats().cls(vf::str("hs.observed_accepted[Connection: ", HS_CONNECTION[connvar].value, " / Upgrade: ", HS_UPGRADE[upvar].value, "]"));
	VF_CHECK(head.compare(0, 12, "HTTP/1.1 101") == 0, "valid handshake refused (Connection: ", HS_CONNECTION[connvar].value, ", Upgrade: ", HS_UPGRADE[upvar].value,
	         via ? ", through HttpServer::link" : "", "): status line ", vf::show(head.substr(0, head.find("\r\n"))), "; request was ", vf::show(req, 600));
	std::string accept;
	bool found = false;
	size_t p = head.find("\r\n") + 2;
	while (p < head.size()) {
		size_t e = head.find("\r\n", p);
		std::string line = head.substr(p, e - p);
		p = e + 2;
		size_t col = line.find(':');
		if (col == std::string::npos)
			continue;
		if (lower(line.substr(0, col)) == "sec-websocket-accept") {
			accept = line.substr(col + 1);
			while (!accept.empty() && (accept[0] == ' ' || accept[0] == '\t'))
				accept.erase(0, 1);
			while (!accept.empty() && (accept.back() == ' ' || accept.back() == '\t'))
				accept.pop_back();
			found = true;
		}
	}
	VF_CHECK(found, "no Sec-WebSocket-Accept header in ", vf::show(head, 400));
	std::string want = ref::ws_accept(key64);
	VF_CHECK(accept == want, "Sec-WebSocket-Accept for key ", key64, " is ", vf::show(accept), ", RFC 6455 prescribes ", want, via ? " (through HttpServer::link)" : "");
	// the upgraded connection works: one echo per message, frames checked by the reference codec
	ref::WsFrame f;
	f.opcode = 2;
	f.masked = true;
	f.key[0] = 9, f.key[1] = 0, f.key[2] = 7, f.key[3] = 1;
	f.payload = halfclose ? "H" : "E";
	VF_CHECK(raw_write(s.fd, ref::ws_encode(f)), "cannot send");
	if (halfclose) {
		// the peer sends all its requests, closes its sending direction (TCP half close) and then reads the replies:
		// every reply the application sent must arrive
		std::string all;
		for (size_t i = 0; i < msgs.size(); i++) {
			f.payload = gen_payload(1, msgs[i].len, msgs[i].seed);
			key_bytes(msgs[i].key, (int)i, f.key);
			all += ref::ws_encode(f);
		}
		VF_CHECK(raw_write(s.fd, all), "cannot send the requests");
		shutdown(s.fd, SHUT_WR);
		size_t got = 0;
		for (;; got++) {
			ref::WsFrame r;
			size_t pos = 0;
			bool eof = false;
			while (ref::ws_decode(buf, pos, r) != ref::WS_OK)
				if (!raw_more(s.fd, buf)) {
					eof = true;
					break;
				}
			if (eof)
				break;
			buf.erase(0, pos);
			VF_CHECK(got < msgs.size(), "an extra frame (", r.payload.size(), " bytes, opcode ", r.opcode, ") after the ", msgs.size(), " replies");
			std::string pl = gen_payload(1, msgs[got].len, msgs[got].seed);
			VF_CHECK(r.fin && r.opcode == 2 && !r.masked && r.minimal, "reply frame ", got, ": FIN ", r.fin, " opcode ", r.opcode, " masked ", r.masked, " minimal ", r.minimal);
			VF_CHECK(r.payload == pl, "reply ", got, " of ", msgs.size(), ": ", diff(r.payload, pl));
		}
		VF_CHECK(got == msgs.size(), "the peer sent ", msgs.size(), " requests, half-closed and then read: only ", got, " replies arrived before the connection ended", via ? " (through HttpServer::link)" : "");
		return;
	}
	for (size_t i = 0; i < msgs.size(); i++) {
		std::string pl = gen_payload(1, msgs[i].len, msgs[i].seed);
		f.payload = pl;
		key_bytes(msgs[i].key, 0, f.key);
		VF_CHECK(raw_write(s.fd, ref::ws_encode(f)), "cannot send message ", i);
		ref::WsFrame r;
		size_t pos = 0;
		while (ref::ws_decode(buf, pos, r) != ref::WS_OK)
			VF_CHECK(raw_more(s.fd, buf), "echo of message ", i, " (", pl.size(), " bytes) did not arrive: connection closed or silent with ", buf.size(), " bytes pending");
		buf.erase(0, pos);
		VF_CHECK(r.fin && r.opcode == 2 && !r.masked && r.minimal, "echo frame: FIN ", r.fin, " opcode ", r.opcode, " masked ", r.masked, " minimal ", r.minimal);
		VF_CHECK(r.payload == pl, "echo of message ", i, ": ", diff(r.payload, pl));
	}
	f.opcode = 8;
	f.payload = "";
	raw_write(s.fd, ref::ws_encode(f));
}

// ---------------------------------------------------------------------------------------------------------------
// Part C: hostile peer
// ops:  role isclient
//       hf fin rsv opcode masked form hi lo actual seed key     header declaring (hi<<32 | lo) bytes + `actual` payload bytes
//       raw | bytes
//       cut n
static std::string build_hostile(const vf::Case& c, bool& isclient, size_t& complete_headers)
{
	std::string s;
	long long cut = -1;
	isclient = false;
	for (auto& o : c.ops) {
		if (o.name == "role")
			isclient = (o.i(0) & 1) != 0;
		else if (o.name == "raw")
			s += o.str(0);
		else if (o.name == "cut")
			cut = o.i(0) < 0 ? -o.i(0) : o.i(0);
		else if (o.name == "hf") {
			uint8_t k[4];
			key_bytes(o.i(9), 0, k);
			uint64_t decl = ((uint64_t)(uint32_t)o.i(5) << 32) | (uint32_t)o.i(6);
			int form = (int)(((o.i(4) % 3) + 3) % 3);
			bool masked = (o.i(3) & 1) != 0;
			s += ref::ws_header((o.i(0) & 1) != 0, (int)(o.i(1) & 7), (int)(o.i(2) & 15), masked, k, decl, form);
			long long actual = o.i(7) < 0 ? 0 : o.i(7) > 70000 ? 70000 : o.i(7);
			std::string pl = gen_payload(1, actual, (uint64_t)o.i(8));
			s += masked ? ref::ws_mask(pl, k) : pl;
		}
	}
	if (cut >= 0)
		s.resize((size_t)(cut % (long long)(s.size() + 1)));
	// number of complete frame headers a parser that follows the declared lengths meets
	complete_headers = 0;
	size_t pos = 0;
	ref::WsFrame f;
	while (pos < s.size()) {
		size_t at = pos;
		std::string rest = s.substr(at);
		size_t rp = 0;
		if (ref::ws_decode(rest, rp, f, true) != ref::WS_OK)
			break;
		complete_headers++;
		if (f.declared > rest.size() - f.header_len)
			break;
		pos = at + rp;
	}
	return s;
}

static void run_hostile(const vf::Case& c)
{
	bool isclient;
	size_t hdrs;
	std::string s = build_hostile(c, isclient, hdrs);
	std::vector<std::string> got;
	int empties = 0;
	std::string back = feed(isclient, s, 0, got, empties); // oracles inside: length >= 0, the loop ends, ASan
	vf::stats().cls("hostile.results_nonempty", got.size());
	// a pong echoes the payload of a ping; one that carries anything else discloses memory the peer never sent
	std::vector<std::string> pings;
	{
		size_t pos = 0;
		ref::WsFrame f;
		while (ref::ws_decode(s, pos, f) == ref::WS_OK)
			if (f.opcode == 9)
				pings.push_back(f.payload);
	}
	size_t pos = 0;
	ref::WsFrame f;
	while (ref::ws_decode(back, pos, f) == ref::WS_OK) {
		if (f.opcode != 10)
			continue;
		vf::stats().cls("hostile.pongs");
		VF_CHECK(std::find(pings.begin(), pings.end(), f.payload) != pings.end(), "the WebSocket sent a pong with ", f.payload.size(),
		         " payload bytes that are not the payload of any complete ping in the ", s.size(), "-byte stream it was sent (not sent as a ping payload: uninitialised memory disclosed or stream misparsed): ",
		         vf::show(f.payload, 24));
	}
}

void vf_run_case(const std::string& part, const vf::Case& c)
{
	if (part == "loop")
		run_loop(c);
	else if (part == "in")
		run_in(c);
	else if (part == "out")
		run_out(c);
	else if (part == "hs")
		run_hs(c);
	else if (part == "hostile")
		run_hostile(c);
}

// ---------------------------------------------------------------------------------------------------------------
// search

static bool near_boundary(long long len) { return (len >= 85 && len <= 166) || (len >= 65495 && len <= 65576); }

static std::vector<int> every_length()
{
	std::vector<int> v;
	for (int l = 1; l <= 300; l++) // includes +-40 around 125/126
		v.push_back(l);
	for (int l = 65535 - 40; l <= 65536 + 40; l++)
		v.push_back(l);
	return v;
}

static rc::Gen<int> gen_len(int maxlen)
{
	using namespace rc;
	return gen::mapcat(vf::irange<int>(0, 19), [=](int k) -> Gen<int> {
		if (k < 5)
			return gen::map(gen::pair(gen::elementOf(std::vector<int>{125, 126, 65535, 65536}), vf::irange<int>(-40, 40)),
			                [](std::pair<int, int> p) { return std::max(1, p.first + p.second); });
		if (k < 8)
			return vf::irange<int>(122, 130);
		if (k < 12)
			return vf::irange<int>(1, 300);
		if (k < 17)
			return vf::irange<int>(1, 24);
		return vf::irange<int>(1, maxlen);
	});
}

// mask keys: random, zero, keys with zero bytes, single-bit keys
static rc::Gen<long long> gen_key()
{
	using namespace rc;
	return gen::mapcat(vf::irange<int>(0, 9), [](int k) -> Gen<long long> {
		if (k < 4)
			return vf::irange<long long>(0, 0xffffffffLL);
		if (k < 5)
			return gen::just(0LL);
		if (k < 8) // 1..3 bytes forced to zero
			return gen::map(gen::pair(vf::irange<long long>(0, 0xffffffffLL), vf::irange<int>(1, 14)), [](std::pair<long long, int> p) {
				long long v = p.first | 0x01010101LL;
				for (int b = 0; b < 4; b++)
					if (p.second & (1 << b))
						v &= ~(0xffLL << (8 * b));
				return v;
			});
		return gen::elementOf(std::vector<long long>{1, 0x01000000LL, 0x80000000LL, 0xffffffffLL, 0x000000ffLL, 0xff000000LL, 0x00ffff00LL});
	});
}

static rc::Gen<long long> gen_split()
{
	using namespace rc;
	return gen::oneOf(vf::irange<long long>(0, 9), vf::irange<long long>(-9, -1), vf::irange<long long>(0, 70000), vf::irange<long long>(120, 132));
}

static rc::Gen<vf::Op> gen_msg_op(int maxlen)
{
	using namespace rc;
	return gen::map(gen::tuple(vf::irange<int>(0, 3), gen_len(maxlen), vf::irange<int>(0, 1 << 30), vf::irange<int>(0, 1), gen_key(),
	                           gen::weightedElement<int>({{4, 1}, {3, 2}, {2, 3}, {2, 4}}), gen_split(), gen_split(), gen_split(), vf::irange<int>(0, 80)),
	                [](const std::tuple<int, int, int, int, long long, int, long long, long long, long long, int>& t) {
		                vf::Op o("msg");
		                int nm = std::get<9>(t) < 54 ? 0 : std::get<9>(t); // mostly minimal length forms
		                o.a = {std::get<0>(t), std::get<1>(t), std::get<2>(t), std::get<3>(t), std::get<4>(t), std::get<5>(t), std::get<6>(t), std::get<7>(t), std::get<8>(t), nm};
		                return o;
	                });
}

static rc::Gen<vf::Op> gen_ctl_op()
{
	using namespace rc;
	return gen::map(gen::tuple(vf::irange<int>(0, 3), gen::weightedOneOf<int>({{2, vf::irange<int>(0, 125)}, {1, gen::elementOf(std::vector<int>{0, 1, 4, 125})}}), vf::irange<int>(0, 1 << 30),
	                           vf::irange<int>(0, 1), gen_key(), vf::irange<int>(0, 4)),
	                [](const std::tuple<int, int, int, int, long long, int>& t) {
		                vf::Op o("ctl");
		                o.a = {std::get<0>(t) == 3 ? 1 : 0, std::get<1>(t), std::get<2>(t), std::get<3>(t), std::get<4>(t), std::get<5>(t)};
		                return o;
	                });
}

static rc::Gen<vf::Case> gen_in_case(int maxlen)
{
	using namespace rc;
	return gen::map(gen::tuple(vf::irange<int>(0, 1), gen::weightedElement<int>({{6, 0}, {1, 1}, {1, 3}, {1, 7}, {1, 1000}}),
	                           gen::container<std::vector<vf::Op>>(gen::weightedOneOf<vf::Op>({{3, gen_msg_op(maxlen)}, {1, gen_ctl_op()}})), vf::irange<int>(0, 3)),
	                [](const std::tuple<int, int, std::vector<vf::Op>, int>& t) {
		                vf::Case c;
		                c.add(vf::Op("role", {std::get<0>(t), std::get<1>(t)}));
		                for (auto& o : std::get<2>(t))
			                c.add(o);
		                c.add(vf::Op("end", {std::get<3>(t)}));
		                return c;
	                });
}

static void classify_in(const vf::Case& c)
{
	InPlan p = build_in(c);
	auto& st = vf::stats();
	if (p.nontrivial)
		st.nt(vf::fnv(vf::serialize(c)));
	st.cls(p.isclient ? "in.role_client" : "in.role_server");
	st.cls("in.messages", p.expect.size());
	st.cls("in.masked_msgs", (uint64_t)p.masked);
	st.cls("in.unmasked_msgs", (uint64_t)p.unmasked);
	if (p.nfrag_max > 1)
		st.cls("in.fragmented_case");
	st.cls("in.ctl_inside_fragmented", (uint64_t)p.ctl_inside);
	st.cls("in.ctl_between", (uint64_t)p.ctl_between);
	st.cls("in.nonminimal_length_frames", (uint64_t)p.nonminimal);
	st.cls("in.empty_fragments", (uint64_t)p.empty_frag);
	st.cls("in.frames_key_with_zero_byte", (uint64_t)p.zero_key_byte);
	if (p.chunk > 0)
		st.cls("in.delivered_in_chunks");
	st.cls("in.text_messages_with_0x00", (uint64_t)p.text_with_nul);
	st.cls("in.binary_messages_with_0x00", (uint64_t)p.binary_with_nul);
	if (!p.close_reason.empty())
		st.cls("in.close_frame_with_reason_text");
	st.cls("in.pause>5s_between_fragments", (uint64_t)p.gap_between_fragments);
	st.cls("in.pause>5s_between_messages", (uint64_t)p.gap_between_messages);
	st.cls("in.pause>5s_inside_a_frame", (uint64_t)p.gap_inside_frame);
	for (auto& o : c.ops)
		if (o.name == "msg")
			st.cls(o.i(0) & 1 ? (o.i(5) > 1 ? "in.binary_fragmented" : "in.binary_single_frame") : (o.i(5) > 1 ? "in.text_fragmented" : "in.text_single_frame"));
	for (auto& m : p.expect) {
		size_t l = m.size();
		st.cls(l < 126 ? (l >= 85 ? "in.len_85..125" : "in.len_1..84") : l < 65536 ? (l <= 166 ? "in.len_126..166" : l >= 65495 ? "in.len_65495..65535" : "in.len_mid16") : l <= 65576 ? "in.len_65536..65576" : "in.len_big64");
	}
}

static bool run1(const std::string& part, const vf::Case& c) { return vf::runner().run(part, c); }

// reuse of one client WebSocket object: sessions after the first, and what the reused object has to RECEIVE
static void classify_reuse(const vf::Case& c)
{
	std::vector<Session> ss = loop_sessions(c);
	auto& st = vf::stats();
	if (ss.size() < 2)
		return;
	st.cls("loop.reuse.cases");
	st.cls("loop.reuse.sessions_after_close", ss.size() - 1);
	for (size_t k = 1; k < ss.size(); k++) {
		st.cls(ss[k].via ? "loop.reuse.via_httpserver_link" : "loop.reuse.via_websocketserver");
		for (auto& m : ss[k].sc->steps) {
			if (m.dir == 0)
				st.cls("loop.reuse.client_sends");
			else
				st.cls(m.len < 126 ? "loop.reuse.client_receives_len7" : m.len < 65536 ? "loop.reuse.client_receives_len16" : "loop.reuse.client_receives_len64");
		}
	}
}

// receive styles of the two ends and full duplex steps
static void classify_styles(const vf::Case& c)
{
	auto& st = vf::stats();
	for (auto& se : loop_sessions(c)) {
		st.cls(std::string("loop.style.client_") + STYLE_NAME[se.cstyle]);
		st.cls(std::string("loop.style.server_") + STYLE_NAME[se.sstyle_]);
		if (se.cstyle || se.sstyle_)
			st.cls("loop.style.messages_in_nondefault_sessions", se.sc->steps.size());
		for (auto& m : se.sc->steps)
			if (m.dir == 3) {
				st.cls("loop.duplex_steps");
				st.cls("loop.duplex_messages", (uint64_t)(m.count + m.count2));
			}
	}
}

static const unsigned long long HOSTILE_LENGTHS[][2] = {
    // {form, declared}
    {0, 0}, {0, 1}, {0, 5}, {0, 125},
    {1, 0}, {1, 5}, {1, 126}, {1, 65535},
    {2, 0}, {2, 5}, {2, 65536},
    {2, 0x7fffffffULL}, {2, 0x80000000ULL}, {2, 0x80000005ULL}, {2, 0xffffffffULL}, {2, 0xfffffffbULL},
    {2, 0x100000000ULL}, {2, 0x100000005ULL}, {2, 0x180000000ULL}, {2, 0x1fffffffbULL},
    {2, 0x8000000000000000ULL}, {2, 0x8000000000000005ULL}, {2, 0xffffffffffffffffULL}, {2, 0x7fffffffffffffffULL},
    {2, 0xffffffff80000000ULL}, {2, 0x7fffffff80000003ULL},
};
static const int N_HOSTILE_LENGTHS = sizeof HOSTILE_LENGTHS / sizeof HOSTILE_LENGTHS[0];

static vf::Op hf_op(int fin, int rsv, int opcode, int masked, int form, unsigned long long decl, int actual, int seed, long long key)
{
	vf::Op o("hf");
	o.a = {fin, rsv, opcode, masked, form, (long long)(decl >> 32), (long long)(decl & 0xffffffffULL), actual, seed, key};
	return o;
}

// runs the stream of `c` (ops without a cut) uncut and cut at every byte offset; false on the first failure
static bool all_cuts(const std::string& part, const vf::Case& c, size_t len, uint64_t& ran)
{
	for (size_t k = 0; k <= len; k++) {
		vf::Case cc = c;
		if (k < len)
			cc.add(vf::Op("cut", {(long long)k}));
		if (!run1(part, cc))
			return false;
		ran++;
	}
	return true;
}

void vf_search(const vf::Args& a)
{
	using namespace rc;
	g_searching = true;
	{
		std::string e = ref::ws_selfcheck();
		if (!e.empty()) {
			printf("INFRA reference codec self-check failed: %s\n", e.c_str());
			exit(2);
		}
	}
	auto& st = vf::stats();
	double t0 = vf::now();
	auto lap = [&](const char* what) { printf("[time] %-12s %.1f s (log only)\n", what, vf::now() - t0); t0 = vf::now(); };
	ref::SplitMix rng(a.seed * 7919 + 13);
	const std::vector<int> lens = every_length();

	// ---- A1: every length x {text, binary} x {c->s, s->c, echo}, 20 messages per connection
	auto sec_A1 = [&]() {
		std::vector<vf::Op> all;
		for (int dir = 0; dir < 3; dir++)
			for (int type = 0; type < 2; type++)
				for (int l : lens)
					all.push_back(vf::Op("m", {dir, type, l, (long long)rng.below(1 << 30), (long long)rng.below(3)}));
		// interleave directions inside a connection: stride through the list
		size_t n = all.size(), stride = 383; // coprime with n = 6 * 382
		uint64_t cases = 0;
		for (size_t i = 0, ci = 0; i < n; ci++) {
			vf::Case c;
			c.add(vf::Op("conn", {(long long)(ci & 1)}));
			for (int k = 0; k < 20 && i < n; k++, i++)
				c.add(all[(i * stride) % n]);
			if ((int)(ci % (size_t)a.workers) != a.worker)
				continue;
			if (!run1("loop", c))
				return;
			cases++;
			st.nt(vf::fnv(vf::serialize(c)));
			st.cls("loop.messages", c.ops.size() - 1);
			if (ci == 0)
				st.sample("loop: " + vf::serialize(c));
		}
		st.part("loop.every_length(1..300,65495..65576)x{text,binary}x{c2s,s2c,echo}", cases, false);
	};
	// ---- A2: generated sequences
	auto sec_A2 = [&]() {
		auto mop = gen::map(gen::tuple(vf::irange<int>(0, 2), vf::irange<int>(0, 1), gen_len(70000), vf::irange<int>(0, 1 << 30), vf::irange<int>(0, 2)),
		                    [](const std::tuple<int, int, int, int, int>& t) {
			                    return vf::Op("m", {std::get<0>(t), std::get<1>(t), std::get<2>(t), std::get<3>(t), std::get<4>(t)});
		                    });
		auto style = gen::weightedElement<int>({{6, 0}, {1, 1}, {1, 2}, {1, 3}, {1, 4}});
		auto cop = gen::map(gen::tuple(vf::irange<int>(0, 1), style, style), [](const std::tuple<int, int, int>& v) {
			return vf::Op("conn", {std::get<0>(v), std::get<1>(v), std::get<2>(v)}); // close() + connect() on the same object
		});
		auto g = gen::map(gen::pair(cop, gen::nonEmpty(gen::container<std::vector<vf::Op>>(gen::weightedOneOf<vf::Op>({{8, mop}, {1, cop}})))), [](const std::pair<vf::Op, std::vector<vf::Op>>& p) {
			vf::Case c;
			c.add(p.first);
			for (size_t i = 0; i < p.second.size() && i < 20; i++)
				c.add(p.second[i]);
			return c;
		});
		vf::check_cases("loop", a.n(1000, 12000), 20, g, [&](const vf::Case& c) {
			bool nt = false;
			classify_reuse(c);
			classify_styles(c);
			for (auto& o : c.ops)
				if (o.name == "m") {
					if (near_boundary(o.i(2)))
						nt = true;
					st.cls(o.i(0) == 0 ? "loop.c2s" : o.i(0) == 1 ? "loop.s2c" : "loop.echo");
					st.cls(o.i(2) < 126 ? "loop.len7" : o.i(2) < 65536 ? "loop.len16" : "loop.len64");
				}
			if (nt)
				st.nt(vf::fnv(vf::serialize(c)));
			st.cls(c.ops[0].i(0) ? "loop.via_httpserver_link" : "loop.via_websocketserver");
		});
	};
	// ---- A3: big messages
	auto sec_A3 = [&]() {
		std::vector<long long> big = {70000, 200000};
		if (a.quick())
			big.push_back(1 << 20);
		else
			for (long long b : {1ll << 20, (1ll << 20) + 1, 2ll << 20, 4ll << 20, (4ll << 20) - 1})
				big.push_back(b);
		for (size_t i = 0; i < big.size(); i++) {
			if ((int)(i % (size_t)a.workers) != a.worker)
				continue;
			vf::Case c;
			c.add(vf::Op("conn", {(long long)(i & 1)}));
			c.add(vf::Op("m", {0, 1, big[i], (long long)rng.below(1 << 30), 0}));
			c.add(vf::Op("m", {1, 0, big[i], (long long)rng.below(1 << 30), 1}));
			c.add(vf::Op("m", {2, 1, big[i] - 3, (long long)rng.below(1 << 30), 2}));
			if (!run1("loop", c))
				return;
			st.nt(vf::fnv(vf::serialize(c)));
			st.cls("loop.big_cases");
		}
		// big client->server messages to a server that starts reading late, interval timer in the sending (main) thread
		long nslow = a.n(1, 6);
		uint64_t ticks0 = (uint64_t)g_ticks;
		for (long k = 0; k < nslow; k++) {
			vf::Case c;
			c.add(vf::Op("conn", {(long long)((k + a.worker) & 1)}));
			long long len = k % 2 == 0 ? (1 << 20) + 7 * a.worker : (2 << 20) - a.worker;
			c.add(vf::Op("m", {0, 1, len, (long long)rng.below(1 << 30), (long long)rng.below(3), 100 + (long long)rng.below(151), 1000 + (long long)rng.below(2001)}));
			c.add(vf::Op("m", {0, 0, 70000, (long long)rng.below(1 << 30), 1, 0, 1500}));
			c.add(vf::Op("m", {1, 1, 126, (long long)rng.below(1 << 30), 0}));
			if (!run1("loop", c))
				return;
			st.nt(vf::fnv(vf::serialize(c)));
			st.cls("loop.late_server_with_timer_cases");
		}
		st.cls("loop.timer_ticks_while_sending", (uint64_t)g_ticks - ticks0);
	};

	// ---- A4: one client WebSocket object reused: connect, exchange, close(), connect() again (same or other server),
	//          several rounds; in every round the client RECEIVES lengths on both sides of 125/126 and 65535/65536
	auto sec_A4 = [&]() {
		static const int B[] = {125, 126, 127, 124, 128, 65535, 65536, 65537, 300, 1, 70000, 65534};
		const int NB = sizeof B / sizeof B[0];
		long ncases = a.n(32, 400);
		uint64_t cases = 0;
		ref::SplitMix r(a.seed * 15485863 + 77);
		for (long k = 0; k < ncases; k++) {
			vf::Case c;
			int rounds = 2 + (int)r.below(4);
			for (int rd = 0; rd < rounds; rd++) {
				c.add(vf::Op("conn", {(long long)r.below(2)}));
				int nm = 2 + (int)r.below(3);
				for (int m = 0; m < nm; m++) {
					int len = B[(k + rd * 3 + m) % NB];
					if (r.below(4) == 0)
						len = std::max(1, len + (int)r.below(5) - 2);
					// mostly server->client or echo (the reused object receives), sometimes client->server
					int dir = r.below(5) == 0 ? 0 : 1 + (int)r.below(2);
					c.add(vf::Op("m", {dir, (long long)r.below(2), len, (long long)r.below(1 << 30), (long long)r.below(3)}));
				}
			}
			if ((int)(k % a.workers) != a.worker)
				continue;
			if (!run1("loop", c))
				return;
			cases++;
			st.nt(vf::fnv(vf::serialize(c)));
			classify_reuse(c);
			if (k == 0)
				st.sample("loop (reused object): " + vf::serialize(c));
		}
		st.part("loop.reused_client_object", cases, false);
	};
	// ---- A5: receive/send styles of the endpoints: polling receivers (closed()/connected() + hasInput()), short wait()
	//          and waitData() timeouts that expire between messages, with the sender pacing itself on the echo (every
	//          frame lands on an empty queue) and streaming; full duplex with a sending and a receiving thread per end
	auto sec_A5 = [&]() {
		long reps = a.n(3, 10);
		uint64_t cases = 0;
		ref::SplitMix r(a.seed * 2750159 + (uint64_t)a.worker * 101 + 3);
		auto S = [&]() { return (long long)r.below(1 << 30); };
		for (long rep = 0; rep < reps; rep++) {
			std::vector<vf::Case> cs;
			static const int PAIRS[][2] = {{1, 1}, {2, 0}, {0, 1}, {1, 3}, {3, 2}, {4, 4}, {2, 2}, {0, 4}, {3, 0}};
			for (auto& pr : PAIRS) {
				vf::Case c;
				c.add(vf::Op("conn", {(long long)r.below(2), pr[0], pr[1]}));
				c.add(vf::Op("mm", {2, (long long)r.below(2), 1 + (long long)r.below(140), S(), 0, 250, 0}));                 // paced on the echo
				c.add(vf::Op("mm", {0, (long long)r.below(2), 100 + (long long)r.below(60), S(), 0, 120, 0}));              // streaming
				c.add(vf::Op("mm", {1, (long long)r.below(2), 100 + (long long)r.below(60), S(), 0, 120, 0}));
				c.add(vf::Op("mm", {(long long)r.below(3), 1, 20, S(), 0, 25, 700 + (long long)r.below(1500)}));           // gaps longer than the short timeouts
				c.add(vf::Op("m", {2, 1, 65536 + (long long)r.below(10), S(), 0}));
				cs.push_back(c);
			}
			for (int d = 0; d < 3; d++) { // full duplex, independent streams both ways
				vf::Case c;
				c.add(vf::Op("conn", {(long long)r.below(2), d == 2 ? 1 : 0, d == 1 ? 3 : 0}));
				c.add(vf::Op("m", {2, 1, 5, S(), 0}));
				c.add(vf::Op("dx", {(long long)r.below(2), (long long)r.below(3), 1 + (long long)r.below(200), S(), 1500 + (long long)r.below(1500), 1 + (long long)r.below(200), S(), 1500 + (long long)r.below(1500)}));
				c.add(vf::Op("m", {2, 0, 126, S(), 1}));
				cs.push_back(c);
			}
			for (auto& c : cs) {
				if (!run1("loop", c))
					return;
				cases++;
				st.nt(vf::fnv(vf::serialize(c)));
				classify_styles(c);
			}
			if (rep == 0 && a.worker == 0)
				st.sample("loop (polling receivers): " + vf::serialize(cs[0]));
		}
		st.part("loop.receive_styles_and_full_duplex", cases, false);
	};
	// ---- B-in 1: every length, single frame and 2..4 fragments, both roles, masked and not
	[&]() {
		uint64_t cases = 0, idx = 0;
		for (int role = 0; role < 2; role++)
			for (int masked = 0; masked < 2; masked++)
				for (int nfrag = 1; nfrag <= 4; nfrag++) {
					if (nfrag > 1 && a.quick() && masked != role) // quick: fragmented only in the RFC's own combination
						continue;
					for (size_t i = 0; i < lens.size(); i += 10, idx++) {
						if ((int)(idx % (uint64_t)a.workers) != a.worker)
							continue;
						vf::Case c;
						c.add(vf::Op("role", {role, 0}));
						for (size_t k = i; k < i + 10 && k < lens.size(); k++) {
							long long l = lens[k];
							long long key = (long long)(rng.next() & 0xffffffffULL);
							if (k % 3 == 1)
								key &= 0xff00ffffLL;
							c.add(vf::Op("msg", {(long long)(k & 1), l, (long long)rng.below(1 << 30), masked, key, nfrag, (long long)rng.below((uint64_t)l + 1), (long long)rng.below((uint64_t)l + 1),
							                     (long long)rng.below((uint64_t)l + 1), 0}));
						}
						c.add(vf::Op("end", {(long long)(idx % 4)}));
						if (!run1("in", c))
							return;
						cases++;
						classify_in(c);
					}
				}
		st.part("in.every_length(1..300,65495..65576)x{roles}x{masked,unmasked}x{1..4 frames}", cases, false);
	}();
	lap("Bin1");
	// ---- B-in 2: generated frame scripts
	[&]() {
		int k = 0;
		vf::check_cases("in", a.n(5000, 40000), 20, gen_in_case(70000), [&](const vf::Case& c) {
			classify_in(c);
			if (++k % 401 == 7)
				st.sample("in: " + vf::serialize(c), 4);
		});
	}();
	lap("Bin2");
	// ---- B-in 3: small generated scripts cut at every byte offset
	[&]() {
		uint64_t ran = 0;
		long scripts = a.n(300, 3000);
		ref::SplitMix r(a.seed * 104729 + (uint64_t)a.worker * 31 + 5);
		for (long s = 0; s < scripts; s++) {
			vf::Case c;
			c.add(vf::Op("role", {(long long)r.below(2), 0}));
			int nmsg = 1 + (int)r.below(3);
			for (int m = 0; m < nmsg; m++) {
				if (r.below(3) == 0)
					c.add(vf::Op("ctl", {(long long)r.below(2), (long long)r.below(6), (long long)r.below(1000), (long long)r.below(2), (long long)(r.next() & 0xffffffff), (long long)r.below(5)}));
				long long len = r.below(4) == 0 ? 120 + (long long)r.below(12) : 1 + (long long)r.below(20);
				c.add(vf::Op("msg", {(long long)r.below(2), len, (long long)r.below(1 << 20), (long long)r.below(2), (long long)(r.next() & 0xffffffff), 1 + (long long)r.below(4), (long long)r.below(200),
				                     (long long)r.below(200), (long long)r.below(200), r.below(4) == 0 ? (long long)r.below(81) : 0}));
			}
			c.add(vf::Op("end", {(long long)r.below(3)}));
			InPlan p = build_in(c);
			uint64_t before = ran;
			if (!all_cuts("in", c, p.stream.size(), ran))
				return;
			st.nt_counted(ran - before);
		}
		st.cls("in.cut_cases", ran);
		st.part("in.small_scripts_cut_at_every_offset", ran, false);
	}();

	lap("Bin3");
	// ---- B-out 1: every length, both roles, text/binary, all send() overloads
	[&]() {
		uint64_t cases = 0, idx = 0;
		for (int role = 0; role < 2; role++)
			for (size_t i = 0; i < lens.size(); i += 10, idx++) {
				if ((int)(idx % (uint64_t)a.workers) != a.worker)
					continue;
				vf::Case c;
				c.add(vf::Op("role", {role, (long long)rng.below(1 << 30)}));
				for (size_t k = i; k < i + 10 && k < lens.size(); k++)
					for (int type = 0; type < 2; type++)
						c.add(vf::Op("s", {type, lens[k], (long long)rng.below(1 << 30), (long long)rng.below(3)}));
				if (!run1("out", c))
					return;
				cases++;
				st.nt(vf::fnv(vf::serialize(c)));
				st.cls("out.sends", c.ops.size() - 1);
			}
		st.part("out.every_length(1..300,65495..65576)x{roles}x{text,binary}", cases, false);
	}();
	lap("Bout1");
	// ---- B-out 2: generated send sequences
	[&]() {
		auto sop = gen::map(gen::tuple(gen::weightedElement<int>({{5, 0}, {5, 1}, {1, 2}, {1, 3}}), gen_len(a.quick() ? 70000 : 300000), vf::irange<int>(0, 1 << 30), vf::irange<int>(0, 2)),
		                    [](const std::tuple<int, int, int, int>& t) { return vf::Op("s", {std::get<0>(t), std::get<1>(t), std::get<2>(t), std::get<3>(t)}); });
		auto g = gen::map(gen::pair(vf::irange<int>(0, (2 << 20) - 1), gen::container<std::vector<vf::Op>>(sop)), [](const std::pair<int, std::vector<vf::Op>>& p) {
			vf::Case c;
			c.add(vf::Op("role", {p.first & 1, p.first >> 1}));
			for (auto& o : p.second)
				c.add(o);
			return c;
		});
		vf::check_cases("out", a.n(3000, 30000), 20, g, [&](const vf::Case& c) {
			bool nt = false;
			for (auto& o : c.ops)
				if (o.name == "s") {
					if (near_boundary(o.i(1)) && o.i(0) < 2)
						nt = true;
					st.cls(o.i(0) == 0 ? "out.text" : o.i(0) == 1 ? "out.binary" : "out.ping_pong");
				}
			if (nt)
				st.nt(vf::fnv(vf::serialize(c)));
			st.cls(c.ops[0].i(0) ? "out.role_client" : "out.role_server");
		});
		if (!a.quick() && a.worker < 4) {
			vf::Case c;
			c.add(vf::Op("role", {(long long)(a.worker & 1), 12345}));
			c.add(vf::Op("s", {(long long)(a.worker / 2), (long long)((1 + a.worker) << 20), 77, a.worker % 3}));
			if (run1("out", c))
				st.cls("out.big");
		}
	}();

	lap("Bout2");
	// ---- B-out 3: big messages to a reader that starts late, while an interval timer fires in the sending thread
	[&]() {
		static const long long BIG[] = {(1 << 20) + 3, (3 << 20) + 17, 2 << 20, 4 << 20, 70000, 300000};
		long ncases = a.n(2, 12);
		uint64_t ticks0 = (uint64_t)g_ticks;
		for (long k = 0; k < ncases; k++) {
			vf::Case c;
			c.add(vf::Op("role", {(long long)((k + a.worker) & 1), (long long)rng.below(1 << 30)}));
			c.add(vf::Op("slow", {100 + (long long)rng.below(201), 1000 + (long long)rng.below(2001)}));
			c.add(vf::Op("s", {1, BIG[(k * a.workers + a.worker) % 6], (long long)rng.below(1 << 30), (long long)rng.below(3)}));
			c.add(vf::Op("s", {0, 70000, (long long)rng.below(1 << 30), (long long)rng.below(3)}));
			c.add(vf::Op("s", {1, BIG[(k * a.workers + a.worker + 3) % 6], (long long)rng.below(1 << 30), 0}));
			c.add(vf::Op("s", {0, 5, (long long)rng.below(1 << 30), 1}));
			if (!run1("out", c))
				return;
			st.nt(vf::fnv(vf::serialize(c)));
			st.cls("out.late_reader_with_timer_cases");
			if (k == 0 && a.worker == 0)
				st.sample("out (late reader, timer): " + vf::serialize(c));
		}
		st.cls("out.timer_ticks_while_sending", (uint64_t)g_ticks - ticks0);
	}();
	lap("Bout3");
	// ---- handshake
	auto sec_HS = [&]() {
		// every Connection x Upgrade spelling x server path once (enumerated), then generated combinations
		uint64_t idx = 0, grid = 0;
		for (int via = 0; via < 2; via++)
			for (int cv = 0; cv < N_HS_CONNECTION; cv++)
				for (int uv = 0; uv < N_HS_UPGRADE; uv++, idx++) {
					if ((int)(idx % (uint64_t)a.workers) != a.worker)
						continue;
					vf::Case c;
					vf::Op o("hs", {via, (long long)(idx % 4), cv, uv, (long long)rng.below(128), (long long)rng.below(1000)});
					o.s.push_back(rng.bytes(16));
					c.add(o);
					c.add(vf::Op("m", {(long long)(1 + rng.below(300)), (long long)rng.below(1 << 30), 1, (long long)(rng.next() & 0xffffffff)}));
					if (!run1("hs", c))
						return;
					grid++;
					st.nt(vf::fnv(vf::serialize(c)));
				}
		st.part("hs.grid(server path x 12 Connection values x 3 Upgrade values)", grid, false);
		for (int via = 0; via < 2; via++)
			for (int n : {1, 2, 6, 25}) {
				if ((int)((idx++) % (uint64_t)a.workers) != a.worker)
					continue;
				vf::Case c;
				vf::Op o("hs", {via, 0, (long long)rng.below(6), 0, (long long)rng.below(128), (long long)rng.below(1000)});
				o.s.push_back(rng.bytes(16));
				c.add(o);
				c.add(vf::Op("hc", {1}));
				for (int i = 0; i < n; i++)
					c.add(vf::Op("m", {(long long)(i % 3 == 0 ? 126 + i : 1 + rng.below(300)), (long long)rng.below(1 << 30), 1, (long long)(rng.next() & 0xffffffff)}));
				if (!run1("hs", c))
					return;
				st.nt(vf::fnv(vf::serialize(c)));
				st.cls("hs.halfclose_cases");
				st.cls("hs.halfclose_requests", (uint64_t)n);
			}
		auto g = gen::map(gen::tuple(vf::irange<int>(0, 1), gen::weightedElement<int>({{3, 0}, {1, 1}, {1, 2}, {1, 3}}), vf::bytes_n(16, 0, 255), gen_len(70000), vf::irange<int>(0, 1 << 30), gen_key(),
		                             gen::weightedOneOf<int>({{5, vf::irange<int>(0, 5)}, {1, vf::irange<int>(6, N_HS_CONNECTION - 1)}}), gen::weightedElement<int>({{8, 0}, {1, 1}, {1, 2}}),
		                             gen::weightedOneOf<int>({{1, gen::just(0)}, {2, vf::irange<int>(0, 127)}}), gen::weightedOneOf<int>({{1, gen::just(0)}, {2, vf::irange<int>(1, 100000)}})),
		                  [](const std::tuple<int, int, std::string, int, int, long long, int, int, int, int>& t) {
			                  vf::Case c;
			                  vf::Op o("hs", {std::get<0>(t), std::get<1>(t), std::get<6>(t), std::get<7>(t), std::get<8>(t), std::get<9>(t)});
			                  o.s.push_back(std::get<2>(t));
			                  c.add(o);
			                  int seed = std::get<4>(t);
			                  if (seed % 8 == 0) { // an eighth of the cases: 1-8 requests, half close, then read the replies
				                  c.add(vf::Op("hc", {1}));
				                  int n = 1 + (seed / 8) % 8;
				                  for (int i = 0; i < n; i++)
					                  c.add(vf::Op("m", {1 + (std::get<3>(t) + 37 * i) % 2000, seed + i, 1, std::get<5>(t) + i}));
			                  }
			                  else
				                  c.add(vf::Op("m", {std::get<3>(t), seed, 1, std::get<5>(t)}));
			                  return c;
		                  });
		int k = 0;
		vf::check_cases("hs", a.n(1000, 10000), 100, g, [&](const vf::Case& c) {
			const vf::Op& o = c.ops[0];
			if (c.ops.size() > 1 && c.ops[1].name == "hc") {
				st.cls("hs.halfclose_cases");
				st.cls("hs.halfclose_requests", c.ops.size() - 2);
			}
			st.nt(vf::fnv(vf::serialize(c)));
			st.cls(o.i(0) ? "hs.via_httpserver_link" : "hs.via_websocketserver");
			st.cls(o.i(1) == 0 ? "hs.header_names_canonical" : o.i(1) == 1 ? "hs.header_names_lower" : o.i(1) == 2 ? "hs.header_names_upper" : "hs.header_names_mixed");
			bool asserted = HS_CONNECTION[o.i(2) % N_HS_CONNECTION].asserted && HS_UPGRADE[o.i(3) % N_HS_UPGRADE].asserted;
			st.cls(asserted ? "hs.asserted_variant" : "hs.observed_only_variant");
			if (asserted)
				st.cls(o.i(2) == 0 ? "hs.connection_single_token" : (o.i(2) == 2) ? "hs.connection_upgrade_first_of_several" : "hs.connection_upgrade_after_other_tokens");
			if (o.i(4))
				st.cls("hs.extra_headers");
			if (o.i(5))
				st.cls("hs.header_order_permuted");
			if (++k == 3)
				st.sample("hs: " + vf::serialize(c));
		});
	};

	// ---- C1: hostile single frames (+ a valid frame behind them), every cut offset
	[&]() {
		uint64_t ran = 0, idx = 0, nt = 0;
		for (int role = 0; role < 2; role++)
			for (int opcode = 0; opcode < 16; opcode++)
				for (int fin = 0; fin < 2; fin++)
					for (int rsv = 0; rsv < 8; rsv += 7)
						for (int masked = 0; masked < 2; masked++)
							for (int li = 0; li < N_HOSTILE_LENGTHS; li++)
								for (int act = 0; act < 3; act++, idx++) {
									if ((int)(idx % (uint64_t)a.workers) != a.worker)
										continue;
									unsigned long long decl = HOSTILE_LENGTHS[li][1];
									int actual = act == 0 ? 0 : act == 1 ? 3 : (int)std::min<unsigned long long>(decl, 9);
									vf::Case c;
									c.add(vf::Op("role", {role}));
									c.add(hf_op(fin, rsv, opcode, masked, (int)HOSTILE_LENGTHS[li][0], decl, actual, (int)idx, 0x11223344LL + idx));
									c.add(hf_op(1, 0, 1, !role, 0, 2, 2, 5, 0x01020304));
									bool ic;
									size_t h;
									size_t len = build_hostile(c, ic, h).size();
									uint64_t before = ran;
									if (!all_cuts("hostile", c, len, ran))
										return;
									nt += ran - before - 2; // cuts below 2 bytes have no complete header
									st.cls(decl >= 0x7fffffffULL ? "hostile.declared>=2^31-1" : decl > (unsigned long long)actual ? "hostile.truncated_payload" : "hostile.honest_length");
									if (opcode >= 3 && opcode != 8 && opcode != 9 && opcode != 10)
										st.cls("hostile.reserved_opcode");
								}
		st.nt_counted(nt);
		st.cls("hostile.enumerated_cases", ran);
		st.part("hostile.grid(role,opcode,fin,rsv,mask,26 lengths,3 payload sizes)x(every cut)", ran, true);
	}();
	lap("C1");
	// ---- C2: generated hostile streams (1..4 frames, raw garbage), generated cut
	[&]() {
		auto lengen = gen::mapcat(vf::irange<int>(0, 9), [](int k) -> Gen<std::pair<int, unsigned long long>> {
			if (k < 5)
				return gen::map(vf::irange<int>(0, N_HOSTILE_LENGTHS - 1), [](int i) { return std::make_pair((int)HOSTILE_LENGTHS[i][0], HOSTILE_LENGTHS[i][1]); });
			if (k < 7) // any 64-bit value with bit 31 or bit 63 set, or beyond 2^32
				return gen::map(gen::pair(vf::irange<long long>(0, 0xffffffffLL), vf::irange<long long>(0, 0xffffffffLL)), [](std::pair<long long, long long> p) {
					unsigned long long v = ((unsigned long long)p.first << 32) | (unsigned long long)p.second;
					if (v < 0x7fffffffULL)
						v |= 0x80000000ULL;
					return std::make_pair(2, v);
				});
			return gen::map(gen::pair(vf::irange<int>(0, 2), vf::irange<int>(0, 300)), [](std::pair<int, int> p) { return std::make_pair(p.first, (unsigned long long)p.second); });
		});
		auto fop = gen::map(gen::tuple(vf::irange<int>(0, 1), gen::weightedElement<int>({{5, 0}, {1, 1}, {1, 4}, {1, 7}}), vf::irange<int>(0, 15), vf::irange<int>(0, 1), lengen, vf::irange<int>(0, 2),
		                               vf::irange<int>(0, 1 << 20), gen_key()),
		                    [](const std::tuple<int, int, int, int, std::pair<int, unsigned long long>, int, int, long long>& t) {
			                    unsigned long long decl = std::get<4>(t).second;
			                    int act = std::get<5>(t);
			                    int actual = act == 0 ? (int)std::min<unsigned long long>(decl, 300) : act == 1 ? (int)std::min<unsigned long long>(decl / 2, 40) : 0;
			                    return hf_op(std::get<0>(t), std::get<1>(t), std::get<2>(t), std::get<3>(t), std::get<4>(t).first, decl, actual, std::get<6>(t), std::get<7>(t));
		                    });
		auto rop = gen::map(gen::container<std::vector<int>>(vf::irange<int>(0, 255)), [](const std::vector<int>& v) {
			vf::Op o("raw");
			std::string s;
			for (size_t i = 0; i < v.size() && i < 24; i++)
				s += (char)v[i];
			o.s.push_back(s);
			return o;
		});
		auto g = gen::map(gen::tuple(vf::irange<int>(0, 1), gen::container<std::vector<vf::Op>>(gen::weightedOneOf<vf::Op>({{5, fop}, {1, rop}})), vf::irange<int>(-1, 400)),
		                  [](const std::tuple<int, std::vector<vf::Op>, int>& t) {
			                  vf::Case c;
			                  c.add(vf::Op("role", {std::get<0>(t)}));
			                  for (size_t i = 0; i < std::get<1>(t).size() && i < 5; i++)
				                  c.add(std::get<1>(t)[i]);
			                  if (std::get<2>(t) >= 0 && std::get<2>(t) % 3 == 0)
				                  c.add(vf::Op("cut", {std::get<2>(t)}));
			                  return c;
		                  });
		int k = 0;
		vf::check_cases("hostile", a.n(20000, 200000), 8, g, [&](const vf::Case& c) {
			bool ic;
			size_t h;
			build_hostile(c, ic, h);
			if (h >= 1)
				st.nt(vf::fnv(vf::serialize(c)));
			st.cls(h == 0 ? "hostile.rc.no_complete_header" : h == 1 ? "hostile.rc.1_header" : "hostile.rc.2+_headers");
			if (++k % 1201 == 5)
				st.sample("hostile: " + vf::serialize(c), 8);
		});
	}();
	lap("C2");
	// ---- B-in 4: a silent peer: pauses of 5.5-6.5 s between two fragments of a message, between two messages and inside a
	//              frame, while the receiver sits in a blocking receive() (each case costs its pause; they run last of the
	//              socketpair parts)
	[&]() {
		long ncases = a.n(1, 2);
		for (long k = 0; k < ncases; k++) {
			int kind = (int)((a.worker + k * 3) % 4);
			ref::SplitMix r(a.seed * 3571 + (uint64_t)a.worker * 17 + (uint64_t)k);
			long long ms = 5500 + (long long)r.below(1001);
			vf::Case c;
			c.add(vf::Op("role", {(long long)(kind == 1 ? 1 : r.below(2)), 0}));
			c.add(vf::Op("msg", {(long long)r.below(2), 1 + (long long)r.below(200), (long long)r.below(1 << 30), (long long)r.below(2), (long long)(r.next() & 0xffffffff), 1 + (long long)r.below(3), (long long)r.below(200), (long long)r.below(200), 0, 0}));
			if (kind == 1)
				c.add(vf::Op("ctl", {0, 5, (long long)r.below(1000), 1, 77, 1}));
			int nfrag = 2 + (int)r.below(2);
			// kind 0/1: before the last fragment; 2: before the first frame (between messages); 3: inside the first frame
			c.add(vf::Op("gap", {ms, (long long)(kind <= 1 ? nfrag - 1 : 0), (long long)(kind == 3 ? 1 + r.below(60) : 0)}));
			c.add(vf::Op("msg", {0, 40 + (long long)r.below(200), (long long)r.below(1 << 30), (long long)r.below(2), (long long)(r.next() & 0xffffffff), nfrag, 13, 29, 0, 0}));
			c.add(vf::Op("msg", {1, 1 + (long long)r.below(300), (long long)r.below(1 << 30), (long long)r.below(2), (long long)(r.next() & 0xffffffff), 1, 0, 0, 0, 0}));
			c.add(vf::Op("end", {(long long)r.below(4)}));
			if (!run1("in", c))
				return;
			classify_in(c);
			st.nt(vf::fnv(vf::serialize(c)));
			if (k == 0 && a.worker == 0)
				st.sample("in (silent peer): " + vf::serialize(c));
		}
	}();
	lap("Bin4");
	// ---- the TCP parts run last and only while nothing has failed: a framing defect makes a TCP peer wait for bytes that
	// never come, which costs the hang bound per case (and per shrink candidate); the socketpair parts above show the
	// same defect deterministically.  Skipped sections are visible as missing parts in the evidence.
	if (vf::runner().failures == 0) {
		sec_HS();
		lap("hs");
	}
	if (vf::runner().failures == 0) {
		sec_A1();
		sec_A2();
		sec_A3();
		sec_A4();
		lap("loop");
		sec_A5();
		lap("styles");
	}
	else
		st.cls("tcp_parts_skipped_after_failure");
}