// C20 (exact part) -- Matrix4_, Matrix3_, Matrix_, solve() and Quaternion_::matrix() instantiated over the prime field
// GF(2^61-1) (harness/common/fp61.h): the algebraic identities of the property are decided with exact arithmetic.
//
// parts (one Case = one line group):
//   m4     m4 <16 values> [m4 <16 values>]            det / inverse / product identities of Matrix4_
//   m3     m3 <9 values>  [m3 <9 values>]             same for Matrix3_ (products computed by the harness; the library
//                                                     product only on affine inputs, as documented)
//   solve  salt <s> / A <rows> <cols> <values> / b <cols> <values>
//                                                     A solve(A,b) = b, Matrix_::inverse, normal equations when rows > cols
//   quat   q <form> <a> <b> <c> <d> / v <x> <y> <z>   Quaternion_::matrix() of a unit-norm quaternion
// Values are integers taken mod p.  The salt selects the total order used by fabs/< of the scalar type, i.e. which of
// the non-zero candidates partial pivoting picks.
#include "common/vfrc.h"
#include "common/fp61.h"
#include "common/ref_linalg.h"
#include <array>
#include <asl/Matrix4.h>
#include <asl/Matrix3.h>
#include <asl/Matrix.h>
#include <asl/Quaternion.h>

using fp61::Fp;
typedef ref::Mat<Fp> RM;

const char* vf_harness_name() { return "C20_exact"; }

// ASan keeps 256 MB of freed blocks per process by default (about 1 GB resident with redzones once the search has run for a
// few seconds, times 16 workers); a use-after-free in this property would happen within one case, so a small quarantine is
// enough.  Options set in the environment by the driver take precedence; this one is not among them.
extern "C" const char* __asan_default_options() { return "quarantine_size_mb=32"; }

static bool g_collect = false; // statistics are recorded from inside vf_run_case during the search only

struct SplitMix {
	uint64_t s;
	explicit SplitMix(uint64_t seed) : s(seed) {}
	uint64_t next()
	{
		uint64_t z = (s += 0x9e3779b97f4a7c15ULL);
		z = (z ^ (z >> 30)) * 0xbf58476d1ce4e5b9ULL;
		z = (z ^ (z >> 27)) * 0x94d049bb133111ebULL;
		return z ^ (z >> 31);
	}
	uint64_t below(uint64_t n) { return n ? next() % n : 0; }
	Fp field() { return Fp::raw(next() % fp61::P); }
	Fp nonzero() { return Fp::raw(1 + next() % (fp61::P - 1)); }
};

// message context that is only formatted when a check fails
template <class F>
struct Lazy {
	F f;
};
template <class F>
static Lazy<F> lazy(F f)
{
	return Lazy<F>{f};
}
template <class F>
std::ostream& operator<<(std::ostream& o, const Lazy<F>& l)
{
	return o << l.f();
}

static void cls(const std::string& c)
{
	if (g_collect)
		vf::stats().cls(c);
}

static std::string show(const RM& m)
{
	std::ostringstream o;
	o << "[";
	for (int i = 0; i < m.r; i++) {
		o << (i ? "; " : "");
		for (int j = 0; j < m.c; j++)
			o << (j ? " " : "") << m(i, j);
	}
	o << "]";
	return o.str();
}

static RM from_op(const vf::Op& o, int r, int c, size_t first)
{
	RM m(r, c);
	for (int i = 0; i < r * c; i++)
		m.a[i] = Fp(o.i(first + i, 0));
	return m;
}

static bool is_identity(const RM& m)
{
	return m == RM::identity(m.r);
}

static int triangular(const RM& m) // 1 upper, 2 lower, 3 diagonal, 0 neither
{
	bool up = true, lo = true;
	for (int i = 0; i < m.r; i++)
		for (int j = 0; j < m.c; j++) {
			if (i > j && !m(i, j).zero())
				up = false;
			if (i < j && !m(i, j).zero())
				lo = false;
		}
	return (up ? 1 : 0) | (lo ? 2 : 0);
}

static bool zero_on_diagonal(const RM& m)
{
	for (int i = 0; i < m.r && i < m.c; i++)
		if (m(i, i).zero())
			return true;
	return false;
}

// ------------------------------------------------------------------------------------------------ Matrix4_

static asl::Matrix4_<Fp> lib4(const RM& m)
{
	return asl::Matrix4_<Fp>(m(0, 0), m(0, 1), m(0, 2), m(0, 3), m(1, 0), m(1, 1), m(1, 2), m(1, 3), m(2, 0), m(2, 1), m(2, 2), m(2, 3),
	                         m(3, 0), m(3, 1), m(3, 2), m(3, 3));
}
static RM ref4(const asl::Matrix4_<Fp>& m)
{
	RM r(4, 4);
	for (int i = 0; i < 4; i++)
		for (int j = 0; j < 4; j++)
			r(i, j) = m(i, j);
	return r;
}
static asl::Matrix3_<Fp> lib3(const RM& m)
{
	return asl::Matrix3_<Fp>(m(0, 0), m(0, 1), m(0, 2), m(1, 0), m(1, 1), m(1, 2), m(2, 0), m(2, 1), m(2, 2));
}
static RM ref3(const asl::Matrix3_<Fp>& m)
{
	RM r(3, 3);
	for (int i = 0; i < 3; i++)
		for (int j = 0; j < 3; j++)
			r(i, j) = m(i, j);
	return r;
}

static RM scaled(const RM& A, const Fp& t)
{
	RM m = A;
	for (auto& v : m.a)
		v = v * t;
	return m;
}
static RM added(const RM& A, const RM& B)
{
	RM m = A;
	for (size_t i = 0; i < m.a.size(); i++)
		m.a[i] = m.a[i] + B.a[i];
	return m;
}

// Compound and self-aliased forms of the operations the identities are stated with: every one must give what the
// out-of-place operation gives (computed by the harness), also when an operand is the very object being updated.
static void check_inplace(const asl::Matrix4_<Fp>& M, const RM& A, const RM* B)
{
	typedef asl::Matrix4_<Fp> M4;
	Fp d = M.det();
	RM AA = A * A;
	{
		M4 C = M;
		M4& r = (C *= C); // both operands are the same object
		VF_CHECK(&r == &C, "Matrix4::operator*= does not return *this");
		VF_CHECK(ref4(C) == AA, "M *= M differs from M * M for M=", show(A), ": got ", show(ref4(C)), " expected ", show(AA));
		VF_CHECK(C.det() == d * d, "det(M *= M) = ", C.det(), " != det(M)^2 = ", d * d, " for M=", show(A));
	}
	{
		M4 C = M;
		const M4& same = C; // M *= ref where ref refers to M
		C *= same;
		VF_CHECK(ref4(C) == AA, "M *= (reference to M) differs from M * M for M=", show(A));
	}
	{
		M4 C = M;
		C = C * C;
		VF_CHECK(ref4(C) == AA, "M = M * M differs from the harness product for M=", show(A));
		C = M;
		C = C.transposed();
		VF_CHECK(ref4(C) == A.t(), "M = M.transposed() is not the transpose of ", show(A));
		C = M;
		C = C + C;
		VF_CHECK(ref4(C) == added(A, A), "M = M + M != 2M for M=", show(A));
		C = C - M;
		VF_CHECK(ref4(C) == A, "(M + M) - M != M for M=", show(A));
		C = C - C;
		VF_CHECK(ref4(C) == RM(4, 4), "M - M != 0 for M=", show(A));
	}
	{
		// scalar forms, the scalar being an element of the matrix that is updated
		M4 C = M;
		Fp t = A(1, 2);
		C *= C(1, 2);
		VF_CHECK(ref4(C) == scaled(A, t), "M *= M(1,2) differs from M(1,2) * M for M=", show(A));
		VF_CHECK(ref4(M * t) == scaled(A, t) && ref4(t * M) == scaled(A, t), "M * t / t * M differ from the element-wise product for M=", show(A));
		VF_CHECK(C.det() == t * t * t * t * d, "det(t M) != t^4 det(M) for M=", show(A));
	}
	if (B) {
		M4 N = lib4(*B), C = M;
		C *= N;
		RM AB = A * *B;
		VF_CHECK(ref4(C) == AB, "A *= B differs from A * B for A=", show(A), " B=", show(*B));
		VF_CHECK(ref4(N) == *B, "A *= B modified B");
		(C *= N) *= N; // chained through the returned reference
		VF_CHECK(ref4(C) == AB * *B * *B, "(A *= B) *= B differs from A B B B");
		M4 L = N;
		L = M * L; // the assigned object is the right operand
		VF_CHECK(ref4(L) == AB, "B = A * B differs from A * B for A=", show(A), " B=", show(*B));
		VF_CHECK(C.det() == d * N.det() * N.det() * N.det(), "det(A B B B) != det(A) det(B)^3");
	}
	cls("Matrix4.compound+aliased-forms");
}

static void check_inplace(const asl::Matrix3_<Fp>& M, const RM& A, const RM* B)
{
	typedef asl::Matrix3_<Fp> M3;
	Fp d = M.det();
	(void)B;
	bool affine = A(2, 0).zero() && A(2, 1).zero() && A(2, 2) == Fp(1);
	{
		M3 C = M;
		C = C.transposed();
		VF_CHECK(ref3(C) == A.t(), "M = M.transposed() is not the transpose of ", show(A));
		C = M;
		C = C + C;
		VF_CHECK(ref3(C) == added(A, A), "M = M + M != 2M for M=", show(A));
	}
	{
		M3 C = M;
		Fp t = A(1, 2);
		M3& r = (C *= C(1, 2));
		VF_CHECK(&r == &C, "Matrix3::operator*=(T) does not return *this");
		VF_CHECK(ref3(C) == scaled(A, t), "M *= M(1,2) differs from M(1,2) * M for M=", show(A));
		VF_CHECK(ref3(M * t) == scaled(A, t) && ref3(t * M) == scaled(A, t), "M * t / t * M differ from the element-wise product for M=", show(A));
		VF_CHECK(C.det() == t * t * t * d, "det(t M) != t^3 det(M) for M=", show(A));
	}
	if (affine) {
		// Matrix3 has no operator*=(Matrix3); the self-assigned product on an affine matrix (documented use)
		M3 C = M;
		C = C * C;
		VF_CHECK(ref3(C) == A * A, "M = M * M differs from the harness product for the affine M=", show(A));
		VF_CHECK(C.det() == d * d, "det(M * M) != det(M)^2 for the affine M=", show(A));
	}
	cls("Matrix3.compound+aliased-forms");
}

static void check_self_inverse(const asl::Matrix4_<Fp>& M, const RM& A, const RM& RX)
{
	asl::Matrix4_<Fp> C = M;
	C = C.inverse();
	VF_CHECK(ref4(C) == RX, "M = M.inverse() differs from inverse(M) for M=", show(A));
	C *= M;
	VF_CHECK(is_identity(ref4(C)), "(M = M.inverse()) *= M_original != I for M=", show(A));
	C = M;
	C *= C.inverse();
	VF_CHECK(is_identity(ref4(C)), "M *= M.inverse() != I for M=", show(A));
}
static void check_self_inverse(const asl::Matrix3_<Fp>& M, const RM& A, const RM& RX)
{
	asl::Matrix3_<Fp> C = M;
	C = C.inverse();
	VF_CHECK(ref3(C) == RX, "M = M.inverse() differs from inverse(M) for M=", show(A));
}

template <class LM>
static void check_fixed(const std::string& tag, int n, const RM& A, const RM* B, LM (*tolib)(const RM&), RM (*toref)(const LM&),
                        const vf::Case& c)
{
	LM M = tolib(A);
	VF_CHECK(toref(M) == A, tag, ": element constructor/accessor does not store the matrix by rows");
	Fp dref = ref::det(A);
	fp61::div_by_zero() = 0;
	Fp d = M.det();
	VF_CHECK(d == dref, tag, "::det() = ", d, ", elimination over GF(p) gives ", dref, " for ", show(A));
	LM Mt = M.transposed();
	VF_CHECK(toref(Mt) == A.t(), tag, "::transposed() is not the transpose of ", show(A));
	VF_CHECK(Mt.det() == d, "det(M^T) = ", Mt.det(), " != det(M) = ", d, " for ", show(A));
	int tri = triangular(A);
	if (tri) {
		Fp prod = 1;
		for (int i = 0; i < n; i++)
			prod *= A(i, i);
		VF_CHECK(d == prod, "det of a triangular matrix = ", d, " != product of the diagonal ", prod, " for ", show(A));
		cls(tag + ".triangular");
	}
	bool affine = true;
	for (int j = 0; j < n; j++)
		if (!(A(n - 1, j) == Fp(j == n - 1 ? 1 : 0)))
			affine = false;
	if (B) {
		LM LB = tolib(*B);
		LM Pm = M * LB;
		RM AB = A * *B;
		bool affineB = true;
		for (int j = 0; j < n; j++)
			if (!((*B)(n - 1, j) == Fp(j == n - 1 ? 1 : 0)))
				affineB = false;
		if (n == 4 || (affine && affineB)) {
			// Matrix4: general product; Matrix3: documented for affine transforms only
			VF_CHECK(toref(Pm) == AB, tag, "::operator* differs from the row-by-column product for A=", show(A), " B=", show(*B));
			VF_CHECK(Pm.det() == d * LB.det(), "det(A*B) = ", Pm.det(), " != det(A) det(B) = ", d * LB.det(), " for A=", show(A), " B=", show(*B));
			cls(tag + ".libproduct");
		}
		VF_CHECK(tolib(AB).det() == d * LB.det(), "det(AB) = ", tolib(AB).det(), " != det(A) det(B) = ", d * LB.det(), " for A=", show(A),
		         " B=", show(*B));
	}
	check_inplace(M, A, B);
	if (dref.zero()) {
		cls(tag + ".singular(det-only)");
		return;
	}
	fp61::div_by_zero() = 0;
	LM X = M.inverse();
	VF_CHECK(fp61::div_by_zero() == 0, tag, "::inverse() divided by zero on a nonsingular matrix ", show(A));
	RM RX = toref(X);
	RM P1 = A * RX, P2 = RX * A;
	VF_CHECK(is_identity(P1), "M * inverse(M) != I for M=", show(A), ": product ", show(P1));
	VF_CHECK(is_identity(P2), "inverse(M) * M != I for M=", show(A), ": product ", show(P2));
	if (n == 4 || affine) {
		VF_CHECK(is_identity(toref(M * X)), "M * M.inverse() (library product) != I for M=", show(A));
		VF_CHECK(is_identity(toref(X * M)), "M.inverse() * M (library product) != I for M=", show(A));
	}
	VF_CHECK(X.det() * d == Fp(1), "det(inverse(M)) * det(M) != 1 for M=", show(A));
	VF_CHECK(toref(X.inverse()) == A, "inverse(inverse(M)) != M for M=", show(A));
	check_self_inverse(M, A, RX);
	cls(tag + (affine ? ".affine" : ".general"));
	if (zero_on_diagonal(A))
		cls(tag + ".zero-on-diagonal");
	if (g_collect && !affine)
		vf::stats().nt(vf::fnv(vf::serialize(c)));
}

static void run_fixed(const std::string& part, const vf::Case& c)
{
	int n = part == "m4" ? 4 : 3;
	std::vector<RM> ms;
	for (auto& o : c.ops)
		if (o.name == part && ms.size() < 2)
			ms.push_back(from_op(o, n, n, 0));
	if (ms.empty())
		return;
	if (n == 4)
		check_fixed<asl::Matrix4_<Fp>>("Matrix4", 4, ms[0], ms.size() > 1 ? &ms[1] : 0, lib4, ref4, c);
	else
		check_fixed<asl::Matrix3_<Fp>>("Matrix3", 3, ms[0], ms.size() > 1 ? &ms[1] : 0, lib3, ref3, c);
}

// ------------------------------------------------------------------------------------------------ Matrix_ / solve

static asl::Matrix_<Fp> libm(const RM& m)
{
	asl::Matrix_<Fp> a(m.r, m.c);
	for (int i = 0; i < m.r; i++)
		for (int j = 0; j < m.c; j++)
			a(i, j) = m(i, j);
	return a;
}
static RM refm(const asl::Matrix_<Fp>& m)
{
	RM r(m.rows(), m.cols());
	for (int i = 0; i < r.r; i++)
		for (int j = 0; j < r.c; j++)
			r(i, j) = m(i, j);
	return r;
}

// Mirror of "partial pivoting through a permutation vector" with the same generated order, used for statistics only:
// how many steps exchanged rows, and in how many of them the natural candidate (the row already at position k) had a
// zero in the pivot column, i.e. the exchange was needed and not merely preferred.
static void pivot_stats(RM A, int& exchanges, int& forced)
{
	int n = A.r;
	std::vector<int> p(n);
	for (int i = 0; i < n; i++)
		p[i] = i;
	exchanges = forced = 0;
	for (int k = 0; k < n - 1; k++) {
		int ip = -1;
		for (int i = k; i < n; i++)
			if (!A(p[i], k).zero() && (ip < 0 || A(p[ip], k) < A(p[i], k)))
				ip = i;
		if (ip < 0)
			return;
		if (ip != k) {
			exchanges++;
			if (A(p[k], k).zero())
				forced++;
			std::swap(p[k], p[ip]);
		}
		for (int i = k + 1; i < n; i++) {
			Fp f = A(p[i], k) / A(p[k], k);
			for (int j = k; j < n; j++)
				A(p[i], j) -= f * A(p[k], j);
		}
	}
}

// Matrix_: += -= *= negate copy swapRows and the self-assigned forms A = A * A, A = A.transposed(), A = A.inverse(),
// A = solve(A, b), b = solve(A, b), solve(A, A); each compared with the out-of-place value computed by the harness.
// Every object used here owns its storage (clone()): handles that share one block are the subject of C01, not of C20.
static void check_matrix_inplace(const asl::Matrix_<Fp>& LA, const asl::Matrix_<Fp>& Lb, const RM& A, const RM& b, const RM* X, const RM* x)
{
	typedef asl::Matrix_<Fp> MX;
	int rows = A.r, cols = A.c;
	{
		MX C = LA.clone();
		C += C;
		VF_CHECK(refm(C) == added(A, A), "A += A != 2A for Matrix_ A=", show(A));
		C -= LA;
		VF_CHECK(refm(C) == A, "(A += A) -= A != A for Matrix_ A=", show(A));
		C -= C;
		VF_CHECK(refm(C) == RM(rows, cols), "A -= A != 0 for Matrix_ A=", show(A));
		C = LA.clone();
		Fp t = A(rows - 1, 0);
		C *= C(rows - 1, 0); // the scalar is an element of the matrix being scaled (passed by value)
		VF_CHECK(refm(C) == scaled(A, t), "A *= A(last,0) differs from the element-wise product for Matrix_ A=", show(A));
		VF_CHECK(refm(LA * t) == scaled(A, t) && refm(t * LA) == scaled(A, t), "A * t / t * A differ from the element-wise product for Matrix_ A=", show(A));
		C = LA.clone();
		C.negate();
		VF_CHECK(refm(C) == scaled(A, Fp(-1)) && refm(-LA) == scaled(A, Fp(-1)), "negate() / unary minus != -A for Matrix_ A=", show(A));
		VF_CHECK(refm(LA + LA) == added(A, A) && refm((LA + LA) - LA) == A, "A + A / (A + A) - A wrong for Matrix_ A=", show(A));
		C = LA.clone();
		C.copy(C);
		VF_CHECK(refm(C) == A, "A.copy(A) changed A=", show(A));
		C.copy(Lb);
		VF_CHECK(refm(C) == b, "A.copy(b) != b");
		C = LA.clone();
		C.swapRows(0, rows - 1);
		C.swapRows(rows - 1, 0);
		C.swapRows(0, 0);
		VF_CHECK(refm(C) == A, "swapRows twice / with itself changed A=", show(A));
		C = C.transposed();
		VF_CHECK(refm(C) == A.t(), "A = A.transposed() is not the transpose for Matrix_ A=", show(A));
		C = LA.clone();
		C = C.transposed(C);
		VF_CHECK(refm(C) == A.t() * A, "A = A.transposed(A) != A^T A for Matrix_ A=", show(A));
		VF_CHECK(refm(LA) == A && refm(Lb) == b, "an in-place operation on a clone changed the original");
	}
	if (rows == cols) {
		MX C = LA.clone();
		C = C * C;
		VF_CHECK(refm(C) == A * A, "A = A * A differs from the harness product for Matrix_ A=", show(A));
		VF_CHECK(refm(LA * LA) == A * A, "A * A (same object twice) differs from the harness product for Matrix_ A=", show(A));
	}
	if (X && rows <= 6) { // n right-hand sides each: kept to the smaller sizes, the code path does not depend on n
		MX C = LA.clone();
		C = C.inverse();
		VF_CHECK(refm(C) == *X, "A = A.inverse() differs from inverse(A) for Matrix_ A=", show(A));
		VF_CHECK(is_identity(refm(asl::solve(LA, LA))), "solve(A, A) != I for Matrix_ A=", show(A));
	}
	if (x) {
		MX C = LA.clone(), D = Lb.clone();
		D = asl::solve(C, D); // the right-hand side is overwritten by the solution
		VF_CHECK(refm(D) == *x, "b = solve(A, b) differs from solve(A, b) for A=", show(A), " b=", show(b));
		VF_CHECK(refm(C) == A, "solve(A, b) modified A=", show(A));
		C = asl::solve(C, Lb); // the matrix is overwritten by the solution
		VF_CHECK(refm(C) == *x, "A = solve(A, b) differs from solve(A, b) for A=", show(A), " b=", show(b));
	}
	cls("Matrix_.compound+aliased-forms");
}

static void run_solve(const vf::Case& c)
{
	fp61::order_salt() = 0;
	const vf::Op *oa = 0, *ob = 0;
	for (auto& o : c.ops) {
		if (o.name == "salt")
			fp61::order_salt() = (uint64_t)o.i(0);
		else if (o.name == "A" && !oa)
			oa = &o;
		else if (o.name == "b" && !ob)
			ob = &o;
	}
	if (!oa)
		return;
	auto mod = [](long long v, int m) { return (int)(((v % m) + m) % m); };
	int rows = 1 + mod(oa->i(0) - 1, 16), cols = 1 + mod(oa->i(1) - 1, 12);
	if (cols > rows)
		cols = rows;
	int nb = ob ? 1 + mod(ob->i(0) - 1, 4) : 1;
	RM A = from_op(*oa, rows, cols, 2);
	RM b = ob ? from_op(*ob, rows, nb, 1) : RM(rows, 1);
	asl::Matrix_<Fp> LA = libm(A), Lb = libm(b);
	auto sz = lazy([&] { return std::to_string(rows) + "x" + std::to_string(cols); });
	if (rows == cols) {
		int n = rows, rk = 0;
		ref::gauss_jordan<Fp>(A, RM(n, 0), 0, &rk);
		if (rk < n) {
			cls("solve.singular(skipped)");
			if (g_collect)
				vf::stats().discarded++;
			return;
		}
		fp61::div_by_zero() = 0;
		asl::Matrix_<Fp> x = asl::solve(LA, Lb);
		VF_CHECK(x.rows() == n && x.cols() == nb, "solve(A,b) has shape ", x.rows(), "x", x.cols(), ", expected ", n, "x", nb);
		VF_CHECK(fp61::div_by_zero() == 0, "solve() divided by a zero pivot on a nonsingular ", sz, " system A=", show(A), " salt=", fp61::order_salt());
		RM Ax = A * refm(x);
		VF_CHECK(Ax == b, "A * solve(A,b) != b for the ", sz, " system A=", show(A), " b=", show(b), " salt=", fp61::order_salt(), ": x=", show(refm(x)));
		VF_CHECK(refm(LA * x) == b, "A * solve(A,b) (library product) != b for A=", show(A));
		fp61::div_by_zero() = 0;
		asl::Matrix_<Fp> Xi = LA.inverse();
		VF_CHECK(Xi.rows() == n && Xi.cols() == n, "Matrix_::inverse() has shape ", Xi.rows(), "x", Xi.cols());
		VF_CHECK(fp61::div_by_zero() == 0, "Matrix_::inverse() divided by a zero pivot on a nonsingular matrix ", show(A), " salt=", fp61::order_salt());
		RM RX = refm(Xi);
		VF_CHECK(is_identity(A * RX), "A * A.inverse() != I for Matrix_ A=", show(A), " salt=", fp61::order_salt());
		VF_CHECK(is_identity(RX * A), "A.inverse() * A != I for Matrix_ A=", show(A), " salt=", fp61::order_salt());
		{
			RM rx = refm(x);
			check_matrix_inplace(LA, Lb, A, b, &RX, &rx);
		}
		if (g_collect) {
			int ex = 0, forced = 0;
			pivot_stats(A, ex, forced);
			vf::stats().cls("solve.n=" + std::string(n < 10 ? "0" : "") + std::to_string(n));
			if (nb > 1)
				cls("solve.multi-column-b");
			if (ex)
				cls("solve.row-exchange");
			if (forced)
				cls("solve.exchange-needed(zero at the natural pivot)");
			if (n > 1 && forced >= n - 1)
				cls("solve.exchange-needed-at-every-step");
			if (zero_on_diagonal(A))
				cls("solve.zero-on-diagonal");
			if (ex)
				vf::stats().nt(vf::fnv(vf::serialize(c)));
		}
	}
	else {
		RM At = A.t();
		RM G = At * A, h = At * b;
		int rk = 0;
		ref::gauss_jordan<Fp>(G, RM(cols, 0), 0, &rk);
		if (rk < cols) {
			cls("lsq.singular-normal-matrix(skipped)");
			if (g_collect)
				vf::stats().discarded++;
			return;
		}
		fp61::div_by_zero() = 0;
		asl::Matrix_<Fp> x = asl::solve(LA, Lb);
		VF_CHECK(x.rows() == cols && x.cols() == nb, "least-squares solve(A,b) has shape ", x.rows(), "x", x.cols(), ", expected ", cols, "x", nb);
		VF_CHECK(fp61::div_by_zero() == 0, "least-squares solve() divided by a zero pivot, A=", show(A), " salt=", fp61::order_salt());
		VF_CHECK(G * refm(x) == h, "A^T A x != A^T b for the ", sz, " system A=", show(A), " b=", show(b), " salt=", fp61::order_salt(), ": x=", show(refm(x)));
		// the documented shortcut A.transposed(B) = A^T B
		VF_CHECK(refm(LA.transposed(Lb)) == h, "A.transposed(b) != A^T b for A=", show(A), " b=", show(b));
		{
			RM rx = refm(x);
			check_matrix_inplace(LA, Lb, A, b, 0, &rx);
		}
		if (g_collect) {
			int ex = 0, forced = 0;
			pivot_stats(G, ex, forced);
			cls("lsq.overdetermined");
			if (nb > 1)
				cls("lsq.multi-column-b");
			if (ex)
				vf::stats().nt(vf::fnv(vf::serialize(c)));
		}
	}
}

// ------------------------------------------------------------------------------------------------ Quaternion_

struct HQ { // Hamilton product, written out independently of asl
	Fp w, x, y, z;
};
static HQ hmul(const HQ& a, const HQ& b)
{
	return HQ{a.w * b.w - a.x * b.x - a.y * b.y - a.z * b.z, a.w * b.x + a.x * b.w + a.y * b.z - a.z * b.y,
	          a.w * b.y - a.x * b.z + a.y * b.w + a.z * b.x, a.w * b.z + a.x * b.y - a.y * b.x + a.z * b.w};
}

static void run_quat(const vf::Case& c)
{
	const vf::Op *oq = 0, *ov = 0;
	for (auto& o : c.ops) {
		if (o.name == "q" && !oq)
			oq = &o;
		else if (o.name == "v" && !ov)
			ov = &o;
	}
	if (!oq)
		return;
	Fp a = oq->i(1), b = oq->i(2), cc = oq->i(3), d = oq->i(4);
	Fp w, x, y, z;
	bool direct = false;
	if (oq->i(0) & 1) {
		// (x,y,z) given, w = sqrt(1 - x^2 - y^2 - z^2) when that is a square in GF(p)
		Fp t = Fp(1) - b * b - cc * cc - d * d, r;
		if (fp61::sqrt(t, r)) {
			w = (oq->i(0) & 2) ? -r : r;
			x = b;
			y = cc;
			z = d;
			direct = true;
		}
	}
	if (!direct) {
		// q^2 / |q|^2 has norm 1 for every q with |q|^2 != 0
		Fp N = a * a + b * b + cc * cc + d * d;
		if (N.zero()) {
			cls("quat.isotropic(skipped)");
			return;
		}
		Fp iN = Fp(1) / N;
		w = (a * a - b * b - cc * cc - d * d) * iN;
		x = Fp(2) * a * b * iN;
		y = Fp(2) * a * cc * iN;
		z = Fp(2) * a * d * iN;
	}
	VF_CHECK(w * w + x * x + y * y + z * z == Fp(1), "harness error: quaternion is not of unit norm");
	asl::Quaternion_<Fp> q(w, x, y, z);
	asl::Matrix4_<Fp> M = q.matrix();
	RM R(3, 3);
	for (int i = 0; i < 3; i++)
		for (int j = 0; j < 3; j++)
			R(i, j) = M(i, j);
	auto qs = lazy([&] { return vf::str("q=(", w, ",", x, ",", y, ",", z, ")"); });
	for (int i = 0; i < 3; i++)
		VF_CHECK(M(i, 3).zero() && M(3, i).zero(), "Quaternion::matrix() has a non-zero translation/projective entry for ", qs);
	VF_CHECK(M(3, 3) == Fp(1), "Quaternion::matrix()(3,3) != 1");
	VF_CHECK(is_identity(R * R.t()), "Quaternion::matrix() is not orthogonal (R R^T != I) for ", qs, ": R=", show(R));
	VF_CHECK(is_identity(R.t() * R), "Quaternion::matrix() is not orthogonal (R^T R != I) for ", qs);
	VF_CHECK(ref::det(R) == Fp(1), "det(Quaternion::matrix()) = ", ref::det(R), " != 1 for ", qs);
	VF_CHECK(M.det() == Fp(1), "Matrix4::det() of a rotation matrix = ", M.det(), " != 1 for ", qs);
	VF_CHECK(ref4(M.inverse()) == ref4(M.transposed()), "inverse of a rotation matrix != its transpose for ", qs);
	// the matrix is the rotation v -> q v q*: compare with the Hamilton product on the basis vectors and on v
	HQ hq{w, x, y, z}, hc{w, -x, -y, -z};
	std::vector<std::array<Fp, 3>> vs = {{Fp(1), Fp(0), Fp(0)}, {Fp(0), Fp(1), Fp(0)}, {Fp(0), Fp(0), Fp(1)}};
	if (ov)
		vs.push_back({Fp(ov->i(0)), Fp(ov->i(1)), Fp(ov->i(2))});
	for (auto& v : vs) {
		HQ r = hmul(hmul(hq, HQ{Fp(0), v[0], v[1], v[2]}), hc);
		VF_CHECK(r.w.zero(), "harness error: q v q* is not a pure quaternion");
		asl::Vec3_<Fp> lv = M * asl::Vec3_<Fp>(v[0], v[1], v[2]);
		VF_CHECK(lv.x == r.x && lv.y == r.y && lv.z == r.z, "Quaternion::matrix() * v != q v q* for ", qs, " v=(", v[0], ",", v[1], ",", v[2], ")");
		asl::Vec3_<Fp> lq = q * asl::Vec3_<Fp>(v[0], v[1], v[2]);
		VF_CHECK(lq.x == r.x && lq.y == r.y && lq.z == r.z, "Quaternion * v != q v q* for ", qs);
	}
	cls(direct ? "quat.given-xyz" : "quat.square-over-norm");
	bool allnz = !w.zero() && !x.zero() && !y.zero() && !z.zero();
	if (!allnz)
		cls("quat.zero-component");
	if (g_collect && allnz)
		vf::stats().nt(vf::fnv(vf::serialize(c)));
}

void vf_run_case(const std::string& part, const vf::Case& c)
{
	if (part == "m4" || part == "m3")
		run_fixed(part, c);
	else if (part == "solve")
		run_solve(c);
	else if (part == "quat")
		run_quat(c);
}

// ------------------------------------------------------------------------------------------------ generators

static RM rnd_perm(SplitMix& g, int n, bool cyclic)
{
	std::vector<int> p(n);
	for (int i = 0; i < n; i++)
		p[i] = i;
	if (cyclic)
		for (int i = 0; i < n; i++)
			p[i] = (i + 1) % n;
	else
		for (int i = n - 1; i > 0; i--)
			std::swap(p[i], p[g.below(i + 1)]);
	RM m(n, n);
	for (int i = 0; i < n; i++)
		m(i, p[i]) = Fp(1);
	return m;
}
static RM rnd_upper(SplitMix& g, int n, int zero_pct)
{
	RM m(n, n);
	for (int i = 0; i < n; i++) {
		m(i, i) = g.nonzero();
		for (int j = i + 1; j < n; j++)
			if ((int)g.below(100) >= zero_pct)
				m(i, j) = g.field();
	}
	return m;
}
static RM rnd_unit_lower(SplitMix& g, int n, int zero_pct)
{
	RM m(n, n);
	for (int i = 0; i < n; i++) {
		m(i, i) = Fp(1);
		for (int j = 0; j < i; j++)
			if ((int)g.below(100) >= zero_pct)
				m(i, j) = g.field();
	}
	return m;
}

static const char* kind_name[] = {"uniform", "perm*upper", "perm*lower*upper", "zero-diagonal", "sparse-lower*perm*upper", "small-integers",
                                  "triangular/diagonal/permutation", "cyclic*upper", "lower*cyclic*upper", "affine", "rank-deficient"};
enum { K_UNIFORM, K_PU, K_PLU, K_ZDIAG, K_SPARSE, K_SMALL, K_TRI, K_CYCU, K_LCYCU, K_AFFINE, K_SING, K_COUNT };

static RM gen_square(SplitMix& g, int kind, int n)
{
	RM m(n, n);
	switch (kind) {
	case K_UNIFORM:
		for (auto& v : m.a)
			v = g.field();
		break;
	case K_PU: return rnd_perm(g, n, false) * rnd_upper(g, n, (int)g.below(3) * 30);
	case K_PLU: return rnd_perm(g, n, false) * rnd_unit_lower(g, n, 0) * rnd_upper(g, n, 0);
	case K_ZDIAG:
		for (int i = 0; i < n; i++)
			for (int j = 0; j < n; j++)
				m(i, j) = i == j ? Fp(0) : g.nonzero();
		if (n == 1)
			m(0, 0) = g.nonzero();
		break;
	case K_SPARSE: return rnd_unit_lower(g, n, 60) * rnd_perm(g, n, false) * rnd_upper(g, n, 60);
	case K_SMALL:
		for (auto& v : m.a)
			v = Fp((long long)g.below(5) - 2);
		break;
	case K_TRI: {
		int sub = (int)g.below(5);
		if (sub == 0)
			return rnd_upper(g, n, 0);
		if (sub == 1)
			return rnd_upper(g, n, 0).t();
		if (sub == 2)
			return rnd_upper(g, n, 100);
		if (sub == 3)
			return rnd_perm(g, n, false);
		return rnd_perm(g, n, false) * rnd_upper(g, n, 100);
	}
	case K_CYCU: return rnd_perm(g, n, true) * rnd_upper(g, n, 0);
	case K_LCYCU: return rnd_unit_lower(g, n, 30) * rnd_perm(g, n, true) * rnd_upper(g, n, 30);
	case K_AFFINE:
		for (int i = 0; i < n - 1; i++)
			for (int j = 0; j < n; j++)
				m(i, j) = g.field();
		m(n - 1, n - 1) = Fp(1);
		break;
	case K_SING: {
		for (auto& v : m.a)
			v = g.field();
		if (n > 1) {
			// one row is a combination of two others
			int r = (int)g.below(n), r1 = (r + 1) % n, r2 = (r + n - 1) % n;
			Fp f1 = g.field(), f2 = g.field();
			for (int j = 0; j < n; j++)
				m(r, j) = f1 * m(r1, j) + (r2 != r1 ? f2 * m(r2, j) : Fp(0));
		}
		else
			m(0, 0) = Fp(0);
		break;
	}
	}
	return m;
}

static void put(vf::Op& o, const RM& m)
{
	for (auto& v : m.a)
		o.a.push_back((long long)v.v);
}

static vf::Case gen_fixed_case(const std::string& part, int n, int kind, int kindB, uint64_t seed)
{
	SplitMix g(seed);
	vf::Case c;
	vf::Op a(part);
	put(a, gen_square(g, kind, n));
	c.add(a);
	if (kindB >= 0) {
		vf::Op b(part);
		put(b, gen_square(g, kindB, n));
		c.add(b);
	}
	return c;
}

static vf::Case gen_solve_case(int kind, int n, int extra_rows, int nb, uint64_t seed)
{
	SplitMix g(seed);
	vf::Case c;
	c.add(vf::Op("salt", {(long long)(g.next() >> 1)}));
	RM sq = gen_square(g, kind, n);
	RM A = sq;
	if (extra_rows > 0) {
		// over-determined: the structured square block followed by further rows (uniform, sparse or small integers),
		// rows then shuffled half of the time
		A = RM(n + extra_rows, n);
		int style = (int)g.below(3);
		for (int i = 0; i < A.r; i++)
			for (int j = 0; j < n; j++) {
				if (i < n)
					A(i, j) = sq(i, j);
				else
					A(i, j) = style == 0 ? g.field() : style == 1 ? (g.below(2) ? g.field() : Fp(0)) : Fp((long long)g.below(5) - 2);
			}
		if (g.below(2))
			A = rnd_perm(g, A.r, false) * A;
	}
	vf::Op oa("A", {A.r, A.c});
	put(oa, A);
	c.add(oa);
	RM b(A.r, nb);
	int bstyle = (int)g.below(4);
	for (auto& v : b.a)
		v = bstyle == 0 ? Fp((long long)g.below(3) - 1) : g.field();
	if (bstyle == 1 && A.r == A.c && nb == A.r)
		b = RM::identity(A.r);
	vf::Op ob("b", {nb});
	put(ob, b);
	c.add(ob);
	return c;
}

static vf::Case gen_quat_case(int form, int style, uint64_t seed)
{
	SplitMix g(seed);
	vf::Op q("q", {form});
	for (int i = 0; i < 4; i++) {
		long long v;
		if (style == 0)
			v = (long long)(g.next() % fp61::P);
		else if (style == 1)
			v = (long long)g.below(7) - 3;
		else
			v = g.below(3) == 0 ? 0 : (long long)(g.next() % fp61::P);
		q.a.push_back(v);
	}
	vf::Op v("v", {(long long)(g.next() % fp61::P), (long long)(g.next() % fp61::P), (long long)(g.next() % fp61::P)});
	vf::Case c;
	c.add(q).add(v);
	return c;
}

// thorough tier only: bulk volume from the same generators, parameters drawn from a PRNG seeded by seed/worker/part
// (no rapidcheck bookkeeping per case; a failure is saved by the runner as it is)
template <class F>
static void sweep(const vf::Args& a, const std::string& part, long n, F make)
{
	if (a.quick())
		return;
	SplitMix g(a.seed * 0x9e3779b97f4a7c15ULL + (uint64_t)a.worker * 1000003ULL + vf::fnv(part));
	long i = 0;
	for (; i < n; i++)
		if (!vf::runner().run(part, make(g)))
			break;
	vf::stats().part(part + ".seeded-sweep", (uint64_t)i, false);
}

void vf_search(const vf::Args& a)
{
	using namespace rc;
	g_collect = true;
	double t_last = vf::now();
	auto lap = [&](const char* what) { // per-part wall time in the worker log (diagnostics only, no decision depends on it)
		double t = vf::now();
		fprintf(stderr, "[time] %s %.1fs\n", what, t - t_last);
		t_last = t;
	};
	auto seed64 = gen::arbitrary<uint64_t>();

	for (const char* part : {"m4", "m3"}) {
		[&]() {
			int n = part[1] - '0';
			auto g = gen::map(gen::tuple(vf::irange<int>(0, K_COUNT - 1), vf::irange<int>(-1, K_COUNT - 1), seed64), [=](const std::tuple<int, int, uint64_t>& t) {
				int kb = std::get<1>(t);
				// affine * affine in half of the affine cases (the only products Matrix3::operator* is documented for)
				if (std::get<0>(t) == K_AFFINE && (std::get<2>(t) & 1))
					kb = K_AFFINE;
				return gen_fixed_case(part, n, std::get<0>(t), kb, std::get<2>(t));
			});
			bool ok = vf::check_cases(part, a.n(20000, 80000), 100, g);
			lap(part);
			if (!ok)
				return;
			std::string sp = part;
			sweep(a, sp, a.n(0, 250000), [=](SplitMix& r) {
				int k = (int)r.below(K_COUNT), kb = (int)r.below(K_COUNT + 1) - 1;
				uint64_t sd = r.next();
				if (k == K_AFFINE && (sd & 1))
					kb = K_AFFINE;
				return gen_fixed_case(sp, n, k, kb, sd);
			});
		}();
	}
	[&]() {
		// sizes 1..12, biased to the larger ones; 1..4 right-hand sides; every structured kind
		auto g = gen::map(gen::tuple(vf::irange<int>(0, K_COUNT - 3), gen::weightedOneOf<int>({{1, vf::irange<int>(1, 3)}, {3, vf::irange<int>(2, 12)}, {1, gen::just(12)}}),
		                             vf::irange<int>(1, 4), seed64),
		                  [](const std::tuple<int, int, int, uint64_t>& t) { return gen_solve_case(std::get<0>(t), std::get<1>(t), 0, std::get<2>(t), std::get<3>(t)); });
		bool ok = vf::check_cases("solve", a.n(6000, 24000), 100, g);
		lap("solve(square)");
		if (!ok)
			return;
		sweep(a, "solve", a.n(0, 60000), [](SplitMix& r) {
			int k = (int)r.below(K_COUNT - 2), w = (int)r.below(5);
			int n = w == 0 ? 1 + (int)r.below(3) : w == 4 ? 12 : 2 + (int)r.below(11);
			return gen_solve_case(k, n, 0, 1 + (int)r.below(4), r.next());
		});
	}();
	[&]() {
		// over-determined full-rank systems: n unknowns, 1..4 extra equations
		auto g = gen::map(gen::tuple(vf::irange<int>(0, K_COUNT - 3), vf::irange<int>(1, 12), vf::irange<int>(1, 4), vf::irange<int>(1, 3), seed64),
		                  [](const std::tuple<int, int, int, int, uint64_t>& t) {
			                  return gen_solve_case(std::get<0>(t), std::get<1>(t), std::get<2>(t), std::get<3>(t), std::get<4>(t));
		                  });
		bool ok = vf::check_cases("solve", a.n(2500, 10000), 100, g);
		lap("solve(over-determined)");
		if (!ok)
			return;
		sweep(a, "solve", a.n(0, 25000), [](SplitMix& r) {
			int k = (int)r.below(K_COUNT - 2);
			return gen_solve_case(k, 1 + (int)r.below(12), 1 + (int)r.below(4), 1 + (int)r.below(3), r.next());
		});
	}();
	[&]() {
		auto g = gen::map(gen::tuple(vf::irange<int>(0, 3), vf::irange<int>(0, 2), seed64),
		                  [](const std::tuple<int, int, uint64_t>& t) { return gen_quat_case(std::get<0>(t), std::get<1>(t), std::get<2>(t)); });
		bool ok = vf::check_cases("quat", a.n(15000, 40000), 100, g);
		lap("quat");
		if (!ok)
			return;
		sweep(a, "quat", a.n(0, 120000), [](SplitMix& r) { return gen_quat_case((int)r.below(4), (int)r.below(3), r.next()); });
	}();
	if (a.worker == 0) {
		vf::stats().sample("solve: " + vf::serialize(gen_solve_case(K_CYCU, 3, 0, 1, 7)));
		vf::stats().sample("m4: " + vf::serialize(gen_fixed_case("m4", 4, K_UNIFORM, -1, 7)));
	}
}
