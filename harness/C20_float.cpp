// C20 (floating part) -- float/double instantiations of Matrix3_/Matrix4_/Matrix_/solve against long-double references
// on well-conditioned inputs, and the rotation conversions (quaternion <-> matrix <-> axis-angle <-> Euler angles).
//
// parts (first argument t of every op: 0 = float, 1 = double; floating values travel as the bit pattern of a double):
//   finv    M t n <n*n bits>                      Matrix3_/Matrix4_ inverse() and det() residuals
//   fsolve  A t rows cols <bits> / b cols <bits>  Matrix_ solve / inverse / least squares residuals
//   fscale  A t rows cols <bits> / b cols <bits> / k ka kb   the same systems with A scaled by 2^ka and b by 2^kb (whole exponent range)
//   relrot  rr t a b c d ax ay az dn k mode ord fixed   relative rotation, computed in T, of the orientation (a,b,c,d)/|.| and the one
//                                                 10^-dn rad (or 0, or k*pi/12) further about (ax,ay,az): conversions of the result
//   quat    q t a b c d                           integer 4-vector, normalised by the harness: q -> M -> q, M -> axis-angle -> M
//   axang   aa t ax ay az num den e               axis (integers), angle = pi*num/den + eps[e]: rotate() vs Rodrigues, round trips
//   euler   e t ord fixed n0 d0 e0 n1 d1 e1 n2 d2 e2   three angles, one of the 12 axis orders, moving or fixed axes
//   eulerm  em t ord fixed <9 bits>               a T matrix within 3 eps (max-norm) of a rotation, e.g. the T product of two
//                                                 rotation matrices: M -> eulerAngles -> rotateE = M, M -> q -> M, M -> axis-angle -> M
//
// Tolerances (eps = machine epsilon of T; every bound is on the max-norm of a matrix/quaternion difference):
//   ALG  = 64 eps    one algebraic conversion (no inverse trigonometric function): each entry is a sum of <= 4 products of
//                    factors with relative error <= 2 eps, worst case about 10 eps
//   COMP = 256 eps   two algebraic conversions in sequence (M -> q -> M)
//   DEG  = 1e-6 (double), 2e-3 (float)   round trips through acos/asin/atan2: at angle 0 (w = 1 - O(eps)) and at gimbal
//                    lock (|m| = 1 - O(eps)) the inverse functions turn an eps into sqrt(2 eps) = 2e-8 / 5e-4;
//                    the bounds leave a factor >= 4 over that
//   residuals: 64 eps kappa, kappa from a long-double computation on the same (rounded) matrix; see finv/fsolve below.
#include "common/vfrc.h"
#include "common/ref_linalg.h"
#include <array>
#include <limits>
#include <asl/Matrix4.h>
#include <asl/Matrix3.h>
#include <asl/Matrix.h>
#include <asl/Quaternion.h>

typedef long double ld;
typedef ref::Mat<ld> LM;

const char* vf_harness_name() { return "C20_float"; }

// see C20_exact.cpp: a small ASan quarantine keeps 16 parallel workers within a few GB
extern "C" const char* __asan_default_options() { return "quarantine_size_mb=32"; }

static int g_collect = 0; // 0 replay, 1 search (non-trivial cases hashed), 2 enumerated grid (distinct by construction)
static ld g_worst[8];     // largest observed error / tolerance ratio per check family (reported as samples)
enum { W_FINV, W_FSOLVE, W_LSQ, W_ALG, W_COMP, W_DEG_AA, W_DEG_EULER, W_N };

static const ld PIL = 3.14159265358979323846264338327950288L;

struct SplitMix {
	uint64_t s;
	explicit SplitMix(uint64_t seed) : s(seed) {}
	uint64_t next()
	{
		uint64_t z = (s += 0x9e3779b97f4a7c15ULL);
		z = (z ^ (z >> 30)) * 0xbf58476d1ce4e5b9ULL;
		z = (z ^ (z >> 27)) * 0x94d049bb133111ebULL;
		return z ^ (z >> 31);
	}
	uint64_t below(uint64_t n) { return n ? next() % n : 0; }
	ld unit() { return (ld)(next() >> 11) / (ld)(1ULL << 53); }  // [0,1)
	ld sym() { return 2 * unit() - 1; }                          // [-1,1)
};

static void cls(const std::string& c)
{
	if (g_collect)
		vf::stats().cls(c);
}
// message context that is only formatted when a check fails (string streams are slow and allocate)
template <class F>
struct Lazy {
	F f;
};
template <class F>
static Lazy<F> lazy(F f)
{
	return Lazy<F>{f};
}
template <class F>
std::ostream& operator<<(std::ostream& o, const Lazy<F>& l)
{
	return o << l.f();
}

static void nontrivial(const vf::Case& c)
{
	if (g_collect == 1)
		vf::stats().nt(vf::fnv(vf::serialize(c)));
	else if (g_collect == 2)
		vf::stats().nt_counted(1);
}
static const char* g_worst_name[] = {"finv residual/bound", "fsolve residual/bound", "lsq residual/bound", "algebraic conversion error/ALG",
                                     "M->q->M error/COMP", "axis-angle round trip error/DEG", "Euler round trip error/DEG"};
static void worst(int k, ld err, ld tol)
{
	if (!g_collect || !(tol > 0))
		return;
	ld r = err / tol;
	if (r > g_worst[k])
		g_worst[k] = r;
	// margin histogram (summed over the workers by the driver): how close the passing cases come to the tolerance
	if (r >= 0.1L)
		vf::stats().cls(std::string("margin: ") + g_worst_name[k] + (r < 0.25L ? " in [0.10,0.25)" : r < 0.5L ? " in [0.25,0.50)" : r < 0.75L ? " in [0.50,0.75)" : " in [0.75,1]"));
}

static long long bits_of(double d)
{
	long long b;
	memcpy(&b, &d, 8);
	return b;
}
static double of_bits(long long b)
{
	double d;
	memcpy(&d, &b, 8);
	return d;
}
template <class T>
struct Tol {
	static ld eps() { return std::numeric_limits<T>::epsilon(); }
	static ld alg() { return 64 * eps(); }
	static ld comp() { return 256 * eps(); }
	static ld deg() { return sizeof(T) == 4 ? 2e-3L : 1e-6L; }
	static ld kappa_max() { return sizeof(T) == 4 ? 1e2L : 1e4L; }
	static const char* name() { return sizeof(T) == 4 ? "float" : "double"; }
};

static std::string show(const LM& m)
{
	std::ostringstream o;
	o.precision(17);
	o << "[";
	for (int i = 0; i < m.r; i++) {
		o << (i ? "; " : "");
		for (int j = 0; j < m.c; j++)
			o << (j ? " " : "") << (double)m(i, j);
	}
	o << "]";
	return o.str();
}
static bool finite(const LM& m)
{
	for (auto v : m.a)
		if (!(std::fabs(v) <= 1e300L))
			return false;
	return true;
}

// ------------------------------------------------------------------------------------------------ finv

template <class T>
static void run_finv(const vf::Op& o, const vf::Case& c)
{
	int n = o.i(1) == 3 ? 3 : 4;
	LM A(n, n);
	for (int i = 0; i < n * n; i++)
		A.a[i] = (ld)(T)of_bits(o.i(2 + i)); // exactly the T values the library sees
	if (!finite(A))
		return;
	// domain: kappa_c = |A|_F^n / |det A| <= kappa_max.  It is the condition number of evaluating the cofactor
	// (adjugate / determinant) formulas that Matrix3/Matrix4 use: every cofactor and the determinant are sums of signed
	// products whose absolute values add up to at most |A|_F^(n-1) resp. |A|_F^n (permanent <= product of row 1-norms
	// <= |A|_F^n), each product carries <= 7 roundings, so  |A X - I|_F, |X A - I|_F <= ~40 eps kappa_c  in the worst
	// case.  kappa_c >= kappa_F(A) / n, so the domain is a subset of the well-conditioned matrices.
	ld dl = ref::det(A), fn = ref::frob(A);
	ld fnn = std::pow(fn, (ld)n);
	if (!(std::fabs(dl) > 0) || !(fnn / std::fabs(dl) <= Tol<T>::kappa_max())) {
		cls("finv.outside-domain(skipped)");
		if (g_collect)
			vf::stats().discarded++;
		return;
	}
	ld kc = fnn / std::fabs(dl), tol = 64 * Tol<T>::eps() * kc;
	LM X(n, n);
	ld dlib;
	if (n == 4) {
		asl::Matrix4_<T> M;
		for (int i = 0; i < 4; i++)
			for (int j = 0; j < 4; j++)
				M(i, j) = (T)A(i, j);
		asl::Matrix4_<T> Xi = M.inverse();
		dlib = M.det();
		for (int i = 0; i < 4; i++)
			for (int j = 0; j < 4; j++)
				X(i, j) = Xi(i, j);
		// compound / self-aliased forms: M *= M (both operands the same object), M = M * M, M = M.inverse(), M *= N
		// each element of a product is a sum of 4 products: error <= 4 eps |row| |column| <= 4 eps |A|_F^2
		LM AA = A * A;
		ld ptol = 64 * Tol<T>::eps() * fn * fn;
		asl::Matrix4_<T> C = M;
		C *= C;
		asl::Matrix4_<T> D = M;
		D = D * D;
		asl::Matrix4_<T> E = M;
		E *= M;
		asl::Matrix4_<T> F = M;
		F = F.inverse();
		ld e1 = 0, e2 = 0, e3 = 0, e4 = 0;
		for (int i = 0; i < 4; i++)
			for (int j = 0; j < 4; j++) {
				e1 = std::max(e1, std::fabs((ld)C(i, j) - AA(i, j)));
				e2 = std::max(e2, std::fabs((ld)D(i, j) - AA(i, j)));
				e3 = std::max(e3, std::fabs((ld)E(i, j) - AA(i, j)));
				e4 = std::max(e4, std::fabs((ld)F(i, j) - (ld)Xi(i, j)));
			}
		VF_CHECK(e1 <= ptol, "Matrix4_<", Tol<T>::name(), ">: M *= M differs from M * M (long double) by ", (double)e1, " > 64 eps |A|_F^2 = ", (double)ptol, " for ", show(A));
		VF_CHECK(e2 <= ptol, "Matrix4_<", Tol<T>::name(), ">: M = M * M differs from the long double product by ", (double)e2, " for ", show(A));
		VF_CHECK(e3 <= ptol, "Matrix4_<", Tol<T>::name(), ">: C *= M (C a copy of M) differs from the long double product by ", (double)e3, " for ", show(A));
		VF_CHECK(e4 <= 64 * Tol<T>::eps() * ref::maxabs(X), "Matrix4_<", Tol<T>::name(), ">: M = M.inverse() differs from M.inverse() for ", show(A));
		cls("finv.Matrix4.compound+aliased-forms");
	}
	else {
		asl::Matrix3_<T> M;
		for (int i = 0; i < 3; i++)
			for (int j = 0; j < 3; j++)
				M(i, j) = (T)A(i, j);
		asl::Matrix3_<T> Xi = M.inverse();
		dlib = M.det();
		for (int i = 0; i < 3; i++)
			for (int j = 0; j < 3; j++)
				X(i, j) = Xi(i, j);
	}
	auto what = lazy([&] { return vf::str("Matrix", n, "_<", Tol<T>::name(), ">"); });
	ld derr = std::fabs(dlib - dl);
	VF_CHECK(derr <= 64 * Tol<T>::eps() * fnn, what, "::det() = ", (double)dlib, ", long double ", (double)dl, ": error ", (double)derr, " > 64 eps |A|_F^n = ",
	         (double)(64 * Tol<T>::eps() * fnn), " for ", show(A));
	LM I = LM::identity(n);
	ld r1 = ref::frob(A * X - I), r2 = ref::frob(X * A - I);
	VF_CHECK(r1 <= tol, what, ": |M inverse(M) - I|_F = ", (double)r1, " > 64 eps kappa = ", (double)tol, " (kappa ", (double)kc, ") for ", show(A));
	VF_CHECK(r2 <= tol, what, ": |inverse(M) M - I|_F = ", (double)r2, " > 64 eps kappa = ", (double)tol, " (kappa ", (double)kc, ") for ", show(A));
	worst(W_FINV, r1 > r2 ? r1 : r2, tol);
	worst(W_FINV, derr, 64 * Tol<T>::eps() * fnn);
	cls(std::string("finv.") + Tol<T>::name() + (n == 3 ? "3" : "4") + (kc < 10 ? ".kappa<10" : kc < 100 ? ".kappa<1e2" : ".kappa<1e4"));
	if (kc > 4 * n)
		nontrivial(c);
}

// ------------------------------------------------------------------------------------------------ fsolve

// Result of checking one system with the library: whether it was inside the domain, the library's solution and, per column,
// a bound on |x - x*| (x* the exact solution) that follows from the residual bound that was just verified.
struct SysResult {
	bool in_domain = false;
	LM x;                   // library solution (as long double)
	std::vector<ld> fwd;    // per column: |A^-1|_F * residual tolerance  >=  |x_j - x*_j|
	ld amax = 0, lowpiv = 0; // largest |element| of the matrix actually eliminated; lower bound of its pivots
};

// A, b hold exactly the T values handed to the library (possibly subnormal).  Square systems: solve + Matrix_::inverse;
// rows > cols: least squares through the normal equations.
//
// Tolerances.  With eps the machine epsilon and eta the smallest subnormal of T, every operation of the elimination has an
// error <= eps |result| + eta/2 (gradual underflow), so the backward error is c n (eps |A| + n eta) on A and c n eta on b:
//     |A x - b|  <=  64 kappa ( eps |A|_F |x|  +  n eta (1 + |x|) )            per column,
// which is the bound used so far plus a term that is negligible (< 1e-280 resp. < 1e-30 relative) unless the elements of A
// or b are near the bottom of the exponent range.  Domain in addition to kappa <= kappa_max: every pivot keeps >= 8
// significant bits (in exact arithmetic every pivot of partial pivoting is >= |A|_F / (sqrt(n) kappa_F), because the inverse of a
// Schur complement is a submatrix of A^-1), and nothing that the exact computation produces leaves the finite range
// (elements, solution, |b| kappa n each <= max/2^16; a non-zero solution column is not itself subnormal).
template <class T>
static SysResult check_system(const LM& A, const LM& b, const vf::Case& c, const char* tag, bool count)
{
	SysResult R;
	int rows = A.r, cols = A.c, nb = b.c;
	if (!finite(A) || !finite(b))
		return R;
	const ld eps = Tol<T>::eps(), eta = std::numeric_limits<T>::denorm_min(), big = std::ldexp((ld)std::numeric_limits<T>::max(), -16),
	         tiny = std::ldexp((ld)std::numeric_limits<T>::min(), 10);
	asl::Matrix_<T> LA(rows, cols), Lb(rows, nb);
	for (int i = 0; i < rows; i++) {
		for (int j = 0; j < cols; j++)
			LA(i, j) = (T)A(i, j);
		for (int j = 0; j < nb; j++)
			Lb(i, j) = (T)b(i, j);
	}
	ld fa = ref::frob(A);
	auto outside = [&](const char* why) {
		if (count) {
			cls(std::string(tag) + ".outside-domain(skipped)");
			cls(std::string(tag) + ".outside-domain: " + why);
			if (g_collect)
				vf::stats().discarded++;
		}
		return R;
	};
	if (rows == cols) {
		int n = rows;
		LM Ai;
		if (!ref::inverse(A, Ai) || !(fa * ref::frob(Ai) <= Tol<T>::kappa_max()))
			return outside("condition number");
		ld kappa = fa * ref::frob(Ai);
		LM xl = Ai * b;
		R.amax = ref::maxabs(A);
		R.lowpiv = fa / (std::sqrt((ld)n) * kappa);
		if (!(R.lowpiv >= 256 * eta))
			return outside("a pivot may have fewer than 8 significant bits");
		if (!(R.amax <= big) || !(ref::maxabs(b) * kappa * n <= big) || !(ref::maxabs(xl) <= big) || !(ref::maxabs(xl) * R.amax * n <= big))
			return outside("exact intermediate results near overflow");
		for (int j = 0; j < nb; j++) {
			ld m = 0;
			for (int i = 0; i < n; i++)
				m = std::max(m, std::fabs(xl(i, j)));
			if (m != 0 && m < tiny)
				return outside("solution near underflow");
		}
		asl::Matrix_<T> x = asl::solve(LA, Lb);
		VF_CHECK(x.rows() == n && x.cols() == nb, "solve(A,b) has shape ", x.rows(), "x", x.cols());
		R.x = LM(n, nb);
		ld fai = ref::frob(Ai);
		for (int j = 0; j < nb; j++) {
			LM xj(n, 1), bj(n, 1);
			for (int i = 0; i < n; i++) {
				R.x(i, j) = xj(i, 0) = x(i, j);
				bj(i, 0) = b(i, j);
			}
			ld nx = ref::frob(xj), res = ref::frob(A * xj - bj), tol = 64 * kappa * (eps * fa * nx + n * eta * (1 + nx));
			VF_CHECK(res <= tol, "solve<", Tol<T>::name(), ">: |A x - b| = ", (double)res, " > 64 kappa (eps |A| |x| + n eta (1+|x|)) = ", (double)tol, "; relative to |A||x|: ",
			         (double)(res / (fa * nx)), " (kappa ", (double)kappa, ", n=", n, ", largest |element| ", (double)R.amax, ") for A=", show(A), " b=", show(bj), " x=", show(xj));
			worst(W_FSOLVE, res, tol);
			R.fwd.push_back(fai * tol);
		}
		// Matrix_::inverse() where the inverse is representable
		if (ref::maxabs(Ai) <= big && ref::maxabs(Ai) * R.amax * n <= big) {
			asl::Matrix_<T> Xl = LA.inverse();
			VF_CHECK(Xl.rows() == n && Xl.cols() == n, "Matrix_::inverse() has shape ", Xl.rows(), "x", Xl.cols());
			LM X(n, n);
			for (int i = 0; i < n; i++)
				for (int j = 0; j < n; j++)
					X(i, j) = Xl(i, j);
			ld r1 = ref::frob(A * X - LM::identity(n)), tol = 64 * kappa * (eps + n * eta * (std::sqrt((ld)n) + ref::frob(X)));
			VF_CHECK(r1 <= tol, "Matrix_<", Tol<T>::name(), ">: |A inverse(A) - I|_F = ", (double)r1, " > 64 kappa (eps + n eta (sqrt n + |X|)) = ", (double)tol, " (kappa ",
			         (double)kappa, ", n=", n, ", largest |element| ", (double)R.amax, ") for A=", show(A));
			worst(W_FSOLVE, r1, tol);
		}
		R.in_domain = true;
		if (count) {
			bool zd = false;
			for (int i = 0; i < n; i++)
				if (A(i, i) == 0)
					zd = true;
			cls(std::string(tag) + "." + Tol<T>::name() + (n < 4 ? ".n<4" : n < 8 ? ".n<8" : ".n<=12"));
			if (zd)
				cls(std::string(tag) + ".zero-on-diagonal");
		}
	}
	else {
		// least squares through the normal equations G x = A^T b, G = A^T A; domain: kappa_F(G) <= kappa_max
		LM At = A.t(), G = At * A, Gi;
		ld fg = ref::frob(G);
		if (!ref::inverse(G, Gi) || !(fg * ref::frob(Gi) <= Tol<T>::kappa_max()))
			return outside("condition number");
		ld kappa = fg * ref::frob(Gi);
		LM xl = Gi * (At * b);
		R.amax = ref::maxabs(G);
		R.lowpiv = fg / (std::sqrt((ld)cols) * kappa);
		if (!(R.lowpiv >= 256 * eta))
			return outside("a pivot may have fewer than 8 significant bits");
		ld bmax = ref::maxabs(b), am = ref::maxabs(A);
		if (!(R.amax * rows <= big) || !(am * bmax * rows * kappa * cols <= big) || !(ref::maxabs(xl) <= big) || !(ref::maxabs(xl) * R.amax * cols <= big) || !(am <= big) ||
		    !(bmax <= big))
			return outside("exact intermediate results near overflow");
		for (int j = 0; j < nb; j++) {
			ld m = 0;
			for (int i = 0; i < cols; i++)
				m = std::max(m, std::fabs(xl(i, j)));
			if (m != 0 && m < tiny)
				return outside("solution near underflow");
		}
		asl::Matrix_<T> x = asl::solve(LA, Lb);
		VF_CHECK(x.rows() == cols && x.cols() == nb, "least-squares solve(A,b) has shape ", x.rows(), "x", x.cols());
		R.x = LM(cols, nb);
		ld fgi = ref::frob(Gi);
		for (int j = 0; j < nb; j++) {
			LM xj(cols, 1), bj(rows, 1);
			for (int i = 0; i < cols; i++)
				R.x(i, j) = xj(i, 0) = x(i, j);
			for (int i = 0; i < rows; i++)
				bj(i, 0) = b(i, j);
			// forming G and A^T b in T costs rows (eps (|A|^2 |x| + |A| |b|) + eta (1 + |x|)); solving G x = h backward-stably costs
			// n (eps |G| + n eta) |x| + n eta
			ld nx = ref::frob(xj), res = ref::frob(At * (A * xj - bj));
			ld tol = 64 * kappa * (eps * (fa * fa * nx + fa * ref::frob(bj)) + (rows + cols) * eta * (1 + nx));
			VF_CHECK(res <= tol, "least squares<", Tol<T>::name(), ">: |A^T(Ax-b)| = ", (double)res, " > 64 kappa(A^T A) (eps (|A|^2|x| + |A||b|) + (m+n) eta (1+|x|)) = ", (double)tol,
			         " (kappa ", (double)kappa, ", largest |element| of A^T A ", (double)R.amax, ") for the ", rows, "x", cols, " A=", show(A), " b=", show(bj), " x=", show(xj));
			worst(W_LSQ, res, tol);
			R.fwd.push_back(fgi * tol);
		}
		R.in_domain = true;
		if (count)
			cls(std::string(tag == std::string("fsolve") ? "lsq." : "fscale.lsq.") + Tol<T>::name());
	}
	return R;
}

template <class T>
static bool read_system(const vf::Op& oa, const vf::Op* ob, LM& A, LM& b)
{
	auto mod = [](long long v, int m) { return (int)(((v % m) + m) % m); };
	int rows = 1 + mod(oa.i(1) - 1, 16), cols = 1 + mod(oa.i(2) - 1, 12);
	if (cols > rows)
		cols = rows;
	int nb = ob ? 1 + mod(ob->i(0) - 1, 4) : 1;
	A = LM(rows, cols);
	b = LM(rows, nb);
	for (int i = 0; i < rows * cols; i++)
		A.a[i] = (ld)(T)of_bits(oa.i(3 + i));
	for (int i = 0; i < rows * nb; i++)
		b.a[i] = ob ? (ld)(T)of_bits(ob->i(1 + i)) : (ld)1;
	return finite(A) && finite(b);
}

template <class T>
static void run_fsolve(const vf::Op& oa, const vf::Op* ob, const vf::Case& c)
{
	LM A, b;
	if (!read_system<T>(oa, ob, A, b))
		return;
	SysResult r = check_system<T>(A, b, c, "fsolve", true);
	if (r.in_domain && (A.r > 1 || A.r != A.c))
		nontrivial(c);
}

// Scaling relation: for s = 2^ka, t = 2^kb (exact in T unless a result is subnormal, and then the rounded T values are what
// both the library and the reference see) the systems (sA) x = (tb) and (sA) x = b are as well conditioned as A x = b; the
// library must solve them within the same bound, and the solutions must agree with (t/s) x resp. x/s up to the sum of the
// two forward bounds.  ka, kb range over the whole exponent range of T, including subnormal elements of sA.
template <class T>
static void run_fscale(const vf::Op& oa, const vf::Op* ob, const vf::Op* ok, const vf::Case& c)
{
	LM A, b;
	if (!read_system<T>(oa, ob, A, b))
		return;
	SysResult r0 = check_system<T>(A, b, c, "fscale.unscaled", false);
	if (!r0.in_domain) {
		cls("fscale.unscaled-system-outside-domain(skipped)");
		if (g_collect)
			vf::stats().discarded++;
		return;
	}
	long long lim = sizeof(T) == 4 ? 300 : 2200;
	long long ka = ok ? ok->i(0) : 0, kb = ok ? ok->i(1) : 0;
	ka = std::max(-lim, std::min(lim, ka));
	kb = std::max(-lim, std::min(lim, kb));
	auto scaledT = [](const LM& M, long long k) {
		LM S = M;
		for (auto& v : S.a)
		{
			ld w = std::ldexp(v, (int)k);
			v = std::fabs(w) > (ld)std::numeric_limits<T>::max() ? std::numeric_limits<ld>::infinity() : (ld)(T)w; // rounds when subnormal in T
		}
		return S;
	};
	LM sA = scaledT(A, ka);
	const ld minn = std::numeric_limits<T>::min(), rmax = 1 / (ld)std::numeric_limits<T>::max();
	int variants = 0;
	for (int v = 0; v < 2; v++) {
		long long kbv = v == 0 ? kb : 0;
		if (v == 1 && kb == 0)
			break;
		LM sb = scaledT(b, kbv);
		SysResult r = check_system<T>(sA, sb, c, "fscale", true);
		if (!r.in_domain)
			continue;
		variants++;
		// agreement with the unscaled solution scaled back: x_s = 2^(kbv-ka) x up to both forward bounds.  When sb was rounded
		// (subnormal) the right-hand sides differ by <= eta/2 per element: |A^-1| sqrt(rows) eta / 2 more.
		ld f = std::ldexp((ld)1, (int)(kbv - ka));
		ld binexact = 0;
		for (size_t i = 0; i < sb.a.size(); i++)
			binexact = std::max(binexact, std::fabs(sb.a[i] - std::ldexp(b.a[i], (int)kbv)));
		ld ainexact = 0;
		for (size_t i = 0; i < sA.a.size(); i++)
			ainexact = std::max(ainexact, std::fabs(sA.a[i] - std::ldexp(A.a[i], (int)ka)));
		if (ainexact == 0 && binexact == 0) {
			for (int j = 0; j < r.x.c; j++) {
				ld d = 0, nx = 0;
				for (int i = 0; i < r.x.r; i++) {
					ld e = r.x(i, j) - f * r0.x(i, j);
					d += e * e;
					nx += r.x(i, j) * r.x(i, j);
				}
				d = std::sqrt(d);
				ld tol = r.fwd[j] + f * r0.fwd[j];
				VF_CHECK(d <= tol, "solve(2^", ka, " A, 2^", kbv, " b) differs from 2^", kbv - ka, " solve(A, b) by ", (double)d, " > ", (double)tol, " (|x| = ", (double)std::sqrt(nx),
				         ") for ", Tol<T>::name(), " A=", show(A), " b=", show(b));
			}
			cls("fscale.agreement-with-unscaled-solution");
		}
		if (g_collect) {
			ld am = ref::maxabs(sA);
			const char* range = am < minn ? ".A-subnormal" : am < minn * 1e6L ? ".A-near-min-normal" : am > (ld)std::numeric_limits<T>::max() * 1e-12L ? ".A-near-max" : ".A-mid-range";
			cls(std::string("fscale.") + Tol<T>::name() + range);
			if (r.lowpiv < rmax)
				cls("fscale.pivot-bound-below-1/max (a reciprocal of the pivot would overflow)");
			if (v == 1)
				cls("fscale.only-A-scaled");
		}
	}
	if (variants) {
		ld am = ref::maxabs(sA);
		if (am < minn * 1e6L || am > (ld)std::numeric_limits<T>::max() * 1e-12L)
			nontrivial(c);
	}
	else {
		cls("fscale.scaled-system-outside-domain(skipped)");
		if (g_collect)
			vf::stats().discarded++;
	}
}

// ------------------------------------------------------------------------------------------------ rotations

struct Q {
	ld w, x, y, z;
};
static Q qmul(const Q& a, const Q& b)
{
	return Q{a.w * b.w - a.x * b.x - a.y * b.y - a.z * b.z, a.w * b.x + a.x * b.w + a.y * b.z - a.z * b.y, a.w * b.y - a.x * b.z + a.y * b.w + a.z * b.x,
	         a.w * b.z + a.x * b.y - a.y * b.x + a.z * b.w};
}
// rotation matrix of q by the Hamilton product: column j = q e_j q* / |q|^2
static LM rot_of_quat(const Q& q)
{
	ld n2 = q.w * q.w + q.x * q.x + q.y * q.y + q.z * q.z;
	Q qc{q.w, -q.x, -q.y, -q.z};
	LM R(3, 3);
	for (int j = 0; j < 3; j++) {
		Q e{0, j == 0 ? 1.0L : 0.0L, j == 1 ? 1.0L : 0.0L, j == 2 ? 1.0L : 0.0L};
		Q r = qmul(qmul(q, e), qc);
		R(0, j) = r.x / n2;
		R(1, j) = r.y / n2;
		R(2, j) = r.z / n2;
	}
	return R;
}
// Rodrigues: R = I + sin(t) K + (1 - cos(t)) K^2, K the cross-product matrix of the unit axis
static LM rodrigues(ld ax, ld ay, ld az, ld t)
{
	ld n = std::sqrt(ax * ax + ay * ay + az * az);
	LM R = LM::identity(3);
	if (n == 0)
		return R;
	ax /= n;
	ay /= n;
	az /= n;
	LM K(3, 3);
	K(0, 1) = -az;
	K(0, 2) = ay;
	K(1, 0) = az;
	K(1, 2) = -ax;
	K(2, 0) = -ay;
	K(2, 1) = ax;
	LM K2 = K * K;
	ld s = std::sin(t), c1 = 2 * std::sin(t / 2) * std::sin(t / 2); // 1 - cos t without cancellation
	for (int i = 0; i < 9; i++)
		R.a[i] += s * K.a[i] + c1 * K2.a[i];
	return R;
}
static LM rot_axis(int axis, ld t) { return rodrigues(axis == 0, axis == 1, axis == 2, t); }

template <class T>
static ld diff(const asl::Matrix4_<T>& m, const LM& R) // max-norm of m - [R 0; 0 1]; NaN -> +inf
{
	ld d = 0;
	for (int i = 0; i < 4; i++)
		for (int j = 0; j < 4; j++) {
			ld want = (i < 3 && j < 3) ? R(i, j) : (i == j ? 1.0L : 0.0L);
			ld e = std::fabs((ld)m(i, j) - want);
			if (!(e <= d))
				d = e == e ? e : std::numeric_limits<ld>::infinity();
		}
	return d;
}
template <class T>
static asl::Matrix4_<T> rounded(const LM& R)
{
	asl::Matrix4_<T> m;
	for (int i = 0; i < 3; i++)
		for (int j = 0; j < 3; j++)
			m(i, j) = (T)R(i, j);
	return m;
}
template <class T>
static std::string show4(const asl::Matrix4_<T>& m)
{
	LM r(4, 4);
	for (int i = 0; i < 4; i++)
		for (int j = 0; j < 4; j++)
			r(i, j) = m(i, j);
	return show(r);
}

// distance of a rotation matrix to the branch boundaries of Matrix4::rotation() and to angle 0 / pi
static ld degeneracy(const LM& R)
{
	ld t = R(0, 0) + R(1, 1) + R(2, 2);
	ld d = std::fabs(t); // t >= 0 switch
	d = std::min(d, std::fabs(t + 1)); // angle pi
	d = std::min(d, std::fabs(t - 3)); // angle 0
	if (t < 0.05L) {
		d = std::min(d, std::fabs(R(1, 1) - R(0, 0)));
		d = std::min(d, std::fabs(R(1, 1) - R(2, 2)));
		d = std::min(d, std::fabs(R(2, 2) - R(0, 0)));
	}
	return d;
}

// checks shared by all rotation parts: starting from the rotation R (long double), rounded to T:
//   M -> q -> M (COMP), M -> axis-angle -> M (DEG)
template <class T, class C>
static void check_from_matrix(asl::Matrix4_<T> M, const LM& R, const C& ctx);

template <class T, class C>
static void check_from_matrix(const LM& R, const C& ctx)
{
	check_from_matrix<T, C>(rounded<T>(R), R, ctx);
}

template <class T, class C>
static void check_from_matrix(asl::Matrix4_<T> M, const LM& R, const C& ctx)
{
	M(0, 3) = (T)1.5; // a translation must not disturb the rotation part
	M(1, 3) = (T)-2;
	M(2, 3) = (T)0.25;
	asl::Quaternion_<T> q = M.rotation();
	ld nq = std::sqrt((ld)q.w * q.w + (ld)q.x * q.x + (ld)q.y * q.y + (ld)q.z * q.z);
	VF_CHECK(std::fabs(nq - 1) <= Tol<T>::alg(), "Matrix4::rotation() of a rotation matrix has norm ", (double)nq, " for ", ctx, " M=", show(R));
	ld e1 = diff(q.matrix(), R);
	VF_CHECK(e1 <= Tol<T>::comp(), "M.rotation().matrix() differs from M by ", (double)e1, " > ", (double)Tol<T>::comp(), " for ", ctx, " M=", show(R), " q=(", q.w, ",", q.x,
	         ",", q.y, ",", q.z, ")");
	worst(W_COMP, e1, Tol<T>::comp());
	asl::Vec3_<T> v = M.axisAngle();
	VF_CHECK(v.x == v.x && v.y == v.y && v.z == v.z, "Matrix4::axisAngle() is NaN for ", ctx, " M=", show(R));
	asl::Matrix4_<T> M2 = asl::Matrix4_<T>::rotate(v);
	ld e2 = diff(M2, R);
	VF_CHECK(e2 <= Tol<T>::deg(), "rotate(M.axisAngle()) differs from M by ", (double)e2, " > ", (double)Tol<T>::deg(), " for ", ctx, " M=", show(R), " axisAngle=(", v.x, ",",
	         v.y, ",", v.z, ")");
	worst(W_DEG_AA, e2, Tol<T>::deg());
	// the same through the quaternion's own axis-angle and fromAxisAngle(vector)
	asl::Vec3_<T> v2 = q.axisAngle();
	ld e3 = diff(asl::Quaternion_<T>::fromAxisAngle(v2).matrix(), R);
	VF_CHECK(e3 <= Tol<T>::deg(), "fromAxisAngle(q.axisAngle()).matrix() differs from M by ", (double)e3, " for ", ctx, " M=", show(R));
}

static Q unit_quat(const vf::Op& o, size_t first)
{
	ld a = (ld)o.i(first), b = (ld)o.i(first + 1), c = (ld)o.i(first + 2), d = (ld)o.i(first + 3);
	ld n = std::sqrt(a * a + b * b + c * c + d * d);
	if (n == 0)
		return Q{1, 0, 0, 0};
	return Q{a / n, b / n, c / n, d / n};
}

template <class T>
static void run_quat(const vf::Op& o, const vf::Case& c)
{
	Q ql = unit_quat(o, 1);
	asl::Quaternion_<T> q((T)ql.w, (T)ql.x, (T)ql.y, (T)ql.z); // unit up to rounding to T
	Q qt{q.w, q.x, q.y, q.z};
	LM R = rot_of_quat(qt);
	auto ctx = lazy([&] { return vf::str("q=(", q.w, ",", q.x, ",", q.y, ",", q.z, ") ", Tol<T>::name()); });
	asl::Matrix4_<T> M = q.matrix();
	ld e0 = diff(M, R);
	VF_CHECK(e0 <= Tol<T>::alg(), "Quaternion::matrix() differs from the rotation v -> q v q* by ", (double)e0, " > ", (double)Tol<T>::alg(), " for ", ctx, ": ", show4(M),
	         " reference ", show(R));
	worst(W_ALG, e0, Tol<T>::alg());
	// q -> M -> q up to sign
	asl::Quaternion_<T> q2 = M.rotation();
	ld dp = 0, dm = 0;
	const T a[4] = {q.w, q.x, q.y, q.z}, b2[4] = {q2.w, q2.x, q2.y, q2.z};
	for (int i = 0; i < 4; i++) {
		ld p = std::fabs((ld)a[i] - b2[i]), m = std::fabs((ld)a[i] + b2[i]);
		if (!(p <= dp))
			dp = p == p ? p : 1e9L;
		if (!(m <= dm))
			dm = m == m ? m : 1e9L;
	}
	ld e1 = std::min(dp, dm);
	VF_CHECK(e1 <= Tol<T>::alg(), "q.matrix().rotation() = (", q2.w, ",", q2.x, ",", q2.y, ",", q2.z, ") differs from +-q by ", (double)e1, " > ", (double)Tol<T>::alg(), " for ",
	         ctx);
	worst(W_ALG, e1, Tol<T>::alg());
	// rotating a vector: Quaternion * v and Matrix4 % v
	asl::Vec3_<T> v((T)0.5, (T)-1.25, (T)2), rv = q * v, rm = M % v;
	ld want[3];
	for (int i = 0; i < 3; i++)
		want[i] = R(i, 0) * v.x + R(i, 1) * v.y + R(i, 2) * v.z;
	const T g1[3] = {rv.x, rv.y, rv.z}, g2[3] = {rm.x, rm.y, rm.z};
	for (int i = 0; i < 3; i++) {
		VF_CHECK(std::fabs((ld)g1[i] - want[i]) <= 4 * Tol<T>::alg(), "Quaternion * v differs from q v q* for ", ctx);
		VF_CHECK(std::fabs((ld)g2[i] - want[i]) <= 4 * Tol<T>::alg(), "q.matrix() % v differs from q v q* for ", ctx);
	}
	check_from_matrix<T>(R, ctx);
	ld dg = degeneracy(R);
	bool zeroc = o.i(1) == 0 || o.i(2) == 0 || o.i(3) == 0 || o.i(4) == 0;
	cls(std::string("quat.") + Tol<T>::name() + (dg < 1e-3L ? ".near-degenerate-branch" : ".generic"));
	if (zeroc)
		cls("quat.zero-component");
	ld t = R(0, 0) + R(1, 1) + R(2, 2);
	if (t < 0)
		cls(R(1, 1) > R(0, 0) && R(1, 1) >= R(2, 2) ? "quat.branch-y" : R(2, 2) > R(0, 0) ? "quat.branch-z" : "quat.branch-x");
	else
		cls("quat.branch-w");
	if (dg < 1e-3L)
		nontrivial(c);
}

static const ld EPS_TAB[] = {0, 1e-7L, -1e-7L, 1e-4L, -1e-4L, 1e-10L, -1e-10L, 1e-3L, -1e-3L, 3e-8L, -3e-8L, 1e-12L, -1e-12L, 1e-5L, -1e-5L, 1e-6L, -1e-6L, 1e-15L, -1e-15L};
static const int EPS_N = sizeof(EPS_TAB) / sizeof(EPS_TAB[0]);

static ld angle_of(long long num, long long den, long long e)
{
	if (den < 0)
		den = -den;
	if (den == 0)
		den = 1;
	if (den > (1LL << 40))
		den = 1LL << 40;
	num %= 8 * den; // |angle| < 8 pi
	return PIL * (ld)num / (ld)den + EPS_TAB[((e % EPS_N) + EPS_N) % EPS_N];
}

template <class T>
static void run_axang(const vf::Op& o, const vf::Case& c)
{
	auto small = [](long long v) { return (T)(ld)(v % 1000000007LL); };
	asl::Vec3_<T> axis(small(o.i(1)), small(o.i(2)), small(o.i(3)));
	T angle = (T)angle_of(o.i(4), o.i(5, 1), o.i(6));
	bool zero_axis = axis.x == 0 && axis.y == 0 && axis.z == 0;
	if (zero_axis)
		axis = asl::Vec3_<T>(0, 0, 1);
	// optional arguments 7, 8: the direction above rescaled to a length class (rotate() must accept an axis of any length):
	//   0 unit length, rounded to T             1 normalised in float, then converted to T ("unit" up to float rounding)
	//   2 length 1 +- 10^-k, k = 3..7           3 length 10^-3 .. 2*10^3            4 normalised in T arithmetic
	int lc = o.a.size() > 7 ? (int)(((o.i(7) % 5) + 5) % 5) : -1;
	if (lc >= 0) {
		long long lp = o.i(8) < 0 ? -o.i(8) : o.i(8);
		ld n = std::sqrt((ld)axis.x * axis.x + (ld)axis.y * axis.y + (ld)axis.z * axis.z), ux = axis.x / n, uy = axis.y / n, uz = axis.z / n, L = 1;
		if (lc == 2)
			L = 1 + ((lp & 1) ? -1 : 1) * std::pow(10.0L, -(ld)(3 + (lp / 2) % 5));
		else if (lc == 3)
			L = std::pow(10.0L, (ld)((lp % 7) - 3)) * (1 + (ld)((lp / 7) % 5) / 4);
		if (lc == 1)
			axis = asl::Vec3_<T>((T)(float)ux, (T)(float)uy, (T)(float)uz);
		else if (lc == 4) {
			T m = std::sqrt(axis.x * axis.x + axis.y * axis.y + axis.z * axis.z);
			axis = asl::Vec3_<T>(axis.x / m, axis.y / m, axis.z / m);
		}
		else
			axis = asl::Vec3_<T>((T)(ux * L), (T)(uy * L), (T)(uz * L));
	}
	auto ctx = lazy([&] { return vf::str("axis=(", axis.x, ",", axis.y, ",", axis.z, ") angle=", angle, " ", Tol<T>::name()); });
	LM R = rodrigues(axis.x, axis.y, axis.z, angle);
	asl::Matrix4_<T> M = asl::Matrix4_<T>::rotate(axis, angle);
	ld e0 = diff(M, R);
	VF_CHECK(e0 <= Tol<T>::alg(), "Matrix4::rotate(axis, angle) differs from Rodrigues' formula by ", (double)e0, " > ", (double)Tol<T>::alg(), " for ", ctx, ": ", show4(M),
	         " reference ", show(R));
	worst(W_ALG, e0, Tol<T>::alg());
	ld e1 = diff(asl::Quaternion_<T>::fromAxisAngle(axis, angle).matrix(), R);
	VF_CHECK(e1 <= Tol<T>::alg(), "fromAxisAngle(axis, angle).matrix() differs from Rodrigues' formula by ", (double)e1, " for ", ctx);
	{
		// the result is a rotation (orthonormal, det 1), keeps the axis fixed, and does not depend on the length of the axis; the
		// constants follow from |M - R| <= ALG element-wise: |M^T M - I| <= 6 ALG, |det M - 1| <= 9 ALG, |M u - u| <= 3 ALG
		ld n = std::sqrt((ld)axis.x * axis.x + (ld)axis.y * axis.y + (ld)axis.z * axis.z), u[3] = {axis.x / n, axis.y / n, axis.z / n};
		LM Ml(3, 3);
		for (int i = 0; i < 3; i++)
			for (int j = 0; j < 3; j++)
				Ml(i, j) = M(i, j);
		ld eo = ref::maxabs(Ml.t() * Ml - LM::identity(3)), ed = std::fabs(ref::det(Ml) - 1), ef = 0;
		for (int i = 0; i < 3; i++)
			ef = std::max(ef, std::fabs(Ml(i, 0) * u[0] + Ml(i, 1) * u[1] + Ml(i, 2) * u[2] - u[i]));
		VF_CHECK(eo <= 6 * Tol<T>::alg(), "Matrix4::rotate(axis, angle) is not orthonormal: |M^T M - I| = ", (double)eo, " > ", (double)(6 * Tol<T>::alg()), " for ", ctx, " (|axis| = ",
		         (double)n, ")");
		VF_CHECK(ed <= 9 * Tol<T>::alg(), "det of Matrix4::rotate(axis, angle) = 1 + ", (double)(ref::det(Ml) - 1), " for ", ctx, " (|axis| = ", (double)n, ")");
		VF_CHECK(ef <= 3 * Tol<T>::alg(), "Matrix4::rotate(axis, angle) moves its own axis by ", (double)ef, " for ", ctx, " (|axis| = ", (double)n, ")");
		const T sc[3] = {(T)2, (T)0.5, (T)(1 / n)};
		for (T f : sc) {
			asl::Vec3_<T> a2(axis.x * f, axis.y * f, axis.z * f);
			// the rescaled axis is rounded to T again: its direction moves by <= eps, the matrix by <= 2 eps
			ld es = diff(asl::Matrix4_<T>::rotate(a2, angle), rodrigues(a2.x, a2.y, a2.z, angle));
			VF_CHECK(es <= Tol<T>::alg(), "Matrix4::rotate(", (double)f, " * axis, angle) differs from Rodrigues' formula by ", (double)es, " for ", ctx);
			ld e2 = 0;
			asl::Matrix4_<T> M2 = asl::Matrix4_<T>::rotate(a2, angle);
			for (int i = 0; i < 3; i++)
				for (int j = 0; j < 3; j++)
					e2 = std::max(e2, std::fabs((ld)M2(i, j) - (ld)M(i, j)));
			VF_CHECK(e2 <= 3 * Tol<T>::alg(), "Matrix4::rotate(s * axis, angle) differs from rotate(axis, angle) by ", (double)e2, " for s=", (double)f, " ", ctx);
		}
		if (lc >= 0) {
			// the axis itself as a rotation vector (angle = its length: 1 rad up to the class's deviation, or 1e-3 .. 2e3 rad)
			LM Rv = rodrigues(axis.x, axis.y, axis.z, n);
			ld tolv = Tol<T>::alg() * (1 + n);
			ld ev = diff(asl::Matrix4_<T>::rotate(axis), Rv);
			VF_CHECK(ev <= tolv, "Matrix4::rotate(rotation vector) differs from Rodrigues' formula by ", (double)ev, " > ", (double)tolv, " for v=(", axis.x, ",", axis.y, ",", axis.z,
			         ") |v| = ", (double)n, " ", Tol<T>::name());
			ld eq = diff(asl::Quaternion_<T>::fromAxisAngle(axis).matrix(), Rv);
			VF_CHECK(eq <= tolv, "fromAxisAngle(rotation vector).matrix() differs from Rodrigues' formula by ", (double)eq, " for v=(", axis.x, ",", axis.y, ",", axis.z, ")");
			static const char* lname[] = {"unit", "unit-up-to-float-rounding", "1+-1e-3..1e-7", "1e-3..2e3", "normalised-in-T"};
			cls(std::string("axang.") + Tol<T>::name() + ".axis-length " + lname[lc]);
		}
	}
	// rotation vector: the axis scaled to length |angle| in T (sign of the angle folded into the direction)
	{
		ld n = std::sqrt((ld)axis.x * axis.x + (ld)axis.y * axis.y + (ld)axis.z * axis.z);
		asl::Vec3_<T> rv((T)(axis.x / n * angle), (T)(axis.y / n * angle), (T)(axis.z / n * angle));
		ld len = std::sqrt((ld)rv.x * rv.x + (ld)rv.y * rv.y + (ld)rv.z * rv.z);
		LM R2 = rodrigues(rv.x, rv.y, rv.z, len);
		// Vec3::length() in T has a relative error of 2 eps, which moves the angle by |angle| * 2 eps
		ld tolv = Tol<T>::alg() * (1 + len);
		ld e2 = diff(asl::Matrix4_<T>::rotate(rv), R2);
		VF_CHECK(e2 <= tolv, "Matrix4::rotate(rotation vector) differs from Rodrigues' formula by ", (double)e2, " > ", (double)tolv, " for v=(", rv.x, ",", rv.y, ",", rv.z, ") ",
		         Tol<T>::name());
		ld e3 = diff(asl::Quaternion_<T>::fromAxisAngle(rv).matrix(), R2);
		VF_CHECK(e3 <= tolv, "fromAxisAngle(rotation vector).matrix() differs from Rodrigues' formula by ", (double)e3, " for v=(", rv.x, ",", rv.y, ",", rv.z, ")");
	}
	{
		asl::Matrix4_<T> Z = asl::Matrix4_<T>::rotate(asl::Vec3_<T>(0, 0, 0));
		VF_CHECK(diff(Z, LM::identity(3)) == 0, "rotate(zero rotation vector) is not the identity");
	}
	check_from_matrix<T>(R, ctx);
	// the quaternion itself: (cos t/2, sin t/2 * unit axis) up to sign
	{
		ld n = std::sqrt((ld)axis.x * axis.x + (ld)axis.y * axis.y + (ld)axis.z * axis.z), h = (ld)angle / 2;
		ld want[4] = {std::cos(h), std::sin(h) * axis.x / n, std::sin(h) * axis.y / n, std::sin(h) * axis.z / n};
		asl::Quaternion_<T> q = asl::Quaternion_<T>::fromAxisAngle(axis, angle);
		const T got[4] = {q.w, q.x, q.y, q.z};
		for (int i = 0; i < 4; i++)
			VF_CHECK(std::fabs((ld)got[i] - want[i]) <= Tol<T>::alg(), "fromAxisAngle component ", i, " = ", got[i], ", expected ", (double)want[i], " for ", ctx);
		// unit quaternion -> rotation vector -> matrix
		asl::Vec3_<T> qv = q.axisAngle();
		ld e4 = diff(asl::Matrix4_<T>::rotate(qv), R);
		VF_CHECK(e4 <= Tol<T>::deg(), "rotate(q.axisAngle()) differs from the rotation of q = fromAxisAngle(axis, angle) by ", (double)e4, " > ", (double)Tol<T>::deg(), " for ", ctx,
		         "; q=(", q.w, ",", q.x, ",", q.y, ",", q.z, ") axisAngle=(", qv.x, ",", qv.y, ",", qv.z, ")");
		worst(W_DEG_AA, e4, Tol<T>::deg());
		// angle(): the rotation angle folded to (-pi, pi]; compare as rotations: |cos| of half the angle
		T an = q.angle();
		VF_CHECK(std::fabs(std::cos((ld)an / 2)) >= std::fabs(want[0]) - Tol<T>::deg() && std::fabs(std::cos((ld)an / 2)) <= std::fabs(want[0]) + Tol<T>::deg(),
		         "Quaternion::angle() = ", an, " is not the rotation angle (mod 2 pi, up to sign) for ", ctx);
	}
	ld dg = degeneracy(R);
	cls(std::string("axang.") + Tol<T>::name() + (dg < 1e-3L ? ".near-degenerate" : ".generic"));
	ld ta = std::fabs(std::remainder((ld)angle, 2 * PIL));
	if (ta < 1e-3L)
		cls("axang.angle~0");
	if (std::fabs(ta - PIL) < 1e-3L)
		cls("axang.angle~pi");
	if (zero_axis)
		cls("axang.zero-axis->z");
	if (dg < 1e-3L)
		nontrivial(c);
}

static const char* ORDERS[12] = {"XYZ", "XZY", "YXZ", "YZX", "ZXY", "ZYX", "XYX", "XZX", "YXY", "YZY", "ZXZ", "ZYZ"};

template <class T>
static void run_euler(const vf::Op& o, const vf::Case& c)
{
	int ord = (int)(((o.i(1) % 12) + 12) % 12);
	bool fixed = o.i(2) & 1;
	std::string s = ORDERS[ord];
	int ax[3] = {s[0] - 'X', s[1] - 'X', s[2] - 'X'};
	if (fixed)
		s += "*";
	T r[3];
	for (int k = 0; k < 3; k++)
		r[k] = (T)angle_of(o.i(3 + 3 * k), o.i(4 + 3 * k, 1), o.i(5 + 3 * k));
	asl::Vec3_<T> rv(r[0], r[1], r[2]);
	auto ctx = lazy([&] { return vf::str("rotateE((", r[0], ",", r[1], ",", r[2], "), \"", s, "\") ", Tol<T>::name()); });
	// moving axes: R[a0](x) R[a1](y) R[a2](z); fixed axes: first about a0, then a1, then a2, all in the fixed frame
	LM R0 = rot_axis(ax[0], r[0]), R1 = rot_axis(ax[1], r[1]), R2 = rot_axis(ax[2], r[2]);
	LM R = fixed ? R2 * R1 * R0 : R0 * R1 * R2;
	asl::Matrix4_<T> M = asl::Matrix4_<T>::rotateE(rv, s.c_str());
	ld e0 = diff(M, R);
	VF_CHECK(e0 <= Tol<T>::alg(), ctx, " differs from the composition of the three axis rotations by ", (double)e0, " > ", (double)Tol<T>::alg(), ": ", show4(M), " reference ",
	         show(R));
	worst(W_ALG, e0, Tol<T>::alg());
	if (!fixed) {
		ld e = diff(asl::Matrix4_<T>::rotateE(rv, ax[0], ax[1], ax[2]), R);
		VF_CHECK(e <= Tol<T>::alg(), "rotateE(r,", ax[0], ",", ax[1], ",", ax[2], ") differs from the composition by ", (double)e, " for ", ctx);
	}
	// matrix -> Euler angles -> matrix
	asl::Matrix4_<T> MT = rounded<T>(R);
	MT(0, 3) = (T)-3;
	MT(1, 3) = (T)0.5;
	MT(2, 3) = (T)7;
	asl::Vec3_<T> back = MT.eulerAngles(s.c_str());
	VF_CHECK(back.x == back.x && back.y == back.y && back.z == back.z, "eulerAngles(\"", s, "\") is NaN for M=", show(R), " from ", ctx);
	ld e1 = diff(asl::Matrix4_<T>::rotateE(back, s.c_str()), R);
	VF_CHECK(e1 <= Tol<T>::deg(), "rotateE(M.eulerAngles(\"", s, "\"), \"", s, "\") differs from M by ", (double)e1, " > ", (double)Tol<T>::deg(), " for M=", show(R), " built by ", ctx,
	         "; angles returned (", back.x, ",", back.y, ",", back.z, ")");
	worst(W_DEG_EULER, e1, Tol<T>::deg());
	if (!fixed) {
		asl::Vec3_<T> b2 = MT.eulerAngles(ax[0], ax[1], ax[2]);
		ld e = diff(asl::Matrix4_<T>::rotateE(b2, ax[0], ax[1], ax[2]), R);
		VF_CHECK(e <= Tol<T>::deg(), "rotateE(M.eulerAngles(", ax[0], ",", ax[1], ",", ax[2], "),...) differs from M by ", (double)e, " for M=", show(R), " built by ", ctx);
	}
	check_from_matrix<T>(R, ctx);
	// statistics: distance of the middle angle from gimbal lock
	ld mid = std::remainder((ld)r[1], PIL); // in [-pi/2, pi/2]
	ld lockd = ax[0] != ax[2] ? std::fabs(std::fabs(mid) - PIL / 2) : std::fabs(mid);
	bool exact_lock = ax[0] != ax[2] ? std::fabs((ld)MT(ax[fixed ? 2 : 0], ax[fixed ? 0 : 2])) >= 1 : std::fabs((ld)MT(ax[0], ax[0])) >= 1;
	if (g_collect) {
		cls(std::string("euler.") + Tol<T>::name() + (fixed ? ".fixed" : ".moving") + (ax[0] != ax[2] ? ".tait-bryan" : ".proper"));
		if (exact_lock)
			cls("euler.lock-branch." + s);
		else if (lockd < 1e-3L)
			cls("euler.within-1e-3-of-lock(regular branch)");
		if (lockd < 1e-3L || degeneracy(R) < 1e-3L)
			nontrivial(c);
	}
}

// nearest rotation (orthogonal polar factor) of a nearly orthogonal 3x3 matrix: Newton iteration X <- (X + X^-T) / 2
static bool polar(const LM& M, LM& P)
{
	P = M;
	for (int it = 0; it < 30; it++) {
		LM Xi;
		if (!ref::inverse(P, Xi))
			return false;
		LM N = Xi.t();
		ld d = 0;
		for (int i = 0; i < 9; i++) {
			ld v = (P.a[i] + N.a[i]) / 2;
			d = std::max(d, std::fabs(v - P.a[i]));
			P.a[i] = v;
		}
		if (d < 1e-19L)
			break;
	}
	return finite(P) && ref::det(P) > 0;
}

template <class T>
static void run_eulerm(const vf::Op& o, const vf::Case& c)
{
	int ord = (int)(((o.i(1) % 12) + 12) % 12);
	bool fixed = o.i(2) & 1;
	std::string s = ORDERS[ord];
	int ax[3] = {s[0] - 'X', s[1] - 'X', s[2] - 'X'};
	if (fixed)
		s += "*";
	asl::Matrix4_<T> M;
	LM Ml(3, 3), P;
	for (int i = 0; i < 9; i++) {
		M(i / 3, i % 3) = (T)of_bits(o.i(3 + i));
		Ml.a[i] = (ld)M(i / 3, i % 3);
	}
	// domain: a rotation matrix up to the rounding of T arithmetic -- every element within 3 eps of the nearest rotation
	if (!finite(Ml) || !polar(Ml, P) || !(ref::maxabs(Ml - P) <= 3 * Tol<T>::eps())) {
		cls("eulerm.outside-domain(skipped)");
		if (g_collect)
			vf::stats().discarded++;
		return;
	}
	auto ctx = lazy([&] { return vf::str("M=", show(Ml), " ", Tol<T>::name()); });
	asl::Matrix4_<T> MT = M;
	MT(0, 3) = (T)2;
	MT(2, 3) = (T)-1;
	asl::Vec3_<T> back = MT.eulerAngles(s.c_str());
	VF_CHECK(back.x == back.x && back.y == back.y && back.z == back.z, "eulerAngles(\"", s, "\") is NaN for ", ctx);
	ld e1 = diff(asl::Matrix4_<T>::rotateE(back, s.c_str()), P);
	VF_CHECK(e1 <= Tol<T>::deg(), "rotateE(M.eulerAngles(\"", s, "\"), \"", s, "\") differs from M by ", (double)e1, " > ", (double)Tol<T>::deg(), " for ", ctx,
	         "; angles returned (", back.x, ",", back.y, ",", back.z, ")");
	worst(W_DEG_EULER, e1, Tol<T>::deg());
	if (!fixed) {
		asl::Vec3_<T> b2 = MT.eulerAngles(ax[0], ax[1], ax[2]);
		ld e = diff(asl::Matrix4_<T>::rotateE(b2, ax[0], ax[1], ax[2]), P);
		VF_CHECK(e <= Tol<T>::deg(), "rotateE(M.eulerAngles(", ax[0], ",", ax[1], ",", ax[2], "),...) differs from M by ", (double)e, " for ", ctx);
	}
	check_from_matrix<T>(M, P, ctx);
	ld lockv = ax[0] != ax[2] ? std::fabs(P(ax[fixed ? 2 : 0], ax[fixed ? 0 : 2])) : std::fabs(P(ax[0], ax[0]));
	ld c1 = std::sqrt(std::max((ld)0, 1 - lockv * lockv)); // |cos| resp. |sin| of the middle angle
	bool exact01 = true;
	for (auto v : Ml.a)
		if (v != 0 && std::fabs(v) != 1)
			exact01 = false;
	cls(std::string("eulerm.") + Tol<T>::name() + (exact01 ? ".cube-group" : c1 < 1e-6L ? ".lock<1e-6" : c1 < 1e-3L ? ".lock<1e-3" : ".generic"));
	if (c1 < 1e-3L)
		nontrivial(c);
}

// Rotations obtained by computing with rotations in T: the relative rotation of two orientations that are dn apart
// (q2 ^ q1.conj(), q2 ^ q1.inverse(), (M2 * M1^T).rotation(), q1.conj() ^ q2).  The result is a unit quaternion only up to
// rounding (w may exceed 1 by an ulp while the vector part is not zero); domain: | |q| - 1 | <= 4 eps.  It must convert to
// a matrix, an axis-angle vector and Euler angles and back to the same rotation like any other unit quaternion.
template <class T>
static void run_relrot(const vf::Op& o, const vf::Case& c)
{
	Q q1l = unit_quat(o, 1);
	ld ax = (ld)(o.i(5) % 1000), ay = (ld)(o.i(6) % 1000), az = (ld)(o.i(7) % 1000), an = std::sqrt(ax * ax + ay * ay + az * az);
	if (an == 0) {
		az = 1;
		an = 1;
	}
	int dn = (int)(((o.i(8) % 15) + 15) % 15);
	// 0: the same orientation; 1..12: 10^-dn rad apart; 13: a multiple of pi/12 apart; 14: 3e-8 * k rad apart
	ld delta = dn == 0 ? 0 : dn <= 12 ? std::pow(10.0L, -(ld)dn) : dn == 13 ? PIL * (ld)(o.i(9) % 24) / 12 : 3e-8L * (ld)(1 + (o.i(9) % 100 + 100) % 100);
	Q qd{std::cos(delta / 2), std::sin(delta / 2) * ax / an, std::sin(delta / 2) * ay / an, std::sin(delta / 2) * az / an};
	Q q2l = qmul(qd, q1l);
	asl::Quaternion_<T> q1((T)q1l.w, (T)q1l.x, (T)q1l.y, (T)q1l.z), q2((T)q2l.w, (T)q2l.x, (T)q2l.y, (T)q2l.z);
	LM R1 = rot_of_quat(Q{q1.w, q1.x, q1.y, q1.z}), R2 = rot_of_quat(Q{q2.w, q2.x, q2.y, q2.z});
	int mode = (int)(((o.i(10) % 4) + 4) % 4);
	asl::Quaternion_<T> qr;
	asl::Matrix4_<T> Mr;
	LM Rexp = mode == 3 ? R1.t() * R2 : R2 * R1.t();
	if (mode == 0)
		qr = q2 ^ q1.conj();
	else if (mode == 1)
		qr = q2 ^ q1.inverse();
	else if (mode == 2) {
		Mr = q2.matrix() * q1.matrix().transposed();
		qr = Mr.rotation();
	}
	else
		qr = q1.conj() ^ q2;
	static const char* mname[] = {"q2 ^ q1.conj()", "q2 ^ q1.inverse()", "(M2 * M1^T).rotation()", "q1.conj() ^ q2"};
	auto ctx = lazy([&] {
		return vf::str(mname[mode], " = (", qr.w, ",", qr.x, ",", qr.y, ",", qr.z, ") with q1=(", q1.w, ",", q1.x, ",", q1.y, ",", q1.z, ") q2=(", q2.w, ",", q2.x, ",", q2.y, ",", q2.z,
		               ") ", Tol<T>::name());
	});
	VF_CHECK(qr.w == qr.w && qr.x == qr.x && qr.y == qr.y && qr.z == qr.z, "NaN in ", ctx);
	ld nq = std::sqrt((ld)qr.w * qr.w + (ld)qr.x * qr.x + (ld)qr.y * qr.y + (ld)qr.z * qr.z);
	if (!(std::fabs(nq - 1) <= 4 * Tol<T>::eps())) {
		cls("relrot.norm-off-by-more-than-4-eps(skipped)");
		if (g_collect)
			vf::stats().discarded++;
		return;
	}
	LM R = rot_of_quat(Q{qr.w, qr.x, qr.y, qr.z}); // the rotation qr stands for (normalised)
	ld ep = ref::maxabs(R - Rexp);
	VF_CHECK(ep <= Tol<T>::comp(), "the rotation of ", ctx, " differs from R2 R1^T (resp. R1^T R2) by ", (double)ep, " > ", (double)Tol<T>::comp());
	worst(W_COMP, ep, Tol<T>::comp());
	// quaternion -> matrix
	asl::Matrix4_<T> M = qr.matrix();
	ld e0 = diff(M, R);
	VF_CHECK(e0 <= Tol<T>::alg(), "Quaternion::matrix() differs from the rotation v -> q v q* by ", (double)e0, " > ", (double)Tol<T>::alg(), " for ", ctx);
	worst(W_ALG, e0, Tol<T>::alg());
	// quaternion -> angle / rotation vector -> matrix
	T ang = qr.angle();
	VF_CHECK(ang == ang, "Quaternion::angle() = ", ang, " for ", ctx);
	asl::Vec3_<T> v = qr.axisAngle();
	VF_CHECK(v.x == v.x && v.y == v.y && v.z == v.z, "Quaternion::axisAngle() = (", v.x, ",", v.y, ",", v.z, ") for ", ctx);
	ld e1 = diff(asl::Matrix4_<T>::rotate(v), R);
	VF_CHECK(e1 <= Tol<T>::deg(), "rotate(q.axisAngle()) differs from the rotation of q by ", (double)e1, " > ", (double)Tol<T>::deg(), " for ", ctx, " axisAngle=(", v.x, ",", v.y, ",", v.z,
	         ")");
	worst(W_DEG_AA, e1, Tol<T>::deg());
	ld e2 = diff(asl::Quaternion_<T>::fromAxisAngle(v).matrix(), R);
	VF_CHECK(e2 <= Tol<T>::deg(), "fromAxisAngle(q.axisAngle()).matrix() differs from the rotation of q by ", (double)e2, " for ", ctx);
	// matrix -> quaternion / rotation vector -> matrix, with the matrices the library produced
	check_from_matrix<T>(M, R, ctx);
	LM Ml(3, 3), P;
	for (int i = 0; i < 9; i++)
		Ml.a[i] = (ld)M(i / 3, i % 3);
	bool euler_ok = polar(Ml, P) && ref::maxabs(Ml - P) <= 3 * Tol<T>::eps();
	if (mode == 2) {
		LM Mrl(3, 3), Pr;
		for (int i = 0; i < 9; i++)
			Mrl.a[i] = (ld)Mr(i / 3, i % 3);
		if (polar(Mrl, Pr) && ref::maxabs(Mrl - Pr) <= 3 * Tol<T>::eps()) {
			check_from_matrix<T>(Mr, Pr, ctx);
			asl::Vec3_<T> vm = Mr.axisAngle();
			VF_CHECK(vm.x == vm.x && vm.y == vm.y && vm.z == vm.z, "Matrix4::axisAngle() is NaN for M2 * M1^T, ", ctx);
		}
	}
	// matrix -> Euler angles -> matrix (same domain as part eulerm: every element within 3 eps of the nearest rotation)
	if (euler_ok) {
		int ord = (int)(((o.i(11) % 12) + 12) % 12);
		std::string so = ORDERS[ord];
		if (o.i(12) & 1)
			so += "*";
		asl::Vec3_<T> back = M.eulerAngles(so.c_str());
		VF_CHECK(back.x == back.x && back.y == back.y && back.z == back.z, "eulerAngles(\"", so, "\") is NaN for the matrix of ", ctx);
		ld e3 = diff(asl::Matrix4_<T>::rotateE(back, so.c_str()), P);
		VF_CHECK(e3 <= Tol<T>::deg(), "rotateE(M.eulerAngles(\"", so, "\"), \"", so, "\") differs from M by ", (double)e3, " > ", (double)Tol<T>::deg(), " for the matrix of ", ctx);
		worst(W_DEG_EULER, e3, Tol<T>::deg());
	}
	if (g_collect) {
		std::string pre = std::string("relrot.") + Tol<T>::name();
		ld aw = std::fabs((ld)qr.w);
		bool vz = qr.x == 0 && qr.y == 0 && qr.z == 0;
		cls(pre + (aw > 1 ? (vz ? ".|w|>1,zero-vector-part" : ".|w|>1-by-rounding,non-zero-vector-part") : aw == 1 ? (vz ? ".|w|==1,zero-vector-part" : ".|w|==1,non-zero-vector-part") : ".|w|<1"));
		cls(std::string("relrot.") + (dn == 0 ? "same-orientation" : dn <= 3 ? "1e-1..1e-3-apart" : dn <= 8 ? "1e-4..1e-8-apart" : dn <= 12 ? "1e-9..1e-12-apart" : dn == 13 ? "multiple-of-pi/12-apart" : "3e-8..3e-6-apart"));
		cls(std::string("relrot.via ") + mname[mode]);
		if (aw >= 1 || degeneracy(R) < 1e-3L)
			nontrivial(c);
	}
}

void vf_run_case(const std::string& part, const vf::Case& c)
{
	const vf::Op *first = 0, *ob = 0;
	for (auto& o : c.ops) {
		if (o.name == "b") {
			if (!ob)
				ob = &o;
		}
		else if (!first)
			first = &o;
	}
	if (!first)
		return;
	bool dbl = first->i(0) & 1;
	const vf::Op& o = *first;
	if (part == "finv" && o.name == "M")
		dbl ? run_finv<double>(o, c) : run_finv<float>(o, c);
	else if (part == "fsolve" && o.name == "A")
		dbl ? run_fsolve<double>(o, ob, c) : run_fsolve<float>(o, ob, c);
	else if (part == "fscale" && o.name == "A") {
		const vf::Op* ok = 0;
		for (auto& q : c.ops)
			if (q.name == "k" && !ok)
				ok = &q;
		dbl ? run_fscale<double>(o, ob, ok, c) : run_fscale<float>(o, ob, ok, c);
	}
	else if (part == "quat" && o.name == "q")
		dbl ? run_quat<double>(o, c) : run_quat<float>(o, c);
	else if (part == "relrot" && o.name == "rr")
		dbl ? run_relrot<double>(o, c) : run_relrot<float>(o, c);
	else if (part == "axang" && o.name == "aa")
		dbl ? run_axang<double>(o, c) : run_axang<float>(o, c);
	else if (part == "euler" && o.name == "e")
		dbl ? run_euler<double>(o, c) : run_euler<float>(o, c);
	else if (part == "eulerm" && o.name == "em")
		dbl ? run_eulerm<double>(o, c) : run_eulerm<float>(o, c);
}

// ------------------------------------------------------------------------------------------------ generators

static LM rnd_orth(SplitMix& g, int n)
{
	LM Q = LM::identity(n);
	for (int k = 0; k < n; k++) {
		std::vector<ld> v(n);
		ld vv = 0;
		do {
			vv = 0;
			for (auto& x : v) {
				x = g.sym();
				vv += x * x;
			}
		} while (vv < 1e-3L);
		LM H = LM::identity(n);
		for (int i = 0; i < n; i++)
			for (int j = 0; j < n; j++)
				H(i, j) -= 2 * v[i] * v[j] / vv;
		Q = Q * H;
	}
	return Q;
}

template <class F>
static void temper(std::vector<ld>& s, ld limit, F kappa_of)
{
	// pull the singular values towards 1 until the condition measure is inside the domain (construction, not rejection)
	for (int it = 0; it < 60 && !(kappa_of(s) <= limit); it++)
		for (auto& x : s)
			x = std::sqrt(x);
}

static std::vector<ld> rnd_sigma(SplitMix& g, int n, ld kmax)
{
	ld K = std::pow(kmax, g.unit());
	std::vector<ld> s(n);
	for (int i = 0; i < n; i++)
		s[i] = std::pow(K, -g.unit());
	s[0] = 1;
	if (n > 1 && g.below(2))
		s[n - 1] = 1 / K;
	return s;
}

static LM usv(SplitMix& g, int rows, int cols, const std::vector<ld>& s)
{
	LM U = rnd_orth(g, rows), V = rnd_orth(g, cols), S(rows, cols);
	for (int i = 0; i < cols; i++)
		S(i, i) = s[i];
	return U * S * V.t();
}

static void put(vf::Op& o, const LM& m, bool dbl, ld scale)
{
	for (auto v : m.a) {
		ld x = v * scale;
		o.a.push_back(bits_of(dbl ? (double)x : (double)(float)x));
	}
}

static vf::Case gen_finv_case(bool dbl, int n, int kind, uint64_t seed)
{
	SplitMix g(seed);
	ld limit = (dbl ? 1e4L : 1e2L) * 0.7L;
	auto kc = [n](const std::vector<ld>& s) {
		ld q = 0, p = 1;
		for (auto x : s) {
			q += x * x;
			p *= x;
		}
		return std::pow(q, (ld)n / 2) / p;
	};
	LM A(n, n);
	ld scale = 1;
	switch (kind) {
	default:
	case 0: // orthogonal * diag * orthogonal
	case 1: { // the same at a power-of-two scale
		std::vector<ld> s = rnd_sigma(g, n, dbl ? 1e4L : 1e2L);
		temper(s, limit, kc);
		A = usv(g, n, n, s);
		if (kind == 1)
			scale = std::ldexp(1.0L, (int)g.below(dbl ? 41 : 13) - (dbl ? 20 : 6));
		break;
	}
	case 2: { // affine transform: (rotation * scales * rotation) and a translation, last row 0 .. 0 1
		std::vector<ld> s = rnd_sigma(g, n - 1, dbl ? 8 : 2);
		LM B = usv(g, n - 1, n - 1, s);
		for (int i = 0; i < n - 1; i++) {
			for (int j = 0; j < n - 1; j++)
				A(i, j) = B(i, j);
			A(i, n - 1) = g.sym() * (dbl ? 2 : 0.5L);
		}
		A(n - 1, n - 1) = 1;
		break;
	}
	case 3: // small integers (exact cancellations); the domain test drops the singular / ill-conditioned ones
		for (auto& v : A.a)
			v = (ld)((long long)g.below(7) - 3);
		break;
	case 4: { // scaled permutation + sparse noise: exact zeros, zero diagonal
		int sh = 1 + (int)g.below(n - 1);
		for (int i = 0; i < n; i++)
			A(i, (i + sh) % n) = (g.below(2) ? 1 : -1) * (0.5L + g.unit());
		for (int i = 0; i < n; i++)
			for (int j = 0; j < n; j++)
				if (A(i, j) == 0 && i != j && g.below(3) == 0)
					A(i, j) = 0.15L * g.sym();
		break;
	}
	}
	vf::Op o("M", {dbl ? 1 : 0, n});
	put(o, A, dbl, scale);
	vf::Case c;
	c.add(o);
	return c;
}

static vf::Case gen_fsolve_case(bool dbl, int n, int extra, int nb, int kind, uint64_t seed)
{
	SplitMix g(seed);
	int rows = n + extra;
	ld kmax = dbl ? 1e4L : 1e2L, limit = kmax * 0.7L;
	LM A(rows, n);
	ld scale = 1;
	auto kf = [extra](const std::vector<ld>& s) {
		// Frobenius condition number of A (square) or of A^T A (least squares)
		ld q = 0, iq = 0;
		for (auto x : s) {
			ld y = extra ? x * x : x;
			q += y * y;
			iq += 1 / (y * y);
		}
		return std::sqrt(q) * std::sqrt(iq);
	};
	if (kind == 4 && (extra || n < 2))
		kind = 0;
	switch (kind) {
	default:
	case 0:
	case 1: {
		std::vector<ld> s = rnd_sigma(g, n, extra ? std::sqrt(kmax) : kmax);
		temper(s, limit, kf);
		A = usv(g, rows, n, s);
		if (kind == 1)
			scale = std::ldexp(1.0L, (int)g.below(dbl ? 41 : 13) - (dbl ? 20 : 6));
		break;
	}
	case 2: // diagonally dominant with random signs
		for (int i = 0; i < rows; i++)
			for (int j = 0; j < n; j++)
				A(i, j) = (i % n == j ? (g.below(2) ? 1 : -1) * (1 + g.unit()) : g.sym() / (2 * n));
		break;
	case 3: // small integers
		for (auto& v : A.a)
			v = (ld)((long long)g.below(5) - 2);
		for (int i = 0; i < n; i++)
			A(i, i) += (g.below(2) ? 3 : -3);
		break;
	case 4: { // scaled cyclic permutation + sparse noise: zero diagonal, a row exchange is needed at every step
		int sh = 1 + (int)g.below(n - 1);
		for (int i = 0; i < n; i++)
			A(i, (i + sh) % n) = (g.below(2) ? 1 : -1) * (0.5L + g.unit());
		for (int i = 0; i < n; i++)
			for (int j = 0; j < n; j++)
				if (A(i, j) == 0 && i != j && g.below(4) == 0)
					A(i, j) = g.sym() / (2 * n);
		break;
	}
	}
	vf::Op oa("A", {dbl ? 1 : 0, rows, n});
	put(oa, A, dbl, scale);
	LM b(rows, nb);
	int bs = (int)g.below(3);
	for (auto& v : b.a)
		v = bs == 0 ? (ld)((long long)g.below(5) - 2) : g.sym() * (bs == 2 ? 100 : 1);
	if (bs == 1 && !extra && nb == 1 && g.below(2)) {
		// b = A x0
		LM x0(n, 1);
		for (auto& v : x0.a)
			v = g.sym();
		b = A * x0;
	}
	vf::Op ob("b", {nb});
	put(ob, b, dbl, 1);
	vf::Case c;
	c.add(oa).add(ob);
	return c;
}

// a system from gen_fsolve_case plus exponents: A is scaled by 2^ka, b by 2^kb.  ka puts the largest element of the scaled
// matrix (of A^T A for least squares) near the bottom of the exponent range (subnormal elements included), near the top, or
// anywhere in between.
static vf::Case gen_fscale_case(bool dbl, int n, int extra, int nb, int kind, int zone, int bmode, uint64_t seed)
{
	vf::Case c = gen_fsolve_case(dbl, n, extra, nb, kind, seed);
	SplitMix g(seed ^ 0x5ca1e5ca1e5ca1e5ULL);
	ld amax = 0;
	for (size_t i = 3; i < c.ops[0].a.size(); i++)
		amax = std::max(amax, (ld)std::fabs(of_bits(c.ops[0].a[i])));
	int ea = amax > 0 ? std::ilogb(amax) : 0;
	int sub = dbl ? -1074 : -149, emin = dbl ? -1022 : -126, emax = dbl ? 1024 : 128;
	int lo = sub + 10, e;
	if (zone == 0)
		e = lo + (int)g.below(emin + 10 - lo); // subnormal .. just above the smallest normal
	else if (zone == 1)
		e = emax - 60 + (int)g.below(44); // up to 2^-17 of the largest finite value
	else
		e = lo + (int)g.below(emax - 17 - lo);
	// least squares eliminates A^T A, whose elements carry the square of the scale
	long long ka = extra ? (e - 2 * ea - 3) / 2 : e - ea;
	long long kb = bmode == 0 ? ka : bmode == 1 ? 0 : ka + (long long)g.below(61) - 30;
	c.add(vf::Op("k", {ka, kb}));
	return c;
}

static vf::Case quat_case(bool dbl, long long a, long long b, long long c, long long d)
{
	vf::Case cs;
	cs.add(vf::Op("q", {dbl ? 1 : 0, a, b, c, d}));
	return cs;
}

static vf::Case gen_quat_case(bool dbl, int style, uint64_t seed)
{
	SplitMix g(seed);
	long long v[4];
	auto big = [&]() { return (long long)g.below(2000000001ULL) - 1000000000LL; };
	static const long long pw[] = {1, 10, 100, 1000, 10000, 100000, 1000000, 10000000, 100000000, 1000000000};
	switch (style) {
	default:
	case 0:
		for (auto& x : v)
			x = big();
		break;
	case 1: // mixed magnitudes: each component m * 10^k
		for (auto& x : v)
			x = ((long long)g.below(1999) - 999) * pw[g.below(10)];
		break;
	case 2: { // one dominant component, the others tiny or zero
		for (auto& x : v)
			x = g.below(3) == 0 ? 0 : ((long long)g.below(199) - 99) * pw[g.below(5)];
		v[g.below(4)] = (g.below(2) ? 1 : -1) * 1000000000LL;
		break;
	}
	case 3: { // two or three (nearly) equal components: ties between the branches
		long long m = 1 + (long long)g.below(1000000000ULL);
		for (auto& x : v)
			x = g.below(2) ? (g.below(2) ? m : -m) + ((long long)g.below(5) - 2) * pw[g.below(4)] : big() / (long long)pw[g.below(10)];
		break;
	}
	case 4: { // trace ~ 0: w^2 = 1/4, |v|^2 = 3/4 (switch between the w branch and the others)
		ld x = g.sym(), y = g.sym(), z = g.sym(), n = std::sqrt(x * x + y * y + z * z);
		if (n < 1e-3L) {
			x = 1;
			n = 1;
		}
		ld sc = 1e9L * std::sqrt(3.0L) / n;
		v[0] = (g.below(2) ? 1 : -1) * 1000000000LL + ((long long)g.below(9) - 4) * pw[g.below(7)];
		v[1] = (long long)(x * sc);
		v[2] = (long long)(y * sc);
		v[3] = (long long)(z * sc);
		break;
	}
	case 5: { // angle ~ pi: w tiny
		for (auto& x : v)
			x = big();
		v[0] = ((long long)g.below(21) - 10) * pw[g.below(5)];
		if (g.below(2))
			v[1 + g.below(3)] = 0;
		break;
	}
	}
	return quat_case(dbl, v[0], v[1], v[2], v[3]);
}

static vf::Case gen_relrot_case(bool dbl, int style, uint64_t seed, int dn, int mode, int ord, bool fixed)
{
	vf::Case q = gen_quat_case(dbl, style, seed); // the first orientation: same styles as part quat
	SplitMix g(seed ^ 0x7e1a7e1a7e1aULL);
	vf::Op o("rr", {dbl ? 1 : 0, q.ops[0].i(1), q.ops[0].i(2), q.ops[0].i(3), q.ops[0].i(4)});
	for (int i = 0; i < 3; i++)
		o.a.push_back(g.below(3) == 0 ? 0 : (long long)g.below(1999) - 999); // axis of the small rotation between the two
	o.a.push_back(dn);
	o.a.push_back((long long)g.below(100));
	o.a.push_back(mode);
	o.a.push_back(ord);
	o.a.push_back(fixed ? 1 : 0);
	vf::Case c;
	c.add(o);
	return c;
}

static vf::Case euler_case(bool dbl, int ord, bool fixed, const long long (&a)[9])
{
	vf::Op o("e", {dbl ? 1 : 0, ord, fixed ? 1 : 0});
	for (auto x : a)
		o.a.push_back(x);
	vf::Case c;
	c.add(o);
	return c;
}

template <class T>
static void product_in_T(const LM& A, const LM& B, long long* out)
{
	// what a caller composing two rotations in T gets: operands rounded to T, row-by-column product in T arithmetic
	T a[9], b[9];
	for (int i = 0; i < 9; i++) {
		a[i] = (T)A.a[i];
		b[i] = (T)B.a[i];
	}
	for (int i = 0; i < 3; i++)
		for (int j = 0; j < 3; j++) {
			T v = a[3 * i] * b[j] + a[3 * i + 1] * b[3 + j] + a[3 * i + 2] * b[6 + j];
			out[3 * i + j] = bits_of((double)v);
		}
}

static vf::Case eulerm_case(bool dbl, int ord, bool fixed, const long long* m)
{
	vf::Op o("em", {dbl ? 1 : 0, ord, fixed ? 1 : 0});
	for (int i = 0; i < 9; i++)
		o.a.push_back(m[i]);
	vf::Case c;
	c.add(o);
	return c;
}

// M = fl(A * B) with A a random rotation and B = A^T R, R the rotation with the given Euler angles for this order
static vf::Case gen_eulerm_case(bool dbl, int ord, bool fixed, int style, uint64_t seed)
{
	SplitMix g(seed);
	const char* s = ORDERS[ord];
	int ax[3] = {s[0] - 'X', s[1] - 'X', s[2] - 'X'};
	bool proper = ax[0] == ax[2];
	ld r0 = 2 * PIL * g.sym(), r2 = 2 * PIL * g.sym(), mid;
	ld lock = proper ? (g.below(2) ? 0 : PIL) : (g.below(2) ? PIL / 2 : -PIL / 2);
	if (style == 0)
		mid = lock; // exactly at gimbal lock
	else if (style == 1)
		mid = lock + g.sym() * std::pow(10.0L, -2 - 15 * g.unit()); // 1e-17 .. 1e-2 away from it
	else if (style == 2)
		mid = lock + EPS_TAB[g.below(EPS_N)];
	else
		mid = PIL * g.sym(); // anywhere
	LM R0 = rot_axis(ax[0], r0), R1 = rot_axis(ax[1], mid), R2 = rot_axis(ax[2], r2);
	LM R = fixed ? R2 * R1 * R0 : R0 * R1 * R2;
	Q q{g.sym(), g.sym(), g.sym(), g.sym()};
	if (q.w * q.w + q.x * q.x + q.y * q.y + q.z * q.z < 1e-3L)
		q.w = 1;
	LM A = rot_of_quat(q), B = A.t() * R;
	long long m[9];
	if (dbl)
		product_in_T<double>(A, B, m);
	else
		product_in_T<float>(A, B, m);
	return eulerm_case(dbl, ord, fixed, m);
}

// thorough tier only: bulk volume from the same generators, parameters drawn from a PRNG seeded by seed/worker/part
template <class F>
static void sweep(const vf::Args& a, const std::string& part, long n, F make)
{
	if (a.quick())
		return;
	SplitMix g(a.seed * 0x9e3779b97f4a7c15ULL + (uint64_t)a.worker * 1000003ULL + vf::fnv(part));
	long i = 0;
	for (; i < n; i++)
		if (!vf::runner().run(part, make(g)))
			break;
	vf::stats().part(part + ".seeded-sweep", (uint64_t)i, false);
}

void vf_search(const vf::Args& a)
{
	using namespace rc;
	auto seed64 = gen::arbitrary<uint64_t>();
	auto boolean = vf::irange<int>(0, 1);
	g_collect = 1;

	[&]() {
		auto g = gen::map(gen::tuple(boolean, vf::irange<int>(3, 4), vf::irange<int>(0, 4), seed64),
		                  [](const std::tuple<int, int, int, uint64_t>& t) { return gen_finv_case(std::get<0>(t), std::get<1>(t), std::get<2>(t), std::get<3>(t)); });
		if (!vf::check_cases("finv", a.n(15000, 40000), 100, g))
			return;
		sweep(a, "finv", a.n(0, 150000), [](SplitMix& r) { return gen_finv_case(r.below(2), 3 + (int)r.below(2), (int)r.below(5), r.next()); });
	}();
	[&]() {
		auto g = gen::map(gen::tuple(boolean, gen::weightedOneOf<int>({{1, vf::irange<int>(1, 3)}, {3, vf::irange<int>(2, 12)}, {1, gen::just(12)}}), vf::irange<int>(1, 4),
		                             vf::irange<int>(0, 4), seed64),
		                  [](const std::tuple<int, int, int, int, uint64_t>& t) {
			                  return gen_fsolve_case(std::get<0>(t), std::get<1>(t), 0, std::get<2>(t), std::get<3>(t), std::get<4>(t));
		                  });
		if (!vf::check_cases("fsolve", a.n(8000, 20000), 100, g))
			return;
		sweep(a, "fsolve", a.n(0, 60000), [](SplitMix& r) {
			int w = (int)r.below(5), n = w == 0 ? 1 + (int)r.below(3) : w == 4 ? 12 : 2 + (int)r.below(11);
			return gen_fsolve_case(r.below(2), n, 0, 1 + (int)r.below(4), (int)r.below(5), r.next());
		});
	}();
	[&]() {
		auto g = gen::map(gen::tuple(boolean, vf::irange<int>(1, 12), vf::irange<int>(1, 4), vf::irange<int>(1, 3), vf::irange<int>(0, 3), seed64),
		                  [](const std::tuple<int, int, int, int, int, uint64_t>& t) {
			                  return gen_fsolve_case(std::get<0>(t), std::get<1>(t), std::get<2>(t), std::get<3>(t), std::get<4>(t), std::get<5>(t));
		                  });
		if (!vf::check_cases("fsolve", a.n(3000, 8000), 100, g))
			return;
		sweep(a, "fsolve", a.n(0, 25000), [](SplitMix& r) {
			return gen_fsolve_case(r.below(2), 1 + (int)r.below(12), 1 + (int)r.below(4), 1 + (int)r.below(3), (int)r.below(4), r.next());
		});
	}();
	[&]() {
		// scaling relation over the whole exponent range: square systems (3 of 4) and least squares
		auto g = gen::map(gen::tuple(boolean, gen::weightedOneOf<int>({{1, vf::irange<int>(1, 3)}, {3, vf::irange<int>(2, 12)}, {1, gen::just(12)}}), vf::irange<int>(0, 3),
		                             vf::irange<int>(1, 3), vf::irange<int>(0, 4), gen::tuple(gen::weightedOneOf<int>({{2, gen::just(0)}, {1, gen::just(1)}, {2, gen::just(2)}}),
		                                                                                     gen::weightedOneOf<int>({{3, gen::just(0)}, {1, gen::just(1)}, {1, gen::just(2)}})),
		                             seed64),
		                  [](const std::tuple<int, int, int, int, int, std::tuple<int, int>, uint64_t>& t) {
			                  int extra = std::get<2>(t) == 3 ? 1 + (int)(std::get<6>(t) % 4) : 0;
			                  return gen_fscale_case(std::get<0>(t), std::get<1>(t), extra, std::get<3>(t), std::get<4>(t), std::get<0>(std::get<5>(t)), std::get<1>(std::get<5>(t)),
			                                         std::get<6>(t));
		                  });
		if (!vf::check_cases("fscale", a.n(4000, 12000), 100, g))
			return;
		sweep(a, "fscale", a.n(0, 40000), [](SplitMix& r) {
			int w = (int)r.below(5), n = w == 0 ? 1 + (int)r.below(3) : w == 4 ? 12 : 2 + (int)r.below(11);
			int extra = r.below(4) == 3 ? 1 + (int)r.below(4) : 0, z = (int)r.below(5), bm = (int)r.below(5);
			return gen_fscale_case(r.below(2), n, extra, 1 + (int)r.below(3), (int)r.below(5), z < 2 ? 0 : z == 2 ? 1 : 2, bm < 3 ? 0 : bm == 3 ? 1 : 2, r.next());
		});
	}();
	[&]() {
		auto g = gen::map(gen::tuple(boolean, vf::irange<int>(0, 5), seed64),
		                  [](const std::tuple<int, int, uint64_t>& t) { return gen_quat_case(std::get<0>(t), std::get<1>(t), std::get<2>(t)); });
		if (!vf::check_cases("quat", a.n(25000, 60000), 100, g))
			return;
		sweep(a, "quat", a.n(0, 200000), [](SplitMix& r) { return gen_quat_case(r.below(2), (int)r.below(6), r.next()); });
	}();
	[&]() {
		// relative rotations of two nearby (or equal, or unrelated) orientations, computed in T by the library
		auto g = gen::map(gen::tuple(boolean, vf::irange<int>(0, 5), seed64, vf::irange<int>(0, 14), vf::irange<int>(0, 3), vf::irange<int>(0, 11), boolean),
		                  [](const std::tuple<int, int, uint64_t, int, int, int, int>& t) {
			                  return gen_relrot_case(std::get<0>(t), std::get<1>(t), std::get<2>(t), std::get<3>(t), std::get<4>(t), std::get<5>(t), std::get<6>(t));
		                  });
		if (!vf::check_cases("relrot", a.n(12000, 60000), 100, g))
			return;
		sweep(a, "relrot", a.n(0, 200000),
		      [](SplitMix& r) { return gen_relrot_case(r.below(2), (int)r.below(6), r.next(), (int)r.below(15), (int)r.below(4), (int)r.below(12), r.below(2)); });
	}();
	[&]() {
		// random axis / angle incl. offsets from the eps table around multiples of pi/12
		auto g = gen::map(gen::tuple(boolean, gen::container<std::vector<int>>(3, gen::oneOf(vf::irange<int>(-3, 3), vf::irange<int>(-1000000, 1000000))),
		                             gen::oneOf(gen::pair(vf::irange<int>(-48, 48), gen::just(12)), gen::pair(vf::irange<int>(-4000000, 4000000), gen::just(1000000))),
		                             vf::irange<int>(0, EPS_N - 1), gen::pair(vf::irange<int>(-2, 4), vf::irange<int>(0, 69))),
		                  [](const std::tuple<int, std::vector<int>, std::pair<int, int>, int, std::pair<int, int>>& t) {
			                  const auto& ax = std::get<1>(t);
			                  vf::Case c;
			                  vf::Op o("aa", {std::get<0>(t), ax[0], ax[1], ax[2], std::get<2>(t).first, std::get<2>(t).second, std::get<3>(t)});
			                  if (std::get<4>(t).first >= 0) { // 5 of 7: the direction rescaled to a length class
				                  o.a.push_back(std::get<4>(t).first);
				                  o.a.push_back(std::get<4>(t).second);
			                  }
			                  c.add(o);
			                  return c;
		                  });
		if (!vf::check_cases("axang", a.n(12000, 40000), 100, g))
			return;
		sweep(a, "axang", a.n(0, 150000), [](SplitMix& r) {
			vf::Case c;
			auto comp = [&]() -> long long { return r.below(2) ? (long long)r.below(7) - 3 : (long long)r.below(2000001) - 1000000; };
			long long x = comp(), y = comp(), z = comp();
			bool coarse = r.below(2);
			vf::Op o("aa", {(long long)r.below(2), x, y, z, coarse ? (long long)r.below(97) - 48 : (long long)r.below(8000001) - 4000000, coarse ? 12 : 1000000,
			                (long long)r.below(EPS_N)});
			int lc = (int)r.below(7) - 2;
			if (lc >= 0) {
				o.a.push_back(lc);
				o.a.push_back((long long)r.below(70));
			}
			c.add(o);
			return c;
		});
	}();
	[&]() {
		// random Euler triples: each angle a multiple of pi/12 (half of them) or arbitrary, with an offset from the eps table
		auto ang = gen::tuple(gen::oneOf(gen::pair(vf::irange<int>(-24, 24), gen::just(12)), gen::pair(vf::irange<int>(-2000000, 2000000), gen::just(1000000))),
		                      gen::weightedOneOf<int>({{2, gen::just(0)}, {3, vf::irange<int>(0, EPS_N - 1)}}));
		// the middle angle: a multiple of pi/2 (gimbal lock of one of the two families) with any offset in three of five cases
		auto midang = gen::weightedOneOf<std::tuple<std::pair<int, int>, int>>(
		    {{2, ang}, {3, gen::tuple(gen::pair(vf::irange<int>(-4, 4), gen::just(2)), vf::irange<int>(0, EPS_N - 1))}});
		auto g = gen::map(gen::tuple(boolean, vf::irange<int>(0, 11), boolean, ang, midang, ang),
		                  [](const std::tuple<int, int, int, std::tuple<std::pair<int, int>, int>, std::tuple<std::pair<int, int>, int>, std::tuple<std::pair<int, int>, int>>& t) {
			                  auto f = [](const std::tuple<std::pair<int, int>, int>& x, long long* o) {
				                  o[0] = std::get<0>(x).first;
				                  o[1] = std::get<0>(x).second;
				                  o[2] = std::get<1>(x);
			                  };
			                  long long v[9];
			                  f(std::get<3>(t), v);
			                  f(std::get<4>(t), v + 3);
			                  f(std::get<5>(t), v + 6);
			                  return euler_case(std::get<0>(t), std::get<1>(t), std::get<2>(t), v);
		                  });
		if (!vf::check_cases("euler", a.n(30000, 80000), 100, g))
			return;
		sweep(a, "euler", a.n(0, 250000), [](SplitMix& r) {
			long long v[9];
			for (int k = 0; k < 3; k++) {
				bool lockish = k == 1 && r.below(5) < 3, coarse = r.below(2);
				v[3 * k] = lockish ? (long long)r.below(9) - 4 : coarse ? (long long)r.below(49) - 24 : (long long)r.below(4000001) - 2000000;
				v[3 * k + 1] = lockish ? 2 : coarse ? 12 : 1000000;
				v[3 * k + 2] = (lockish || r.below(5) >= 2) ? (long long)r.below(EPS_N) : 0;
			}
			return euler_case(r.below(2), (int)r.below(12), r.below(2), v);
		});
	}();
	[&]() {
		// matrices as a caller gets them: products of two rotation matrices in T arithmetic, at / near / away from gimbal lock
		auto g = gen::map(gen::tuple(boolean, vf::irange<int>(0, 11), boolean, vf::irange<int>(0, 3), seed64), [](const std::tuple<int, int, int, int, uint64_t>& t) {
			return gen_eulerm_case(std::get<0>(t), std::get<1>(t), std::get<2>(t), std::get<3>(t), std::get<4>(t));
		});
		if (!vf::check_cases("eulerm", a.n(45000, 100000), 100, g))
			return;
		sweep(a, "eulerm", a.n(0, 400000), [](SplitMix& r) { return gen_eulerm_case(r.below(2), (int)r.below(12), r.below(2), (int)r.below(4), r.next()); });
	}();

	// ---- enumerated grids (distinct by construction); work split by index stride over the workers
	g_collect = 2;
	uint64_t idx = 0;
	auto mine = [&]() { return (int)(idx++ % (uint64_t)a.workers) == a.worker; };
	[&]() {
		// quaternion grid: all integer 4-vectors in [-G,G]^4 except 0, both types
		int G = a.quick() ? 5 : 8;
		uint64_t n = 0;
		for (int t = 0; t < 2; t++)
			for (int w = -G; w <= G; w++)
				for (int x = -G; x <= G; x++)
					for (int y = -G; y <= G; y++)
						for (int z = -G; z <= G; z++) {
							if (!(w || x || y || z) || !mine())
								continue;
							if (!vf::runner().run("quat", quat_case(t, w, x, y, z)))
								return;
							n++;
						}
		vf::stats().part(vf::str("quat.grid[-", G, "..", G, "]^4 x {float,double}"), n, a.workers == 1);
	}();
	[&]() {
		// axis-angle grid: axes in [-A,A]^3 \ 0, angles k*pi/12 for k = -24..24, offsets 0, +-1e-7, +-1e-4
		int A = a.quick() ? 2 : 3;
		uint64_t n = 0;
		for (int t = 0; t < 2; t++)
			for (int x = -A; x <= A; x++)
				for (int y = -A; y <= A; y++)
					for (int z = -A; z <= A; z++)
						for (int k = -24; k <= 24; k++)
							for (int e = 0; e < 5; e++) {
								if (!(x || y || z) || !mine())
									continue;
								vf::Case c;
								c.add(vf::Op("aa", {t, x, y, z, k, 12, e}));
								if (!vf::runner().run("axang", c))
									return;
								n++;
							}
		vf::stats().part(vf::str("axang.grid axes [-", A, "..", A, "]^3 x 49 angles x 5 offsets x {float,double}"), n, a.workers == 1);
	}();
	[&]() {
		// Euler grid: all 12 orders x {moving, fixed} x N^3 angles (multiples of 2 pi / N in [-pi, pi)) x {float, double}
		int N = a.quick() ? 24 : 48;
		uint64_t n = 0;
		for (int t = 0; t < 2; t++)
			for (int ord = 0; ord < 12; ord++)
				for (int fx = 0; fx < 2; fx++)
					for (int i = 0; i < N; i++)
						for (int j = 0; j < N; j++)
							for (int k = 0; k < N; k++) {
								if (!mine())
									continue;
								long long v[9] = {2 * i - N, N, 0, 2 * j - N, N, 0, 2 * k - N, N, 0};
								if (!vf::runner().run("euler", euler_case(t, ord, fx, v)))
									return;
								n++;
							}
		vf::stats().part(vf::str("euler.grid 12 orders x {moving,fixed} x ", N, "^3 angles x {float,double}"), n, a.workers == 1);
	}();
	[&]() {
		// the 24 rotations of the cube (elements 0, +-1: exactly at gimbal lock for every order) x 12 orders x {moving, fixed} x types
		uint64_t n = 0;
		int perm[6][3] = {{0, 1, 2}, {0, 2, 1}, {1, 0, 2}, {1, 2, 0}, {2, 0, 1}, {2, 1, 0}};
		for (int p = 0; p < 6; p++)
			for (int sg = 0; sg < 8; sg++) {
				LM R(3, 3);
				for (int i = 0; i < 3; i++)
					R(i, perm[p][i]) = (sg >> i) & 1 ? -1 : 1;
				if (ref::det(R) < 0)
					continue;
				long long m[9];
				for (int i = 0; i < 9; i++)
					m[i] = bits_of((double)R.a[i]);
				for (int t = 0; t < 2; t++)
					for (int ord = 0; ord < 12; ord++)
						for (int fx = 0; fx < 2; fx++) {
							if (!mine())
								continue;
							if (!vf::runner().run("eulerm", eulerm_case(t, ord, fx, m)))
								return;
							n++;
						}
			}
		vf::stats().part("eulerm.cube-group 24 rotations x 12 orders x {moving,fixed} x {float,double}", n, a.workers == 1);
	}();
	if (a.worker == 0) {
		for (int k = 0; k < W_N; k++)
			vf::stats().sample(vf::str("worst ", g_worst_name[k], " (worker 0): ", (double)g_worst[k]), 16);
		vf::stats().sample("finv: " + vf::serialize(gen_finv_case(true, 3, 0, 7)), 16);
	}
}
